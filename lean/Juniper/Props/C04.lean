import Juniper.Proofs.DequeWF
/-!
# C04 — deque.Deque equals an ideal double-ended sequence (property theorems)

Only property theorems and their non-vacuity examples live here; helper lemmas are in
`Juniper/Proofs/Deque*.lean`.

* spec: `Juniper.Spec.Deque` — a `List α`, `step` (one call), `panics` (the documented guards), `run`;
* model: `Juniper.Model.Deque` — the ring buffer of `deque.go`; all index arithmetic, guards and
  `resize` arguments are the definitions regenerated from the Go source (`Juniper.Gen.Deque`);
* `WF d` is the representation invariant, `contents d : List α` the abstraction function;
* `applyOp d o` is one call of the exported API (`Op` lists the twelve operations; `Op.iterate`
  stands for "make an iterator and drain it").

The two pops are required to overwrite the slot they vacate; that the Go source still contains those
statements is the regenerated fact `ClearFacts`, discharged by `decide` inside the proofs — deleting
a clearing statement in `deque.go` makes the theorems below fail to compile.
-/
namespace Juniper.Props.C04
open Juniper.Gen.Deque Juniper.Model.Deque Juniper.Proofs.Deque
open Juniper.Spec.Deque (Op Out)

variable {α : Type}

/-- The generated `positiveMod` is the mathematical residue for a positive modulus
(ring index arithmetic of `PushFront`/`PopBack`). -/
theorem positiveMod_spec (l d : Int) (hd : 0 < d) :
    0 ≤ positiveMod l d ∧ positiveMod l d < d ∧ positiveMod l d = l % d :=
  positiveMod_emod l d hd

example : positiveMod (-1) 16 = 15 ∧ positiveMod 17 16 = 1 := by decide

/-- The zero value of `Deque` is well formed and empty. -/
theorem wf_init : WF (zero : Deque α) ∧ contents (zero : Deque α) = [] :=
  ⟨rep_zero.wf, rep_zero.contents_eq⟩

/-- What `WF` says about the fields: an unallocated deque has zero fields; an allocated one has
`0 ≤ front < cap` (or `cap = 0`), `-1 ≤ back < cap`, `back = -1 ⇒ front = 0`; and `Len` is between
`0` and the capacity and equals the length of the abstract contents. -/
theorem wf_fields {d : Deque α} (h : WF d) :
    (d.isNil = true → d.a = [] ∧ d.front = 0 ∧ d.back = 0) ∧
    (d.isNil = false →
      0 ≤ d.front ∧ (d.front < cap d ∨ (cap d = 0 ∧ d.front = 0)) ∧
      -1 ≤ d.back ∧ (d.back < cap d ∨ (cap d = 0 ∧ d.back = -1)) ∧ (d.back = -1 → d.front = 0)) ∧
    0 ≤ len d ∧ len d ≤ cap d ∧ len d = (contents d).length :=
  ⟨h.bounds.1, h.bounds.2.1, h.bounds.2.2.1, h.bounds.2.2.2, h.len_eq⟩

/-- Every call of the API preserves the representation invariant (panicking calls included). -/
theorem wf_step {d : Deque α} (h : WF d) (o : Op α) : WF (applyOp d o).1 :=
  (Rep.applyOp h o (by decide)).1.wf

/-- **Refinement, one call.** For each of the twelve operations, in every well-formed state and
for every argument: the call returns exactly what the ideal sequence returns (a panic included)
and the new contents are the ideal sequence's new contents. -/
theorem step_refines {d : Deque α} (h : WF d) (o : Op α) :
    (applyOp d o).2 = (Spec.Deque.step (contents d) o).2 ∧
    contents (applyOp d o).1 = (Spec.Deque.step (contents d) o).1 := by
  obtain ⟨hr, ho, _, _⟩ := Rep.applyOp h o (by decide)
  exact ⟨ho, hr.contents_eq⟩

/-- `Grow` and `Shrink` never change the contents, whatever their argument, and afterwards the
spare capacity is what was asked for (`≥ n` after `Grow(n)`, `≤ n` after `Shrink(n)`, `n ≥ 0`). -/
theorem grow_shrink_preserve_contents {d : Deque α} (h : WF d) (n : Int) :
    contents (applyOp d (.grow n)).1 = contents d ∧
    contents (applyOp d (.shrink n)).1 = contents d ∧
    (applyOp d (.grow n)).2 = .unit ∧ n ≤ cap (applyOp d (.grow n)).1 - len (applyOp d (.grow n)).1 ∧
    (0 ≤ n → (applyOp d (.shrink n)).2 = .unit ∧
      cap (applyOp d (.shrink n)).1 - len (applyOp d (.shrink n)).1 ≤ n) := by
  have hg := (step_refines h (.grow n)).2
  have hs := (step_refines h (.shrink n)).2
  obtain ⟨d1, he1, hr1, hroom, _⟩ := Rep.grow h n
  have e1 : applyOp d (.grow n) = (d1, .unit) := by simp only [applyOp, he1, outUnit]
  refine ⟨by rw [hg]; simp [Spec.Deque.step, Spec.Deque.panics], ?_, by rw [e1], ?_, ?_⟩
  · rw [hs]; unfold Spec.Deque.step; split <;> rfl
  · rw [e1, hr1.len_eq]; exact hroom
  · intro hn
    obtain ⟨d2, he2, hr2, hfit, _⟩ := Rep.shrink h hn
    have e2 : applyOp d (.shrink n) = (d2, .unit) := by simp only [applyOp, he2, outUnit]
    rw [e2, hr2.len_eq]; exact ⟨rfl, hfit⟩

/-- **Panics are exact.** A call panics iff the ideal sequence's guard fails — `PopFront`,
`PopBack`, `Front`, `Back` on an empty deque, `Item`/`Set` outside `[0, Len)`, `Shrink` with a
negative argument, and nothing else — and a panicking call leaves the whole state (not only the
contents) untouched. -/
theorem panics_exact {d : Deque α} (h : WF d) (o : Op α) :
    ((applyOp d o).2 = .panic ↔ Spec.Deque.panics (contents d) o = true) ∧
    ((applyOp d o).2 = .panic → (applyOp d o).1 = d) := by
  obtain ⟨_, ho, _, hp⟩ := Rep.applyOp h o (by decide)
  rw [ho, spec_step_panic_iff]
  exact ⟨Iff.rfl, hp⟩

/-- The guards of `panics_exact`, spelled out. -/
theorem panic_guards (l : List α) (o : Op α) :
    Spec.Deque.panics l o = true ↔
      ((o = .popFront ∨ o = .popBack ∨ o = .front ∨ o = .back) ∧ l = []) ∨
      (∃ i, o = .item i ∧ (i < 0 ∨ (l.length : Int) ≤ i)) ∨
      (∃ i x, o = .set i x ∧ (i < 0 ∨ (l.length : Int) ≤ i)) ∨
      (∃ n, o = .shrink n ∧ n < 0) := by
  cases o <;> simp [Spec.Deque.panics]

/-- The slot vacated by a pop is overwritten with the zero value. -/
theorem popped_slot_cleared {d : Deque α} (h : WF d) (hne : contents d ≠ []) :
    slot (applyOp d .popFront).1.a d.front = some none ∧
    slot (applyOp d .popBack).1.a d.back = some none := by
  obtain ⟨d1, he1, _, hc1, _⟩ := Rep.popFront h hne (by decide) (by decide)
  obtain ⟨d2, he2, _, hc2, _⟩ := Rep.popBack h hne (by decide) (by decide)
  simp only [applyOp, he1, he2, outVal]
  exact ⟨hc1, hc2⟩

/-- **Nothing popped is retained.** In every well-formed state every raw slot outside the live
window `[front .. back]` (around the ring; all slots when the deque is empty) holds the zero value. -/
theorem dead_slots_none {d : Deque α} (h : WF d) (j : Nat) (hj : j < d.a.length)
    (hdead : len d = 0 ∨ (d.front ≤ d.back ∧ ((j : Int) < d.front ∨ d.back < j)) ∨
      (d.back < d.front ∧ d.back < j ∧ (j : Int) < d.front)) :
    d.a[j]? = some none :=
  h.dead_slots_none j hj hdead

/-- … and the live window holds exactly the contents, in order, starting at `front` and wrapping
at the end of the buffer. -/
theorem live_slots_hold_contents {d : Deque α} (h : WF d) (k : Nat) (hk : k < (contents d).length) :
    slot d.a (if d.front + k < cap d then d.front + k else d.front + k - cap d)
      = some (some (contents d)[k]) :=
  h.live_slots k hk

/-- **Refinement, every history.** From the zero value, every sequence of calls returns exactly what
the ideal sequence returns, ends in a well-formed state, and that state holds the ideal contents. -/
theorem history_refines (ops : List (Op α)) :
    (run (zero : Deque α) ops).2 = (Spec.Deque.run [] ops).2 ∧
    WF (run (zero : Deque α) ops).1 ∧
    contents (run (zero : Deque α) ops).1 = (Spec.Deque.run [] ops).1 := by
  obtain ⟨hr, ho⟩ := Rep.run (by decide) ops (zero : Deque α) [] rep_zero
  exact ⟨ho, hr.wf, hr.contents_eq⟩

/-- The same from any well-formed state (every reachable combination of capacity, front offset
and length). -/
theorem history_refines_from {d : Deque α} (h : WF d) (ops : List (Op α)) :
    (run d ops).2 = (Spec.Deque.run (contents d) ops).2 ∧ WF (run d ops).1 ∧
    contents (run d ops).1 = (Spec.Deque.run (contents d) ops).1 := by
  obtain ⟨hr, ho⟩ := Rep.run (by decide) ops d _ h
  exact ⟨ho, hr.wf, hr.contents_eq⟩

/-! ## Non-vacuity: the states the property text singles out are reachable and well formed -/

/-- 16 pushes fill the first buffer; three pops and three pushes wrap it. -/
def wrappedFullOps : List (Op Int) :=
  (List.range 16).map (fun i => Op.pushBack (Int.ofNat i)) ++
    [.popFront, .popFront, .popFront, .pushBack 16, .pushBack 17, .pushBack 18]

/-- A full, wrapped ring (`cap = 16`, `front = 3`, `back = 2`) is well formed; the next push to the
front reallocates and unwraps it, the contents are what the ideal sequence holds. -/
example :
    let d := (run zero wrappedFullOps).1
    WF d ∧ d.back < d.front ∧ len d = cap d ∧ cap d = 16 ∧
      contents (applyOp d (.pushFront 99)).1 = 99 :: (List.range 16).map (fun i => Int.ofNat i + 3) ∧
      cap (applyOp d (.pushFront 99)).1 = 32 := by
  refine ⟨(history_refines wrappedFullOps).2.1, by decide +kernel, by decide +kernel,
    by decide +kernel, by decide +kernel, by decide +kernel⟩

/-- Exact fit after `Shrink(0)` (`cap = len = 3`), then `Shrink` to zero capacity of the emptied
deque, then a push to the front: all well formed, contents as expected. -/
example :
    let ops : List (Op Int) := [.pushBack 1, .pushBack 2, .pushFront 0, .shrink 0]
    let d := (run zero ops).1
    WF d ∧ cap d = 3 ∧ len d = 3 ∧ contents d = [0, 1, 2] ∧
      (run d [.popFront, .popFront, .popFront, .shrink 0]).2 = [.val (some 0), .val (some 1), .val (some 2), .unit] ∧
      cap (run d [.popFront, .popFront, .popFront, .shrink 0]).1 = 0 ∧
      (run d [.popFront, .popFront, .popFront, .shrink 0]).1.isNil = false ∧
      contents (run d [.popFront, .popFront, .popFront, .shrink 0, .pushFront 7]).1 = [7] := by
  refine ⟨(history_refines _).2.1, by decide +kernel, by decide +kernel, by decide +kernel,
    by decide +kernel, by decide +kernel, by decide +kernel, by decide +kernel⟩

/-- The documented panics happen and leave the state alone; the malformed calls are not vacuous. -/
example :
    (applyOp (zero : Deque Int) .popFront) = (zero, .panic) ∧
    (applyOp (zero : Deque Int) (.shrink (-1))) = (zero, .panic) ∧
    (applyOp (run (zero : Deque Int) [.pushBack 5]).1 (.item 1)).2 = .panic ∧
    (applyOp (run (zero : Deque Int) [.pushBack 5]).1 (.set (-1) 3)).2 = .panic := by decide

end Juniper.Props.C04
