import Juniper.Proofs.Cond
import Juniper.Proofs.CondFine
import Juniper.Proofs.CondCount
import Juniper.Proofs.CondCancel
/-!
# C16 — xsync.ContextCond never loses a wakeup (property theorems)

Two LTSs, both instantiated with the configuration regenerated from `xsync/xsync.go` on every run
(`Cfg.gen`: select arms of `Signal` and `Wait`, channel capacities, which arm re-locks, the *ordered*
statement lists of `Wait`, `Signal` and `Broadcast`, lock operations included); the first step of every
proof is `Cfg.gen = Cfg.std` by `decide` (`cfg_gen`):

* the atomic LTS `step` (`Model/Cond.lean`): one label per `Signal` / `Broadcast` call, one label per step
  of a waiter. The wake-up clauses are stated here. One waiter index = one call of `Wait`.
* the fine-grained LTS `fstep` (`Model/CondFine.lean`): `Signal` and `Broadcast` run statement by statement,
  interpreting the regenerated lists, with the internal `sync.RWMutex` as explicit state; a send on / close
  of a closed channel is the outcome `panicked`. `signal_broadcast_never_panic` and
  `lock_discipline_makes_calls_atomic` are stated here; the second one is what entitles the atomic LTS to
  its two whole-call labels.

`signal_wakes_min` is false of the code in two ways (defect family D13, open known findings):
`signal_wakes_min_false` (two waiters between `Unlock` and the `select`, two Signals) and
`signal_wakes_min_late_entrant_false` (one such waiter, one Signal, a waiter that enters afterwards takes the
remembered token); what holds is `signal_wakes_min_no_entrant_partial` (expiries at any moment included).
-/
namespace Juniper.Props.C16
open Juniper.Model.Cond Juniper.Proofs.Cond Juniper.Proofs.CondFine

/-! ## `Signal` ∥ `Broadcast`: the lock discipline of `c.m` -/

/-- **Overlapping `Signal` and `Broadcast` calls never panic.** In the fine-grained LTS — any number of
`Signal` and `Broadcast` calls in progress at once, each between any two of its statements, interleaved with
every step of every waiter — no reachable state has panicked: no `Signal` sends on a channel that a
`Broadcast` has closed (a `Signal` that has evaluated `c.ch` holds `c.m` for reading, and the channel is
closed only while a writer is between its `close` and its installation of the fresh channel), no channel is
closed twice, no `Unlock` / `RUnlock` hits a mutex the call does not hold. Every step that is taken from a
reachable state therefore leads to a state that has not panicked either.

This is a theorem about the *ordered statement lists* of the source: with `Broadcast` rewritten as
`Lock; close; Unlock; Lock; install; Unlock`, or with `close` outside the lock, `Cfg.gen ≠ Cfg.std`
(`cfg_gen` fails) and the LTS reaches `panicked` (`driver cond`, command `cex`; real-threads phase of the
harness: `send on closed channel`). -/
theorem signal_broadcast_never_panic {fs : FState} (hr : FReach Cfg.gen fs) :
    fs.panicked = false ∧ ∀ (l : FLabel) (fs' : FState), fstep Cfg.gen fs l = some fs' → fs'.panicked = false := by
  rw [cfg_gen] at *
  exact ⟨(finv_reach hr).alive, fun l fs' h => (finv_reach (.step l hr h)).alive⟩

/-- non-vacuity: a waiter has entered, a `Signal` call and a `Broadcast` call are in progress, the
`Broadcast` holds `c.m` and has closed the channel (the waiter has already been woken by the close); in
that state the `Signal` cannot pass `c.m.RLock()` and a new `Wait` cannot take its snapshot -/
example : ∃ fs, FReach Cfg.gen fs ∧ fs.calls.length = 2 ∧ fs.writer = true ∧
    (chanAt fs.base fs.base.cur).closed = true ∧ pcOf fs.base 0 = some (.woken false) ∧
    fstep Cfg.gen fs (.callStep 0 none) = none ∧ fstep Cfg.gen fs (.env (.start 1)) = none ∧
    (fstep Cfg.gen fs (.callStep 1 none)).isSome = true :=
  ⟨_, freach_frun (ls := [.env (.start 0), .env (.release 0), .env (.arrive 0 .park), .call true, .call false,
      .callStep 1 none, .callStep 1 none]) (.init 2) rfl, by decide⟩

/-- **The lock discipline makes `Signal` and `Broadcast` atomic.** Every reachable state of the fine-grained
LTS stands for (`absOf`) a reachable state of the atomic LTS: a `Signal` call takes effect at its send (on
the channel that is current at that moment: it holds `c.m` for reading from before it evaluates `c.ch`),
a `Broadcast` call at its `close`; between the `close` and the installation of the fresh channel the
`Broadcast` holds `c.m` for writing, nobody holds it for reading, no `Signal` is past its `RLock` and no new
`Wait` takes a snapshot, and whatever the waiters do in that window (release, reach the `select`, expire,
re-lock) commutes with the installation (`Proofs.CondFine.step_inst`). Hence every invariant of the atomic
LTS — all theorems below — holds of the real interleavings too. -/
theorem lock_discipline_makes_calls_atomic {fs : FState} (hr : FReach Cfg.gen fs) :
    Reach Cfg.gen (absOf Cfg.gen fs) ∧
    ((chanAt fs.base fs.base.cur).closed = false → absOf Cfg.gen fs = fs.base) ∧
    ((chanAt fs.base fs.base.cur).closed = true → fs.writer = true ∧ fs.readers = 0) ∧
    (∀ (k : Nat) (c : CallT), fs.calls[k]? = some c → c.holdsR = true →
        fs.writer = false ∧ (chanAt fs.base fs.base.cur).closed = false ∧ (c.snap = none ∨ c.snap = some fs.base.cur)) := by
  rw [cfg_gen] at *
  have hi := finv_reach hr
  refine ⟨hi.abs, ?_, fun h => mid_writer hi h, ?_⟩
  · intro h; simp [absOf, h]
  · intro k c hk hR
    obtain ⟨h1, h2, _⟩ := reader_no_writer hi hk hR
    refine ⟨h1, h2, ?_⟩
    have hok := hi.callsOk k c hk
    unfold CallOk at hok
    split at hok <;> simp_all

/-! ## the wake-up clauses (atomic LTS) -/

/-- waiter `i` has released the lock and has not been woken yet -/
def Entered (s : State) (i : Nat) : Prop :=
  ∃ w, s.ws[i]? = some w ∧ ((∃ ch, w.pc = .unlocked ch) ∨ (∃ c, w.pc = .parked c))

/-- **Broadcast wakes all entered waiters, however far each has progressed inside `Wait`.**
If waiter `i` has released the lock (it is between `c.L.Unlock()` and the `select`, or parked) when
`Broadcast` runs, then in every later state it is woken / has returned, or it is still on its way
to the `select` holding a snapshot of a channel that is closed — in which case the `<-ch` arm is
ready (`arrive i .recv` is enabled) and it cannot park (`arrive i .park` is disabled). -/
theorem broadcast_wakes_all_entered {s s1 s2 : State} {ls : List Label} {i : Nat}
    (hr : Reach Cfg.gen s) (hent : Entered s i)
    (hb : step Cfg.gen s .broadcast = some s1) (hrun : run Cfg.gen s1 ls = some s2) :
    Doomed s2 i ∧ step Cfg.gen s2 (.arrive i .park) = none ∧
      ((∃ w ch, s2.ws[i]? = some w ∧ w.pc = .unlocked ch) → (step Cfg.gen s2 (.arrive i .recv)).isSome) := by
  rw [cfg_gen] at *
  obtain ⟨w, hw, hcase⟩ := hent
  have hd : Doomed s2 i := doomed_run (broadcast_dooms (inv_reach hr) hb hw hcase) hrun
  refine ⟨hd, ?_, ?_⟩
  · obtain ⟨w2, hw2, hc⟩ := hd
    rcases hc with hp | hp | hp | ⟨ch, hp, _, hcl⟩
    · simp [step, hw2, hp]
    · simp [step, hw2, hp]
    · simp [step, hw2, hp]
    · simp [step, hw2, hp, Cfg.std, hcl]
  · rintro ⟨w2, ch, hw2, hp⟩
    obtain ⟨w3, hw3, hc⟩ := hd
    have : w3 = w2 := by simpa [hw2] using hw3.symm
    subst this
    rcases hc with hq | hq | hq | ⟨c, hq, _, hcl⟩ <;> simp [hp] at hq
    subst hq
    simp [step, hw2, hp, Cfg.std, hcl]

example : ∃ s i, Reach Cfg.gen s ∧ Entered s i ∧ (step Cfg.gen s .broadcast).isSome :=
  ⟨_, 0, .step (.arrive 0 .park) (.step (.release 0) (.step (.start 0) (.init 2) rfl) rfl) rfl, ⟨_, rfl, Or.inr ⟨0, rfl⟩⟩, by decide⟩

/-- the window the property is about: the waiter is between `c.L.Unlock()` and the `select` when `Broadcast`
runs; afterwards it cannot park and the `<-ch` arm is ready -/
example : ∃ s s1, Reach Cfg.gen s ∧ Entered s 0 ∧ pcOf s 0 = some (.unlocked (some 0)) ∧
    step Cfg.gen s .broadcast = some s1 ∧ step Cfg.gen s1 (.arrive 0 .park) = none ∧
    (step Cfg.gen s1 (.arrive 0 .recv)).isSome = true :=
  ⟨_, _, .step (.release 0) (.step (.start 0) (.init 1) rfl) rfl, ⟨_, rfl, Or.inl ⟨_, rfl⟩⟩, rfl, rfl, by decide, by decide⟩

/-- **A `Wait` that returns nil holds the lock again**: the step by which waiter `i` returns nil
leaves `i` as the holder of the caller's lock. -/
theorem wait_nil_holds_lock {s s' : State} {l : Label} {i : Nat} {w w' : Waiter}
    (h : step Cfg.gen s l = some s') (hw : s.ws[i]? = some w) (hw' : s'.ws[i]? = some w')
    (h0 : w.pc ≠ .doneNil) (h1 : w'.pc = .doneNil) : s'.lock = some i := by
  rw [cfg_gen] at h
  obtain ⟨w2, hw2, ht⟩ := step_trans h hw
  have : w2 = w' := by simpa [hw'] using hw2.symm
  subst this
  rw [h1] at ht
  generalize hq : w.pc = p at ht h0
  cases ht with
  | same => exact absurd rfl h0
  | relockNil hl => exact hl

example : ∃ s s' w w', run Cfg.gen (init Cfg.gen 1) [.start 0, .release 0, .signal none, .arrive 0 .recv] = some s ∧
    step Cfg.gen s (.relock 0) = some s' ∧ s.ws[0]? = some w ∧ s'.ws[0]? = some w' ∧
    w.pc ≠ .doneNil ∧ w'.pc = .doneNil :=
  ⟨_, _, _, _, rfl, rfl, rfl, rfl, by decide, rfl⟩

/-- **A `Wait` whose context expires returns the context's error without holding the lock**:
the step by which waiter `i` returns an error happens only when its context has ended, and `i` is
not the holder of the lock afterwards. -/
theorem wait_err_no_lock {s s' : State} {l : Label} {i : Nat} {w' : Waiter}
    (hr : Reach Cfg.gen s) (h : step Cfg.gen s l = some s') (hw' : s'.ws[i]? = some w')
    (h1 : w'.pc = .doneErr) : s'.lock ≠ some i ∧ w'.cancelled = true := by
  rw [cfg_gen] at *
  have hi := (inv_step (inv_reach hr) h).wait i w' hw'
  unfold WInv at hi
  simpa [h1] using hi

/-- **… promptly**: a waiter that reaches the `select` with an ended context cannot park (derived:
`arrive i .park` is disabled), and no parked waiter has an ended context. The second half is a *modelling
assumption checked by conformance*, not a derived result: the LTS lets the `cancel` label itself move a parked
waiter out of the `select` (`cancelPc` — the Go runtime: closing `Done()` readies every `select` parked on it),
which makes "parked with an ended context" unreachable by construction; the harness observes exactly this
(`P → E` at the `cancel` step, monitor `wait-err-not-prompt`). -/
theorem wait_err_prompt {s : State} {i : Nat} {w : Waiter} (hr : Reach Cfg.gen s) (hw : s.ws[i]? = some w)
    (hc : w.cancelled = true) :
    (∀ c, w.pc ≠ .parked c) ∧ step Cfg.gen s (.arrive i .park) = none := by
  rw [cfg_gen] at *
  have hi := (inv_reach hr).wait i w hw
  constructor
  · intro c hp
    unfold WInv at hi
    simp [hp, hc] at hi
  · cases hp : w.pc <;> simp [step, hw, hp, Cfg.std, hc]

/-- both select arms ready: a waiter that has released the lock, whose context has ended and for which a token
is remembered; returning the error is enabled (`wait_err_no_lock`, `ctx_expiry_keeps_token` apply to that step)
and parking is not (`wait_err_prompt`) -/
example : ∃ s s' w', run Cfg.gen (init Cfg.gen 1) [.start 0, .release 0, .signal none, .cancel 0] = some s ∧
    step Cfg.gen s (.arrive 0 .ctx) = some s' ∧ s'.ws[0]? = some w' ∧ w'.pc = .doneErr ∧ w'.cancelled = true ∧
    s'.chans = s.chans ∧ (chanAt s' s'.cur).buf = 1 ∧ step Cfg.gen s (.arrive 0 .park) = none ∧
    (step Cfg.gen s (.arrive 0 .recv)).isSome = true :=
  ⟨_, _, _, rfl, rfl, rfl, rfl, rfl, rfl, by decide, by decide, by decide⟩

/-- **… without swallowing a wakeup that another waiter needs**: the step by which waiter `i`
returns the context's error leaves every channel (tokens included), the current-channel pointer
and every other waiter exactly as they were. -/
theorem ctx_expiry_keeps_token {s s' : State} {l : Label} {i : Nat} {w w' : Waiter}
    (h : step Cfg.gen s l = some s') (hw : s.ws[i]? = some w) (hw' : s'.ws[i]? = some w')
    (h0 : w.pc ≠ .doneErr) (h1 : w'.pc = .doneErr) :
    s'.chans = s.chans ∧ s'.cur = s.cur ∧ ∀ j, j ≠ i → s'.ws[j]? = s.ws[j]? := by
  rw [cfg_gen] at h
  obtain ⟨w2, hw2, ht⟩ := step_trans h hw
  have : w2 = w' := by simpa [hw'] using hw2.symm
  subst this
  rw [h1] at ht
  generalize hq : w.pc = p at ht h0
  cases ht with
  | same => exact absurd rfl h0
  | ctx ch hc hcur hf => exact ⟨hc, hcur, hf⟩
  | expire c hc hcur hf => exact ⟨hc, hcur, hf⟩
  | relockErr hc hcur hf => exact ⟨hc, hcur, hf⟩

/-- `signal_wakes_min` **as the property text has it**: *once k goroutines have entered `Wait` (released
the lock), m `Signal` calls wake at least min(k, m) **of them**, however far each waiter has progressed inside
`Wait`*; quantifier: all interleavings of Signal with each waiter's progress (before the lock release, between
the release and parking, parked) and all timings of context cancellation.

From a reachable state `s` with `k = nUnparked s + nParked s` entered waiters, run **any** sequence `ls` of
labels other than `broadcast` — Signals, progress of the entered waiters, *other waiters calling `Wait` and
releasing the lock while the Signals happen*, contexts ending at any moment, locks being handed on — until
every waiter that has entered has reached the `select` (`nUnparked s' = 0`). Then, of the `k` waiters that had
entered in `s`, at least `min (k − e) m` are woken (`nWokenOfThem s s'`: attributed by index), where
`m = nSignals ls` and `e = nErrOfThem s s'` of them have returned their context's error instead (a `Wait` whose
context expires leaves; it must not take a wake-up with it). -/
def SignalWakesMin (cfg : Cfg) : Prop :=
  ∀ (s s' : State) (ls : List Label), Reach cfg s → run cfg s ls = some s' →
    (∀ l ∈ ls, l ≠ .broadcast) → nUnparked s' = 0 →
    min (nUnparked s + nParked s - nErrOfThem s s') (nSignals ls) ≤ nWokenOfThem s s'

/-- D13, the state before the Signals: two waiters have released the lock and are not yet parked -/
def d13Start : State :=
  { chans := [{ cap := 1, buf := 0, closed := false }], cur := 0, lock := none,
    ws := [{ pc := .unlocked (some 0), cancelled := false }, { pc := .unlocked (some 0), cancelled := false }] }

/-- D13, the final state: waiter 0 returned nil, waiter 1 is parked, no token is left -/
def d13End : State :=
  { chans := [{ cap := 1, buf := 0, closed := false }], cur := 0, lock := some 0,
    ws := [{ pc := .doneNil, cancelled := false }, { pc := .parked 0, cancelled := false }] }

/-- **The clause is false of the code, first way** (defect D13, open known finding): two waiters between
`c.L.Unlock()` and the `select`, two `Signal`s — the one-slot buffer keeps one token, the second `Signal`
is dropped by the `default` arm, one waiter takes the token and the other parks: k = 2, m = 2, no
cancellation, no other waiter, one wake-up. Checked by evaluation of the model (`decide`). -/
theorem signal_wakes_min_false : ¬ SignalWakesMin Cfg.gen := by
  intro h
  have hreach : Reach Cfg.gen d13Start :=
    reach_run (ls := [.start 0, .release 0, .start 1, .release 1]) (.init 2) (by decide)
  have hrun : run Cfg.gen d13Start [.signal none, .signal none, .arrive 0 .recv, .relock 0, .arrive 1 .park] = some d13End := by
    decide
  exact absurd (h d13Start d13End _ hreach hrun (by decide) (by decide)) (by decide)

/-- labels of a run in which other waiters may call `Wait` and enter while the Signals happen, but no
context ends and no `Broadcast` runs -/
def entrantOrProgress : Label → Bool
  | .start _ => true
  | .release _ => true
  | l => progressOnly l

/-- the clause restricted to the scope in which D13 cannot occur — at most one entered waiter not yet parked
and at most one `Signal`, no cancellation at all — but, as in the text, with other waiters entering `Wait`
while the Signal happens -/
def SignalWakesMinOneUnparked (cfg : Cfg) : Prop :=
  ∀ (s s' : State) (ls : List Label), Reach cfg s → run cfg s ls = some s' →
    (∀ l ∈ ls, entrantOrProgress l = true) →
    (∀ w ∈ s.ws, w.cancelled = false) →
    nUnparked s' = 0 → nUnparked s ≤ 1 → nSignals ls ≤ 1 →
    min (nUnparked s + nParked s) (nSignals ls) ≤ nWokenOfThem s s'

/-- late entrant, the state before the Signal: waiter 0 has released the lock and is not yet parked, waiter 1
has not called `Wait` -/
def lateStart : State :=
  { chans := [{ cap := 1, buf := 0, closed := false }], cur := 0, lock := none,
    ws := [{ pc := .unlocked (some 0), cancelled := false }, { pc := .idle, cancelled := false }] }

/-- late entrant, the final state: waiter 1 (which entered after the Signal) returned nil holding the lock,
waiter 0 (for which the token was remembered) is parked, no token is left -/
def lateEnd : State :=
  { chans := [{ cap := 1, buf := 0, closed := false }], cur := 0, lock := some 1,
    ws := [{ pc := .parked 0, cancelled := false }, { pc := .doneNil, cancelled := false }] }

/-- **The clause is false of the code, second way** (same defect family, open known finding "late entrant"):
one waiter between `c.L.Unlock()` and the `select`, one `Signal` — the token is remembered in the one-slot
buffer — then another goroutine calls `Wait`, releases the lock, reaches the `select` first and takes the token;
the waiter that had entered when the Signal was issued parks: k = 1, m = 1, *of them* nobody is woken. This is
inside `nUnparked ≤ 1`, `m ≤ 1`; it is excluded from `signal_wakes_min_no_entrant_partial` only by
the hypothesis that no `Wait` call releases the lock during the run. (An unattributed count would be satisfied
by waiter 1: `nWoken lateEnd − nWoken lateStart = 1`.) -/
theorem signal_wakes_min_late_entrant_false : ¬ SignalWakesMinOneUnparked Cfg.gen ∧ ¬ SignalWakesMin Cfg.gen := by
  have hreach : Reach Cfg.gen lateStart := reach_run (ls := [.start 0, .release 0]) (.init 2) (by decide)
  have hrun : run Cfg.gen lateStart
      [.signal none, .start 1, .release 1, .arrive 1 .recv, .relock 1, .arrive 0 .park] = some lateEnd := by decide
  constructor
  · intro h
    exact absurd (h lateStart lateEnd _ hreach hrun (by decide) (by decide) (by decide) (by decide) (by decide)) (by decide)
  · intro h
    exact absurd (h lateStart lateEnd _ hreach hrun (by decide) (by decide)) (by decide)

example : nWoken lateEnd - nWoken lateStart = 1 ∧ nWokenOfThem lateStart lateEnd = 0 := by decide

/-- **What does hold of `signal_wakes_min`.** Hypotheses, both of them restrictions of the clause:
* `hprog`: the run consists of `Signal`s, of the progress of waiters that are already inside `Wait` past the
  lock release (reaching the `select`, re-locking; the lock holder unlocking) and of **contexts ending at any
  moment** (of any waiter, entered or not, also before the run) — but **no `Wait` call releases the lock during
  the run** (no late entrant: `signal_wakes_min_late_entrant_false`) and no `Broadcast` runs;
* `hyp`: at most one entered waiter is not yet parked, or there is at most one `Signal`
  (otherwise D13: `signal_wakes_min_false`).
Conclusion, attributed, as in `SignalWakesMin`: of the `k` waiters that had entered, `e` have returned their
context's error and at least `min (k − e) m` are woken — an expiring `Wait` takes no wake-up with it, whatever the
timing of the expiry relative to the Signals. (Second conjunct: the same with the unattributed counts.) -/
theorem signal_wakes_min_no_entrant_partial (s s' : State) (ls : List Label) (hr : Reach Cfg.gen s)
    (hrun : run Cfg.gen s ls = some s')
    (hprog : ∀ l ∈ ls, progressOrCancel l = true)
    (hsettled : nUnparked s' = 0)
    (hyp : nUnparked s ≤ 1 ∨ nSignals ls ≤ 1) :
    min (nUnparked s + nParked s - nErrOfThem s s') (nSignals ls) ≤ nWokenOfThem s s' ∧
    min (nUnparked s + nParked s - (nErr s' - nErr s)) (nSignals ls) ≤ nWoken s' - nWoken s := by
  rw [cfg_gen] at *
  have hi := inv_reach hr
  have hR := runinvc_run (runinvc_init hi) hrun hprog (by simpa using hyp)
  have h1 := runinvc_final (by simpa using hR) hsettled
  obtain ⟨h2, h3⟩ := quietc_of_them hi hrun hprog
  exact ⟨by omega, h1⟩

/-- non-vacuity example: two parked waiters and one on its way -/
def exStart : State :=
  { chans := [{ cap := 1, buf := 0, closed := false }], cur := 0, lock := none,
    ws := [{ pc := .parked 0, cancelled := false }, { pc := .parked 0, cancelled := false },
           { pc := .unlocked (some 0), cancelled := false }] }

/-- non-vacuity example: all three woken -/
def exEnd : State :=
  { chans := [{ cap := 1, buf := 0, closed := false }], cur := 0, lock := none,
    ws := [{ pc := .woken false, cancelled := false }, { pc := .woken false, cancelled := false },
           { pc := .woken false, cancelled := false }] }

/-- non-vacuity: two parked waiters and one on its way, three Signals, all hypotheses hold -/
example : ∃ s s' ls, Reach Cfg.gen s ∧ run Cfg.gen s ls = some s' ∧ (∀ l ∈ ls, progressOrCancel l = true) ∧
    nUnparked s = 1 ∧ nParked s = 2 ∧ nSignals ls = 3 ∧ nUnparked s' = 0 ∧ nWokenOfThem s s' = 3 :=
  ⟨exStart, exEnd, [.signal (some 0), .signal (some 1), .signal none, .arrive 2 .recv],
    reach_run (ls := [.start 0, .release 0, .arrive 0 .park, .start 1, .release 1, .arrive 1 .park, .start 2, .release 2]) (.init 3) (by decide),
    by decide, by decide, by decide, by decide, by decide, by decide, by decide⟩

/-- non-vacuity with an expiry between the Signals: two parked waiters and one on its way; the first Signal is
handed to waiter 0, the context of parked waiter 1 ends (it returns the error), the second Signal is remembered
for waiter 2, which takes it: k = 3, e = 1, m = 2, two of them woken -/
example : ∃ s s' ls, Reach Cfg.gen s ∧ run Cfg.gen s ls = some s' ∧ (∀ l ∈ ls, progressOrCancel l = true) ∧
    nUnparked s = 1 ∧ nParked s = 2 ∧ nSignals ls = 2 ∧ nUnparked s' = 0 ∧ nErrOfThem s s' = 1 ∧ nWokenOfThem s s' = 2 :=
  ⟨exStart, _, [.signal (some 0), .cancel 1, .signal none, .arrive 2 .recv],
    reach_run (ls := [.start 0, .release 0, .arrive 0 .park, .start 1, .release 1, .arrive 1 .park, .start 2, .release 2]) (.init 3) (by decide),
    rfl, by decide, by decide, by decide, by decide, by decide, by decide, by decide⟩

end Juniper.Props.C16
