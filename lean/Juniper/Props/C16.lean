import Juniper.Proofs.Cond
/-!
# C16 — xsync.ContextCond never loses a wakeup (property theorems)

All theorems are about `step Cfg.gen`, the LTS of `Model/Cond.lean` instantiated with the
configuration regenerated from `xsync/xsync.go` on every run (select arms of `Signal` and `Wait`,
channel capacities, which arm re-locks, statement order of `Wait` and `Broadcast`); the first step
of every proof is `Cfg.gen = Cfg.std` by `decide`. One waiter index = one call of `Wait`.

`signal_wakes_min` is false of the code (defect D13, open known finding): see
`signal_wakes_min_false` and `signal_wakes_min_partial`.
-/
namespace Juniper.Props.C16
open Juniper.Model.Cond Juniper.Proofs.Cond

/-- waiter `i` has released the lock and has not been woken yet -/
def Entered (s : State) (i : Nat) : Prop :=
  ∃ w, s.ws[i]? = some w ∧ ((∃ ch, w.pc = .unlocked ch) ∨ (∃ c, w.pc = .parked c))

/-- **Broadcast wakes all entered waiters, however far each has progressed inside `Wait`.**
If waiter `i` has released the lock (it is between `c.L.Unlock()` and the `select`, or parked) when
`Broadcast` runs, then in every later state it is woken / has returned, or it is still on its way
to the `select` holding a snapshot of a channel that is closed — in which case the `<-ch` arm is
ready (`arrive i .recv` is enabled) and it cannot park (`arrive i .park` is disabled). -/
theorem broadcast_wakes_all_entered {s s1 s2 : State} {ls : List Label} {i : Nat}
    (hr : Reach Cfg.gen s) (hent : Entered s i)
    (hb : step Cfg.gen s .broadcast = some s1) (hrun : run Cfg.gen s1 ls = some s2) :
    Doomed s2 i ∧ step Cfg.gen s2 (.arrive i .park) = none ∧
      ((∃ w ch, s2.ws[i]? = some w ∧ w.pc = .unlocked ch) → (step Cfg.gen s2 (.arrive i .recv)).isSome) := by
  rw [cfg_gen] at *
  obtain ⟨w, hw, hcase⟩ := hent
  have hd : Doomed s2 i := doomed_run (broadcast_dooms (inv_reach hr) hb hw hcase) hrun
  refine ⟨hd, ?_, ?_⟩
  · obtain ⟨w2, hw2, hc⟩ := hd
    rcases hc with hp | hp | hp | ⟨ch, hp, _, hcl⟩
    · simp [step, hw2, hp]
    · simp [step, hw2, hp]
    · simp [step, hw2, hp]
    · simp [step, hw2, hp, Cfg.std, hcl]
  · rintro ⟨w2, ch, hw2, hp⟩
    obtain ⟨w3, hw3, hc⟩ := hd
    have : w3 = w2 := by simpa [hw2] using hw3.symm
    subst this
    rcases hc with hq | hq | hq | ⟨c, hq, _, hcl⟩ <;> simp [hp] at hq
    subst hq
    simp [step, hw2, hp, Cfg.std, hcl]

example : ∃ s i, Reach Cfg.gen s ∧ Entered s i ∧ (step Cfg.gen s .broadcast).isSome :=
  ⟨_, 0, .step (.arrive 0 .park) (.step (.release 0) (.step (.start 0) (.init 2) rfl) rfl) rfl, ⟨_, rfl, Or.inr ⟨0, rfl⟩⟩, by decide⟩

/-- **A `Wait` that returns nil holds the lock again**: the step by which waiter `i` returns nil
leaves `i` as the holder of the caller's lock. -/
theorem wait_nil_holds_lock {s s' : State} {l : Label} {i : Nat} {w w' : Waiter}
    (h : step Cfg.gen s l = some s') (hw : s.ws[i]? = some w) (hw' : s'.ws[i]? = some w')
    (h0 : w.pc ≠ .doneNil) (h1 : w'.pc = .doneNil) : s'.lock = some i := by
  rw [cfg_gen] at h
  obtain ⟨w2, hw2, ht⟩ := step_trans h hw
  have : w2 = w' := by simpa [hw'] using hw2.symm
  subst this
  rw [h1] at ht
  generalize hq : w.pc = p at ht h0
  cases ht with
  | same => exact absurd rfl h0
  | relockNil hl => exact hl

example : ∃ s s' w w', run Cfg.gen (init Cfg.gen 1) [.start 0, .release 0, .signal none, .arrive 0 .recv] = some s ∧
    step Cfg.gen s (.relock 0) = some s' ∧ s.ws[0]? = some w ∧ s'.ws[0]? = some w' ∧
    w.pc ≠ .doneNil ∧ w'.pc = .doneNil :=
  ⟨_, _, _, _, rfl, rfl, rfl, rfl, by decide, rfl⟩

/-- **A `Wait` whose context expires returns the context's error without holding the lock**:
the step by which waiter `i` returns an error happens only when its context has ended, and `i` is
not the holder of the lock afterwards. -/
theorem wait_err_no_lock {s s' : State} {l : Label} {i : Nat} {w' : Waiter}
    (hr : Reach Cfg.gen s) (h : step Cfg.gen s l = some s') (hw' : s'.ws[i]? = some w')
    (h1 : w'.pc = .doneErr) : s'.lock ≠ some i ∧ w'.cancelled = true := by
  rw [cfg_gen] at *
  have hi := (inv_step (inv_reach hr) h).wait i w' hw'
  unfold WInv at hi
  simpa [h1] using hi

/-- **… promptly**: a parked waiter's context has not ended (when it ends, the same step moves the
waiter out of the `select`: `cancel` is atomic with the return), and a waiter that reaches the
`select` with an ended context cannot park. -/
theorem wait_err_prompt {s : State} {i : Nat} {w : Waiter} (hr : Reach Cfg.gen s) (hw : s.ws[i]? = some w)
    (hc : w.cancelled = true) :
    (∀ c, w.pc ≠ .parked c) ∧ step Cfg.gen s (.arrive i .park) = none := by
  rw [cfg_gen] at *
  have hi := (inv_reach hr).wait i w hw
  constructor
  · intro c hp
    unfold WInv at hi
    simp [hp, hc] at hi
  · cases hp : w.pc <;> simp [step, hw, hp, Cfg.std, hc]

/-- **… without swallowing a wakeup that another waiter needs**: the step by which waiter `i`
returns the context's error leaves every channel (tokens included), the current-channel pointer
and every other waiter exactly as they were. -/
theorem ctx_expiry_keeps_token {s s' : State} {l : Label} {i : Nat} {w w' : Waiter}
    (h : step Cfg.gen s l = some s') (hw : s.ws[i]? = some w) (hw' : s'.ws[i]? = some w')
    (h0 : w.pc ≠ .doneErr) (h1 : w'.pc = .doneErr) :
    s'.chans = s.chans ∧ s'.cur = s.cur ∧ ∀ j, j ≠ i → s'.ws[j]? = s.ws[j]? := by
  rw [cfg_gen] at h
  obtain ⟨w2, hw2, ht⟩ := step_trans h hw
  have : w2 = w' := by simpa [hw'] using hw2.symm
  subst this
  rw [h1] at ht
  generalize hq : w.pc = p at ht h0
  cases ht with
  | same => exact absurd rfl h0
  | ctx ch hc hcur hf => exact ⟨hc, hcur, hf⟩
  | expire c hc hcur hf => exact ⟨hc, hcur, hf⟩
  | relockErr hc hcur hf => exact ⟨hc, hcur, hf⟩

/-- `signal_wakes_min` at full strength: **once k goroutines have entered `Wait` (released the
lock), m `Signal` calls wake at least min(k, m) of them, however far each waiter has progressed
inside `Wait`.** From a reachable state `s` with `k = nUnparked s + nParked s` entered waiters
(none with an ended context), run any sequence `ls` of `Signal`s and of the waiters' own progress
(reaching the `select`, re-locking; the holder of the lock unlocking) until every waiter has reached
the `select`; then at least `min k m` more waiters are woken than before (`m = nSignals ls`; only the
`k` entered waiters can be newly woken in such a run). -/
def SignalWakesMin (cfg : Cfg) : Prop :=
  ∀ (s s' : State) (ls : List Label), Reach cfg s → run cfg s ls = some s' →
    (∀ l ∈ ls, progressOnly l = true) →
    (∀ (i : Nat) (w : Waiter), s.ws[i]? = some w → (isUnparked w || isParked w) = true → w.cancelled = false) →
    nUnparked s' = 0 →
    min (nUnparked s + nParked s) (nSignals ls) ≤ nWoken s' - nWoken s

/-- D13, the state before the Signals: two waiters have released the lock and are not yet parked -/
def d13Start : State :=
  { chans := [{ cap := 1, buf := 0, closed := false }], cur := 0, lock := none,
    ws := [{ pc := .unlocked (some 0), cancelled := false }, { pc := .unlocked (some 0), cancelled := false }] }

/-- D13, the final state: waiter 0 returned nil, waiter 1 is parked, no token is left -/
def d13End : State :=
  { chans := [{ cap := 1, buf := 0, closed := false }], cur := 0, lock := some 0,
    ws := [{ pc := .doneNil, cancelled := false }, { pc := .parked 0, cancelled := false }] }

/-- **The full statement is false of the code** (defect D13, open known finding): two waiters
between `c.L.Unlock()` and the `select`, two `Signal`s — the one-slot buffer keeps one token, the
second `Signal` is dropped by the `default` arm, one waiter takes the token and the other parks:
k = 2, m = 2, one wake-up. Checked by evaluation of the model (`decide`). -/
theorem signal_wakes_min_false : ¬ SignalWakesMin Cfg.gen := by
  intro h
  have hreach : Reach Cfg.gen d13Start :=
    reach_run (ls := [.start 0, .release 0, .start 1, .release 1]) (.init 2) (by decide)
  have hrun : run Cfg.gen d13Start [.signal none, .signal none, .arrive 0 .recv, .relock 0, .arrive 1 .park] = some d13End := by
    decide
  have hnc : ∀ (i : Nat) (w : Waiter), d13Start.ws[i]? = some w → (isUnparked w || isParked w) = true → w.cancelled = false := by
    intro i w hw _
    have hm : w ∈ d13Start.ws := List.mem_of_getElem? hw
    simp only [d13Start, List.mem_cons, List.not_mem_nil, or_false] at hm
    rcases hm with rfl | rfl <;> rfl
  exact absurd (h d13Start d13End _ hreach hrun (by decide) hnc (by decide)) (by decide)

/-- **What does hold of `signal_wakes_min`**: the full statement under the additional hypothesis
that at most one of the entered waiters has not yet reached the `select` (`nUnparked s ≤ 1`), and
always for a single `Signal` (`nSignals ls ≤ 1`). Missing for the full statement: nothing that could
be proved — it is refuted by `signal_wakes_min_false`. -/
theorem signal_wakes_min_partial (s s' : State) (ls : List Label) (hr : Reach Cfg.gen s) (hrun : run Cfg.gen s ls = some s')
    (hprog : ∀ l ∈ ls, progressOnly l = true)
    (hnc : ∀ (i : Nat) (w : Waiter), s.ws[i]? = some w → (isUnparked w || isParked w) = true → w.cancelled = false)
    (hsettled : nUnparked s' = 0)
    (hyp : nUnparked s ≤ 1 ∨ nSignals ls ≤ 1) :
    min (nUnparked s + nParked s) (nSignals ls) ≤ nWoken s' - nWoken s := by
  rw [cfg_gen] at *
  have hR := runinv_run (runinv_init (inv_reach hr) hnc) hrun hprog (by simpa using hyp)
  exact runinv_final (by simpa using hR) hsettled

/-- non-vacuity example: two parked waiters and one on its way -/
def exStart : State :=
  { chans := [{ cap := 1, buf := 0, closed := false }], cur := 0, lock := none,
    ws := [{ pc := .parked 0, cancelled := false }, { pc := .parked 0, cancelled := false },
           { pc := .unlocked (some 0), cancelled := false }] }

/-- non-vacuity example: all three woken -/
def exEnd : State :=
  { chans := [{ cap := 1, buf := 0, closed := false }], cur := 0, lock := none,
    ws := [{ pc := .woken false, cancelled := false }, { pc := .woken false, cancelled := false },
           { pc := .woken false, cancelled := false }] }

/-- non-vacuity: two parked waiters and one on its way, three Signals, all hypotheses hold -/
example : ∃ s s' ls, Reach Cfg.gen s ∧ run Cfg.gen s ls = some s' ∧ (∀ l ∈ ls, progressOnly l = true) ∧
    nUnparked s = 1 ∧ nParked s = 2 ∧ nSignals ls = 3 ∧ nUnparked s' = 0 ∧ nWoken s' - nWoken s = 3 :=
  ⟨exStart, exEnd, [.signal (some 0), .signal (some 1), .signal none, .arrive 2 .recv],
    reach_run (ls := [.start 0, .release 0, .arrive 0 .park, .start 1, .release 1, .arrive 1 .park, .start 2, .release 2]) (.init 3) (by decide),
    by decide, by decide, by decide, by decide, by decide, by decide, by decide⟩

end Juniper.Props.C16
