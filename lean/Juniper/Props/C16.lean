import Juniper.Model.Cond
/-!
# C16 — xsync.ContextCond never loses a wakeup (property theorems)
-/
namespace Juniper.Props.C16
open Juniper.Model.Cond

/-- The configuration regenerated from `xsync.go` is the one all C16 theorems are about. -/
theorem cfg_is_std : Cfg.gen = Cfg.std := by decide

end Juniper.Props.C16
