import Juniper.Generated.Cond
/-!
# Model of `xsync.ContextCond` (C16): a labelled transition system

One label = one atomic step of one goroutine. The waiter's program counter follows the statements
of `Wait` (`idle → held(ch) → unlocked(ch) → {parked(ch) | woken | doneErr} → doneNil`); channels
carry ids, a token buffer and a `closed` flag; the caller's `sync.Locker` is a holder field.

Everything the source decides in a small way is read from the regenerated facts
(`Juniper.Gen.Cond`) through `Cfg.gen`: the two channel capacities, the arms of the two `select`s,
which arm re-locks, the order "snapshot, then `c.L.Unlock()`", and Broadcast's statement sequence
"close the current channel, install a fresh one". The theorems (`Props/C16.lean`) are about
`step Cfg.gen`; the driver runs the same `step Cfg.gen`.

Go runtime semantics that are trusted, not verified: a send on a channel with a parked receiver is
handed to that receiver atomically (bypassing the buffer); `close` wakes every parked receiver
atomically; a `select` with at least one ready arm does not park and picks *some* ready arm;
`context` cancellation closes `Done()` synchronously; `sync.RWMutex` by its documentation (a writer
excludes readers and writers).

The labels `signal` and `broadcast` of this LTS are whole calls. That this is a faithful account of calls
that overlap on real threads is *not* assumed: `Model/CondFine.lean` runs `Signal` and `Broadcast`
statement by statement from the regenerated lists `sigOps` / `bcOps` with `c.m` as explicit state (a
`Signal` that evaluated `c.ch`, was overtaken by a `close` and then sends = panic), and
`Proofs/CondFine.lean` proves from the lock discipline that no reachable state of that LTS has panicked
and that it refines this one.
-/
namespace Juniper.Model.Cond
open Juniper.Facts
open Juniper.Gen.Cond (Op)

/-- effect steps of `Broadcast` -/
inductive BStep where
  | closeCur
  | install
  deriving DecidableEq, Repr

/-- What the model reads off the source. -/
structure Cfg where
  /-- capacity of the channel made by `NewContextCond` -/
  cap0 : Nat
  /-- capacity of the channel installed by `Broadcast` -/
  capB : Nat
  /-- `Signal`'s select has `case c.ch <- struct{}{}` -/
  sigSend : Bool
  /-- `Signal`'s select has a `default` arm -/
  sigDflt : Bool
  /-- `Wait`'s select has `case <-ch` (the snapshot) -/
  waitCh : Bool
  /-- `Wait`'s select has `case <-ctx.Done()` -/
  waitCtx : Bool
  /-- the `<-ch` arm re-locks `c.L` -/
  relockOnWake : Bool
  /-- the `<-ctx.Done()` arm re-locks `c.L` -/
  relockOnErr : Bool
  /-- the channel is snapshotted before `c.L.Unlock()` -/
  snapFirst : Bool
  /-- the effect sequence of `Broadcast` (its statements without the lock operations) -/
  bcProg : List BStep
  /-- the statements of `Signal`, in source order (interpreted one by one by the fine-grained LTS of
  `Model/CondFine.lean`) -/
  sigOps : List Op
  /-- the statements of `Broadcast`, in source order, lock operations included (interpreted one by one by
  the fine-grained LTS) -/
  bcOps : List Op
  /-- everything else has the expected shape: no unknown statement, lock discipline of `c.m`
  (read lock around snapshot and send, write lock around Broadcast), `select` after `Unlock`,
  the ctx arm returns `ctx.Err()`, the `<-ch` arm falls through to `return nil`, no extra arms -/
  shape : Bool
  deriving DecidableEq, Repr

/-- The configuration the theorems are proved for (what the source says today). -/
def Cfg.std : Cfg :=
  { cap0 := 1, capB := 1, sigSend := true, sigDflt := true, waitCh := true, waitCtx := true,
    relockOnWake := true, relockOnErr := false, snapFirst := true,
    bcProg := [.closeCur, .install],
    sigOps := [.mRLock, .sel, .mRUnlock],
    bcOps := [.mLock, .closeCur, .install, .mUnlock],
    shape := true }

def armBody (t : List (Arm × List Op)) (a : Arm) : List Op :=
  match t.find? (fun p => p.1 == a) with
  | some p => p.2
  | none => []

def bcStepOf : Op → Option BStep
  | .closeCur => some .closeCur
  | .install => some .install
  | _ => none

/-- The configuration regenerated from the Go source on every run. -/
def Cfg.gen : Cfg :=
  let w := Gen.Cond.waitOps
  let chBody := armBody Gen.Cond.waitArmBodies (.recv "ch")
  let ctxBody := armBody Gen.Cond.waitArmBodies (.recv "ctx.Done()")
  { cap0 := Gen.Cond.newCap.toNat
    capB := Gen.Cond.broadcastCap.toNat
    sigSend := Gen.Cond.signalArms.contains (.send "c.ch")
    sigDflt := Gen.Cond.signalArms.contains .dflt
    waitCh := Gen.Cond.waitArms.contains (.recv "ch")
    waitCtx := Gen.Cond.waitArms.contains (.recv "ctx.Done()")
    relockOnWake := chBody.contains .lLock
    relockOnErr := ctxBody.contains .lLock
    snapFirst := decide (w.idxOf .snap < w.idxOf .lUnlock)
    bcProg := Gen.Cond.broadcastOps.filterMap bcStepOf
    sigOps := Gen.Cond.signalOps
    bcOps := Gen.Cond.broadcastOps
    shape :=
      -- Wait: the six statements, in one of the two orders the model understands
      (w == [.mRLock, .snap, .mRUnlock, .lUnlock, .sel, .retNil]
        || w == [.lUnlock, .mRLock, .snap, .mRUnlock, .sel, .retNil])
      && (chBody == [.lLock] || chBody == [])
      && (ctxBody == [.retCtxErr] || ctxBody == [.lLock, .retCtxErr])
      && Gen.Cond.waitArms.length == 2
      -- the body tables list exactly the arms of the `select`s, once each, in the same order
      && Gen.Cond.waitArmBodies.map (·.1) == Gen.Cond.waitArms
      && Gen.Cond.signalArmBodies.map (·.1) == Gen.Cond.signalArms
      -- Signal: the select under the read lock, empty arm bodies
      && Gen.Cond.signalOps == [.mRLock, .sel, .mRUnlock]
      && Gen.Cond.signalArmBodies.all (fun p => p.2 == [])
      && Gen.Cond.signalArms.length ≤ 2
      && Gen.Cond.signalArms.all (fun a => a == .send "c.ch" || a == .dflt)
      -- Broadcast: ONE write-lock section `Lock … Unlock` around everything, inside it nothing but close /
      -- install (the order of close and install is `bcProg`; a second Lock/Unlock pair, a statement outside
      -- the section or a split section is not this shape — audit C16 F1)
      && Gen.Cond.broadcastOps.head? == some .mLock
      && Gen.Cond.broadcastOps.getLast? == some .mUnlock
      && ((Gen.Cond.broadcastOps.drop 1).dropLast).all (fun o => o == .closeCur || o == .install)
      && decide (0 ≤ Gen.Cond.newCap) && decide (0 ≤ Gen.Cond.broadcastCap) }

/-- A wake-up channel. -/
structure Chan where
  cap : Nat
  buf : Nat
  closed : Bool
  deriving DecidableEq, Repr

/-- Program counter of one `Wait` call. -/
inductive Pc where
  /-- not yet called -/
  | idle
  /-- inside `Wait`, the caller's lock still held (at `c.L.Unlock()`); `ch` = snapshot if taken -/
  | held (ch : Option Nat)
  /-- *entered*: lock released, not yet at the `select` -/
  | unlocked (ch : Option Nat)
  /-- blocked in the `select` on snapshot `ch` -/
  | parked (ch : Nat)
  /-- an arm fired and its body is at `c.L.Lock()`; `err` = it was the ctx arm -/
  | woken (err : Bool)
  /-- returned nil -/
  | doneNil
  /-- returned ctx.Err() -/
  | doneErr
  deriving DecidableEq, Repr

structure Waiter where
  pc : Pc
  cancelled : Bool
  deriving DecidableEq, Repr

structure State where
  chans : List Chan
  cur : Nat
  /-- holder of the caller's `sync.Locker` -/
  lock : Option Nat
  ws : List Waiter
  deriving DecidableEq, Repr

/-- Which arm the `select` takes when the waiter reaches it. -/
inductive Choice where
  | recv
  | ctx
  | park
  deriving DecidableEq, Repr

inductive Label where
  /-- waiter `i`, holding `L`, calls `Wait` and runs up to `c.L.Unlock()` -/
  | start (i : Nat)
  /-- `c.L.Unlock()` releases the lock: waiter `i` has entered -/
  | release (i : Nat)
  /-- waiter `i` reaches the `select` -/
  | arrive (i : Nat) (c : Choice)
  /-- `Signal()`: handed to the parked waiter `to`, or (nobody parked) buffered / dropped -/
  | signal (to : Option Nat)
  | broadcast
  /-- the context of waiter `i` ends -/
  | cancel (i : Nat)
  /-- a woken waiter re-acquires `L` and returns -/
  | relock (i : Nat)
  /-- whoever holds `L` after its `Wait` returned unlocks it -/
  | hunlock
  deriving DecidableEq, Repr

def init (cfg : Cfg) (k : Nat) : State :=
  { chans := [{ cap := cfg.cap0, buf := 0, closed := false }], cur := 0, lock := none,
    ws := List.replicate k { pc := .idle, cancelled := false } }

def pcOf (s : State) (i : Nat) : Option Pc := (s.ws[i]?).map (·.pc)

def setPc (s : State) (i : Nat) (pc : Pc) : State :=
  { s with ws := s.ws.modify i (fun w => { w with pc := pc }) }

def chanAt (s : State) (c : Nat) : Chan := (s.chans[c]?).getD { cap := 0, buf := 0, closed := false }

/-- pc after the `<-ch` arm fired -/
def afterWake (cfg : Cfg) : Pc := if cfg.relockOnWake then .woken false else .doneNil
/-- pc after the `<-ctx.Done()` arm fired -/
def afterCtx (cfg : Cfg) : Pc := if cfg.relockOnErr then .woken true else .doneErr

/-- effect of the context's end on the pc: a parked waiter takes the ctx arm at once -/
def cancelPc (cfg : Cfg) : Pc → Pc
  | .parked c => if cfg.waitCtx then afterCtx cfg else .parked c
  | pc => pc

def isParkedOn (c : Nat) (w : Waiter) : Bool := w.pc == .parked c

/-- every waiter parked on channel `c` is woken (close / hand-off) -/
def wakeAll (cfg : Cfg) (c : Nat) (ws : List Waiter) : List Waiter :=
  ws.map (fun w => if isParkedOn c w then { w with pc := afterWake cfg } else w)

def bcStep (cfg : Cfg) (s : State) : BStep → Option State
  | .closeCur =>
    if (chanAt s s.cur).closed then none  -- close of a closed channel panics
    else some { s with chans := s.chans.set s.cur { chanAt s s.cur with closed := true },
                       ws := if cfg.waitCh then wakeAll cfg s.cur s.ws else s.ws }
  | .install =>
    some { s with chans := s.chans ++ [{ cap := cfg.capB, buf := 0, closed := false }],
                  cur := s.chans.length }

def bcRun (cfg : Cfg) : State → List BStep → Option State
  | s, [] => some s
  | s, b :: bs => match bcStep cfg s b with
    | some s' => bcRun cfg s' bs
    | none => none

/-- `case ch <- struct{}{}:` of `Signal`'s `select` on the channel with id `c` (the value `c.ch` had when the
`select` evaluated it): handed to the parked waiter `to`, or (nobody parked on `c`) buffered, or dropped by
the `default` arm. `none` = not possible: the channel is closed (the send panics), the hand-off choice is not
available, or the send would block. -/
def sendOn (cfg : Cfg) (s : State) (c : Nat) (to : Option Nat) : Option State :=
  let chan := chanAt s c
  if chan.closed then none  -- send on a closed channel panics
  else match to with
  | some i =>
    if cfg.waitCh && pcOf s i = some (.parked c) then some (setPc s i (afterWake cfg)) else none
  | none =>
    if cfg.waitCh && s.ws.any (isParkedOn c) then none  -- a parked receiver takes it
    else if chan.buf < chan.cap then
      some { s with chans := s.chans.set c { chan with buf := chan.buf + 1 } }
    else if cfg.sigDflt then some s  -- buffer full: dropped
    else none  -- would block

def step (cfg : Cfg) (s : State) : Label → Option State
  | .start i =>
    match s.ws[i]?, s.lock with
    | some w, none =>
      if w.pc = .idle then
        some { (setPc s i (.held (if cfg.snapFirst then some s.cur else none))) with lock := some i }
      else none
    | _, _ => none
  | .release i =>
    match pcOf s i with
    | some (.held ch) =>
      if s.lock = some i then some { (setPc s i (.unlocked ch)) with lock := none } else none
    | _ => none
  | .arrive i c =>
    match s.ws[i]? with
    | some w =>
      match w.pc with
      | .unlocked ch0 =>
        let ch := ch0.getD s.cur
        let chan := chanAt s ch
        let readyRecv := cfg.waitCh && (chan.closed || decide (0 < chan.buf))
        let readyCtx := cfg.waitCtx && w.cancelled
        match c with
        | .recv =>
          if readyRecv then
            let s1 := if chan.closed then s else { s with chans := s.chans.set ch { chan with buf := chan.buf - 1 } }
            some (setPc s1 i (afterWake cfg))
          else none
        | .ctx => if readyCtx then some (setPc s i (afterCtx cfg)) else none
        | .park => if !readyRecv && !readyCtx then some (setPc s i (.parked ch)) else none
      | _ => none
    | none => none
  | .signal to =>
    if !cfg.sigSend then (if cfg.sigDflt then some s else none)
    else sendOn cfg s s.cur to
  | .broadcast => bcRun cfg s cfg.bcProg
  | .cancel i =>
    match s.ws[i]? with
    | some w =>
      if w.cancelled then none
      else some { s with ws := s.ws.modify i (fun w => { pc := cancelPc cfg w.pc, cancelled := true }) }
    | none => none
  | .relock i =>
    match pcOf s i, s.lock with
    | some (.woken e), none => some { (setPc s i (if e then .doneErr else .doneNil)) with lock := some i }
    | _, _ => none
  | .hunlock =>
    match s.lock with
    | some i =>
      match pcOf s i with
      | some .doneNil => some { s with lock := none }
      | some .doneErr => some { s with lock := none }
      | _ => none
    | none => none

def run (cfg : Cfg) : State → List Label → Option State
  | s, [] => some s
  | s, l :: ls => match step cfg s l with
    | some s' => run cfg s' ls
    | none => none

/-- Reachable states (any number of waiters). -/
inductive Reach (cfg : Cfg) : State → Prop where
  | init (k : Nat) : Reach cfg (init cfg k)
  | step {s s' : State} (l : Label) : Reach cfg s → step cfg s l = some s' → Reach cfg s'

/-! ## Observation and the state-set engine used by the conformance driver -/

def pcLetter : Pc → Char
  | .idle => 'I'
  | .held _ => 'A'
  | .unlocked _ => 'B'
  | .parked _ => 'P'
  | .woken _ => 'R'
  | .doneNil => 'N'
  | .doneErr => 'E'

/-- what the harness can see at a quiescent point: one letter per waiter and the lock holder -/
def obsOf (s : State) : String × Option Nat := (String.ofList (s.ws.map (fun w => pcLetter w.pc)), s.lock)

/-- the internal (not harness-driven) steps: a woken waiter takes the free lock -/
def internalSucc (cfg : Cfg) (s : State) : List State :=
  (List.range s.ws.length).filterMap (fun i => step cfg s (.relock i))

/-- run internal steps to quiescence (each relock retires one woken waiter: `fuel` = #waiters + 1) -/
def quiesce (cfg : Cfg) : Nat → List State → List State
  | 0, ss => ss
  | fuel + 1, ss =>
    let next := ss.flatMap (fun s => match internalSucc cfg s with
      | [] => [s]
      | l => l)
    if next == ss then ss else quiesce cfg fuel next.eraseDups

end Juniper.Model.Cond
