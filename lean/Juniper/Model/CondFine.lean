import Juniper.Model.Cond
/-!
# Fine-grained LTS of `xsync.ContextCond`: `Signal` and `Broadcast` statement by statement (C16)

`Model/Cond.lean` treats a `Signal` call and a `Broadcast` call as one label each. Real goroutines
overlap: a `Signal` can be anywhere between its statements while a `Broadcast` runs. This file makes the
internal `sync.RWMutex` `c.m` explicit state (`readers`, `writer`) and lets every `Signal` / `Broadcast`
call in progress be a little thread that *interprets the regenerated statement list* (`cfg.sigOps`,
`cfg.bcOps`: `Gen.Cond.signalOps` / `broadcastOps`, ordered, lock operations included), one statement per
label; the `select` of `Signal` is two labels — the channel expression `c.ch` is evaluated, then the send
(or the `default` arm) happens on *that* channel:

* `c.m.RLock()` waits while a writer holds `c.m`; `c.m.Lock()` waits while anybody holds it;
* `close(c.ch)` on a closed channel, a send on a closed channel, `Unlock` / `RUnlock` of a mutex the call
  does not hold: `panicked := true` (the outcome is kept, not totalised away);
* the waiters' labels (`start … hunlock`) are those of `Model/Cond.lean`; `start` (which contains
  `c.m.RLock(); ch := c.ch; c.m.RUnlock()`) additionally waits while a writer holds `c.m`.

So a `Broadcast` whose list is `Lock; close; Unlock; Lock; install; Unlock`, or which closes outside the
lock, lets a `Signal` evaluate `c.ch`, be overtaken by the `close`, and send on the closed channel: the
panic is a reachable outcome of *this* LTS (found by `driver cond`'s `cex` search and, on the real code,
by the real-threads phase of the harness). For the list the source has today
(`Lock; close; install; Unlock`, `RLock; select; RUnlock`) `Proofs/CondFine.lean` proves that no reachable
state has panicked and that every reachable state, seen through `absOf`, is a reachable state of the
atomic LTS — the justification of the `signal` / `broadcast` labels there.
-/
namespace Juniper.Model.Cond
open Juniper.Gen.Cond (Op)

/-- a `Signal` or `Broadcast` call in progress -/
structure CallT where
  /-- statements still to execute -/
  todo : List Op
  /-- it holds `c.m` for reading / for writing -/
  holdsR : Bool
  holdsW : Bool
  /-- the `select` of `Signal` has evaluated `c.ch` to this channel and has not yet sent -/
  snap : Option Nat
  deriving DecidableEq, Repr

structure FState where
  base : State
  /-- `c.m`: number of read holders, write-held -/
  readers : Nat
  writer : Bool
  calls : List CallT
  /-- send on / close of a closed channel, unlock of a mutex not held -/
  panicked : Bool
  deriving DecidableEq, Repr

inductive FLabel where
  /-- a waiter-side label of the atomic LTS (`start release arrive cancel relock hunlock`) -/
  | env (l : Label)
  /-- a goroutine calls `Signal` (`true`) / `Broadcast` (`false`) -/
  | call (sig : Bool)
  /-- call `j` executes its next statement; `to` = the parked waiter a send is handed to -/
  | callStep (j : Nat) (to : Option Nat)
  deriving DecidableEq, Repr

def finit (cfg : Cfg) (k : Nat) : FState :=
  { base := init cfg k, readers := 0, writer := false, calls := [], panicked := false }

def isEnvLabel : Label → Bool
  | .signal _ => false
  | .broadcast => false
  | _ => true

/-- `start` contains `c.m.RLock(); ch := c.ch; c.m.RUnlock()`: it waits while a writer holds `c.m` -/
def readsCur : Label → Bool
  | .start _ => true
  | _ => false

def setCall (fs : FState) (j : Nat) (c : CallT) : FState := { fs with calls := fs.calls.set j c }

/-- one statement of call `j` (`c` = its record, `rest` = what remains after this statement) -/
def opStep (cfg : Cfg) (fs : FState) (j : Nat) (c : CallT) (to : Option Nat) : Op → List Op → Option FState
  | .mRLock, rest =>
    if fs.writer then none
    else some { (setCall fs j { c with todo := rest, holdsR := true }) with readers := fs.readers + 1 }
  | .mRUnlock, rest =>
    if c.holdsR then some { (setCall fs j { c with todo := rest, holdsR := false }) with readers := fs.readers - 1 }
    else some { fs with panicked := true }
  | .mLock, rest =>
    if fs.writer || fs.readers != 0 then none
    else some { (setCall fs j { c with todo := rest, holdsW := true }) with writer := true }
  | .mUnlock, rest =>
    if c.holdsW then some { (setCall fs j { c with todo := rest, holdsW := false }) with writer := false }
    else some { fs with panicked := true }
  | .closeCur, rest =>
    if (chanAt fs.base fs.base.cur).closed then some { fs with panicked := true }
    else (bcStep cfg fs.base .closeCur).map fun b => { (setCall fs j { c with todo := rest }) with base := b }
  | .install, rest =>
    (bcStep cfg fs.base .install).map fun b => { (setCall fs j { c with todo := rest }) with base := b }
  | .sel, rest =>
    if !cfg.sigSend then (if cfg.sigDflt then some (setCall fs j { c with todo := rest }) else none)
    else match c.snap with
    | none => some (setCall fs j { c with snap := some fs.base.cur })  -- `c.ch` evaluated
    | some ch =>
      if (chanAt fs.base ch).closed then some { fs with panicked := true }
      else (sendOn cfg fs.base ch to).map fun b => { (setCall fs j { c with todo := rest, snap := none }) with base := b }
  | _, _ => none

def fstep (cfg : Cfg) (fs : FState) : FLabel → Option FState
  | .env l =>
    if fs.panicked || !isEnvLabel l then none
    else if readsCur l && fs.writer then none
    else (step cfg fs.base l).map fun b => { fs with base := b }
  | .call sig =>
    if fs.panicked then none
    else some { fs with calls := fs.calls ++
      [{ todo := if sig then cfg.sigOps else cfg.bcOps, holdsR := false, holdsW := false, snap := none }] }
  | .callStep j to =>
    if fs.panicked then none
    else match fs.calls[j]? with
    | none => none
    | some c =>
      match c.todo with
      | [] => none
      | op :: rest => opStep cfg fs j c to op rest

def frun (cfg : Cfg) : FState → List FLabel → Option FState
  | fs, [] => some fs
  | fs, l :: ls => match fstep cfg fs l with
    | some fs' => frun cfg fs' ls
    | none => none

inductive FReach (cfg : Cfg) : FState → Prop where
  | init (k : Nat) : FReach cfg (finit cfg k)
  | step {fs fs' : FState} (l : FLabel) : FReach cfg fs → fstep cfg fs l = some fs' → FReach cfg fs'

/-- the state of the atomic LTS a fine state stands for: in the middle of a `Broadcast` (current channel
closed, fresh one not yet installed) it is the state *after* that `Broadcast` -/
def absOf (cfg : Cfg) (fs : FState) : State :=
  if (chanAt fs.base fs.base.cur).closed then
    { fs.base with chans := fs.base.chans ++ [{ cap := cfg.capB, buf := 0, closed := false }],
                   cur := fs.base.chans.length }
  else fs.base

/-! ## Model-vs-Spec search used by the driver: is a panic reachable? -/

def fLabelsOf (fs : FState) : List FLabel :=
  let n := fs.base.ws.length
  let envs : List FLabel := (List.range n).flatMap fun i =>
    [.env (.start i), .env (.release i), .env (.arrive i .recv), .env (.arrive i .ctx), .env (.arrive i .park),
     .env (.relock i)]
  let calls : List FLabel := (List.range fs.calls.length).flatMap fun j =>
    FLabel.callStep j none :: (List.range n).map fun i => FLabel.callStep j (some i)
  envs ++ [.env .hunlock] ++ calls

/-- breadth-first search for a panicked state; returns the labels leading to it -/
def panicSearch (cfg : Cfg) : Nat → List (FState × List FLabel) → List FState → Option (List FLabel)
  | 0, _, _ => none
  | _, [], _ => none
  | fuel + 1, (fs, path) :: rest, seen =>
    if fs.panicked then some path.reverse
    else if seen.contains fs then panicSearch cfg fuel rest seen
    else
      let succ := (fLabelsOf fs).filterMap fun l => (fstep cfg fs l).map fun fs' => (fs', l :: path)
      panicSearch cfg fuel (rest ++ succ) (fs :: seen)

end Juniper.Model.Cond
