import Juniper.Generated.Helpers
/-!
# Models of the `xslices` helpers (C19)

Executable, core-only. Every guard, bound and index expression is the *generated* definition
re-extracted from `xslices.go` on every run (`Juniper.Gen.Helpers`); the hand-written part is the
shape of the loops and the order of the statements, which the correspondence check ties to the code.

A Go slice is modelled by the list of its elements; functions that write through the slice return the
caller's backing array (same length as the argument) next to the returned slice, so that documented
in-place effects are part of the model. A Go panic is `none`.
-/
namespace Juniper.Model.Helpers
open Juniper.Gen.Helpers

variable {α : Type}

/-- `s[i]` — `none` when Go would panic with index out of range. -/
def getI (s : List α) (i : Int) : Option α :=
  if i < 0 then none else s[i.toNat]?

/-- `s[i] = v` — `none` when Go would panic. -/
def setI (s : List α) (i : Int) (v : α) : Option (List α) :=
  if i < 0 then none else if i.toNat < s.length then some (s.set i.toNat v) else none

/-- bounds check of `s[lo:hi]` on a slice whose capacity equals its length `len`. -/
def sliceOk (lo hi len : Int) : Bool := decide (0 ≤ lo) && decide (lo ≤ hi) && decide (hi ≤ len)

/-- the elements of `s[lo:hi]` -/
def slice (s : List α) (lo hi : Int) : List α := (s.drop lo.toNat).take (hi - lo).toNat

/-- `s[i], s[j] = s[j], s[i]` -/
def swapI (s : List α) (i j : Int) : Option (List α) :=
  match getI s i, getI s j with
  | some x, some y =>
    match setI s i y with
    | some s1 => setI s1 j x
    | none => none
  | _, _ => none

/-! ## Chunk -/

/-- the length `Chunk` hands to `make([][]T, n)`: `n := 0; if len(s) > 0 { n = (len(s)-1)/chunkSize + 1 }` -/
def chunkN (len size : Int) : Int :=
  chunkMake (if chunkNonEmpty len then chunkCountNonEmpty len size else chunkCountEmpty)

/-- the `(start, end)` pairs of the slice expressions `s[start:end]` that `Chunk` evaluates:
`start := i * chunkSize; end := len(s); if len(s)-start > chunkSize { end = start + chunkSize }`.
All arithmetic is the generated 64-bit (`wrap64`) arithmetic. -/
def chunkRanges (len size : Int) : List (Int × Int) :=
  (List.range (chunkN len size).toNat).map fun (i : Nat) =>
    let i : Int := i
    let start := chunkStart i size
    let e := chunkEndLast len
    let e := if chunkFull len start size then chunkEndFull start size else e
    (chunkLo start e, chunkHi start e)

/-- `xslices.Chunk` on a slice of length `len`: the chunks as index ranges of `s`, `none` = panic. -/
def chunk (len size : Int) : Option (List (Int × Int)) :=
  if chunkPanics size && chunkGuardPanics then none
  else if chunkNonEmpty len && decide (size = 0) then none   -- integer division by zero
  else if chunkN len size < 0 then none                      -- make with a negative length
  else if (chunkRanges len size).all (fun r => sliceOk r.1 r.2 len) then some (chunkRanges len size)
  else none

/-! ## RemoveUnordered -/

/-- `copy(dst[dlo:dhi], src)` where `dst` is the whole backing array -/
def copyAt (dst : List α) (dlo dhi : Int) (src : List α) : List α :=
  let m := min (dhi - dlo).toNat src.length
  dst.take dlo.toNat ++ src.take m ++ dst.drop (dlo.toNat + m)

/-- `Clear(s[lo:hi])` -/
def clearAt (zero : α) (s : List α) (lo hi : Int) : List α :=
  s.take lo.toNat ++ List.replicate (hi - lo).toNat zero ++ s.drop hi.toNat

/-- `xslices.RemoveUnordered`: `(returned slice, caller's backing array afterwards)`. -/
def removeUnordered (zero : α) (s : List α) (idx n : Int) : Option (List α × List α) :=
  let len : Int := s.length
  let keepStart := ruKeepStart len n
  let removeEnd := ruRemoveEnd idx n
  let keepStart := if ruBump removeEnd keepStart then ruBumpVal removeEnd else keepStart
  let dlo := ruCopyDstLo idx keepStart len n
  let dhi := ruCopyDstHi idx keepStart len n
  let slo := ruCopySrcLo idx keepStart len n
  let shi := ruCopySrcHi idx keepStart len n
  if !sliceOk dlo dhi len then none else
  if !sliceOk slo shi len then none else
  let s1 := if ruCopies = 1 then copyAt s dlo dhi (slice s slo shi) else s
  let clo := ruClearLo idx keepStart len n
  let chi := ruClearHi idx keepStart len n
  if !sliceOk clo chi len then none else
  let s2 := if ruClears = 1 then clearAt zero s1 clo chi else s1
  let rlo := ruRetLo idx keepStart len n
  let rhi := ruRetHi idx keepStart len n
  if !sliceOk rlo rhi len then none else
  some (slice s2 rlo rhi, s2)

/-! ## Reverse -/

def reverseLoop : Nat → List α → Int → Option (List α)
  | 0, s, _ => some s
  | fuel + 1, s, i =>
    if revCond i s.length then
      match (if revSwaps then swapI s i (revMirror i s.length) else some s) with
      | none => none
      | some s' => reverseLoop fuel s' (i + 1)
    else some s

/-- `xslices.Reverse`: the caller's backing array afterwards. -/
def reverse (s : List α) : Option (List α) := reverseLoop s.length s revI0

/-! ## Partition

The guards and initial values are generated expressions. The *step statements* of the loops are mirrored
by hand and guarded by their generated counts: `i++` occurs three times (first inner loop, after the
swap, final adjustment: `partIncI`), `j--` twice (second inner loop, after the swap: `partDecJ`), the swap
once (`partSwaps`), `break` three times (one per loop: `partBreaks`). A step whose statement is not there
(any other count) is not the function modelled here: the model answers `none`, so that
`partition_perm_and_split` stops holding. *Where* each statement stands is the business of the pinned
statement list (`pin_xslices_Partition`, `shapePartition`). -/

/-- first inner loop: `for i < j { if !f(s[i]) { i++ } else { break } }` -/
def advI (f : α → Bool) (s : List α) : Nat → Int → Int → Option Int
  | 0, i, _ => some i
  | fuel + 1, i, j =>
    if partLoopI i j then
      match getI s i with
      | none => none
      | some x =>
        if partAdvI (f x) then (if partIncI = 3 then advI f s fuel (i + 1) j else none)   -- `i++`
        else (if partBreaks = 3 then some i else none)                                     -- `break`
    else some i

/-- second inner loop: `for j > i { if f(s[j]) { j-- } else { break } }` -/
def advJ (f : α → Bool) (s : List α) : Nat → Int → Int → Option Int
  | 0, _, j => some j
  | fuel + 1, i, j =>
    if partLoopJ i j then
      match getI s j with
      | none => none
      | some x =>
        if partAdvJ (f x) then (if partDecJ = 2 then advJ f s fuel i (j - 1) else none)   -- `j--`
        else (if partBreaks = 3 then some j else none)                                     -- `break`
    else some j

def partOuter (f : α → Bool) : Nat → List α → Int → Int → Option (List α × Int)
  | 0, s, i, _ => some (s, i)
  | fuel + 1, s, i, j =>
    match advI f s s.length i j with
    | none => none
    | some i =>
      match advJ f s s.length i j with
      | none => none
      | some j =>
        if partDone i j then (if partBreaks = 3 then some (s, i) else none) else          -- `break`
        match (if partSwaps = 1 then swapI s i j else some s) with                          -- the swap
        | none => none
        | some s' =>
          if partIncI = 3 ∧ partDecJ = 2 then partOuter f fuel s' (i + 1) (j - 1) else none   -- `i++; j--`

/-- `xslices.Partition`: `(caller's backing array afterwards, returned index)`. -/
def partition (f : α → Bool) (s : List α) : Option (List α × Int) :=
  let len : Int := s.length
  match partOuter f (s.length + 1) s (partI0 len) (partJ0 len) with
  | none => none
  | some (s', i) =>
    if partIncI ≠ 3 then none else                                                          -- final `i++`
    match getI s' i with
    | some x => some (s', if partFinal i len (f x) then i + 1 else i)
    | none =>
      -- `s[i]` does not exist: fine as long as the guard does not depend on `f(s[i])`
      if partFinal i len true = partFinal i len false then
        some (s', if partFinal i len false then i + 1 else i)
      else none

/-! ## Unique / UniqueInPlace -/

/-- `uniqueInto` for a fresh destination (`Unique`): `seen` is the key set of the map `m`. -/
def uniqueInto [DecidableEq α] (into seen : List α) : List α → List α
  | [] => into
  | x :: xs =>
    if uniqAppends (decide (x ∈ seen)) then
      uniqueInto (into ++ [x]) (if uniqMarks then x :: seen else seen) xs
    else uniqueInto into seen xs

/-- `xslices.Unique` -/
def unique [DecidableEq α] (s : List α) : List α := uniqueInto [] [] s

/-- `uniqueInto(s[:0], s)`: destination and source share the backing array `arr`; `w = len(into)`,
`i` the loop index. -/
def uipLoop [DecidableEq α] : Nat → List α → List α → Nat → Nat → List α × Nat
  | 0, arr, _, w, _ => (arr, w)
  | fuel + 1, arr, seen, w, i =>
    match arr[i]? with
    | none => (arr, w)
    | some x =>
      if uniqAppends (decide (x ∈ seen)) then
        uipLoop fuel (arr.set w x) (if uniqMarks then x :: seen else seen) (w + 1) (i + 1)
      else uipLoop fuel arr seen w (i + 1)

/-- `xslices.UniqueInPlace`: `(returned slice, caller's backing array afterwards)`. -/
def uniqueInPlace [DecidableEq α] (zero : α) (s : List α) : Option (List α × List α) :=
  let len : Int := s.length
  if !sliceOk 0 (uipIntoHi len 0) len then none else
  let (arr, w) := uipLoop s.length s [] (uipIntoHi len 0).toNat 0
  let clo := uipClearLo len w
  let chi := uipClearHi len w
  if !sliceOk clo chi len then none else
  let arr' := clearAt zero arr clo chi
  some (arr'.take w, arr')

/-! ## Runs -/

def runsLoop (same : α → α → Bool) (s : List α) :
    Nat → Int → Int → Int → List (Int × Int) → Option (List (Int × Int) × Int × Int)
  | 0, _, start, e, acc => some (acc, start, e)
  | fuel + 1, i, start, e, acc =>
    if runsCond i s.length then
      match getI s (i - 1), getI s i with
      | some a, some b =>
        if runsSame (same a b) then runsLoop same s fuel (i + 1) start (runsEndSame i) acc
        else
          let lo := runsCutLo start e s.length
          let hi := runsCutHi start e s.length
          if sliceOk lo hi s.length then
            runsLoop same s fuel (i + 1) (runsStartNew i) (runsEndNew i) (acc ++ [(lo, hi)])
          else none
      | _, _ => none
    else some (acc, start, e)

/-- `xslices.Runs`: the runs as index ranges of `s` (they share `s`'s backing array). -/
def runs (same : α → α → Bool) (s : List α) : Option (List (Int × Int)) :=
  let len : Int := s.length
  let start := runsStart0
  let e := if runsNonEmpty len then runsEnd1 else runsEnd0
  match runsLoop same s s.length runsI0 start e [] with
  | none => none
  | some (acc, start, e) =>
    if runsFinal e then
      let lo := runsLastLo start e len
      let hi := runsLastHi start e len
      if sliceOk lo hi len then some (acc ++ [(lo, hi)]) else none
    else some acc

/-! ## Shrink -/

/-- `xslices.Shrink` on a slice with contents `s` and capacity `cap`:
`(contents, capacity, reallocated)` of the result. -/
def shrink (zero : α) (s : List α) (cap n : Int) : Option (List α × Int × Bool) :=
  let len : Int := s.length
  if shrinkGuard cap len n then
    let m := shrinkMake len n
    if m < 0 then none else                                   -- make with a negative length
    let hi := shrinkRetHi len n
    if !sliceOk 0 hi m then none else                         -- x2[:len(s)]
    let x2 := (s ++ List.replicate (m.toNat - s.length) zero).take m.toNat   -- make + copy
    some (x2.take hi.toNat, m, true)
  else some (s, cap, false)

end Juniper.Model.Helpers
