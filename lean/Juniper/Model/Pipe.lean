import Juniper.Facts
import Juniper.Generated.Pipe
/-!
# Model of `stream.Pipe` (C10, Pipe clauses of C08): a labelled transition system

One label = one atomic step of one goroutine: an environment action (a call is started in a
goroutine, a context expires, a `Close`) or one arm of the `select` statement the goroutine is
parked in. Which arms exist is *not* written here: `step` interprets the arm tables regenerated from
`stream/stream.go` (`Juniper.Gen.Pipe.sendArms`, `trySendArms1/2`, `nextArms`, `nextDrainArms`), whether
an arm returns or falls through to the next statement comes from the regenerated arm bodies, and
whether `Next` drains the data channel before it reports the end is `Gen.Pipe.nextDrains`.

Hand-written (tied by the conformance check in `harness-sched/c10`): the meaning of a ready arm
(Go channel semantics: buffered send/receive, rendez-vous when the capacity is 0, `default` only
when nothing else is ready, closed channels always ready), and the ghost logs.
-/
namespace Juniper.Model.Pipe
open Juniper.Facts
open Juniper.Gen.Pipe

/-- A value travelling through the pipe, tagged (ghost) with its sender and its position in that
sender's sequence of `Send`/`TrySend` calls. -/
structure Msg where
  sender : Nat
  seq : Nat
  val : Int
  deriving DecidableEq, Repr

/-- Program counter of a sender goroutine. -/
inductive SPc where
  | idle
  | send (m : Msg)   -- parked in the `select` of `Send`
  | try1 (m : Msg)   -- at the first `select` of `TrySend`
  | try2 (m : Msg)   -- at the second `select` of `TrySend`
  deriving DecidableEq, Repr

/-- Program counter of the receiver. -/
inductive RPc where
  | idle
  | next    -- parked in the `select` of `pipeStream.Next`
  | drain   -- at the nested non-blocking `select` of the `<-s.senderDone` arm
  deriving DecidableEq, Repr

structure Sender where
  pc : SPc := .idle
  /-- the context of the call in flight has expired -/
  ctx : Bool := false
  /-- ghost: every message a `Send`/`TrySend` of this goroutine was started with, in order -/
  sent : List Msg := []
  deriving DecidableEq, Repr

structure State where
  /-- capacity of the data channel `c` -/
  cap : Nat
  /-- contents of `c` (head = oldest) -/
  buf : List Msg := []
  /-- `senderDone` is closed -/
  senderDone : Bool := false
  /-- `*senderErr ≠ nil` -/
  senderErr : Bool := false
  /-- `streamDone` is closed -/
  streamDone : Bool := false
  senders : List Sender
  rpc : RPc := .idle
  /-- the context of the `Next` in flight has expired -/
  rctx : Bool := false
  /-- ghost: messages whose send on `c` succeeded, in commit order -/
  acked : List Msg := []
  /-- ghost: those of them that were committed while the sender was not yet closed -/
  ackedBC : List Msg := []
  /-- ghost: messages returned by `Next`, in order -/
  delivered : List Msg := []
  /-- ghost: a `Next` has reported the end / the close error -/
  endReported : Bool := false
  deriving DecidableEq, Repr

/-- Channel expressions as they appear in the source (gofmt-normalised, spaces removed). -/
abbrev chCtx : String := "ctx.Done()"
abbrev chStreamDone : String := "s.streamDone"
abbrev chSenderDone : String := "s.senderDone"
abbrev chData : String := "s.c"

inductive Label where
  -- environment
  | startSend (i : Nat) (v : Int) (ctxDone : Bool)
  | startTry (i : Nat) (v : Int) (ctxDone : Bool)
  | startNext (ctxDone : Bool)
  | cancelSender (i : Nat)
  | cancelNext
  | closeSender (err : Bool)
  | closeRecv
  -- internal: sender `i` fires arm `a` of the select it is parked in
  | sender (i : Nat) (a : Arm)
  -- internal: the receiver fires arm `a` of the select it is parked in
  | recv (a : Arm)
  -- internal: rendez-vous on the unbuffered data channel between sender `i` and the receiver
  | handoff (i : Nat)
  deriving DecidableEq, Repr

def Label.internal : Label → Bool
  | .sender .. | .recv .. | .handoff .. => true
  | _ => false

def SPc.msg? : SPc → Option Msg
  | .idle => none
  | .send m | .try1 m | .try2 m => some m

/-- The `select` table a sender goroutine is parked in. -/
def tableOf : SPc → List Arm
  | .idle => []
  | .send _ => sendArms
  | .try1 _ => trySendArms1
  | .try2 _ => trySendArms2

def bodiesOf : SPc → List (Arm × List String)
  | .idle => []
  | .send _ => sendBodies
  | .try1 _ => trySendBodies1
  | .try2 _ => trySendBodies2

/-- Where control goes when an arm with an empty body was taken (the statement after the select). -/
def SPc.fallThrough : SPc → SPc
  | .try1 m => .try2 m
  | _ => .idle

/-- Program counter after arm `a` fired: an arm whose body is empty falls through to the next
statement, every other body of these functions ends in `return`. -/
def SPc.after (pc : SPc) (a : Arm) : SPc :=
  if (bodiesOf pc).lookup a == some [] then pc.fallThrough else .idle

def rtableOf : RPc → List Arm
  | .idle => []
  | .next => nextArms
  | .drain => nextDrainArms

/-- Readiness of a non-default arm of a sender's select, rendez-vous not counted. -/
def sReady (st : State) (sd : Sender) : Arm → Bool
  | .recv ch => (ch == chCtx && sd.ctx) || (ch == chStreamDone && st.streamDone) ||
      (ch == chSenderDone && st.senderDone)
  | .send ch => ch == chData && decide (st.buf.length < st.cap)
  | .dflt => false

/-- Readiness of a non-default arm of the receiver's select, rendez-vous not counted. -/
def rReady (st : State) : Arm → Bool
  | .recv ch => (ch == chCtx && st.rctx) || (ch == chData && !st.buf.isEmpty) ||
      (ch == chSenderDone && st.senderDone)
  | _ => false

/-- The sender is parked in a select that offers a send on the data channel. -/
def offers (sd : Sender) : Bool := (tableOf sd.pc).contains (.send chData)

/-- The receiver is parked in a select that accepts a value from the data channel. -/
def accepts (st : State) : Bool := (rtableOf st.rpc).contains (.recv chData)

/-- Rendez-vous between `sd` and the receiver is possible. -/
def canHandoff (st : State) (sd : Sender) : Bool := st.cap == 0 && offers sd && accepts st

/-- `default` of a sender's select: only when no other arm can proceed. -/
def sDefaultReady (st : State) (sd : Sender) : Bool :=
  (tableOf sd.pc).all (fun a => !sReady st sd a) && !canHandoff st sd

/-- `default` of the receiver's select. -/
def rDefaultReady (st : State) : Bool :=
  (rtableOf st.rpc).all (fun a => !rReady st a) && !(st.senders.any (canHandoff st))

def State.setSender (st : State) (i : Nat) (sd : Sender) : State :=
  { st with senders := st.senders.set i sd }

/-- Ghost bookkeeping of a successful send on `c`. -/
def commit (st : State) (m : Msg) : State :=
  { st with acked := st.acked ++ [m],
            ackedBC := if st.senderDone then st.ackedBC else st.ackedBC ++ [m] }

def reportEnd (st : State) : State := { st with rpc := .idle, endReported := true }

def startCall (st : State) (i : Nat) (v : Int) (c : Bool) (mk : Msg → SPc) : Option State :=
  match st.senders[i]? with
  | none => none
  | some sd =>
    if sd.pc = .idle then
      let m : Msg := ⟨i, sd.sent.length, v⟩
      some (st.setSender i { pc := mk m, ctx := c, sent := sd.sent ++ [m] })
    else none

def step (st : State) : Label → Option State
  | .startSend i v c => startCall st i v c .send
  | .startTry i v c => startCall st i v c .try1
  | .startNext c =>
    if st.rpc = .idle ∧ st.streamDone = false then some { st with rpc := .next, rctx := c } else none
  | .cancelSender i =>
    match st.senders[i]? with
    | none => none
    | some sd => if sd.pc = .idle then none else some (st.setSender i { sd with ctx := true })
  | .cancelNext => if st.rpc = .idle then none else some { st with rctx := true }
  | .closeSender e =>
    if st.senderDone then none else some { st with senderDone := true, senderErr := e }
  | .closeRecv =>
    if st.streamDone = false ∧ st.rpc = .idle then some { st with streamDone := true } else none
  | .sender i a =>
    match st.senders[i]? with
    | none => none
    | some sd =>
      match sd.pc.msg? with
      | none => none
      | some m =>
        if (tableOf sd.pc).contains a then
          match a with
          | .recv _ =>
            if sReady st sd a then some (st.setSender i { sd with pc := sd.pc.after a }) else none
          | .send _ =>
            if sReady st sd a then
              some { commit (st.setSender i { sd with pc := sd.pc.after a }) m with buf := st.buf ++ [m] }
            else none
          | .dflt =>
            if sDefaultReady st sd then some (st.setSender i { sd with pc := sd.pc.after a }) else none
        else none
  | .handoff i =>
    match st.senders[i]? with
    | none => none
    | some sd =>
      match sd.pc.msg? with
      | none => none
      | some m =>
        if canHandoff st sd then
          some { commit (st.setSender i { sd with pc := sd.pc.after (.send chData) }) m with
                 rpc := .idle, delivered := st.delivered ++ [m] }
        else none
  | .recv a =>
    if (rtableOf st.rpc).contains a then
      match a with
      | .recv ch =>
        if rReady st a then
          if ch == chData then
            match st.buf with
            | [] => none
            | m :: rest => some { st with buf := rest, delivered := st.delivered ++ [m], rpc := .idle }
          else if ch == chSenderDone then
            if st.rpc = .next ∧ nextDrains = true then some { st with rpc := .drain }
            else some (reportEnd st)
          else some { st with rpc := .idle }
        else none
      | .dflt => if st.rpc = .drain ∧ rDefaultReady st = true then some (reportEnd st) else none
      | .send _ => none
    else none

def init (n : Nat) (bufferSize : Nat) : State :=
  { cap := (chanCap bufferSize).toNat, senders := List.replicate n {} }

/-- States reachable from `s0` under any schedule and any environment. -/
inductive Reach (s0 : State) : State → Prop
  | refl : Reach s0 s0
  | step {s s' : State} {l : Label} : Reach s0 s → step s l = some s' → Reach s0 s'

/-- Runs a list of labels. -/
def run (st : State) : List Label → Option State
  | [] => some st
  | l :: ls => match step st l with
    | none => none
    | some st' => run st' ls

/-! ## What the labels mean for an observer (used by the conformance driver and by the statements
of the theorems) -/

/-- The step reports the end / the close error to the receiver. -/
def reportsEnd (st : State) : Label → Bool
  | .recv (.recv ch) => ch == chSenderDone && !(st.rpc = .next ∧ nextDrains = true)
  | .recv .dflt => true
  | _ => false

/-- The step hands a value to the receiver. -/
def deliversValue : Label → Bool
  | .recv (.recv ch) => ch == chData
  | .handoff _ => true
  | _ => false


/-! ## Results of the calls, as the harness canonicalises them (`nil ctx closed err true false end
v<value>`). The value a call returns when an arm fires is read off the regenerated arm body; a body
this model does not know yields `?`, which no observation matches. -/

def bodyResult (st : State) (body : Option (List String)) (head : Option Msg) : String :=
  match body with
  | some ["return ctx.Err()"] => "ctx"
  | some ["return ErrClosedPipe"] => "closed"
  | some ["return *s.senderErr"] => if st.senderErr then "err" else "nil"
  | some ["return nil"] => "nil"
  | some ["return false, ctx.Err()"] => "ctx"
  | some ["return false, ErrClosedPipe"] => "closed"
  | some ["return false, *s.senderErr"] => if st.senderErr then "err" else "false"
  | some ["return true, nil"] => "true"
  | some ["return false, nil"] => "false"
  | some ["return zero, ctx.Err()"] => "ctx"
  | some ["bind item:=", "return item, nil"] =>
    match head with
    | some m => s!"v{m.val}"
    | none => "?"
  | _ => "?"

/-- What `Next` returns when it reports: the statements after the drain must be the known ones. -/
def endResult (st : State) : String :=
  if nextEndStmts == ["err := *s.senderErr", "if err != nil {", "return zero, err", "}", "return zero, End"] then
    (if st.senderErr then "err" else "end")
  else "?"

def rbodiesOf : RPc → List (Arm × List String)
  | .idle => []
  | .next => nextBodies
  | .drain => nextDrainBodies

/-- The calls that return in the step `st --l-->`, with their results (`s<i>=…`, `n=…`). -/
def completions (st : State) (l : Label) : List String :=
  match l with
  | .sender i a =>
    match st.senders[i]? with
    | none => []
    | some sd =>
      if sd.pc.after a = .idle then [s!"s{i}={bodyResult st ((bodiesOf sd.pc).lookup a) none}"] else []
  | .handoff i =>
    match st.senders[i]? with
    | none => []
    | some sd =>
      (if sd.pc.after (.send chData) = .idle then
        [s!"s{i}={bodyResult st ((bodiesOf sd.pc).lookup (.send chData)) none}"] else []) ++
      [s!"n={bodyResult st ((rbodiesOf st.rpc).lookup (.recv chData)) sd.pc.msg?}"]
  | .recv a =>
    if reportsEnd st l then [s!"n={endResult st}"]
    else match a with
      | .recv ch =>
        if ch == chSenderDone then []   -- moved on to the drain
        else [s!"n={bodyResult st ((rbodiesOf st.rpc).lookup a) st.buf.head?}"]
      | _ => []
  | _ => []

/-! ## Static facts about the regenerated tables that the model relies on -/

/-- Every arm in the tables is one this model knows how to interpret. -/
def tablesKnown : Bool :=
  sameArms sendArms [.recv chCtx, .recv chStreamDone, .recv chSenderDone, .send chData] &&
  sameArms trySendArms1 [.recv chCtx, .recv chStreamDone, .recv chSenderDone, .dflt] &&
  sameArms trySendArms2 [.send chData, .dflt] &&
  sameArms nextArms [.recv chCtx, .recv chData, .recv chSenderDone] &&
  (nextDrainArms == [] || sameArms nextDrainArms [.recv chData, .dflt]) &&
  sendSelects == 1 && trySendSelects == 2 && nextSelects == (if nextDrains then 2 else 1)

/-- `Pipe` hands the same three channels and the same error cell to both halves, the two broadcast
channels are unbuffered, `Close` stores the error before it closes `senderDone`. -/
def wiringOK : Bool :=
  senderWiring == [("c", "c"), ("senderDone", "senderDone"), ("senderErr", "senderErr"), ("streamDone", "streamDone")] &&
  receiverWiring == senderWiring &&
  makes.lookup "senderDone" == some "make(chanstruct{})" &&
  makes.lookup "streamDone" == some "make(chanstruct{})" &&
  makes.lookup "senderErr" == some "new(error)" &&
  senderCloseStmts == ["*s.senderErr = err", "close(s.senderDone)"] &&
  receiverCloseStmts == ["close(s.streamDone)"]

end Juniper.Model.Pipe
