import Juniper.Facts
import Juniper.Generated.Pipe
/-!
# Model of `stream.Pipe` (C10, Pipe clauses of C08): a labelled transition system

One label = one atomic step of one goroutine: an environment action (a call is started in a
goroutine, a context expires, a `Close`) or one arm of the `select` statement the goroutine is
parked in. Which arms exist is *not* written here: `step` interprets the arm tables regenerated from
`stream/stream.go` (`Juniper.Gen.Pipe.sendArms`, `trySendArms1/2`, `nextArms`, `nextDrainArms`), whether
an arm returns or falls through to the next statement comes from the regenerated arm bodies, and
whether `Next` drains the data channel before it reports the end is `Gen.Pipe.nextDrains`.

Hand-written (tied by the conformance check in `harness-sched/c10`): the meaning of a ready arm
(Go channel semantics: buffered send/receive, rendez-vous when the capacity is 0, `default` only
when nothing else is ready, closed channels always ready), and the ghost logs.

## Polling and parking (the runtime semantics of `select` that is modelled)

A call that arrives at a `select` first *polls* its arms. If an arm can proceed it fires (label
`sender i a` / `recv a`; any of several ready arms). If none can: a `select` with a `default` takes the
`default`; a `select` without one — the `select` of `Send`, the outer `select` of `Next` — *parks*: it puts
itself into the wait queues of its channels (label `park i` / `parkRecv`, one atomic step, as in the Go
runtime where poll and enqueue happen under the channel locks). The pcs `send m parked` / `next parked`
carry that flag. A parked call fires an arm as soon as one becomes ready (it is woken up).

Rendez-vous on the unbuffered data channel (label `handoff i`): the polling side must find its partner
*in the wait queue*, i.e. exactly one of the two calls is parked (`canHandoff`). Hence
* two polling calls never meet directly: one of them parks first, the other one's poll then finds it
  (two steps — this is how a blocking `Send` and a blocking `Next` meet);
* in particular the two *non-blocking* selects — the second `select` of `TrySend` (`try2`) and the drain
  `select` of `Next` (`drain`) — can never rendez-vous with each other: neither ever parks, both take
  their `default` (`TrySend` returns `false`, `Next` reports the end);
* `TrySend` on an unbuffered pipe succeeds iff a `Next` is parked, the drain receives from an unbuffered
  pipe iff a `Send` is parked.
`startSend`/`startNext` only put the call *at* its `select` (not yet polled), so "the goroutine was
started but has not reached the `select`" is covered by delaying the first internal step of the call.

Remaining abstractions (all *over*-approximations — the LTS has more schedules than the runtime, every
runtime schedule is matched by an LTS schedule with the same results): a parked sender completes its
send by an own step when there is room in the buffer (the runtime lets the receiver that frees the
slot move the oldest parked sender's value in: wait queues are FIFO, the LTS lets any parked or
polling sender take the slot); a parked receiver takes a value from the buffer by an own step after
the sender buffered it (the runtime hands it over directly); both calls of a rendez-vous return in
the `handoff` step (the runtime wakes the parked one, which returns a little later with the same result).
-/
namespace Juniper.Model.Pipe
open Juniper.Facts
open Juniper.Gen.Pipe

/-- A value travelling through the pipe, tagged (ghost) with its sender and its position in that
sender's sequence of `Send`/`TrySend` calls. -/
structure Msg where
  sender : Nat
  seq : Nat
  val : Int
  deriving DecidableEq, Repr

/-- Program counter of a sender goroutine. -/
inductive SPc where
  | idle
  | send (m : Msg) (parked : Bool)   -- at the `select` of `Send`: polling (`false`) or parked in the wait queues (`true`)
  | try1 (m : Msg)   -- at the first `select` of `TrySend`
  | try2 (m : Msg)   -- at the second `select` of `TrySend`
  deriving DecidableEq, Repr

/-- Program counter of the receiver. -/
inductive RPc where
  | idle
  | next (parked : Bool)   -- at the `select` of `pipeStream.Next`: polling (`false`) or parked (`true`)
  | drain   -- at the nested non-blocking `select` of the `<-s.senderDone` arm
  deriving DecidableEq, Repr

structure Sender where
  pc : SPc := .idle
  /-- the context of the call in flight has expired -/
  ctx : Bool := false
  /-- ghost: every message a `Send`/`TrySend` of this goroutine was started with, in order -/
  sent : List Msg := []
  deriving DecidableEq, Repr

structure State where
  /-- capacity of the data channel `c` -/
  cap : Nat
  /-- contents of `c` (head = oldest) -/
  buf : List Msg := []
  /-- `senderDone` is closed -/
  senderDone : Bool := false
  /-- `*senderErr ≠ nil` -/
  senderErr : Bool := false
  /-- `streamDone` is closed -/
  streamDone : Bool := false
  senders : List Sender
  rpc : RPc := .idle
  /-- the context of the `Next` in flight has expired -/
  rctx : Bool := false
  /-- ghost: messages whose send on `c` succeeded, in commit order -/
  acked : List Msg := []
  /-- ghost: those of them that were committed while the sender was not yet closed -/
  ackedBC : List Msg := []
  /-- ghost: messages returned by `Next`, in order -/
  delivered : List Msg := []
  /-- ghost: a `Next` has reported the end / the close error -/
  endReported : Bool := false
  deriving DecidableEq, Repr

/-- Channel expressions as they appear in the source (gofmt-normalised, spaces removed). -/
abbrev chCtx : String := "ctx.Done()"
abbrev chStreamDone : String := "s.streamDone"
abbrev chSenderDone : String := "s.senderDone"
abbrev chData : String := "s.c"

inductive Label where
  -- environment
  | startSend (i : Nat) (v : Int) (ctxDone : Bool)
  | startTry (i : Nat) (v : Int) (ctxDone : Bool)
  | startNext (ctxDone : Bool)
  | cancelSender (i : Nat)
  | cancelNext
  | closeSender (err : Bool)
  | closeRecv
  -- internal: sender `i` fires arm `a` of the select it is parked in
  | sender (i : Nat) (a : Arm)
  -- internal: the receiver fires arm `a` of the select it is parked in
  | recv (a : Arm)
  -- internal: rendez-vous on the unbuffered data channel between sender `i` and the receiver
  | handoff (i : Nat)
  -- internal: the poll of the blocking `select` of sender `i`'s `Send` found nothing ready: it parks
  | park (i : Nat)
  -- internal: the poll of the blocking `select` of `Next` found nothing ready: it parks
  | parkRecv
  deriving DecidableEq, Repr

def Label.internal : Label → Bool
  | .sender .. | .recv .. | .handoff .. | .park .. | .parkRecv => true
  | _ => false

def SPc.msg? : SPc → Option Msg
  | .idle => none
  | .send m _ | .try1 m | .try2 m => some m

/-- The call is parked in the wait queues of its channels (only the blocking `select` of `Send` parks). -/
def SPc.parked : SPc → Bool
  | .send _ p => p
  | _ => false

/-- The receiver is parked (only the outer, blocking `select` of `Next` parks). -/
def RPc.parked : RPc → Bool
  | .next p => p
  | _ => false

/-- The receiver is at the outer `select` of `Next`. -/
def RPc.isNext : RPc → Bool
  | .next _ => true
  | _ => false

/-- The `select` table a sender goroutine is parked in. -/
def tableOf : SPc → List Arm
  | .idle => []
  | .send _ _ => sendArms
  | .try1 _ => trySendArms1
  | .try2 _ => trySendArms2

def bodiesOf : SPc → List (Arm × List String)
  | .idle => []
  | .send _ _ => sendBodies
  | .try1 _ => trySendBodies1
  | .try2 _ => trySendBodies2

/-- Where control goes when an arm with an empty body was taken (the statement after the select). -/
def SPc.fallThrough : SPc → SPc
  | .try1 m => .try2 m
  | _ => .idle

/-- Program counter after arm `a` fired: an arm whose body is empty falls through to the next
statement, every other body of these functions ends in `return`. -/
def SPc.after (pc : SPc) (a : Arm) : SPc :=
  if (bodiesOf pc).lookup a == some [] then pc.fallThrough else .idle

def rtableOf : RPc → List Arm
  | .idle => []
  | .next _ => nextArms
  | .drain => nextDrainArms

/-- Readiness of a non-default arm of a sender's select, rendez-vous not counted. -/
def sReady (st : State) (sd : Sender) : Arm → Bool
  | .recv ch => (ch == chCtx && sd.ctx) || (ch == chStreamDone && st.streamDone) ||
      (ch == chSenderDone && st.senderDone)
  | .send ch => ch == chData && decide (st.buf.length < st.cap)
  | .dflt => false

/-- Readiness of a non-default arm of the receiver's select, rendez-vous not counted. -/
def rReady (st : State) : Arm → Bool
  | .recv ch => (ch == chCtx && st.rctx) || (ch == chData && !st.buf.isEmpty) ||
      (ch == chSenderDone && st.senderDone)
  | _ => false

/-- The sender is at a select that offers a send on the data channel. -/
def offers (sd : Sender) : Bool := (tableOf sd.pc).contains (.send chData)

/-- The receiver is at a select that accepts a value from the data channel. -/
def accepts (st : State) : Bool := (rtableOf st.rpc).contains (.recv chData)

/-- Rendez-vous between `sd` and the receiver is possible: the channel is unbuffered, one side offers,
the other accepts, and **exactly one of the two is parked** — the polling side finds its partner in the
channel's wait queue. Two polling selects do not see each other (Go: a non-blocking send succeeds only
if a receiver is waiting in `recvq`, a non-blocking receive only if a sender is waiting in `sendq`; the
poll of a blocking select likewise), two parked ones cannot exist on an unbuffered channel
(`Proofs/PipeInv.lean`, `Inv.queue`). -/
def canHandoff (st : State) (sd : Sender) : Bool :=
  st.cap == 0 && offers sd && accepts st && (sd.pc.parked != st.rpc.parked)

/-- The poll of a sender's select finds nothing that can proceed: a select with a `default` takes it,
the blocking select of `Send` parks. -/
def sDefaultReady (st : State) (sd : Sender) : Bool :=
  (tableOf sd.pc).all (fun a => !sReady st sd a) && !canHandoff st sd

/-- The poll of the receiver's select finds nothing that can proceed (`default` of the drain; the outer
select of `Next` parks). -/
def rDefaultReady (st : State) : Bool :=
  (rtableOf st.rpc).all (fun a => !rReady st a) && !(st.senders.any (canHandoff st))

def State.setSender (st : State) (i : Nat) (sd : Sender) : State :=
  { st with senders := st.senders.set i sd }

/-- Ghost bookkeeping of a successful send on `c`. -/
def commit (st : State) (m : Msg) : State :=
  { st with acked := st.acked ++ [m],
            ackedBC := if st.senderDone then st.ackedBC else st.ackedBC ++ [m] }

def reportEnd (st : State) : State := { st with rpc := .idle, endReported := true }

def startCall (st : State) (i : Nat) (v : Int) (c : Bool) (mk : Msg → SPc) : Option State :=
  match st.senders[i]? with
  | none => none
  | some sd =>
    if sd.pc = .idle then
      let m : Msg := ⟨i, sd.sent.length, v⟩
      some (st.setSender i { pc := mk m, ctx := c, sent := sd.sent ++ [m] })
    else none

def step (st : State) : Label → Option State
  | .startSend i v c => startCall st i v c (fun m => .send m false)
  | .startTry i v c => startCall st i v c .try1
  | .startNext c =>
    if st.rpc = .idle ∧ st.streamDone = false then some { st with rpc := .next false, rctx := c } else none
  | .cancelSender i =>
    match st.senders[i]? with
    | none => none
    | some sd => if sd.pc = .idle then none else some (st.setSender i { sd with ctx := true })
  | .cancelNext => if st.rpc = .idle then none else some { st with rctx := true }
  | .closeSender e =>
    if st.senderDone then none else some { st with senderDone := true, senderErr := e }
  | .closeRecv =>
    if st.streamDone = false ∧ st.rpc = .idle then some { st with streamDone := true } else none
  | .sender i a =>
    match st.senders[i]? with
    | none => none
    | some sd =>
      match sd.pc.msg? with
      | none => none
      | some m =>
        if (tableOf sd.pc).contains a then
          match a with
          | .recv _ =>
            if sReady st sd a then some (st.setSender i { sd with pc := sd.pc.after a }) else none
          | .send _ =>
            if sReady st sd a then
              some { commit (st.setSender i { sd with pc := sd.pc.after a }) m with buf := st.buf ++ [m] }
            else none
          | .dflt =>
            if sDefaultReady st sd then some (st.setSender i { sd with pc := sd.pc.after a }) else none
        else none
  | .handoff i =>
    match st.senders[i]? with
    | none => none
    | some sd =>
      match sd.pc.msg? with
      | none => none
      | some m =>
        if canHandoff st sd then
          some { commit (st.setSender i { sd with pc := sd.pc.after (.send chData) }) m with
                 rpc := .idle, delivered := st.delivered ++ [m] }
        else none
  | .recv a =>
    if (rtableOf st.rpc).contains a then
      match a with
      | .recv ch =>
        if rReady st a then
          if ch == chData then
            match st.buf with
            | [] => none
            | m :: rest => some { st with buf := rest, delivered := st.delivered ++ [m], rpc := .idle }
          else if ch == chSenderDone then
            if (st.rpc.isNext && nextDrains) = true then some { st with rpc := .drain }
            else some (reportEnd st)
          else some { st with rpc := .idle }
        else none
      | .dflt => if st.rpc = .drain ∧ rDefaultReady st = true then some (reportEnd st) else none
      | .send _ => none
    else none
  | .park i =>
    match st.senders[i]? with
    | none => none
    | some sd =>
      match sd.pc with
      | .send m false =>
        if sDefaultReady st sd then some (st.setSender i { sd with pc := .send m true }) else none
      | _ => none
  | .parkRecv =>
    if st.rpc = .next false ∧ rDefaultReady st = true then some { st with rpc := .next true } else none

def init (n : Nat) (bufferSize : Nat) : State :=
  { cap := (chanCap bufferSize).toNat, senders := List.replicate n {} }

/-- States reachable from `s0` under any schedule and any environment. -/
inductive Reach (s0 : State) : State → Prop
  | refl : Reach s0 s0
  | step {s s' : State} {l : Label} : Reach s0 s → step s l = some s' → Reach s0 s'

/-- Runs a list of labels. -/
def run (st : State) : List Label → Option State
  | [] => some st
  | l :: ls => match step st l with
    | none => none
    | some st' => run st' ls

/-! ## What the labels mean for an observer (used by the conformance driver and by the statements
of the theorems) -/

/-- The step reports the end / the close error to the receiver. -/
def reportsEnd (st : State) : Label → Bool
  | .recv (.recv ch) => ch == chSenderDone && !(st.rpc.isNext && nextDrains)
  | .recv .dflt => true
  | _ => false

/-- The step hands a value to the receiver. -/
def deliversValue : Label → Bool
  | .recv (.recv ch) => ch == chData
  | .handoff _ => true
  | _ => false


/-! ## Results of the calls

What a call returns when an arm fires is read off the regenerated arm body; a body this model does
not know yields `unknown`, which no observation matches. `Res.token` is the spelling the harness
uses (`nil ctx closed err true false end v<value>`). -/

/-- Canonical result of a call. -/
inductive Res where
  | nil       -- `Send`: `nil`
  | ctx       -- the context's error
  | closed    -- `ErrClosedPipe`
  | err       -- the (non-nil) error the sender was closed with
  | tru       -- `TrySend`: `(true, nil)`
  | fls       -- `TrySend`: `(false, nil)`
  | fin       -- `Next`: `End`
  | val (v : Int)   -- `Next`: `(v, nil)`
  | unknown
  deriving DecidableEq, Repr

/-- Which call returns. -/
inductive Who where
  | sender (i : Nat)
  | recv
  deriving DecidableEq, Repr

def Res.token : Res → String
  | .nil => "nil" | .ctx => "ctx" | .closed => "closed" | .err => "err" | .tru => "true" | .fls => "false"
  | .fin => "end" | .val v => s!"v{v}" | .unknown => "?"

def showCompletion : Who × Res → String
  | (.sender i, r) => s!"s{i}={r.token}"
  | (.recv, r) => s!"n={r.token}"

def bodyResult (st : State) (body : Option (List String)) (head : Option Msg) : Res :=
  match body with
  | some ["return ctx.Err()"] => .ctx
  | some ["return ErrClosedPipe"] => .closed
  | some ["return *s.senderErr"] => if st.senderErr then .err else .nil
  | some ["return nil"] => .nil
  | some ["return false, ctx.Err()"] => .ctx
  | some ["return false, ErrClosedPipe"] => .closed
  | some ["return false, *s.senderErr"] => if st.senderErr then .err else .fls
  | some ["return true, nil"] => .tru
  | some ["return false, nil"] => .fls
  | some ["return zero, ctx.Err()"] => .ctx
  | some ["bind item:=", "return item, nil"] =>
    match head with
    | some m => .val m.val
    | none => .unknown
  | _ => .unknown

/-- What `Next` returns when it reports: the statements after the drain must be the known ones. -/
def endResult (st : State) : Res :=
  if nextEndStmts == ["err := *s.senderErr", "if err != nil {", "return zero, err", "}", "return zero, End"] then
    (if st.senderErr then .err else .fin)
  else .unknown

def rbodiesOf : RPc → List (Arm × List String)
  | .idle => []
  | .next _ => nextBodies
  | .drain => nextDrainBodies

/-- The calls that return in the step `st --l-->`, with their results. A call returns in the step in
which the arm it fires has a non-empty body (every such body ends in `return`: control skeleton); the
`default` of the drain has an empty body and falls through to the report (`nextEndStmts`). -/
def completions (st : State) (l : Label) : List (Who × Res) :=
  match l with
  | .sender i a =>
    match st.senders[i]? with
    | none => []
    | some sd =>
      if sd.pc.after a = .idle then [(.sender i, bodyResult st ((bodiesOf sd.pc).lookup a) none)] else []
  | .handoff i =>
    match st.senders[i]? with
    | none => []
    | some sd =>
      (if sd.pc.after (.send chData) = .idle then
        [(Who.sender i, bodyResult st ((bodiesOf sd.pc).lookup (.send chData)) none)] else []) ++
      [(.recv, bodyResult st ((rbodiesOf st.rpc).lookup (.recv chData)) sd.pc.msg?)]
  | .recv a =>
    match a with
    | .recv ch =>
      if ch == chSenderDone then
        (if (st.rpc.isNext && nextDrains) = true then [] /- moved on to the drain -/ else [(.recv, endResult st)])
      else [(.recv, bodyResult st ((rbodiesOf st.rpc).lookup a) st.buf.head?)]
    | .dflt =>
      if (rbodiesOf st.rpc).lookup .dflt == some [] then [(.recv, endResult st)]
      else [(.recv, bodyResult st ((rbodiesOf st.rpc).lookup .dflt) none)]
    | .send _ => []
  | _ => []

/-- The value-carrying calls of senders that return *success* in the step `st --l-->`: the message of
a `Send` that returns `nil`, of a `TrySend` that returns `true`. -/
def okReturns (st : State) (l : Label) : List Msg :=
  match l with
  | .sender i _ | .handoff i =>
    match st.senders[i]? with
    | none => []
    | some sd =>
      match sd.pc.msg? with
      | none => []
      | some m =>
        if (completions st l).contains (.sender i, .nil) || (completions st l).contains (.sender i, .tru)
        then [m] else []
  | _ => []

/-- The messages whose `Send`/`TrySend` returned success **before the sender was closed**, along the run
`ls` from `st` (in the order of the returns): the "values whose Send returned nil before Close" of the
property text, read off the results of the calls. -/
def okBeforeClose (st : State) : List Label → List Msg
  | [] => []
  | l :: ls =>
    match step st l with
    | none => []
    | some st' => (if st.senderDone then [] else okReturns st l) ++ okBeforeClose st' ls

/-- All calls that return along the run `ls` from `st`, with their results, in order. -/
def runCompletions (st : State) : List Label → List (Who × Res)
  | [] => []
  | l :: ls =>
    match step st l with
    | none => []
    | some st' => completions st l ++ runCompletions st' ls

/-! ## Static facts about the regenerated tables that the model relies on -/

/-- Every arm in the tables is one this model knows how to interpret. -/
def tablesKnown : Bool :=
  sameArms sendArms [.recv chCtx, .recv chStreamDone, .recv chSenderDone, .send chData] &&
  sameArms trySendArms1 [.recv chCtx, .recv chStreamDone, .recv chSenderDone, .dflt] &&
  sameArms trySendArms2 [.send chData, .dflt] &&
  sameArms nextArms [.recv chCtx, .recv chData, .recv chSenderDone] &&
  (nextDrainArms == [] || sameArms nextDrainArms [.recv chData, .dflt]) &&
  sendSelects == 1 && trySendSelects == 2 && nextSelects == (if nextDrains then 2 else 1)

/-- `Pipe` hands the same three channels and the same error cell to both halves, the data channel is
`make(chan T, bufferSize)` (its capacity expression is `chanCap`), the two broadcast channels are unbuffered, `Close` stores the error before it closes `senderDone`. -/
def wiringOK : Bool :=
  senderWiring == [("c", "c"), ("senderDone", "senderDone"), ("senderErr", "senderErr"), ("streamDone", "streamDone")] &&
  receiverWiring == senderWiring &&
  makes.lookup "c" == some "make(chanT,bufferSize)" &&
  makes.lookup "senderDone" == some "make(chanstruct{})" &&
  makes.lookup "streamDone" == some "make(chanstruct{})" &&
  makes.lookup "senderErr" == some "new(error)" &&
  senderCloseStmts == ["*s.senderErr = err", "close(s.senderDone)"] &&
  receiverCloseStmts == ["close(s.streamDone)"]

end Juniper.Model.Pipe
