import Juniper.Generated.XTime
/-!
# Executable model of `xtime` (C20)

`SleepContext`: the immediate decision is the composition of the generated guards
(`Gen.XTime.sleepNonPositive`, `sleepChecksDeadline`, `sleepRemaining`, `sleepTooSoon`), the wait is a
two-arm LTS whose arms and results are the generated `sleepSelect` table and `sleepArm*Ret`.

`JitterTicker`: an LTS with one label per atomic step (every critical section of the Go code is
held under `t.m`; that is re-established on every run by the generated `newLocked` / `resetLocked` /
`stopLocked` facts and by the regenerated statement lists of the callback, of `Stop` and of `Reset`
having exactly the shape the labels mirror - `cbMirrored`, `stopMirrored`, `resetMirrored`; if one
of them is false the model sets `unmodelled`, which the theorems exclude): environment labels
`advance`, `recv`, `reset`, `stop`; internal labels `fire` (the runtime starts the `AfterFunc`
goroutine of a due timer) and `runCb` (that goroutine takes the mutex and runs). The value delivered
by the random source (`rand.Int63n`, or the accepted draw of the `rand.Uint64` rejection loop) is part
of the label. Ghost fields: `sent` (every tick put into the channel, with the `d - jitter` in force),
`stopped`.

The arithmetic of `schedule` (`schedRandBound`, `schedRejects`, `schedNext`) is generated with Go's
fixed-width semantics (`wrap64` / `wrapU64` of `Juniper.Facts`): `t.d` and `t.jitter` are int64 values
and every overflow of the source is an overflow of the model. Instants (`now`, `due`, timestamps) are
mathematical integers: `now + next` is the instant the runtime is asked to fire the timer at (the Go
runtime saturates its internal `when`; a timer that far away never fires - trusted runtime).
-/
namespace Juniper.Model.XTime
open Juniper.Facts Juniper.Gen.XTime

/-! ## SleepContext -/

/-- `time.Time{}` relative to any clock origin the harness uses: far in the past. Only reached by
mutants that read the deadline although `ok` is false. -/
def zeroTime : Int := -(2 ^ 62)

/-- What `SleepContext` decides before it blocks: `some r` = returns `r` at once. -/
def sleepDecision (d : Int) (deadline : Option Int) (now : Int) : Option Ret :=
  if sleepNonPositive d then some sleepNonPositiveRet
  else if sleepChecksDeadline deadline.isSome
        && sleepTooSoon (sleepRemaining now (deadline.getD zeroTime)) d then some sleepTooSoonRet
  else none

inductive Phase where
  | idle
  | waiting (timerDue : Int)
  | returned (r : Ret) (t : Int)
  deriving DecidableEq, Repr

structure SState where
  now : Int
  d : Int
  deadline : Option Int
  ctxDone : Bool
  /-- ghost: instant of the call -/
  start : Int
  phase : Phase
  deriving DecidableEq, Repr

inductive SLabel where
  | advance (dt : Int)
  | cancel
  | expire
  | enter
  | arm (k : Nat)
  deriving DecidableEq, Repr

/-- Is the `select` arm ready? Channel names are those of the source. -/
def armReady (s : SState) (due : Int) : Arm → Bool
  | .recv ch => if ch == "ctx.Done()" then s.ctxDone else if ch == "t.C" then decide (due ≤ s.now) else false
  | _ => false

/-- What the k-th arm of the `select` returns. -/
def armRet (k : Nat) : Option Ret := [sleepArm0Ret, sleepArm1Ret][k]?

def sstep (s : SState) : SLabel → Option SState
  | .advance dt => if 0 ≤ dt then some { s with now := s.now + dt } else none
  | .cancel => some { s with ctxDone := true }
  | .expire =>
    match s.deadline with
    | some dl => if dl ≤ s.now then some { s with ctxDone := true } else none
    | none => none
  | .enter =>
    match s.phase with
    | .idle =>
      match sleepDecision s.d s.deadline s.now with
      | some r => some { s with start := s.now, phase := .returned r s.now }
      | none => some { s with start := s.now, phase := .waiting (s.now + sleepTimerDur s.d) }
    | _ => none
  | .arm k =>
    match s.phase with
    | .waiting due =>
      match sleepSelect[k]?, armRet k with
      | some a, some r => if armReady s due a then some { s with phase := .returned r s.now } else none
      | _, _ => none
    | _ => none

inductive SReach (s0 : SState) : SState → Prop where
  | refl : SReach s0 s0
  | step {s s' : SState} (l : SLabel) : SReach s0 s → sstep s l = some s' → SReach s0 s'

/-- A call made at `now` with a context whose `Done` is already closed iff `done`. -/
def sInit (now d : Int) (deadline : Option Int) (done : Bool) : SState :=
  { now := now, d := d, deadline := deadline, ctxDone := done, start := now, phase := .idle }

/-- Executable summary used by the conformance driver: all `(result, elapsed)` pairs the LTS allows
for a call at instant 0 when the context's `Done` closes at `ctxAt` (`none` = never; `some c` with
`c ≤ 0` = already closed) and timers/contexts fire exactly on time (virtual time). -/
def sleepOutcomes (d : Int) (deadline : Option Int) (ctxAt : Option Int) : List (Ret × Int) :=
  match sleepDecision d deadline 0 with
  | some r => [(r, 0)]
  | none =>
    let due := sleepTimerDur d
    let ctxAt' := ctxAt.map (fun c => max c 0)
    -- the first instant at which some arm is ready
    let tTimer : Option Int := if sleepSelect.contains (.recv "t.C") then some (max due 0) else none
    let tCtx : Option Int := if sleepSelect.contains (.recv "ctx.Done()") then ctxAt' else none
    let first : Option Int := match tTimer, tCtx with
      | some a, some b => some (min a b)
      | some a, none => some a
      | none, some b => some b
      | none, none => none
    match first with
    | none => []
    | some t =>
      (List.range sleepSelect.length).filterMap fun k =>
        match sleepSelect[k]?, armRet k with
        | some a, some r =>
          let ready := match a with
            | .recv ch => if ch == "ctx.Done()" then (match ctxAt' with | some c => decide (c ≤ t) | none => false)
                          else if ch == "t.C" then decide (max due 0 ≤ t) else false
            | _ => false
          if ready then some (r, t) else none
        | _, _ => none

/-! ## JitterTicker -/

structure Timer where
  due : Int
  gen : Int
  deriving DecidableEq, Repr

structure TState where
  now : Int
  d : Int
  jitter : Int
  gen : Int
  /-- `t.timer != nil` -/
  hasTimer : Bool
  /-- the runtime timer `t.timer` points to, while armed -/
  timer : Option Timer
  /-- armed timers no longer referenced (only arise when a `Stop()` call was dropped) -/
  orphans : List Timer
  /-- started `AfterFunc` goroutines that have not yet taken the mutex (captured `gen`) -/
  pending : List Int
  /-- the tick channel (buffer of capacity `tickChanCap`) -/
  chan : List Int
  /-- a call panicked while holding `t.m`: the mutex stays locked, nothing can happen any more -/
  panicked : Bool
  /-- the call of the last label panicked (validation panics leave the ticker untouched) -/
  lastPanic : Bool
  /-- a critical section is no longer bracketed by the mutex: the model's atomic steps are unjustified -/
  unmodelled : Bool
  /-- ghost: ticks put into the channel, newest first: (timestamp, `d - jitter` in force) -/
  sent : List (Int × Int)
  /-- ghost: `Stop` returned and no `Reset` since -/
  stopped : Bool
  deriving DecidableEq, Repr

inductive TLabel where
  | advance (dt : Int)
  | fire (k : Nat)
  | runCb (i : Nat) (r : Int)
  | recv
  | reset (d j r : Int)
  | stop
  deriving DecidableEq, Repr

/-- What the random source can deliver to `schedule()` for this jitter: `none` = `rand.Int63n` is
called with an argument `≤ 0` and panics; `some b` = `b` says whether `r` is a possible (accepted)
value. On the `rand.Int63n` path that is `0 ≤ r < bound`; on the path of the rejection loop over
`rand.Uint64` every uint64 value the loop condition does not throw away (rejected draws change
nothing and are not labels); on a path without a draw only the dummy value 0. -/
def drawOk (jitter r : Int) : Option Bool :=
  if schedUsesInt63n jitter then
    let bound := schedRandBound jitter
    if bound ≤ 0 then none else some (decide (0 ≤ r ∧ r < bound))
  else if schedUsesUint64 jitter then
    some (decide (0 ≤ r ∧ r < 18446744073709551616) && !schedRejects jitter r)
  else some (decide (r = 0))

/-- `schedule()`, called with the mutex held; `r` is what the random source delivers. `none`: `r` is
not a possible value. -/
def schedule (s : TState) (r : Int) : Option TState :=
  let orph := if schedStopsOld then s.orphans else s.timer.toList ++ s.orphans
  match drawOk s.jitter r with
  | none => some { s with panicked := true, lastPanic := true, timer := none, orphans := orph }
  | some false => none
  | some true =>
    let gen' := s.gen + schedBumpsGen
    let captured := if schedCapturesGen then gen' else s.gen
    some { s with
      gen := gen', hasTimer := true, orphans := orph,
      timer := some ⟨s.now + schedNext s.d s.jitter r, captured⟩ }

/-- `p` is a prefix / suffix of the statement text `s` (on character lists: reducible by `decide`). -/
def hasPrefix (p s : String) : Bool := p.toList.isPrefixOf s.toList
def hasSuffix (p s : String) : Bool := p.toList.reverse.isPrefixOf s.toList.reverse

/-- The statement list of the timer callback has the shape the label `runCb` mirrors: the whole body
is one critical section of `t.m` - lock; test (`cbGenOk`); inside the test the non-blocking send
(`cbSelect`) and then the re-arming; unlock - with nothing else in it. -/
def cbMirrored : Bool :=
  match cbStmts with
  | [lock, test, sel, sched, close, unlock] =>
    lock == "t.m.Lock()" && hasPrefix "if " test && hasSuffix " {" test && hasPrefix "select {" sel &&
      sched == "t.schedule()" && close == "}" && unlock == "t.m.Unlock()"
  | _ => false

/-- `Stop` is exactly: lock; stop the timer; bump `gen`; clear the timer; unlock (label `stop`). -/
def stopMirrored : Bool :=
  stopStmts == ["t.m.Lock()", "t.timer.Stop()", "t.gen++", "t.timer = nil", "t.m.Unlock()"]

/-- `Reset` is exactly: the two validation panics (before the lock); lock; store `d`, `jitter`;
`schedule()`; unlock (label `reset`). The guards and panics themselves: `resetPanicsD/J`. -/
def resetMirrored : Bool :=
  match resetStmts with
  | [if1, p1, c1, if2, p2, c2, lock, sd, sj, sched, unlock] =>
    hasPrefix "if " if1 && hasPrefix "panic(" p1 && c1 == "}" && hasPrefix "if " if2 && hasPrefix "panic(" p2 &&
      c2 == "}" && lock == "t.m.Lock()" && sd == "t.d = d" && sj == "t.jitter = jitter" &&
      sched == "t.schedule()" && unlock == "t.m.Unlock()"
  | _ => false

/-- `NewJitterTicker(d, jitter)` at instant `now`. -/
def create (now d j r : Int) : Option TState :=
  let s0 : TState :=
    { now := now, d := d, jitter := j, gen := 0, hasTimer := false, timer := none,
      orphans := [], pending := [], chan := [], panicked := false, lastPanic := false,
      unmodelled := !newLocked, sent := [],
      stopped := false }
  if newPanicsD d j || newPanicsJ d j then (if r = 0 then some { s0 with panicked := true, lastPanic := true } else none)
  else schedule s0 r

/-- The non-blocking send of the callback. `none`: the goroutine blocks forever (no `default`). -/
def cbSend (s : TState) : Option TState :=
  if cbSelect.contains (.send "t.c") && decide ((s.chan.length : Int) < tickChanCap) then
    some { s with chan := s.chan ++ [s.now], sent := (s.now, s.d - s.jitter) :: s.sent }
  else if cbSelect.contains .dflt then some s
  else none

def tstep (s0 : TState) (l : TLabel) : Option TState :=
  if s0.panicked then none else
  let s := { s0 with lastPanic := false }
  match l with
  | .advance dt => if 0 ≤ dt then some { s with now := s.now + dt } else none
  | .fire 0 =>
    match s.timer with
    | some t => if t.due ≤ s.now then some { s with timer := none, pending := s.pending ++ [t.gen] } else none
    | none => none
  | .fire (k + 1) =>
    match s.orphans[k]? with
    | some t => if t.due ≤ s.now then some { s with orphans := s.orphans.eraseIdx k, pending := s.pending ++ [t.gen] } else none
    | none => none
  | .runCb i r =>
    match s.pending[i]? with
    | none => none
    | some g =>
      let s0 := { s with pending := s.pending.eraseIdx i, unmodelled := s.unmodelled || !cbMirrored }
      if cbGenOk s0.gen g then
        match cbSend s0 with
        | some s1 => schedule s1 r
        | none => none
      else if r = 0 then some s0 else none
  | .recv =>
    match s.chan with
    | _ :: rest => some { s with chan := rest }
    | [] => none
  | .reset d j r =>
    if resetPanicsD d j || resetPanicsJ d j then (if r = 0 then some { s with lastPanic := true } else none)
    else schedule { s with d := d, jitter := j, stopped := false, unmodelled := s.unmodelled || !(resetLocked && resetMirrored) } r
  | .stop =>
    if stopStopsTimer && !s.hasTimer then some { s with panicked := true, lastPanic := true }
    else some { s with
      timer := none,
      orphans := if stopStopsTimer then s.orphans else s.timer.toList ++ s.orphans,
      gen := s.gen + stopBumpsGen,
      hasTimer := if stopClearsTimer then false else s.hasTimer,
      unmodelled := s.unmodelled || !(stopLocked && stopMirrored),
      stopped := true }

inductive TReach (s0 : TState) : TState → Prop where
  | refl : TReach s0 s0
  | step {s s' : TState} (l : TLabel) : TReach s0 s → tstep s l = some s' → TReach s0 s'

/-! ### Executable exploration (conformance driver) -/

/-- The values of the random source the conformance engine enumerates: all of them when they are few
(the harness uses jitters of a few ns for the scripts it checks against the model), the two ends of
the range otherwise (`rand.Int63n` path) - scripts with large jitter are judged by the monitors only -,
one dummy value when `schedule` would panic. -/
def randChoices (jitter : Int) : List Int :=
  if schedUsesInt63n jitter then
    let b := schedRandBound jitter
    if b ≤ 0 then [0]
    else if b ≤ 4096 then (List.range b.toNat).map Int.ofNat
    else [0, b - 1]
  else [0]

/-- all internal (runtime / callback goroutine) successors of `s` -/
def internalSucc (s : TState) : List TState :=
  let fires := (List.range (s.orphans.length + 1)).filterMap fun k => tstep s (.fire k)
  let cbs := (List.range s.pending.length).flatMap fun i =>
    (0 :: randChoices s.jitter).eraseDups.filterMap fun r => tstep s (.runCb i r)
  fires ++ cbs

def insertNew (acc : List TState) (s : TState) : List TState := if acc.contains s then acc else s :: acc

/-- all states reachable by internal steps (including the start states) -/
def internalReach (fuel : Nat) (todo seen : List TState) : List TState :=
  match fuel, todo with
  | 0, _ => seen
  | _, [] => seen
  | fuel + 1, s :: rest =>
    if seen.contains s then internalReach fuel rest seen
    else internalReach fuel (internalSucc s ++ rest) (s :: seen)

def isQuiescent (s : TState) : Bool := (internalSucc s).isEmpty

/-- earliest due time among armed timers -/
def nextDue (s : TState) : Option Int :=
  ((s.timer.toList ++ s.orphans).map (·.due)).foldl (fun acc x => match acc with | none => some x | some a => some (min a x)) none

/-- Canonical representative for the state-set engine: the ghost log is dropped, and when no callback
goroutine is in flight the generation numbers (only ever compared for equality) are renumbered. -/
def canon (s : TState) : TState :=
  let s := { s with sent := [] }
  if s.pending.isEmpty && s.orphans.isEmpty then
    { s with gen := 0, timer := s.timer.map fun t => { t with gen := if t.gen = s.gen then 0 else -1 } }
  else s

/-- minimum of a list of instants -/
def minOf : List Int → Option Int
  | [] => none
  | x :: xs => some (xs.foldl min x)

/-- Virtual time: let the clock run to `target`; before it moves, everything runnable has run.
All states of the set share `now`. The result states are at `target`, with the timers due exactly at
`target` not yet fired. `fuel` bounds the number of distinct firing instants. -/
def advanceTo (fuel : Nat) (target : Int) (S : List TState) : List TState :=
  match fuel with
  | 0 => []
  | fuel + 1 =>
    let Q := (((internalReach 100000 S []).filter isQuiescent).map canon).eraseDups
    match minOf (Q.filterMap nextDue) with
    | some t =>
      if t < target then advanceTo fuel target (Q.map fun q => { q with now := max t q.now })
      else Q.map fun q => { q with now := max target q.now }
    | none => Q.map fun q => { q with now := max target q.now }

end Juniper.Model.XTime
