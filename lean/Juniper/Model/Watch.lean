import Juniper.Generated.Watch
/-!
# Models for C18: typed `xsync.Map`, `Watchable`, `Future`, `Lazy`

* `SMap` is `sync.Map` by its documented behaviour over interface values `Any U := Option U`
  (`none` = the nil interface). The typed wrapper is the code's: call `sync.Map`, then assert the
  result back to the type parameter in the form (`plain` / `commaOk`) and behind the guard that
  gofacts finds in the source today (`MapCfg.gen`).
  `Range` is `sync.Map.Range` (calls the closure sequentially for each entry, stops when it returns
  false) applied to the closure whose statements gofacts classifies (`MapCfg.gen.rangeBody`): the
  typed callback's result stops the iteration only because the closure ends in `return f(key, value)`.
* `Watchable`, `Future` and `Lazy` are labelled transition systems, one label = one atomic step
  of one goroutine (one `atomic.Pointer` operation, one channel operation); their shape is tied to
  the classified statement lists / select table / declared field types of the source through
  `WCfg.gen` (Watchable), `FCfg.gen` (Future) and `lazyOnceGen` (Lazy).
-/
namespace Juniper.Model.Watch
open Juniper.Facts
open Juniper.Gen.Watch (AssertForm WOp MOp ROp)

/-! ## sync.Map by its specification -/

/-- an interface value: `none` is the nil interface, `some u` a non-nil dynamic value -/
abbrev Any (U : Type) := Option U

/-- `sync.Map`: a finite map from interface keys to interface values (no duplicate keys) -/
abbrev SMap (UK UV : Type) := List (Any UK × Any UV)

section SyncMap
variable {UK UV : Type} [DecidableEq UK] [DecidableEq UV]

def SMap.find (m : SMap UK UV) (k : Any UK) : Option (Any UV) := (m.find? (fun p => p.1 == k)).map (·.2)

def SMap.erase (m : SMap UK UV) (k : Any UK) : SMap UK UV := m.filter (fun p => !(p.1 == k))

def SMap.put (m : SMap UK UV) (k : Any UK) (v : Any UV) : SMap UK UV :=
  if (m.find k).isSome then m.map (fun p => if p.1 == k then (k, v) else p) else m ++ [(k, v)]

/-- `Load`: the stored value and true, or nil and false -/
def SMap.load (m : SMap UK UV) (k : Any UK) : Any UV × Bool :=
  match m.find k with
  | some v => (v, true)
  | none => (none, false)

def SMap.store (m : SMap UK UV) (k : Any UK) (v : Any UV) : SMap UK UV := m.put k v

/-- `LoadOrStore`: the existing value and true, or store and return the given value and false -/
def SMap.loadOrStore (m : SMap UK UV) (k : Any UK) (v : Any UV) : SMap UK UV × Any UV × Bool :=
  match m.find k with
  | some cur => (m, cur, true)
  | none => (m.put k v, v, false)

/-- `LoadAndDelete` -/
def SMap.loadAndDelete (m : SMap UK UV) (k : Any UK) : SMap UK UV × Any UV × Bool :=
  match m.find k with
  | some cur => (m.erase k, cur, true)
  | none => (m, none, false)

def SMap.delete (m : SMap UK UV) (k : Any UK) : SMap UK UV := m.erase k

/-- `Swap`: store and return the previous value (nil, false if there was none) -/
def SMap.swap (m : SMap UK UV) (k : Any UK) (v : Any UV) : SMap UK UV × Any UV × Bool :=
  match m.find k with
  | some cur => (m.put k v, cur, true)
  | none => (m.put k v, none, false)

/-- `CompareAndSwap` -/
def SMap.compareAndSwap (m : SMap UK UV) (k : Any UK) (old new : Any UV) : SMap UK UV × Bool :=
  match m.find k with
  | some cur => if cur = old then (m.put k new, true) else (m, false)
  | none => (m, false)

/-- `CompareAndDelete` (false for an absent key, even if `old` is the nil interface) -/
def SMap.compareAndDelete (m : SMap UK UV) (k : Any UK) (old : Any UV) : SMap UK UV × Bool :=
  match m.find k with
  | some cur => if cur = old then (m.erase k, true) else (m, false)
  | none => (m, false)

/-- the entries in the order in which `Range` visits them (sync.Map leaves the order unspecified;
the model fixes it as insertion order, the harness compares order-independently) -/
def SMap.range (m : SMap UK UV) : List (Any UK × Any UV) := m

/-- `Range(g)` by sync.Map's documentation: "calls f sequentially for each key and value present
in the map. If f returns false, range stops the iteration." — the entries handed to `g`, in
order: every entry up to and including the first one on which `g` returns false. -/
def visitWhile (g : Any UK → Any UV → Bool) : List (Any UK × Any UV) → List (Any UK × Any UV)
  | [] => []
  | p :: rest => if g p.1 p.2 then p :: visitWhile g rest else [p]

def SMap.rangeWith (m : SMap UK UV) (g : Any UK → Any UV → Bool) : List (Any UK × Any UV) :=
  visitWhile g m.range

end SyncMap

/-! ## the typed wrapper -/

/-- How a type parameter relates to interface values. -/
structure Kind (T U : Type) where
  /-- conversion to `interface{}` when the value is passed to `sync.Map` -/
  toAny : T → Any U
  /-- a successful assertion `x.(T)` of a non-nil interface value -/
  ofDyn : U → T
  /-- the zero value of `T` -/
  zero : T

/-- what sync.Map's result *means* in `T`: nil is the zero value -/
def Kind.ofAny {T U : Type} (kd : Kind T U) : Any U → T
  | none => kd.zero
  | some u => kd.ofDyn u

/-- Every value of `T` survives the round trip through `interface{}`. -/
def Kind.Lawful {T U : Type} (kd : Kind T U) : Prop := ∀ t, kd.ofAny (kd.toAny t) = t

/-- a non-interface type parameter (`int`): conversion boxes the value, never nil -/
def concrete (T : Type) (zero : T) : Kind T T := { toAny := some, ofDyn := id, zero := zero }
/-- an interface type parameter (`error`, `any`): conversion is the identity, nil stays nil -/
def iface (U : Type) : Kind (Option U) U := { toAny := id, ofDyn := some, zero := none }

/-- outcome of a call: a result or a panic -/
inductive Out (α : Type) where
  | ok (a : α)
  | panic
  deriving DecidableEq, Repr

def Out.map {α β : Type} (f : α → β) : Out α → Out β
  | .ok a => .ok (f a)
  | .panic => .panic

/-- `sync.Map.Range` for a closure that has effects: one invocation yields what the closure did
(`α`) and its result (continue?), or panics (the panic propagates out of `Range`). The closure is
called sequentially for each entry and the iteration stops when it returns false. -/
def rangeG {UK UV α : Type} (g : Any UK → Any UV → Out (List α × Bool)) : List (Any UK × Any UV) → Out (List α)
  | [] => .ok []
  | p :: rest =>
    match g p.1 p.2 with
    | .panic => .panic
    | .ok (did, true) => (rangeG g rest).map (did ++ ·)
    | .ok (did, false) => .ok did

/-- the code's assertion of an interface value back to the type parameter -/
def assertT {T U : Type} (kd : Kind T U) : AssertForm → Any U → Out T
  | .plain, none => .panic                 -- `x.(T)` on the nil interface
  | .plain, some u => .ok (kd.ofDyn u)
  | .commaOk, x => .ok (kd.ofAny x)        -- `t, _ := x.(T)`: zero value for nil
  | .absent, _ => .panic                   -- the source has no assertion where one is expected

structure MapCfg where
  loadAssert : AssertForm
  loadGuard : Bool
  ladAssert : AssertForm
  ladGuard : Bool
  losAssert : AssertForm
  losGuard : Bool
  swapAssert : AssertForm
  swapGuard : Bool
  /-- the classified statements of the closure `Range` hands to `sync.Map.Range` -/
  rangeBody : List ROp
  /-- the bodies of Load/LoadAndDelete/LoadOrStore/Swap are `call; [guard;] assert; return` and
  nothing else, `Range` is `m.m.Range(closure)`, Store/Delete/CompareAndSwap/CompareAndDelete
  forward unchanged, the field `m` is a `sync.Map`, and these nine are all the methods `Map` has (nothing else reaches
  the inner map) -/
  forwards : Bool
  deriving DecidableEq, Repr

/-- the assertion form of a classified method body (`absent` if it has none) -/
def bodyForm : List MOp → AssertForm
  | [] => .absent
  | .assertV f :: _ => f
  | _ :: rest => bodyForm rest

def bodyGuard (b : List MOp) : Bool := b.contains .guardAbsent

/-- the body is exactly: the call into sync.Map, the optional absent-key guard, ONE assertion, the
return — this is the shape `guarded` below gives a meaning to; an extra statement (`.other _`), a
second call, a missing return make it false -/
def bodyShape (b : List MOp) : Bool :=
  b == [.call] ++ (if bodyGuard b then [.guardAbsent] else []) ++ [.assertV (bodyForm b), .ret]

def MapCfg.gen : MapCfg :=
  { loadAssert := bodyForm Gen.Watch.loadBody, loadGuard := bodyGuard Gen.Watch.loadBody
    ladAssert := bodyForm Gen.Watch.loadAndDeleteBody, ladGuard := bodyGuard Gen.Watch.loadAndDeleteBody
    losAssert := bodyForm Gen.Watch.loadOrStoreBody, losGuard := bodyGuard Gen.Watch.loadOrStoreBody
    swapAssert := bodyForm Gen.Watch.swapBody, swapGuard := bodyGuard Gen.Watch.swapBody
    rangeBody := Gen.Watch.rangeBody
    forwards := bodyShape Gen.Watch.loadBody && bodyShape Gen.Watch.loadAndDeleteBody
      && bodyShape Gen.Watch.loadOrStoreBody && bodyShape Gen.Watch.swapBody
      && Gen.Watch.rangeCalls && Gen.Watch.storeForwards && Gen.Watch.deleteForwards
      && Gen.Watch.casForwards && Gen.Watch.cadForwards
      && Gen.Watch.mapFields == [("m", "sync.Map")] && Gen.Watch.mapImportsSync
      && Gen.Watch.mapMethods == ["CompareAndDelete", "CompareAndSwap", "Delete", "Load", "LoadAndDelete", "LoadOrStore",
        "Range", "Store", "Swap"] }

section Typed
variable {K UK V UV : Type} [DecidableEq UK] [DecidableEq UV]

/-- result after the optional `if !ok { return zero, false }` guard and the assertion -/
def guarded (vk : Kind V UV) (form : AssertForm) (guard : Bool) (v : Any UV) (ok : Bool) : Out (V × Bool) :=
  if guard && !ok then .ok (vk.zero, false) else (assertT vk form v).map (fun t => (t, ok))

def tLoad (cfg : MapCfg) (kk : Kind K UK) (vk : Kind V UV) (m : SMap UK UV) (k : K) : SMap UK UV × Out (V × Bool) :=
  let r := m.load (kk.toAny k)
  (m, guarded vk cfg.loadAssert cfg.loadGuard r.1 r.2)

def tStore (kk : Kind K UK) (vk : Kind V UV) (m : SMap UK UV) (k : K) (v : V) : SMap UK UV × Out Unit :=
  (m.store (kk.toAny k) (vk.toAny v), .ok ())

def tDelete (kk : Kind K UK) (m : SMap UK UV) (k : K) : SMap UK UV × Out Unit :=
  (m.delete (kk.toAny k), .ok ())

def tLoadAndDelete (cfg : MapCfg) (kk : Kind K UK) (vk : Kind V UV) (m : SMap UK UV) (k : K) : SMap UK UV × Out (V × Bool) :=
  let r := m.loadAndDelete (kk.toAny k)
  (r.1, guarded vk cfg.ladAssert cfg.ladGuard r.2.1 r.2.2)

def tLoadOrStore (cfg : MapCfg) (kk : Kind K UK) (vk : Kind V UV) (m : SMap UK UV) (k : K) (v : V) : SMap UK UV × Out (V × Bool) :=
  let r := m.loadOrStore (kk.toAny k) (vk.toAny v)
  (r.1, guarded vk cfg.losAssert cfg.losGuard r.2.1 r.2.2)

def tSwap (cfg : MapCfg) (kk : Kind K UK) (vk : Kind V UV) (m : SMap UK UV) (k : K) (v : V) : SMap UK UV × Out (V × Bool) :=
  let r := m.swap (kk.toAny k) (vk.toAny v)
  (r.1, guarded vk cfg.swapAssert cfg.swapGuard r.2.1 r.2.2)

def tCompareAndSwap (kk : Kind K UK) (vk : Kind V UV) (m : SMap UK UV) (k : K) (old new : V) : SMap UK UV × Out Bool :=
  let r := m.compareAndSwap (kk.toAny k) (vk.toAny old) (vk.toAny new)
  (r.1, .ok r.2)

def tCompareAndDelete (kk : Kind K UK) (vk : Kind V UV) (m : SMap UK UV) (k : K) (old : V) : SMap UK UV × Out Bool :=
  let r := m.compareAndDelete (kk.toAny k) (vk.toAny old)
  (r.1, .ok r.2)

/-- registers of one invocation of the closure `Range` hands to `sync.Map.Range` -/
structure ClosureSt (K V : Type) where
  key : Option K := none
  value : Option V := none
  /-- the invocations of the typed callback `f` so far (arguments) -/
  calls : List (K × V) := []

/-- One invocation of that closure on the entry `(k, v)`, statement by statement (the list gofacts
classifies): what it called `f` with, and the closure's own result — which `sync.Map.Range`
takes as "keep going?". A statement the model does not understand, a use of `key`/`value` before
its assertion, or falling off the end (the closure must return a `bool`) is `.panic`: no theorem
about such a body can be proved. -/
def closureRun (kk : Kind K UK) (vk : Kind V UV) (f : K → V → Bool) (k : Any UK) (v : Any UV) :
    List ROp → ClosureSt K V → Out (List (K × V) × Bool)
  | [], _ => .panic
  | .assertKey form :: rest, st =>
    match assertT kk form k with
    | .ok k' => closureRun kk vk f k v rest { st with key := some k' }
    | .panic => .panic
  | .assertVal form :: rest, st =>
    match assertT vk form v with
    | .ok v' => closureRun kk vk f k v rest { st with value := some v' }
    | .panic => .panic
  | .retCallback :: _, st =>
    match st.key, st.value with
    | some k', some v' => .ok (st.calls ++ [(k', v')], f k' v')
    | _, _ => .panic
  | .callDiscard :: rest, st =>
    match st.key, st.value with
    | some k', some v' => closureRun kk vk f k v rest { st with calls := st.calls ++ [(k', v')] }
    | _, _ => .panic
  | .retConst b :: _, st => .ok (st.calls, b)
  | .other _ :: _, _ => .panic

/-- `Range(f)`: `sync.Map.Range` applied to the closure of the source. The result is the sequence
of invocations of the typed callback `f` (its arguments, in order), or a panic. -/
def tRange (cfg : MapCfg) (kk : Kind K UK) (vk : Kind V UV) (m : SMap UK UV) (f : K → V → Bool) : Out (List (K × V)) :=
  rangeG (fun k v => closureRun kk vk f k v cfg.rangeBody {}) m.range

end Typed

/-! ## Watchable -/

/-- what the model reads off `Watchable.Set` / `Value` and the declaration of `Watchable` -/
structure WCfg where
  /-- `Set`: allocate, `Swap`, then close the old channel … -/
  setClosesOld : Bool
  /-- … only `if oldInner != nil` -/
  setCloseGuarded : Bool
  /-- `Set` is one of the statement lists the model understands -/
  setShape : Bool
  /-- `Value` is exactly: load; if nil {make chan; empty cell; if CAS(nil, empty) {return zero, c}; reload}; return inner -/
  valueShape : Bool
  /-- the field `p` on which `Set` / `Value` call `Swap`, `Load`, `CompareAndSwap(nil, _)` is declared
  `atomic.Pointer[watchableInner[T]]` with `atomic` = sync/atomic (so each of those calls is ONE
  atomic step, which is what a label of `wstep` is), a cell is `{t T; c chan struct{}}`, and `Set` / `Value` are the
  only methods of `Watchable` (so the labels of `wstep` are all the code that can touch `p`: a `Reset` storing nil
  would make `Value`'s reload dereference nil) -/
  ptrAtomic : Bool
  deriving DecidableEq, Repr

def WCfg.std : WCfg :=
  { setClosesOld := true, setCloseGuarded := true, setShape := true, valueShape := true, ptrAtomic := true }

/-- the classified body of a `select` arm; an arm that is missing or listed twice has no meaning -/
def armBody (t : List (Arm × List WOp)) (a : Arm) : List WOp :=
  match t.filter (fun p => p.1 == a) with
  | [p] => p.2
  | [] => [.other "missing arm"]
  | _ => [.other "duplicate arm"]

def WCfg.gen : WCfg :=
  let s := Gen.Watch.setOps
  { setClosesOld := s.contains .closeOld
    setCloseGuarded := s.contains .ifOldNonNil
    setShape := s == [.alloc, .swap, .ifOldNonNil, .closeOld, .endBlock] || s == [.alloc, .swap, .closeOld] || s == [.alloc, .swap]
    valueShape := Gen.Watch.valueOps ==
      [.load, .ifInnerNil, .mkChan, .mkEmpty, .ifCas, .declZero, .retZeroC, .endBlock, .reload, .endBlock, .retInner]
    ptrAtomic := Gen.Watch.watchableFields == [("p", "atomic.Pointer[watchableInner[T]]")]
      && Gen.Watch.watchableInnerFields == [("t", "T"), ("c", "chan struct{}")]
      && Gen.Watch.watchableImportsAtomic
      && Gen.Watch.watchableMethods == ["Set", "Value"] }

/-- what the model reads off `Future` -/
structure FCfg where
  /-- `Fill` stores the value before closing the channel -/
  fillStoresFirst : Bool
  /-- `Fill` is store+close in either order; `NewFuture` is `&Future[T]{c: make(chan struct{})}` (an
  unbuffered, open channel), the fields are `c chan struct{}`, `x T`, and `Fill` / `Wait` / `WaitContext` are the only
  methods of `Future` (nothing else stores `x` or closes `c`) -/
  fillShape : Bool
  /-- `Wait` receives from the channel, then reads the value -/
  waitShape : Bool
  /-- `WaitContext`: select over ctx.Done() (returns zero, ctx.Err()) and f.c (falls through to return f.x, nil) -/
  waitCtxShape : Bool
  deriving DecidableEq, Repr

def FCfg.std : FCfg := { fillStoresFirst := true, fillShape := true, waitShape := true, waitCtxShape := true }

def FCfg.gen : FCfg :=
  { fillStoresFirst := Gen.Watch.fillOps == [.storeX, .closeC]
    fillShape := (Gen.Watch.fillOps == [.storeX, .closeC] || Gen.Watch.fillOps == [.closeC, .storeX])
      && Gen.Watch.futureChanArgs == 1 && Gen.Watch.newFutureBody
      && Gen.Watch.futureFields == [("c", "chan struct{}"), ("x", "T")]
      && Gen.Watch.futureMethods == ["Fill", "Wait", "WaitContext"]
    waitShape := Gen.Watch.futureWaitOps == [.recvC, .retX]
    waitCtxShape := Gen.Watch.waitContextOps == [.sel, .retXNil]
      && sameArms Gen.Watch.waitContextArms [.recv "ctx.Done()", .recv "f.c"]
      && armBody Gen.Watch.waitContextArmBodies (.recv "ctx.Done()") == [.declZero, .retZeroCtxErr]
      && armBody Gen.Watch.waitContextArmBodies (.recv "f.c") == [] }

/-- `Lazy` is `sync.OnceValue` (the body of `Lazy` is `return sync.OnceValue(f)`) -/
def lazyOnceGen : Bool := Gen.Watch.lazyIsOnceValue

/-- one `watchableInner`, identified by its channel (= its position in the order in which cells
became current); `val = none` is the zero value -/
structure Cell where
  val : Option Int
  closed : Bool
  /-- ghost: number of `Set`s that had swapped when this cell became current (0 for the empty
  cell installed by `Value`) -/
  epoch : Nat
  deriving DecidableEq, Repr

/-- a `Set(v)` call. Allocating the new cell is local to the goroutine and is folded into the
`Swap` step, which is the first step that other goroutines can observe. -/
inductive SetPc where
  | idle
  | swapped (old : Option Nat)
  | done
  | panicked
  deriving DecidableEq, Repr

/-- a `Value()` call; `done c lin` = returned cell `c`, `lin` (ghost) = number of `Set`s that had
swapped at its last read of the pointer. Allocating the empty cell is folded into the CAS step. -/
inductive ValPc where
  | idle
  | sawNil
  | casFailed
  | done (c : Nat) (lin : Nat)
  | panicked
  deriving DecidableEq, Repr

structure WState where
  /-- the `atomic.Pointer` -/
  ptr : Option Nat
  /-- every cell that has ever been current, in that order -/
  cells : List Cell
  setters : List (Int × SetPc)
  readers : List ValPc
  /-- ghost: the values in the order in which their `Set` swapped -/
  hist : List Int
  deriving DecidableEq, Repr

inductive WLabel where
  /-- `oldInner := w.p.Swap(newInner)` -/
  | swap (i : Nat)
  /-- `if oldInner != nil { close(oldInner.c) }` -/
  | close (i : Nat)
  /-- `inner := w.p.Load()` -/
  | load (j : Nat)
  /-- `w.p.CompareAndSwap(nil, emptyInner)` -/
  | cas (j : Nat)
  /-- `inner = w.p.Load()` after a failed CAS -/
  | reload (j : Nat)
  deriving DecidableEq, Repr

def winit (setVals : List Int) (readers : Nat) : WState :=
  { ptr := none, cells := [], setters := setVals.map (fun v => (v, .idle)),
    readers := List.replicate readers .idle, hist := [] }

def setSetter (s : WState) (i : Nat) (pc : SetPc) : WState :=
  { s with setters := s.setters.modify i (fun p => (p.1, pc)) }

def setReader (s : WState) (j : Nat) (pc : ValPc) : WState := { s with readers := s.readers.set j pc }

def cellAt (s : WState) (c : Nat) : Cell := (s.cells[c]?).getD { val := none, closed := false, epoch := 0 }

def wstep (cfg : WCfg) (s : WState) : WLabel → Option WState
  | .swap i =>
    match s.setters[i]? with
    | some (v, .idle) =>
      let hist := s.hist ++ [v]
      some (setSetter { s with ptr := some s.cells.length, hist := hist,
                               cells := s.cells ++ [{ val := some v, closed := false, epoch := hist.length }] } i (.swapped s.ptr))
    | _ => none
  | .close i =>
    match s.setters[i]? with
    | some (_, .swapped old) =>
      if !cfg.setClosesOld then some (setSetter s i .done)
      else match old with
        | none => if cfg.setCloseGuarded then some (setSetter s i .done) else some (setSetter s i .panicked)
        | some oc =>
          if (cellAt s oc).closed then some (setSetter s i .panicked)  -- close of a closed channel
          else some (setSetter { s with cells := s.cells.set oc { cellAt s oc with closed := true } } i .done)
    | _ => none
  | .load j =>
    match s.readers[j]? with
    | some .idle =>
      match s.ptr with
      | some c => some (setReader s j (.done c s.hist.length))
      | none => some (setReader s j .sawNil)
    | _ => none
  | .cas j =>
    match s.readers[j]? with
    | some .sawNil =>
      match s.ptr with
      | none => some (setReader { s with ptr := some s.cells.length,
                                         cells := s.cells ++ [{ val := none, closed := false, epoch := s.hist.length }] } j
                        (.done s.cells.length s.hist.length))
      | some _ =>
        if cfg.ptrAtomic then some (setReader s j .casFailed)
        else
          -- `p` is not an `atomic.Pointer`: nothing says that comparing and swapping is one step, so
          -- the model lets the swap happen although a `Set` came in between (it is smashed)
          some (setReader { s with ptr := some s.cells.length,
                                   cells := s.cells ++ [{ val := none, closed := false, epoch := s.hist.length }] } j
                  (.done s.cells.length s.hist.length))
    | _ => none
  | .reload j =>
    match s.readers[j]? with
    | some .casFailed =>
      match s.ptr with
      | some c => some (setReader s j (.done c s.hist.length))
      | none => some (setReader s j .panicked)  -- nil dereference
    | _ => none

inductive WReach (cfg : WCfg) : WState → Prop where
  | init (vals : List Int) (r : Nat) : WReach cfg (winit vals r)
  | step {s s' : WState} (l : WLabel) : WReach cfg s → wstep cfg s l = some s' → WReach cfg s'

def wrun (cfg : WCfg) : WState → List WLabel → Option WState
  | s, [] => some s
  | s, l :: ls => match wstep cfg s l with
    | some s' => wrun cfg s' ls
    | none => none

/-- `t` is reachable from `s` (zero or more steps of any goroutines) -/
inductive WSteps (cfg : WCfg) : WState → WState → Prop where
  | refl (s : WState) : WSteps cfg s s
  | step {s t u : WState} (l : WLabel) : WSteps cfg s t → wstep cfg t l = some u → WSteps cfg s u

/-- the label is a step of the `Value` call `j` -/
def WLabel.ofReader (j : Nat) : WLabel → Bool
  | .load k | .cas k | .reload k => k == j
  | _ => false

/-- the most recently `Set` value (`none` = the zero value before the first `Set`) -/
def latest (h : List Int) : Option Int := h.getLast?

/-! ## Future -/

inductive FillPc where
  | idle
  | stored
  | closedIt
  | done
  | panicked
  deriving DecidableEq, Repr

/-- result of a wait: the value read (`none` = zero value) or the context's error -/
inductive WaitRes where
  | val (x : Option Int)
  | ctxErr
  deriving DecidableEq, Repr

inductive WaitPc where
  | idle
  | blocked
  | passed
  | done (r : WaitRes)
  deriving DecidableEq, Repr

structure FWaiter where
  withCtx : Bool
  cancelled : Bool
  pc : WaitPc
  deriving DecidableEq, Repr

structure FState where
  x : Option Int
  closed : Bool
  fillers : List (Int × FillPc)
  waiters : List FWaiter
  deriving DecidableEq, Repr

inductive FLabel where
  /-- first statement of `Fill` -/
  | fill1 (i : Nat)
  /-- second statement of `Fill` -/
  | fill2 (i : Nat)
  /-- a `Wait` / `WaitContext` call begins -/
  | call (j : Nat)
  /-- the receive from the closed channel succeeds -/
  | recv (j : Nat)
  /-- `return f.x` -/
  | read (j : Nat)
  /-- the `<-ctx.Done()` arm fires -/
  | giveUp (j : Nat)
  | cancel (j : Nat)
  deriving DecidableEq, Repr

def finit (fillVals : List Int) (ws : List Bool) : FState :=
  { x := none, closed := false, fillers := fillVals.map (fun v => (v, .idle)),
    waiters := ws.map (fun c => { withCtx := c, cancelled := false, pc := .idle }) }

def setFiller (s : FState) (i : Nat) (pc : FillPc) : FState :=
  { s with fillers := s.fillers.modify i (fun p => (p.1, pc)) }

def setWaiter (s : FState) (j : Nat) (pc : WaitPc) : FState :=
  { s with waiters := s.waiters.modify j (fun w => { w with pc := pc }) }

def doStore (s : FState) (v : Int) : FState := { s with x := some v }
/-- `close(f.c)`: `none` = panic (already closed) -/
def doClose (s : FState) : Option FState := if s.closed then none else some { s with closed := true }

def fstep (cfg : FCfg) (s : FState) : FLabel → Option FState
  | .fill1 i =>
    match s.fillers[i]? with
    | some (v, .idle) =>
      if cfg.fillStoresFirst then some (setFiller (doStore s v) i .stored)
      else match doClose s with
        | some s' => some (setFiller s' i .closedIt)
        | none => some (setFiller s i .panicked)
    | _ => none
  | .fill2 i =>
    match s.fillers[i]? with
    | some (_, .stored) =>
      match doClose s with
      | some s' => some (setFiller s' i .done)
      | none => some (setFiller s i .panicked)
    | some (v, .closedIt) => some (setFiller (doStore s v) i .done)
    | _ => none
  | .call j =>
    match s.waiters[j]? with
    | some w => if w.pc = .idle then some (setWaiter s j .blocked) else none
    | none => none
  | .recv j =>
    match s.waiters[j]? with
    | some w => if w.pc = .blocked && s.closed then some (setWaiter s j .passed) else none
    | none => none
  | .read j =>
    match s.waiters[j]? with
    | some w => if w.pc = .passed then some (setWaiter s j (.done (.val s.x))) else none
    | none => none
  | .giveUp j =>
    match s.waiters[j]? with
    | some w => if w.pc = .blocked && w.withCtx && w.cancelled then some (setWaiter s j (.done .ctxErr)) else none
    | none => none
  | .cancel j =>
    match s.waiters[j]? with
    | some w => if w.cancelled then none else some { s with waiters := s.waiters.modify j (fun w => { w with cancelled := true }) }
    | none => none

inductive FReach (cfg : FCfg) : FState → Prop where
  | init (vals : List Int) (ws : List Bool) : FReach cfg (finit vals ws)
  | step {s s' : FState} (l : FLabel) : FReach cfg s → fstep cfg s l = some s' → FReach cfg s'

/-! ## Lazy = sync.OnceValue, by its specification (if the source says `return sync.OnceValue(f)`;
otherwise nothing is known about it and the model lets every call run `f`) -/

/-- How the single run of `f` ended — what `sync.OnceValue` hands to every caller: "If f panics, the
returned function will panic with the same value on every call." -/
inductive LOut where
  /-- `f` returned `v` -/
  | val (v : Int)
  /-- `f` panicked with `v` -/
  | pan (v : Int)
  deriving DecidableEq, Repr

inductive OnceSt where
  | fresh
  | running
  | done (o : LOut)
  deriving DecidableEq, Repr

inductive CallPc where
  | idle
  /-- this caller is the one executing `f` -/
  | inF
  /-- blocked in the `sync.Once` until the first call finishes -/
  | waiting
  /-- the call has ended: it returned `v` (`.val v`) or panicked with `v` (`.pan v`) -/
  | done (o : LOut)
  deriving DecidableEq, Repr

structure LState where
  once : OnceSt
  /-- ghost: how many times `f` has been started -/
  runs : Nat
  callers : List CallPc
  deriving DecidableEq, Repr

inductive LLabel where
  | enter (j : Nat)
  /-- the run of `f` on caller `j`'s goroutine ends: `f` returns `v` (`.val v`) or panics with `v`
  (`.pan v`; `sync.OnceValue` recovers the value, marks the `Once` done and re-panics) -/
  | finish (j : Nat) (o : LOut)
  | wake (j : Nat)
  deriving DecidableEq, Repr

def linit (n : Nat) : LState := { once := .fresh, runs := 0, callers := List.replicate n .idle }

def lstep (once : Bool) (s : LState) : LLabel → Option LState
  | .enter j =>
    match s.callers[j]? with
    | some .idle =>
      if !once then some { s with runs := s.runs + 1, callers := s.callers.set j .inF } else
      match s.once with
      | .fresh => some { once := .running, runs := s.runs + 1, callers := s.callers.set j .inF }
      | .running => some { s with callers := s.callers.set j .waiting }
      | .done o => some { s with callers := s.callers.set j (.done o) }
    | _ => none
  | .finish j o =>
    match s.callers[j]? with
    | some .inF => some { s with once := .done o, callers := s.callers.set j (.done o) }
    | _ => none
  | .wake j =>
    match s.callers[j]?, s.once with
    | some .waiting, .done o => some { s with callers := s.callers.set j (.done o) }
    | _, _ => none

inductive LReach (once : Bool) : LState → Prop where
  | init (n : Nat) : LReach once (linit n)
  | step {s s' : LState} (l : LLabel) : LReach once s → lstep once s l = some s' → LReach once s'

end Juniper.Model.Watch
