import Juniper.Generated.Par
import Juniper.Generated.ParDoFacts
import Juniper.Generated.SkeletonPar
/-!
# Model of `parallel.Do` / `DoContext` — C13 (the wrappers `Map` / `MapContext`: `Model/ParWrap.lean`)

A labelled transition system: one label = one atomic step of one goroutine (the atomic add on the
shared counter together with the bound test, the `ctx.Err()` test, the call of `f`, the return of
`f` (environment), the errgroup bookkeeping of a worker that returned an error, `Wait` returning).
All interleavings of the workers are the reachable states. The guards (`parallelism <= 0`,
`parallelism > n`, `parallelism == 1`, `i >= n`, the counter's initial value and increment, the loop
bounds), the bodies of the two clamp statements (which variable gets which value) and the `init` / `post`
clauses of the sequential loop and of the spawn loop are the expressions regenerated from
`parallel/parallel.go` (`Juniper.Gen.Par`, `Juniper.Gen.ParDoFacts`); they enter through the record
`Code`, instantiated once for `Do` and once for `DoContext`.

`f` is the environment: `begin` hands it an index (and, for `DoContext`, a context whose state at
entry is recorded), `fEnd` makes it return an arbitrary result. Core Lean only.
-/
namespace Juniper.Model.ParDo
open Juniper.Gen

/-- The anchored expressions of one of the two function bodies. -/
structure Code where
  ctxMode : Bool
  clampLow : Int → Bool
  /-- body of the first clamp: the pair (parallelism, n) after it, given (parallelism, n, GOMAXPROCS) -/
  lowAssign : Int → Int → Int → Int × Int
  clampHigh : Int → Int → Bool
  /-- body of the second clamp, likewise -/
  highAssign : Int → Int → Int → Int × Int
  isSeq : Int → Bool
  /-- `for i := seqInit; seqLoop i n; i = seqPost i` -/
  seqInit : Int
  seqLoop : Int → Int → Bool
  seqPost : Int → Int
  seqStops : Bool → Bool
  counterInit : Int
  counterDelta : Int
  fetch : Int → Int
  workerDone : Int → Int → Bool
  workerCancelled : Bool → Bool
  workerFailed : Bool → Bool
  /-- `for j := spawnInit; spawnLoop j parallelism; j = spawnPost j` -/
  spawnInit : Int
  spawnLoop : Int → Int → Bool
  spawnPost : Int → Int
  /-- conjunction of the presence-of-statement facts of the body -/
  structural : Bool
  /-- the control skeletons of the body (top level, sequential path, worker loop: statement kinds in source
  order, identifiers normalised away, `Juniper.Gen.SkeletonPar`) are the ones `step` was written against -/
  skeleton : Bool

/-- `parallel.Do` as it is in the source now. -/
def doCode : Code where
  ctxMode := false
  clampLow := Par.doClampLow
  lowAssign := ParDoFacts.doClampLowAssign
  clampHigh := Par.doClampHigh
  highAssign := ParDoFacts.doClampHighAssign
  isSeq := Par.doSeq
  seqInit := ParDoFacts.doSeqInit
  seqLoop := Par.doSeqLoop
  seqPost := ParDoFacts.doSeqPost
  seqStops := fun b => b
  counterInit := Par.doCounterInit
  counterDelta := Par.doCounterDelta
  fetch := Par.doFetch
  workerDone := Par.doWorkerDone
  workerCancelled := fun b => b
  workerFailed := fun b => b
  spawnInit := ParDoFacts.doSpawnInit
  spawnLoop := Par.doSpawnLoop
  spawnPost := ParDoFacts.doSpawnPost
  structural := Par.doSeqCalls && Par.doSeqReturns && Par.doSpawnsGoroutine && Par.doWorkerReturnsWhenDone
    && Par.doWorkerCalls && Par.doFetchBeforeCall && Par.doWgAdd && Par.doWgDone && Par.doWgWait
    && Par.doAddBeforeWait
  -- `Do`: clamp low, clamp high, sequential fast path (`for …; return`), counter, wait group, `wg.Add`, spawn
  -- loop of `go` statements, `wg.Wait()`, `return`; sequential path: `for … { f(i) }; return`; worker:
  -- `defer wg.Done()`, then forever: fetch, `if … { return }`, `f(i)`
  skeleton := decide (
    SkeletonPar.pskelDo =
      ["if{assign}", "if{assign}", "if{for{..};return}", "define", "decl", "mcall", "for{go{..}}", "mcall", "return"]
    ∧ SkeletonPar.pskelDoSeq = ["for{call}", "return"]
    ∧ SkeletonPar.pskelDoWorker = ["defer", "forever{define;if{return};call}"])

/-- `parallel.DoContext` as it is in the source now. -/
def dcCode : Code where
  ctxMode := true
  clampLow := Par.dcClampLow
  lowAssign := ParDoFacts.dcClampLowAssign
  clampHigh := Par.dcClampHigh
  highAssign := ParDoFacts.dcClampHighAssign
  isSeq := Par.dcSeq
  seqInit := ParDoFacts.dcSeqInit
  seqLoop := Par.dcSeqLoop
  seqPost := ParDoFacts.dcSeqPost
  seqStops := Par.dcSeqStops
  counterInit := Par.dcCounterInit
  counterDelta := Par.dcCounterDelta
  fetch := Par.dcFetch
  workerDone := Par.dcWorkerDone
  workerCancelled := Par.dcWorkerCancelled
  workerFailed := Par.dcWorkerFailed
  spawnInit := ParDoFacts.dcSpawnInit
  spawnLoop := Par.dcSpawnLoop
  spawnPost := ParDoFacts.dcSpawnPost
  structural := Par.dcSeqCalls && Par.dcSeqReturnsErr && Par.dcSeqReturnsNil && Par.dcErrgroup
    && Par.dcWorkerReturnsNilWhenDone && Par.dcWorkerReturnsCtxErr && Par.dcWorkerCalls
    && Par.dcWorkerReturnsErr && Par.dcFetchBeforeCheck && Par.dcCheckBeforeCall
    && Par.dcSpawnsViaErrgroup && Par.dcReturnsWait
  -- `DoContext`: clamp low, clamp high, sequential fast path, counter, errgroup, spawn loop of `eg.Go(func …)`,
  -- `return eg.Wait()`; sequential path: `for … { err := f(ctx, i); if err != nil { return err } }; return nil`;
  -- worker: forever: fetch, done?, cancelled?, call, failed?
  skeleton := decide (
    SkeletonPar.pskelDoContext =
      ["if{assign}", "if{assign}", "if{for{..};return}", "define", "define", "for{mcall{..}}", "return"]
    ∧ SkeletonPar.pskelDoContextSeq = ["for{define;if{return}}", "return"]
    ∧ SkeletonPar.pskelDoContextWorker = ["forever{define;if{return};if{return};define;if{return}}"])

/-- What the proofs need to know about the anchored expressions. Discharged for `doCode` and
`dcCode` from the regenerated definitions (`Proofs/ParDo*.lean`): an operator flipped in the source
makes that proof fail. -/
structure Code.Sound (c : Code) : Prop where
  clampLow : ∀ p, c.clampLow p = decide (p ≤ 0)
  /-- `parallelism = runtime.GOMAXPROCS(-1)`: parallelism becomes GOMAXPROCS, `n` is untouched -/
  lowAssign : ∀ p n g, c.lowAssign p n g = (g, n)
  clampHigh : ∀ p n, c.clampHigh p n = decide (p > n)
  /-- `parallelism = n`: parallelism becomes `n`, `n` is untouched -/
  highAssign : ∀ p n g, c.highAssign p n g = (n, n)
  isSeq : ∀ p, c.isSeq p = decide (p = 1)
  seqInit : c.seqInit = 0
  seqLoop : ∀ i n, c.seqLoop i n = decide (i < n)
  seqPost : ∀ i, c.seqPost i = i + 1
  seqStops : ∀ b, c.seqStops b = b
  counterInit : c.counterInit = -1
  counterDelta : c.counterDelta = 1
  fetch : ∀ x, c.fetch x = x
  workerDone : ∀ i n, c.workerDone i n = decide (i ≥ n)
  workerCancelled : ∀ b, c.workerCancelled b = b
  workerFailed : ∀ b, c.workerFailed b = b
  spawnInit : c.spawnInit = 0
  spawnLoop : ∀ j p, c.spawnLoop j p = decide (j < p)
  spawnPost : ∀ j, c.spawnPost j = j + 1
  structural : c.structural = true
  /-- the statement order `step` hard-wires is the one of the source (a hypothesis like the others: nothing in
  `Proofs/` proves it, every property theorem discharges it by `decide`) -/
  skeleton : c.skeleton = true

structure Cfg where
  code : Code
  /-- requested parallelism -/
  P : Int
  n : Nat
  /-- `runtime.GOMAXPROCS(-1)` -/
  gmp : Nat

/-- the pair (parallelism, n) after the first clamp statement `if clampLow parallelism { <lowAssign> }` -/
def afterLow (cfg : Cfg) : Int × Int :=
  if cfg.code.clampLow cfg.P then cfg.code.lowAssign cfg.P cfg.n cfg.gmp else (cfg.P, (cfg.n : Int))

/-- the pair (parallelism, n) after the second clamp statement `if clampHigh parallelism n { <highAssign> }` -/
def afterHigh (cfg : Cfg) : Int × Int :=
  let pn := afterLow cfg
  if cfg.code.clampHigh pn.1 pn.2 then cfg.code.highAssign pn.1 pn.2 cfg.gmp else pn

/-- parallelism after the first clamp (`if parallelism <= 0 { parallelism = GOMAXPROCS }`): the requested parallelism -/
def reqPar (cfg : Cfg) : Int := (afterLow cfg).1

/-- parallelism after the second clamp (`if parallelism > n { parallelism = n }`): the effective parallelism -/
def effPar (cfg : Cfg) : Int := (afterHigh cfg).1

/-- the value of the variable `n` after both clamps (the loops below compare against it) -/
def effN (cfg : Cfg) : Int := (afterHigh cfg).2

/-- number of iterations of `for j := j0; cond j; j = post j` (with fuel) -/
def loopCount (cond : Int → Bool) (post : Int → Int) : Nat → Int → Nat
  | 0, _ => 0
  | f + 1, j => if cond j then loopCount cond post f (post j) + 1 else 0

/-- number of goroutines the spawn loop `for j := spawnInit; spawnLoop j parallelism; j = spawnPost j` starts -/
def numWorkers (cfg : Cfg) : Nat :=
  loopCount (fun j => cfg.code.spawnLoop j (effPar cfg)) cfg.code.spawnPost ((effPar cfg).toNat + 1) cfg.code.spawnInit

inductive Err where
  /-- error number `k` returned by a call of `f` -/
  | f (k : Nat)
  /-- `ctx.Err()` of a context that was cancelled because the caller's context was -/
  | ctxCaller
  /-- `ctx.Err()` of the errgroup context after the errgroup cancelled it itself -/
  | ctxLib
  deriving DecidableEq, Repr, Hashable, BEq

inductive Cause where
  | caller | lib
  deriving DecidableEq, Repr, Hashable, BEq

def Cause.err : Cause → Err
  | .caller => .ctxCaller
  | .lib => .ctxLib

/-- Result of one call of `f`: a value or error number `k`. -/
inductive Res where
  | ok (v : Nat)
  | err (k : Nat)
  deriving DecidableEq, Repr, Hashable, BEq

def Res.isErr : Res → Bool
  | .ok _ => false
  | .err _ => true

/-- Program counter of a worker goroutine (in the sequential fast path: of the caller's loop). -/
inductive Pc where
  /-- about to execute `i := int(atomic.AddInt32(&x, 1))` and the `i >= n` test -/
  | fetch
  /-- holds `i`, about to test `ctx.Err() != nil` (DoContext) -/
  | check (i : Nat)
  /-- holds `i`, about to call `f` -/
  | call (i : Nat)
  /-- inside `f(i)` -/
  | inF (i : Nat)
  /-- the worker function is returning error `e` (errgroup bookkeeping not yet run) -/
  | retErr (e : Err)
  | done
  deriving DecidableEq, Repr, Hashable, BEq

structure Begun where
  idx : Nat
  /-- was the context handed to the call already cancelled at entry -/
  cancelled : Bool
  deriving DecidableEq, Repr, Hashable, BEq

structure St where
  /-- sequential fast path taken -/
  seq : Bool
  /-- the shared counter (parallel path) / the loop variable (sequential path) -/
  x : Int
  ws : List Pc
  callerCancelled : Bool
  /-- the errgroup-derived context is cancelled, and by whom first -/
  dCause : Option Cause
  /-- errgroup's recorded first error -/
  egErr : Option Err
  /-- the call has returned with this result -/
  ret : Option (Option Err)
  /-- ghost: calls of `f` in the order they began -/
  begun : List Begun
  /-- ghost: returns of `f` in order -/
  ended : List (Nat × Res)
  /-- ghost: indices taken from the counter by a worker that then saw a cancelled context -/
  skipped : List Nat
  deriving DecidableEq, Repr, Hashable, BEq

def init (cfg : Cfg) : St :=
  if cfg.code.isSeq (effPar cfg) then
    { seq := true, x := cfg.code.seqInit,
      ws := [if cfg.code.seqLoop cfg.code.seqInit (effN cfg) then .call cfg.code.seqInit.toNat else .done],
      callerCancelled := false, dCause := none, egErr := none, ret := none,
      begun := [], ended := [], skipped := [] }
  else
    { seq := false, x := cfg.code.counterInit, ws := List.replicate (numWorkers cfg) .fetch,
      callerCancelled := false, dCause := none, egErr := none, ret := none,
      begun := [], ended := [], skipped := [] }

inductive Label where
  | fetch (w : Nat)
  | check (w : Nat)
  | begin (w : Nat)
  /-- environment: the call running in worker `w` returns `r` -/
  | fEnd (w : Nat) (r : Res)
  | egDone (w : Nat)
  /-- environment: the caller's context is cancelled -/
  | callerCancel
  | ret
  deriving DecidableEq, Repr

def Label.isEnv : Label → Bool
  | .fEnd _ _ => true
  | .callerCancel => true
  | _ => false

/-- is the context handed to `f` cancelled right now -/
def ctxCancelled (s : St) : Bool :=
  if s.seq then s.callerCancelled else s.dCause.isSome

def allDone (ws : List Pc) : Bool := ws.all (fun pc => match pc with | .done => true | _ => false)

def step (cfg : Cfg) (s : St) : Label → Option St
  | .fetch w =>
    match s.ws[w]? with
    | some .fetch =>
      if s.seq then none else
      let xn := s.x + cfg.code.counterDelta
      let i := cfg.code.fetch xn
      if cfg.code.workerDone i (effN cfg) then some { s with x := xn, ws := s.ws.set w .done }
      else if cfg.code.ctxMode then some { s with x := xn, ws := s.ws.set w (.check i.toNat) }
      else some { s with x := xn, ws := s.ws.set w (.call i.toNat) }
    | _ => none
  | .check w =>
    match s.ws[w]? with
    | some (.check i) =>
      if s.seq then none else
      if cfg.code.workerCancelled s.dCause.isSome then
        match s.dCause with
        | some c => some { s with ws := s.ws.set w (.retErr c.err), skipped := s.skipped ++ [i] }
        | none => some { s with ws := s.ws.set w (.call i) }
      else some { s with ws := s.ws.set w (.call i) }
    | _ => none
  | .begin w =>
    match s.ws[w]? with
    | some (.call i) =>
      some { s with ws := s.ws.set w (.inF i), begun := s.begun ++ [⟨i, cfg.code.ctxMode && ctxCancelled s⟩] }
    | _ => none
  | .fEnd w r =>
    match s.ws[w]? with
    | some (.inF i) =>
      if r.isErr && !cfg.code.ctxMode then none else
      let ended := s.ended ++ [(i, r)]
      if s.seq then
        match r with
        | .err k =>
          if cfg.code.seqStops true then
            some { s with ws := s.ws.set w (.retErr (.f k)), ended := ended }
          else
            let xn := cfg.code.seqPost s.x
            some { s with x := xn, ended := ended,
                          ws := s.ws.set w (if cfg.code.seqLoop xn (effN cfg) then .call xn.toNat else .done) }
        | .ok _ =>
          let xn := cfg.code.seqPost s.x
          some { s with x := xn, ended := ended,
                        ws := s.ws.set w (if cfg.code.seqLoop xn (effN cfg) then .call xn.toNat else .done) }
      else
        match r with
        | .err k =>
          if cfg.code.workerFailed true then
            some { s with ws := s.ws.set w (.retErr (.f k)), ended := ended }
          else some { s with ws := s.ws.set w .fetch, ended := ended }
        | .ok _ => some { s with ws := s.ws.set w .fetch, ended := ended }
    | _ => none
  | .egDone w =>
    match s.ws[w]? with
    | some (.retErr e) =>
      if s.seq then none else
      match s.egErr with
      | none =>
        some { s with ws := s.ws.set w .done, egErr := some e,
                      dCause := if s.dCause.isSome then s.dCause else some .lib }
      | some _ => some { s with ws := s.ws.set w .done }
    | _ => none
  | .callerCancel =>
    if !cfg.code.ctxMode || s.callerCancelled then none else
    some { s with callerCancelled := true,
                  dCause := if s.dCause.isSome then s.dCause else some .caller }
  | .ret =>
    if s.ret.isSome then none else
    if s.seq then
      match s.ws with
      | [.done] => some { s with ret := some none }
      | [.retErr e] => some { s with ret := some (some e), ws := [.done] }
      | _ => none
    else if allDone s.ws then some { s with ret := some s.egErr }
    else none

inductive Reach (cfg : Cfg) : St → Prop where
  | init : Reach cfg (init cfg)
  | step {s s' : St} {l : Label} : Reach cfg s → step cfg s l = some s' → Reach cfg s'

/-- run a list of labels from a state (for concrete witnesses) -/
def run (cfg : Cfg) : St → List Label → Option St
  | s, [] => some s
  | s, l :: ls => match step cfg s l with
    | some s' => run cfg s' ls
    | none => none

theorem reach_of_run {cfg : Cfg} {s s' : St} {ls : List Label} (h : Reach cfg s)
    (hr : run cfg s ls = some s') : Reach cfg s' := by
  induction ls generalizing s with
  | nil => simp [run] at hr; exact hr ▸ h
  | cons l ls ih =>
    simp only [run] at hr
    split at hr
    · next s1 hs => exact ih (Reach.step h hs) hr
    · simp at hr

/-- number of calls of `f` in progress -/
def running (s : St) : Nat := s.ws.countP (fun pc => match pc with | .inF _ => true | _ => false)

/-- number of calls that began with an already-cancelled context -/
def startedCancelled (s : St) : Nat := s.begun.countP (·.cancelled)

def begunCount (s : St) (i : Nat) : Nat := s.begun.countP (·.idx == i)
def endedCount (s : St) (i : Nat) : Nat := s.ended.countP (·.1 == i)
def skippedCount (s : St) (i : Nat) : Nat := s.skipped.countP (· == i)
def noFailure (s : St) : Prop := ∀ e ∈ s.ended, e.2.isErr = false

/-- internal labels possibly enabled in a state (used by the conformance driver) -/
def internalLabels (s : St) : List Label :=
  (List.range s.ws.length).flatMap (fun w => [.fetch w, .check w, .begin w, .egDone w]) ++ [.ret]

end Juniper.Model.ParDo
