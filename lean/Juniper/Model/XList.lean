import Juniper.Generated.XList
/-!
# Executable model of `container/xlist` (C06)

The heap is a store `id ↦ (prev, next, value)` plus the three fields of `List` (`front`, `back`,
`size`). Node identities are creation indices (`nextId` counts allocations), which is also how the
harness canonicalises the `*Node` handles of the real list.

The operations are **not** written here: they are the statement lists `Gen.XList.<op>Stmts`,
regenerated from `xlist.go` on every run, and this file only contains the interpreter of that tiny
pointer-program language (assignments to `l.front`, `l.back`, `l.size`, `x.prev`, `x.next`, pointer
(in)equality tests, allocation of a node, calls of `remove` / `MoveBefore` / `MoveAfter`). A nil
dereference is an explicit `panicked` status which keeps the partially updated heap, as the Go
code does.

Core-only: imported by the driver.
-/
namespace Juniper.Model.XList
open Juniper.Gen.XList

structure Node where
  prev : Option Nat
  next : Option Nat
  value : Int
  deriving DecidableEq, Repr, Inhabited

def Node.getF (n : Node) : Fld → Option Nat
  | .prev => n.prev
  | .next => n.next

def Node.setF (n : Node) (f : Fld) (v : Option Nat) : Node :=
  match f with
  | .prev => { n with prev := v }
  | .next => { n with next := v }

/-- `id ↦ node record`. Only `get`, `set` and `empty` are used outside this block
(`Proofs/XListStore.lean` proves `get (set s i v) j = if j = i then some v else get s j`). -/
structure Store where
  cells : Array (Option Node)

def Store.empty : Store := ⟨#[]⟩

def Store.get (s : Store) (i : Nat) : Option Node :=
  match s.cells[i]? with
  | some c => c
  | none => none

def Store.set (s : Store) (i : Nat) (v : Node) : Store :=
  if i < s.cells.size then ⟨s.cells.setIfInBounds i (some v)⟩
  else ⟨(s.cells ++ Array.replicate (i - s.cells.size) none).push (some v)⟩

/-- The `List` object plus every `Node` ever allocated for it. -/
structure Heap where
  nodes : Store := .empty
  front : Option Nat := none
  back : Option Nat := none
  size : Int := 0
  nextId : Nat := 0

inductive Status where
  | running | returned | panicked
  deriving DecidableEq, Repr

/-- Execution state of one method call: the heap, the two pointer locals, the `value` parameter. -/
structure Env where
  h : Heap
  node : Option Nat := none
  mark : Option Nat := none
  value : Int := 0
  status : Status := .running
  result : Option Nat := none

/-- Pointer expression evaluation; outer `none` = nil dereference. -/
def evalP (e : Env) : PExpr → Option (Option Nat)
  | .nil => some none
  | .node => some e.node
  | .mark => some e.mark
  | .front => some e.h.front
  | .back => some e.h.back
  | .fld p f =>
    match evalP e p with
    | some (some i) =>
      match e.h.nodes.get i with
      | some n => some (n.getF f)
      | none => none
    | _ => none

def Env.panic (e : Env) : Env := { e with status := .panicked }

/-- A callee: argument values → heap → (heap', panicked). -/
abbrev Proc := List (Option Nat) → Heap → Heap × Bool
abbrev Procs := Callee → Option Proc

def evalArgs (e : Env) : List PExpr → Option (List (Option Nat))
  | [] => some []
  | a :: as =>
    match evalP e a, evalArgs e as with
    | some v, some vs => some (v :: vs)
    | _, _ => none

/-- The value written by a (never expected) `x.Value = …`. -/
def havoc : Int := -1

def execSimple (procs : Procs) (e : Env) : Simple → Env
  | .setFront x =>
    match evalP e x with
    | some v => { e with h := { e.h with front := v } }
    | none => e.panic
  | .setBack x =>
    match evalP e x with
    | some v => { e with h := { e.h with back := v } }
    | none => e.panic
  | .setFld p f x =>
    match evalP e p, evalP e x with
    | some (some i), some v =>
      match e.h.nodes.get i with
      | some n => { e with h := { e.h with nodes := e.h.nodes.set i (n.setF f v) } }
      | none => e.panic
    | _, _ => e.panic
  | .alloc p n =>
    match evalP e p, evalP e n with
    | some pv, some nv =>
      let id := e.h.nextId
      { e with h := { e.h with nodes := e.h.nodes.set id ⟨pv, nv, e.value⟩, nextId := id + 1 },
               node := some id }
    | _, _ => e.panic
  | .sizeAdd k => { e with h := { e.h with size := e.h.size + k } }
  | .sizeSet k => { e with h := { e.h with size := k } }
  | .ret => { e with status := .returned }
  | .retNode => { e with status := .returned, result := e.node }
  | .call fn args =>
    match evalArgs e args, procs fn with
    | some vs, some pr =>
      let r := pr vs e.h
      { e with h := r.1, status := if r.2 then .panicked else e.status }
    | _, _ => e.panic
  | .writeValue p =>
    match evalP e p with
    | some (some i) =>
      match e.h.nodes.get i with
      | some n => { e with h := { e.h with nodes := e.h.nodes.set i { n with value := havoc } } }
      | none => e.panic
    | _ => e.panic

def execSimples (procs : Procs) : List Simple → Env → Env
  | [], e => e
  | s :: ss, e =>
    match e.status with
    | .running => execSimples procs ss (execSimple procs e s)
    | _ => e

def execStmt (procs : Procs) (e : Env) : Stmt → Env
  | .simple s => execSimple procs e s
  | .ite eq a b thn els =>
    match evalP e a, evalP e b with
    | some va, some vb => if (va == vb) == eq then execSimples procs thn e else execSimples procs els e
    | _, _ => e.panic

def exec (procs : Procs) : List Stmt → Env → Env
  | [], e => e
  | s :: ss, e =>
    match e.status with
    | .running => exec procs ss (execStmt procs e s)
    | _ => e

def mkProc (procs : Procs) (prog : List Stmt) : Proc := fun args h =>
  let e := exec procs prog { h := h, node := (args[0]?).getD none, mark := (args[1]?).getD none }
  (e.h, e.status == .panicked)

def procs0 : Procs := fun _ => none

/-- `remove` calls nothing. -/
def procs1 : Procs
  | .remove => some (mkProc procs0 innerRemoveStmts)
  | _ => none

/-- `MoveBefore` / `MoveAfter` call `remove`; the public operations may call all three. -/
def procs2 : Procs
  | .remove => some (mkProc procs0 innerRemoveStmts)
  | .moveBefore => some (mkProc procs1 moveBeforeStmts)
  | .moveAfter => some (mkProc procs1 moveAfterStmts)

/-- Outcome of one public operation. -/
structure Out where
  h : Heap
  ret : Option Nat
  panicked : Bool

def runOp (prog : List Stmt) (node mark : Option Nat) (value : Int) (h : Heap) : Out :=
  let e := exec procs2 prog { h := h, node := node, mark := mark, value := value }
  ⟨e.h, e.result, e.status == .panicked⟩

/-- The ten operations; handles are node ids (`none` = a nil `*Node`). -/
inductive Op where
  | pushFront (v : Int)
  | pushBack (v : Int)
  | insertBefore (v : Int) (mark : Nat)
  | insertAfter (v : Int) (mark : Nat)
  | remove (node : Nat)
  | moveBefore (node mark : Nat)
  | moveAfter (node mark : Nat)
  | moveToFront (node : Nat)
  | moveToBack (node : Nat)
  | clear
  deriving DecidableEq, Repr

def apply (h : Heap) : Op → Out
  | .pushFront v => runOp pushFrontStmts none none v h
  | .pushBack v => runOp pushBackStmts none none v h
  | .insertBefore v m => runOp insertBeforeStmts none (some m) v h
  | .insertAfter v m => runOp insertAfterStmts none (some m) v h
  | .remove n => runOp removeStmts (some n) none 0 h
  | .moveBefore n m => runOp moveBeforeStmts (some n) (some m) 0 h
  | .moveAfter n m => runOp moveAfterStmts (some n) (some m) 0 h
  | .moveToFront n => runOp moveToFrontStmts (some n) none 0 h
  | .moveToBack n => runOp moveToBackStmts (some n) none 0 h
  | .clear => runOp clearStmts none none 0 h

/-- Run a history from a heap, ignoring results (panics keep the partial heap, like Go). -/
def run (h : Heap) : List Op → Heap
  | [] => h
  | o :: os => run (apply h o).h os

/-! Observations (the accessors are generated facts too). -/

def evalH (h : Heap) (x : PExpr) : Option Nat :=
  match evalP { h := h } x with
  | some v => v
  | none => none

def frontOf (h : Heap) : Option Nat := evalH h frontReturns
def backOf (h : Heap) : Option Nat := evalH h backReturns
def lenOf (h : Heap) : Int := if lenReturnsSize then h.size else -1
def nextOf (h : Heap) (i : Nat) : Option Nat := (h.nodes.get i).bind (·.getF nextReturns)
def prevOf (h : Heap) (i : Nat) : Option Nat := (h.nodes.get i).bind (·.getF prevReturns)
def valueOf (h : Heap) (i : Nat) : Option Int := (h.nodes.get i).map (·.value)

/-- Walk from `start` through `step`, at most `fuel` nodes. -/
def walk (step : Nat → Option Nat) : Option Nat → Nat → List Nat
  | none, _ => []
  | some _, 0 => []
  | some i, fuel + 1 => i :: walk step (step i) fuel

end Juniper.Model.XList
