import Juniper.Model.HelpersSlices
/-!
# Models of `xmath.Abs/Clamp` (generated whole), `xerrors.WithStack`, and the `xrand` sampler (C19)
-/
namespace Juniper.Model.Helpers
open Juniper.Gen.Helpers

/-! ## xerrors -/

/-- An error value together with its `Unwrap` chain. `leaf id cmp`: a leaf error of its own type
`id` (comparable or not, e.g. a struct with a slice field); `wrap tag inner`: `fmt.Errorf("…%w", inner)`
(a `*fmt.wrapError`; `tag` = pointer identity); `stack inner`: `xerrors.withStack`. -/
inductive Err where
  | leaf (id : Nat) (cmp : Bool)
  | wrap (tag : Nat) (inner : Err)
  | stack (inner : Err)
  deriving DecidableEq, Repr

namespace Err

/-- `errors.Unwrap` -/
def unwrap : Err → Option Err
  | leaf _ _ => none
  | wrap _ e => some e
  | stack e => if wsUnwrapReturnsInner then some e else none

/-- the error and everything reachable through `Unwrap` -/
def chain : Err → List Err
  | leaf id c => [leaf id c]
  | wrap t e => wrap t e :: chain e
  | stack e => stack e :: (if wsUnwrapReturnsInner then chain e else [])

def isStack : Err → Bool
  | stack _ => true
  | _ => false

/-- is the dynamic type of the value comparable (`reflect.Type.Comparable`) -/
def comparable : Err → Bool
  | leaf _ c => c
  | wrap _ _ => true          -- a pointer
  | stack _ => wsComparable

/-- `errors.Is(e, target)`: some error in the chain `==` the target (only tried when the target's
type is comparable); none of the modelled types has an `Is` method unless `wsHasIsMethod`. -/
def is (e target : Err) : Bool :=
  !wsHasIsMethod && (chain e).any (fun x => target.comparable && decide (x = target))

/-- dynamic type tags for `errors.As` -/
inductive Ty where
  | leafTy (id : Nat)
  | wrapTy
  | stackTy
  deriving DecidableEq, Repr

def ty : Err → Ty
  | leaf id _ => .leafTy id
  | wrap _ _ => .wrapTy
  | stack _ => .stackTy

/-- `errors.As(e, &target)` with `target` of type `t`: the first error in the chain of that type -/
def as (e : Err) (t : Ty) : Option Err :=
  if wsHasAsMethod then none else (chain e).find? (fun x => decide (x.ty = t))

end Err

/-- what the already-wrapped test of `WithStack` evaluates to -/
def wsDetects (e : Err) : Bool :=
  if wsDetect = "as" then (e.as .stackTy).isSome
  else if wsDetect = "is" then
    -- `errors.Is(err, withStack{inner: noError})`: the literal is not in any chain, and it is only
    -- compared at all if the type is comparable
    e.is (.stack (.leaf 0 true))
  else false

/-- `xerrors.WithStack`; `none` is the nil error -/
def withStack : Option Err → Option Err
  | none => if wsNilGuard true && wsNilReturnsNil then none else some (.stack (.leaf 0 true))
  | some e =>
    if wsNilGuard false && wsNilReturnsNil then none
    else if wsDetects e && wsDetectedReturnsErr then some e
    else if wsWrapsErr then some (.stack e) else some (.stack (.leaf 0 true))

/-! ## xrand -/

structure Samp where
  i : Int
  first : Bool
  k : Int
  deriving Repr, DecidableEq

/-- `sampler.Next`. The floating point part is an input: `skip = none` when the guard of the code holds (`skip` is ±Inf or NaN, or
it would carry the index to the maximum `int` or beyond: `skip >= float64(math.MaxInt - s.i)`), else `some ⌊log(u)/log1p(-w)⌋`; `rnd` is what `r.Intn(k)` returns. -/
def Samp.next (s : Samp) (skip : Option Int) (rnd maxInt : Int) : (Int × Int) × Samp :=
  if sampFill s.i s.k s.first then
    let j := sampFillJ s.i s.k s.first
    ((sampFillNext j, sampFillReplace j), { s with i := if sampFillIncs then s.i + 1 else s.i })
  else
    let s := if sampFirst s.i s.k s.first then
        { s with i := if sampFirstDecs then s.i - 1 else s.i, first := if sampFirstClears then false else s.first }
      else s
    match skip with
    | none => ((sampBadNext maxInt, sampBadReplace maxInt), s)
    | some sk =>
      if sampBad false then ((sampBadNext maxInt, sampBadReplace maxInt), s) else
      let s := { s with i := if sampAdvanceAdds then s.i + sampAdvance sk else sampAdvance sk }
      ((sampNext s.i rnd, sampReplace s.i rnd), s)

/-- whether a call of `Next` in this state consumes an entry of the float/Intn script -/
def Samp.filling (s : Samp) : Bool := sampFill s.i s.k s.first

/-- `m` successive decisions of a fresh sampler; the script feeds the calls after the fill phase -/
def samplerRun (maxInt : Int) : Nat → Samp → List (Option Int × Int) → List (Int × Int)
  | 0, _, _ => []
  | m + 1, s, script =>
    if s.filling then
      let (d, s') := s.next none 0 maxInt
      d :: samplerRun maxInt m s' script
    else
      match script with
      | [] => []
      | (skip, rnd) :: rest =>
        let (d, s') := s.next skip rnd maxInt
        d :: samplerRun maxInt m s' rest

def newSamp (k : Int) : Samp := { i := 0, first := true, k := k }

/-- the reservoir loop shared by `rSample` and `rSampleSlice`: consumes decisions until `stop`;
`none` = index out of range. `out` is the reservoir of positions. `stores` = the loop body has the
store `out[replace] = …` (generated: `rsStores`, `rssStores`); without it the reservoir stays as made. -/
def reservoirLoop (stop : Int → Bool) (stores : Bool) : List (Int × Int) → List Int → Option (List Int)
  | [], out => some out
  | (next, replace) :: ds, out =>
    if stop next then some out else
    match (if stores then setI out replace next else some out) with
    | none => none
    | some out' => reservoirLoop stop stores ds out'

/-- `rSample` before the final shuffle: positions of `[0,n)` held by the reservoir; `make([]int, k)`
is zero-filled. -/
def rSample (n k : Int) (ds : List (Int × Int)) : Option (List Int) :=
  if rsMake n k < 0 then none else
  match reservoirLoop (fun next => rsStop next n) rsStores ds (List.replicate (rsMake n k).toNat 0) with
  | none => none
  | some out =>
    if rsTrunc n k then
      if sliceOk 0 (rsTruncHi n k) out.length then some (out.take (rsTruncHi n k).toNat) else none
    else some out

/-- `rSampleSlice` before the final shuffle: which position of `a` each reservoir slot holds
(`-1` = still the zero value). -/
def rSampleSlicePos (n k : Int) (ds : List (Int × Int)) : Option (List Int) :=
  if k < 0 then none else
  match reservoirLoop (fun next => rssStop next n) rssStores ds (List.replicate k.toNat (-1)) with
  | none => none
  | some out =>
    if rssTrunc n k then
      if sliceOk 0 (rssTruncHi n k) out.length then some (out.take (rssTruncHi n k).toNat) else none
    else some out

/-- the pull loop shared by `rSampleIterator` and `rSampleStream`: item number `i` (0-based) of
the source is stored when `take i next`; returns the reservoir of positions and the final `i`.
`stores` = the taken branch has the store `out[replace] = item` (generated: `rsiStores`, `rstStores`);
`incs` = the number of `i++` in the inner loop body (generated: `rsiIncs`, `rstIncs`): the mirrored loop
has two, one in the taken branch before its `break` and one at the end of the body; with any other
count the item counter is not the one modelled here (`none`). -/
def pullLoop (take : Int → Int → Bool) (stores : Bool) (incs : Nat) (n : Int) :
    Nat → List (Int × Int) → Int → List Int → Option (List Int × Int)
  | 0, _, i, out => some (out, i)
  | _, [], i, out => some (out, i)
  | fuel + 1, (next, replace) :: ds, i, out =>
    if i ≥ n then some (out, i)            -- the source is exhausted
    else if incs ≠ 2 then none
    else if take i next then
      match (if stores then setI out replace i else some out) with
      | none => none
      | some out' => pullLoop take stores incs n fuel ds (i + 1) out'
    else pullLoop take stores incs n fuel ((next, replace) :: ds) (i + 1) out

/-- `rSampleIterator` / `rSampleStream` before the final shuffle on a source of `n` items -/
def rSampleIterPos (stream : Bool) (n k : Int) (ds : List (Int × Int)) : Option (List Int) :=
  if k < 0 then none else
  let take := fun i next => if stream then rstTake i next else rsiTake i next
  let stores := if stream then rstStores else rsiStores
  let incs := if stream then rstIncs else rsiIncs
  match pullLoop take stores incs n (n.toNat + ds.length + 1) ds 0 (List.replicate k.toNat (-1)) with
  | none => none
  | some (out, i) =>
    let tr := if stream then rstTrunc i k else rsiTrunc i k
    let hi := if stream then rstTruncHi i k else rsiTruncHi i k
    if tr then (if sliceOk 0 hi out.length then some (out.take hi.toNat) else none) else some out

/-- `rShuffle` for a given sequence of `swap(i, j)` calls made by `r.Shuffle` -/
def applySwaps {α : Type} : List (Int × Int) → List α → Option (List α)
  | [], a => some a
  | (i, j) :: rest, a =>
    if shuffleSwaps then
      match swapI a i j with
      | none => none
      | some a' => applySwaps rest a'
    else applySwaps rest a

/-! ## The exported entry points of `xrand`

`Sample`, `SampleSlice`, `SampleIterator`, `SampleStream`, `Shuffle` (what users call: the default
source) and `RSample*` / `RShuffle` (a caller-supplied `*rand.Rand`) are one-line functions; their
bodies are regenerated (`Gen.Helpers.pkg*W`, `exp*W`) and applied here to the models of the unexported
`r*` functions. A random source enters those models only through the decision script / swap list it
produces, so a source is modelled by that script. -/

/-- `xrand.Sample(n, k)` with the default source producing the decisions `ds` -/
def pkgSample (n k : Int) (ds : List (Int × Int)) : Option (List Int) :=
  pkgSampleW (fun (src : List (Int × Int)) n k => rSample n k src) ds n k
/-- `xrand.SampleSlice(a, k)` on a slice of length `n` -/
def pkgSampleSlicePos (n k : Int) (ds : List (Int × Int)) : Option (List Int) :=
  pkgSampleSliceW (fun (src : List (Int × Int)) (a : Int) k => rSampleSlicePos a k src) ds n k
/-- `xrand.SampleIterator(iter, k)` on an iterator of `n` items -/
def pkgSampleIterPos (n k : Int) (ds : List (Int × Int)) : Option (List Int) :=
  pkgSampleIteratorW (fun (src : List (Int × Int)) (it : Int) k => rSampleIterPos false it k src) ds n k
/-- `xrand.SampleStream(ctx, s, k)` on a stream of `n` items -/
def pkgSampleStreamPos (n k : Int) (ds : List (Int × Int)) : Option (List Int) :=
  pkgSampleStreamW (fun (_ : Unit) (src : List (Int × Int)) (st : Int) k => rSampleIterPos true st k src) ds () n k
/-- `xrand.Shuffle(a)` when the default source asks for the swaps `sw` -/
def pkgShuffle {α : Type} (sw : List (Int × Int)) (a : List α) : Option (List α) :=
  pkgShuffleW (fun (src : List (Int × Int)) (a : List α) => applySwaps src a) sw a
/-- `xrand.RSample(r, n, k)` -/
def expRSample (n k : Int) (ds : List (Int × Int)) : Option (List Int) :=
  expRSampleW (fun (src : List (Int × Int)) n k => rSample n k src) ds n k
/-- `xrand.RSampleSlice(r, a, k)` -/
def expRSampleSlicePos (n k : Int) (ds : List (Int × Int)) : Option (List Int) :=
  expRSampleSliceW (fun (src : List (Int × Int)) (a : Int) k => rSampleSlicePos a k src) ds n k
/-- `xrand.RSampleIterator(r, iter, k)` -/
def expRSampleIterPos (n k : Int) (ds : List (Int × Int)) : Option (List Int) :=
  expRSampleIteratorW (fun (src : List (Int × Int)) (it : Int) k => rSampleIterPos false it k src) ds n k
/-- `xrand.RSampleStream(ctx, r, s, k)` -/
def expRSampleStreamPos (n k : Int) (ds : List (Int × Int)) : Option (List Int) :=
  expRSampleStreamW (fun (_ : Unit) (src : List (Int × Int)) (st : Int) k => rSampleIterPos true st k src) ds () n k
/-- `xrand.RShuffle(r, a)` -/
def expRShuffle {α : Type} (sw : List (Int × Int)) (a : List α) : Option (List α) :=
  expRShuffleW (fun (src : List (Int × Int)) (a : List α) => applySwaps src a) sw a

end Juniper.Model.Helpers
