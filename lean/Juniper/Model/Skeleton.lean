/-!
# Control skeletons the LTS models hard-wire

The labelled transition systems of `Model/Pipe.lean`, `Model/ChanStream.lean`, `Model/Batch.lean`,
`Model/StreamMerge.lean` and `Model/Merge.lean` interpret regenerated `select` tables, statement lists
and guards, but the control flow *between* those facts — "TrySend is two non-blocking selects and
nothing else", "every non-End error of an input reaches the CAS" — is written into their `step`
functions by hand. This file states that control flow in the vocabulary of `tools/gofacts/
sites_skeleton.go` (one token per statement, in source order, blocks flattened, identifiers and
operand expressions normalised away, the arms of a `select` in canonical order); the regenerated
`Juniper.Gen.Skeleton` must be equal to it (`skeleton_ok` and the conjuncts of the property theorems
in `Props/C10*.lean`, `Props/C11.lean`, `Props/C12.lean`, all by `decide`). A statement added to,
removed from or moved within one of these functions — a fast path in front of a `select`, an early
`return`, an `if` around the error report — is a step the model does not have: the tie breaks.

Core Lean only; nothing here is generated.
-/
namespace Juniper.Model.Skeleton

/-- `Pipe`: four `make`/`new`, the two struct literals, `return` — no goroutine, no other statement. -/
def pipe : List String :=
  ["assign", "assign", "assign", "assign", "assign", "assign", "return"]

/-- `PipeSender.Send` is exactly one `select` every arm of which returns: pc `send m` → `idle` in one step (`Model.Pipe.Pc.after`). -/
def send : List String :=
  ["select {", "case recv:", "return", "case recv:", "return", "case recv:", "return",
   "case send:", "return", "}"]

/-- `PipeSender.TrySend` is exactly two `select`s in sequence and nothing before, between or after them: the first has three returning receive arms and an empty `default` (falls through: pc `try1 m` → `try2 m`), the second a returning send arm and a returning `default` (pc `try2 m` → `idle`). In particular there is no statement outside a `select` that could block (a bare send/receive) or return early. -/
def trySend : List String :=
  ["select {", "case recv:", "return", "case recv:", "return", "case recv:", "return", "default:",
   "}", "select {", "case send:", "return", "default:", "return", "}"]

/-- `PipeSender.Close`: store the error, then `close(senderDone)` — one atomic `closeSender` label. -/
def senderClose : List String :=
  ["assign", "call:close"]

/-- `pipeStream.Next`: `var zero`, one `select`; two arms return at once; the `senderDone` arm is the non-blocking drain `select` (data arm returns, empty `default`), then `err := …; if err != nil { return }; return` (pcs `next` → `drain` → `idle`). -/
def pipeNext : List String :=
  ["var", "select {", "case recv:", "return", "case recv:", "return", "case recv:", "select {",
   "case recv:", "return", "default:", "}", "assign", "if _!=_ {", "return", "}", "return", "}"]

/-- `pipeStream.Close` is `close(streamDone)`. -/
def pipeClose : List String :=
  ["call:close"]

/-- `chanStream.Next`: `var zero`, one `select` with the data arm (`if !ok { return End }; return item`) and the context arm. -/
def chanNext : List String :=
  ["var", "select {", "case recv:", "if !_ {", "return", "}", "return", "case recv:", "return", "}"]

/-- `chanStream.Close` does nothing. -/
def chanClose : List String :=
  []

/-- `Batch` is `return BatchFunc(…, func …)`. -/
def batch : List String :=
  ["return"]

/-- `BatchFunc`: context, stream struct, channel `c`, `wg.Add`, the two goroutines (producer, batcher), `return`. -/
def batchFunc : List String :=
  ["assign", "assign", "assign", "call", "go func", "go func", "return"]

/-- producer goroutine: three `defer`s, then `for { item, err := s.Next(bgCtx); if End {break} else if <own cancellation> {break} else if err != nil { out.err = err; return }; select { c <- item | <-bgCtx.Done(): return } }` (pcs `next` → `send v` → `next` …; `closeC`/`closeSrc`/`done` are the deferred calls). -/
def batchProducer : List String :=
  ["defer", "defer", "defer", "for {", "assign", "if _==_ {", "break", "} else if _==_&&_==_ {",
   "break", "} else if _!=_ {", "assign", "return", "}", "select {", "case recv:", "return",
   "case send:", "}", "}"]

/-- batcher goroutine: `defer wg.Done()`, the locals, the deferred cleanup (`if timer != nil { timer.Stop() }; close(batchC)`), the three local functions, and the loop with its single three-arm `select` (arm bodies as in `Model.Batch.step`: `recvCClosed`/`prodSend`+`fullRet`+`afterFull`, `recvTimer`, `announce`). -/
def batchBatcher : List String :=
  ["defer", "var", "var", "assign", "var", "var", "assign", "defer func {", "if _!=_ {", "call",
   "}", "call:close", "}", "assign func", "assign func", "assign func", "for {", "select {",
   "case recv:", "assign", "if !_ {", "return", "}", "case recv:", "if !_ {", "if _>_ {", "assign",
   "}", "return", "}", "assign", "if _ {", "call", "if !_ {", "return", "}", "}", "if _==_ {",
   "assign", "if _ {", "call", "}", "}", "case recv:", "if _>_ {", "if _>_ {", "call", "if !_ {",
   "return", "}", "} else {", "call", "}", "} else {", "assign", "}", "}", "}"]

/-- `flush`: one two-arm `select` (`flushAbort` returns false | `deliver`), three assignments, `return true`. -/
def batchFlush : List String :=
  ["select {", "case recv:", "return", "case send:", "}", "assign", "assign", "assign", "return"]

/-- `stopTimer`: `if timer == nil { return }; stopped := timer.Stop(); if !stopped && timerC != nil { <-timerC }; timerC = nil` (`Model.Batch.stopTimer`; the drain receive cannot block: the channel holds the expired timer's value). -/
def batchStopTimer : List String :=
  ["if _==_ {", "return", "}", "assign", "if !_&&_!=_ {", "recv", "}", "assign"]

/-- `startTimer`: `stopTimer(); if timer == nil { NewTimer } else { Reset }; timerC = timer.C` (`Model.Batch.startTimer`). -/
def batchStartTimer : List String :=
  ["call", "if _==_ {", "assign", "} else {", "call", "}", "assign"]

/-- `batchStream.Next`: the outer three-arm `select` (`deliver`/`consClosed` | `announce` → the inner two-arm `select` | `consCtx`); a closed `batchC` gives `iter.err` if set, else `End`. -/
def batchNext : List String :=
  ["select {", "case recv:", "if !_ {", "if _!=_ {", "return", "}", "return", "}", "return",
   "case recv:", "return", "case send:", "select {", "case recv:", "if !_ {", "if _!=_ {",
   "return", "}", "return", "}", "return", "case recv:", "return", "}", "}"]

/-- `batchStream.Close` is `bgCancel(); wg.Wait()`. -/
def batchClose : List String :=
  ["call", "call"]

/-- `stream.Merge`: pipe, two counters, context, `if len(in) == 0 { sender.Close(nil) }`, wait group, one goroutine per input, `return`. -/
def streamMerge : List String :=
  ["assign", "assign", "assign", "assign", "if _==_ {", "call", "}", "var", "call",
   "for init; _<_ ;post {", "assign", "go func", "}", "return"]

/-- per-input goroutine of `stream.Merge`: `defer wg.Done()`, `defer in[i].Close()`, the deferred last-one-closes closure, and `for { item, err := Next; if End {return} else if err != nil { if CAS { cancel(); sender.Close(err) }; return }; err = Send; if err != nil {return} }` — every non-End error reaches the CAS (pcs `next` → `gotErr e` → `won`/`exiting`). -/
def streamMergeWorker : List String :=
  ["defer", "defer", "defer func {", "if _==_&&_==_ {", "call", "}", "}", "for {", "assign",
   "if _==_ {", "return", "} else if _!=_ {", "if _ {", "call", "call", "}", "return", "}",
   "assign", "if _!=_ {", "return", "}", "}"]

/-- the `cancel` closure of the merged stream: `cancel(); wg.Wait()`. -/
def streamMergeCancel : List String :=
  ["call", "call"]

/-- `mergeStream.Next` is `return s.inner.Next(ctx)`. -/
def mergeNext : List String :=
  ["return"]

/-- `mergeStream.Close` is `s.inner.Close(); s.cancel()`. -/
def mergeClose : List String :=
  ["call", "call"]

/-- `chans.Merge`: the three-way arity dispatch (range / merge2 / merge3, each followed by `return`) and the reflect loop. -/
def chansMerge : List String :=
  ["if _==_ {", "range {", "send", "}", "return", "} else if _==_ {", "call", "return",
   "} else if _==_ {", "call", "return", "}", "assign", "for {", "if _==_ {", "return", "}",
   "assign", "if _ {", "assign", "send", "} else {", "assign", "}", "}"]

/-- `merge2`: `nDone := 0; for { select { two arms: if ok { out <- item } else { in = nil; nDone++; if nDone == 2 { return } } } }`. -/
def merge2 : List String :=
  ["assign", "for {", "select {", "case recv:", "if _ {", "send", "} else {", "assign", "incdec",
   "if _==_ {", "return", "}", "}", "case recv:", "if _ {", "send", "} else {", "assign", "incdec",
   "if _==_ {", "return", "}", "}", "}", "}"]

/-- `merge3`: as `merge2` with three arms. -/
def merge3 : List String :=
  ["assign", "for {", "select {", "case recv:", "if _ {", "send", "} else {", "assign", "incdec",
   "if _==_ {", "return", "}", "}", "case recv:", "if _ {", "send", "} else {", "assign", "incdec",
   "if _==_ {", "return", "}", "}", "case recv:", "if _ {", "send", "} else {", "assign", "incdec",
   "if _==_ {", "return", "}", "}", "}", "}"]

/-- `Replicate`: `for item := range src { for _, dst := range dsts { dst <- item } }`. -/
def replicate : List String :=
  ["range {", "range {", "send", "}", "}"]

end Juniper.Model.Skeleton
