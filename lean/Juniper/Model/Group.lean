import Juniper.Generated.Group
/-!
# Executable model of `xsync.Group` (C17)

A labelled transition system; one label = one atomic step of one goroutine (one lock operation, one
`WaitGroup` operation, one `select` arm, one timer operation) or one action of the environment
(a registration call, a trigger call, `f` returning, the clock advancing, the parent context being
cancelled, a `Stop`/`StopAndWait` call starting). Its reachable states are all interleavings.

What is taken from the regenerated facts (`Juniper.Gen.Group`):
* `spawn`: whether `wg.Add(1)` happens while the read lock is held (`spawnAddUnderRLock`); if not, the
  model follows the code through the `spawnLate` path (and the barrier theorem no longer compiles);
* `Stop` / `StopAndWait`: the stopper goroutine *interprets* the statement lists `stopStmts`,
  `stopAndWaitStmts` (`g.m.Lock()`, `g.cancel()`, `g.m.Unlock()`, `g.wg.Wait()`, `g.Stop()`);
* the worker loops: the arms of their `select`s are `trigLoopSelect` / `perLoopSelect` /
  `potLoopSelect`, what an arm does is decoded from its statement list, whether the loop checks the
  context first / calls `f` synchronously as its last statement / spawns nothing are the `*Loop*`
  Booleans, whether `Periodic` re-arms the timer between the `select` and `f` is `perResetsThenCalls`;
* the trigger functions: `trigFnSelect` / `potFnSelect` and the channel capacities.

Trusted (modelled by documentation): `sync.RWMutex` (readers exclude the writer), `sync.WaitGroup`,
`context` (a flag, set by `cancel()` or by the parent), channels, `time.Timer` under both the old
(`asynctimerchan=1`: a fired timer leaves a value buffered in `t.C`, `Stop` then returns false) and
the new (Go ≥ 1.23 modules: `Stop` discards an unreceived value and returns true) semantics.
-/
namespace Juniper.Model.Group
open Juniper.Facts Juniper.Gen.Group

inductive Kind where
  | doOnce | trigger | periodic | pot
  deriving DecidableEq, Repr

inductive TimerSt where
  | idle
  | armed (due : Int)
  | fired
  deriving DecidableEq, Repr

inductive Pc where
  -- inside `spawn`, in the caller's goroutine
  | spawnStart | spawnLocked | spawnChecked | spawnAdded | spawnLate | spawnUnlocked | spawnBail
  | notSpawned
  -- the spawned goroutine
  | init | loopHead | atSelect | potStop | potDrain | resetTimer | callF | inF | exiting | exited
  deriving DecidableEq, Repr

structure Thread where
  kind : Kind
  interval : Int
  jitter : Int
  pc : Pc
  /-- the registration's trigger channel holds a value -/
  token : Bool
  timer : TimerSt
  /-- ghost: some trigger call has not yet been followed by the beginning of a run -/
  owed : Bool
  /-- ghost: runs of `f` in progress -/
  active : Nat
  /-- ghost: runs of `f` begun -/
  runs : Nat
  deriving DecidableEq, Repr

def newThread (k : Kind) (interval jitter : Int) : Thread :=
  { kind := k, interval := interval, jitter := jitter, pc := .spawnStart, token := false, timer := .idle,
    owed := false, active := 0, runs := 0 }

/-! ### The worker loops, decoded from the generated facts -/

inductive ArmAct where
  | exit | fall | reset | stopDrainReset | unknown
  deriving DecidableEq, Repr

def decodeArm (body : List String) : ArmAct :=
  if body = ["return"] then .exit
  else if body = [] then .fall
  else if body = ["t.Reset(jitterDuration(interval, jitter))"] then .reset
  else if body = ["if !t.Stop() {", "<-t.C", "}", "t.Reset(jitterDuration(interval, jitter))"] then .stopDrainReset
  else .unknown

structure LoopDesc where
  arms : List (Arm × ArmAct)
  checksCtxFirst : Bool
  /-- `t.Reset(...)` sits between the `select` and the call of `f` -/
  resetAfterSelect : Bool
  /-- f is called synchronously as the last statement of an infinite loop that spawns nothing and
  whose timer is created before the loop -/
  ok : Bool
  deriving DecidableEq, Repr

def loopOf : Kind → LoopDesc
  | .doOnce => { arms := [], checksCtxFirst := false, resetAfterSelect := false,
                 ok := decide (doStmts = ["g.spawn(func() { f(g.ctx) })"]) }
  | .trigger =>
    { arms := trigLoopSelect.zip [decodeArm trigLoopArm0, decodeArm trigLoopArm1],
      checksCtxFirst := trigLoopChecksCtxFirst, resetAfterSelect := false,
      ok := trigLoopCallsFLast && trigLoopNoGo && trigLoopInfinite }
  | .periodic =>
    { arms := perLoopSelect.zip [decodeArm perLoopArm0, decodeArm perLoopArm1],
      checksCtxFirst := perLoopChecksCtxFirst, resetAfterSelect := perResetsThenCalls,
      ok := perLoopCallsFLast && perLoopNoGo && perLoopInfinite && perTimerBeforeLoop }
  | .pot =>
    { arms := potLoopSelect.zip [decodeArm potLoopArm0, decodeArm potLoopArm1, decodeArm potLoopArm2],
      checksCtxFirst := potLoopChecksCtxFirst, resetAfterSelect := false,
      ok := potLoopCallsFLast && potLoopNoGo && potLoopInfinite && potTimerBeforeLoop }

/-- what a thread step does to the shared lock / wait group -/
inductive Eff where
  | none | rlock | runlock | add | done
  deriving DecidableEq, Repr

/-- the part of the shared state a thread step reads -/
structure View where
  ctxDone : Bool
  writer : Bool
  now : Int
  /-- old timer-channel semantics (`asynctimerchan=1`) -/
  async : Bool

def armReady (v : View) (t : Thread) : Arm → Bool
  | .recv ch =>
    if ch = "g.ctx.Done()" then v.ctxDone
    else if ch = "c" then t.token
    else if ch = "t.C" then decide (t.timer = .fired)
    else false
  | _ => false

/-- receiving from the arm's channel -/
def consume (t : Thread) : Arm → Thread
  | .recv ch =>
    if ch = "c" then { t with token := false }
    else if ch = "t.C" then { t with timer := .idle }
    else t
  | _ => t

/-- `jitterDuration(interval, jitter)`: `interval` plus an offset in `[-|jitter|, |jitter|]` -/
def armTimer (v : View) (t : Thread) (off : Int) : Option TimerSt :=
  if -(t.jitter.natAbs : Int) ≤ off ∧ off ≤ t.jitter.natAbs then some (.armed (v.now + t.interval + off)) else none

/-- One atomic step of thread `t`; `c` = which `select` arm, `off` = the random jitter offset. -/
def threadStep (v : View) (t : Thread) (c : Nat) (off : Int) : Option (Thread × Eff) :=
  match t.pc with
  | .spawnStart => if v.writer then none else some ({ t with pc := .spawnLocked }, .rlock)
  | .spawnLocked =>
    if v.ctxDone then some ({ t with pc := .spawnBail }, .none) else some ({ t with pc := .spawnChecked }, .none)
  | .spawnChecked =>
    if spawnAddUnderRLock then some ({ t with pc := .spawnAdded }, .add)
    else some ({ t with pc := .spawnLate }, .runlock)
  | .spawnAdded => some ({ t with pc := .spawnUnlocked }, .runlock)
  | .spawnLate => some ({ t with pc := .spawnUnlocked }, .add)
  | .spawnUnlocked => some ({ t with pc := .init }, .none)
  | .spawnBail => some ({ t with pc := .notSpawned }, .runlock)
  | .notSpawned => none
  | .init =>
    match t.kind with
    | .doOnce => some ({ t with pc := .callF }, .none)
    | .trigger => some ({ t with pc := .loopHead }, .none)
    | _ => (armTimer v t off).map fun tm => ({ t with pc := .loopHead, timer := tm }, .none)
  | .loopHead =>
    if (loopOf t.kind).checksCtxFirst && v.ctxDone then some ({ t with pc := .exiting }, .none)
    else some ({ t with pc := .atSelect }, .none)
  | .atSelect =>
    match (loopOf t.kind).arms[c]? with
    | none => none
    | some (a, act) =>
      if armReady v t a then
        let t1 := consume t a
        match act with
        | .exit => some ({ t1 with pc := .exiting }, .none)
        | .fall => some ({ t1 with pc := if (loopOf t.kind).resetAfterSelect then .resetTimer else .callF }, .none)
        | .reset => some ({ t1 with pc := .resetTimer }, .none)
        | .stopDrainReset => some ({ t1 with pc := .potStop }, .none)
        | .unknown => none
      else none
  | .potStop =>
    match t.timer with
    | .armed _ => some ({ t with timer := .idle, pc := .resetTimer }, .none)
    | .fired =>
      if v.async then some ({ t with pc := .potDrain }, .none)
      else some ({ t with timer := .idle, pc := .resetTimer }, .none)
    | .idle => some ({ t with pc := .potDrain }, .none)
  | .potDrain =>
    if t.timer = .fired then some ({ t with timer := .idle, pc := .resetTimer }, .none) else none
  | .resetTimer => (armTimer v t off).map fun tm => ({ t with pc := .callF, timer := tm }, .none)
  | .callF => some ({ t with pc := .inF, active := t.active + 1, runs := t.runs + 1, owed := false }, .none)
  | .inF => none
  | .exiting => some ({ t with pc := .exited, timer := .idle }, .done)
  | .exited => none

/-- the `select` of the trigger function and the capacity of its channel -/
def fnSelOf : Kind → List Arm × Int
  | .trigger => (trigFnSelect, trigChanCap)
  | .pot => (potFnSelect, potChanCap)
  | _ => ([], 0)

/-- A call of the trigger function returned by `Trigger` / `PeriodicOrTrigger`. -/
def trigSend (t : Thread) : Option Thread :=
  let sc := fnSelOf t.kind
  if sc.1.contains (.send "c") && decide ((if t.token then 1 else 0 : Int) < sc.2) then
    some { t with token := true, owed := true }
  else if sc.1.contains .dflt then some { t with owed := true }
  else none

/-! ### Stop / StopAndWait: interpreting the statement lists -/

inductive StopOp where
  | lock | cancel | unlock | wait | unknown
  deriving DecidableEq, Repr

def decodeStop0 (s : String) : List StopOp :=
  if s = "g.m.Lock()" then [.lock]
  else if s = "g.cancel()" then [.cancel]
  else if s = "g.m.Unlock()" then [.unlock]
  else if s = "g.wg.Wait()" then [.wait]
  else [.unknown]

def stopProg : List StopOp := stopStmts.flatMap decodeStop0

def sawProg : List StopOp :=
  stopAndWaitStmts.flatMap fun s => if s = "g.Stop()" then stopProg else decodeStop0 s

structure Stopper where
  todo : List StopOp
  holdsW : Bool
  /-- it is a `StopAndWait` call -/
  waits : Bool
  /-- ghost: it has cancelled the context while holding the write lock -/
  safe : Bool
  deriving DecidableEq, Repr

structure GState where
  now : Int
  ctxDone : Bool
  wg : Nat
  readers : Nat
  writer : Bool
  threads : List Thread
  stoppers : List Stopper
  async : Bool
  /-- `WaitGroup` counter went negative / unlock of an unlocked mutex -/
  panicked : Bool
  /-- a loop no longer has the shape the model's thread steps assume -/
  unmodelled : Bool
  /-- ghost: some `StopAndWait` call has returned -/
  barrier : Bool
  /-- ghost: some stopper cancelled the context while holding the write lock -/
  safeCancel : Bool
  deriving DecidableEq, Repr

def gInit (now : Int) (async : Bool) : GState :=
  { now := now, ctxDone := false, wg := 0, readers := 0, writer := false, threads := [], stoppers := [],
    async := async, panicked := false, unmodelled := false, barrier := false, safeCancel := false }

inductive GLabel where
  /-- a goroutine calls `Do` / `Trigger` / `Periodic` / `PeriodicOrTrigger` -/
  | register (k : Kind) (interval jitter : Int)
  | work (i : Nat) (c : Nat) (off : Int)
  /-- the running `f` of registration `i` returns -/
  | fEnd (i : Nat)
  | trig (i : Nat)
  | fireTimer (i : Nat)
  | advance (dt : Int)
  | parentCancel
  /-- a goroutine calls `Stop` (`wait = false`) or `StopAndWait` -/
  | stopCall (wait : Bool)
  | stopStep (j : Nat)
  deriving DecidableEq, Repr

def view (s : GState) : View := { ctxDone := s.ctxDone, writer := s.writer, now := s.now, async := s.async }

def applyEff (s : GState) : Eff → GState
  | .none => s
  | .rlock => { s with readers := s.readers + 1 }
  | .runlock => { s with readers := s.readers - 1 }
  | .add => { s with wg := s.wg + 1 }
  | .done => if s.wg = 0 then { s with panicked := true } else { s with wg := s.wg - 1 }

def step (s : GState) : GLabel → Option GState
  | .register k iv j =>
    some { s with threads := s.threads ++ [newThread k iv j], unmodelled := s.unmodelled || !(loopOf k).ok }
  | .work i c off =>
    match s.threads[i]? with
    | none => none
    | some t =>
      match threadStep (view s) t c off with
      | none => none
      | some (t', e) => some (applyEff { s with threads := s.threads.set i t' } e)
  | .fEnd i =>
    match s.threads[i]? with
    | none => none
    | some t =>
      if t.pc = .inF then
        let t' : Thread := { t with pc := if t.kind = .doOnce then .exiting else .loopHead, active := t.active - 1 }
        some { s with threads := s.threads.set i t' }
      else none
  | .trig i =>
    match s.threads[i]? with
    | none => none
    | some t =>
      match trigSend t with
      | none => none
      | some t' => some { s with threads := s.threads.set i t' }
  | .fireTimer i =>
    match s.threads[i]? with
    | none => none
    | some t =>
      match t.timer with
      | .armed due => if due ≤ s.now then some { s with threads := s.threads.set i { t with timer := .fired } } else none
      | _ => none
  | .advance dt => if 0 ≤ dt then some { s with now := s.now + dt } else none
  | .parentCancel => some { s with ctxDone := true }
  | .stopCall w =>
    some { s with stoppers := s.stoppers ++
      [{ todo := if w then sawProg else stopProg, holdsW := false, waits := w, safe := false }] }
  | .stopStep j =>
    match s.stoppers[j]? with
    | none => none
    | some st =>
      match st.todo with
      | [] => none
      | .lock :: rest =>
        if s.writer || s.readers != 0 then none
        else some { s with writer := true, stoppers := s.stoppers.set j { st with todo := rest, holdsW := true } }
      | .cancel :: rest =>
        some { s with ctxDone := true, safeCancel := s.safeCancel || st.holdsW,
                      stoppers := s.stoppers.set j { st with todo := rest, safe := st.safe || st.holdsW } }
      | .unlock :: rest =>
        if st.holdsW then
          some { s with writer := false, stoppers := s.stoppers.set j { st with todo := rest, holdsW := false } }
        else some { s with panicked := true }
      | .wait :: rest =>
        if s.wg = 0 then
          some { s with barrier := s.barrier || (st.waits && rest.isEmpty),
                        stoppers := s.stoppers.set j { st with todo := rest } }
        else none
      | .unknown :: _ => some { s with unmodelled := true }

inductive Reach (s0 : GState) : GState → Prop where
  | refl : Reach s0 s0
  | step {s s' : GState} (l : GLabel) : Reach s0 s → step s l = some s' → Reach s0 s'

/-! ### Executable exploration (conformance driver) -/

/-- offsets the jitter may take -/
def offsets (j : Int) : List Int :=
  (List.range (2 * j.natAbs + 1)).map fun k => Int.ofNat k - Int.ofNat j.natAbs

/-- all internal successors: goroutine steps, timer firings that are due, stopper steps -/
def internalSucc (s : GState) : List GState :=
  let works := (List.range s.threads.length).flatMap fun i =>
    match s.threads[i]? with
    | none => []
    | some t =>
      let cs := if t.pc = .atSelect then List.range (loopOf t.kind).arms.length else [0]
      let offs := if t.pc = .init || t.pc = .resetTimer then offsets t.jitter else [0]
      cs.flatMap fun c => offs.filterMap fun off => step s (.work i c off)
  let fires := (List.range s.threads.length).filterMap fun i => step s (.fireTimer i)
  let stops := (List.range s.stoppers.length).filterMap fun j => step s (.stopStep j)
  works ++ fires ++ stops

def internalReach (fuel : Nat) (todo seen : List GState) : List GState :=
  match fuel, todo with
  | 0, _ => seen
  | _, [] => seen
  | fuel + 1, s :: rest =>
    if seen.contains s then internalReach fuel rest seen
    else internalReach fuel (internalSucc s ++ rest) (s :: seen)

def isQuiescent (s : GState) : Bool := (internalSucc s).isEmpty

def nextDue (s : GState) : Option Int :=
  (s.threads.filterMap fun t => match t.timer with | .armed d => some d | _ => none).foldl
    (fun acc x => match acc with | none => some x | some a => some (min a x)) none

def minOf : List Int → Option Int
  | [] => none
  | x :: xs => some (xs.foldl min x)

/-- virtual time: the clock moves only when nothing can run -/
def advanceTo (fuel : Nat) (target : Int) (S : List GState) : List GState :=
  match fuel with
  | 0 => []
  | fuel + 1 =>
    let Q := ((internalReach 200000 S []).filter isQuiescent).eraseDups
    match minOf (Q.filterMap nextDue) with
    | some t =>
      if t < target then advanceTo fuel target (Q.map fun q => { q with now := max t q.now })
      else Q.map fun q => { q with now := max target q.now }
    | none => Q.map fun q => { q with now := max target q.now }

end Juniper.Model.Group
