import Juniper.Generated.Merge
/-!
# Executable LTS model of `stream.Merge` (C12; the Merge clauses of C08 and C09)

`k` goroutines, one per input, feed an unbuffered `Pipe`; the consumer of the merged stream calls
`Next` and finally `Close`. One label = one atomic step of one goroutine (one return of
`in[i].Next`, the CAS on `closeOnce`, `cancel()`, `sender.Close`, one outcome of the `select` in
`PipeSender.Send`, one deferred call) or of the consumer (`Next` begins, one arm of the `select` in
`pipeStream.Next` fires, `Close` begins, one statement of `Close`). All interleavings are the
reachable states.

Read from `Juniper.Gen.Merge` (regenerated from `stream/stream.go` on every run): the deferred calls
of the goroutine and their order, the `nDone`/`closeOnce` test of the last goroutine and its
`sender.Close(nil)`, the statements run by the CAS winner, which context `Next`/`Send` are given,
the arms of `PipeSender.Send` and `pipeStream.Next`, the statements of `mergeStream.Close` and of
its `cancel` closure, `sender.Close(nil)` on zero inputs, `wg.Add(len(in))`, and **where the context
handed to the inputs and to `Send` comes from** (`ctxOrigin`: the right-hand side of `ctx, cancel := …` and
every occurrence of `ctx` and `cancel` in `Merge`). Only when that context is
`context.WithCancel(context.Background())` and `cancel` occurs nowhere but in the two modelled calls is
"the context ends only through `cancel()`" true; otherwise the environment label `ctxEnds` (its deadline
passes, its parent is cancelled, somebody else calls `cancel`) is enabled and the model follows the code.
-/
namespace Juniper.Model.StreamMerge
open Juniper.Facts

/-- An error as seen by the consumer / the CAS: injected input error `e`, or the error of the
shared (cancelled) context. -/
inductive Err | inj (e : Nat) | ctx
  deriving DecidableEq, Repr, Hashable

/-- The deferred calls of a goroutine (plus the second half of the deferred closure). -/
inductive ExitStep
  | markDone                 -- `atomic.AddUint32(&nDone, 1)`
  | checkLast (d : Nat)      -- `… == len(in) && atomic.LoadUint32(&closeOnce) == 0` → `sender.Close(nil)`
  | closeInput               -- `in[i].Close()`
  | wgDone                   -- `wg.Done()`
  deriving DecidableEq, Repr, Hashable

inductive WinStep | cancel | closeErr
  deriving DecidableEq, Repr, Hashable

inductive CloseStep | closeInner | cancel | wait
  deriving DecidableEq, Repr, Hashable

/-- Deferred calls run in reverse source order. -/
def exitSeq : List ExitStep :=
  Gen.Merge.smDefers.reverse.filterMap fun d =>
    if d == "func" then some .markDone
    else if d == "in[i].Close()" then some .closeInput
    else if d == "wg.Done()" then some .wgDone
    else none

def winSeq : List WinStep :=
  Gen.Merge.smWinStmts.filterMap fun d =>
    if d == "cancel()" then some .cancel
    else if d == "sender.Close(err)" then some .closeErr
    else none

/-- `mergeStream.Close`: `s.inner.Close()` closes `streamDone`; `s.cancel()` runs the closure. -/
def closeSeq : List CloseStep :=
  Gen.Merge.smCloseStmts.flatMap fun d =>
    if d == "s.inner.Close()" then
      (if Gen.Merge.pipeStreamCloseStmts.contains "close(s.streamDone)" then [.closeInner] else [])
    else if d == "s.cancel()" then
      Gen.Merge.smCancelStmts.filterMap fun c =>
        if c == "cancel()" then some .cancel else if c == "wg.Wait()" then some .wait else none
    else []

def nextUsesCtx : Bool := Gen.Merge.smNextRecv == "in[i].Next(ctx)"
def sendUsesCtx : Bool := Gen.Merge.smSendCall == "sender.Send(ctx,item)"
def sendArmCtx : Bool := Gen.Merge.pipeSendArms.contains (.recv "ctx.Done()")
def sendArmStreamDone : Bool := Gen.Merge.pipeSendArms.contains (.recv "s.streamDone")
def sendArmSenderDone : Bool := Gen.Merge.pipeSendArms.contains (.recv "s.senderDone")
def sendArmC : Bool := Gen.Merge.pipeSendArms.contains (.send "s.c")
def nextArmCtx : Bool := Gen.Merge.pipeNextArms.contains (.recv "ctx.Done()")
def nextArmC : Bool := Gen.Merge.pipeNextArms.contains (.recv "s.c")
def nextArmSenderDone : Bool := Gen.Merge.pipeNextArms.contains (.recv "s.senderDone")
def consumerNextIsPipeNext : Bool := Gen.Merge.smNextStmts == ["return s.inner.Next(ctx)"]
def senderCloseCloses : Bool := Gen.Merge.pipeSenderCloseStmts.contains "close(s.senderDone)"
def wgInit (k : Nat) : Nat := if Gen.Merge.smWgAdd == "len(in)" then k else 0
def casGuards : Bool := Gen.Merge.smCasCond == "atomic.CompareAndSwapUint32(&closeOnce,0,1)"

/-- Where the context handed to `in[i].Next` and `sender.Send` comes from. -/
inductive CtxOrigin
  | plainCancel         -- `context.WithCancel(context.Background())`, `cancel` used only where the LTS calls it
  | deadline            -- `context.WithTimeout` / `context.WithDeadline`: ends when time passes
  | derivedFromCaller   -- `context.WithCancel(<something other than Background()>)`: ends with its parent
  | other               -- anything else (another constructor, a further use of `cancel` or `ctx`)
  deriving DecidableEq, Repr, Hashable

/-- Classification of the regenerated texts. `cancel` must occur exactly twice, as the call `cancel()` (the
positions of the two calls are `smWinStmts` and `smCancelStmts`: the CAS winner's statements and the closure
run by `Close`), and `ctx` exactly as the argument of `in[i].Next` and of `sender.Send`: then nobody but those
two calls can end the context, it has no deadline, and no parent that could end. -/
def ctxOriginOf (rhs ctor _parent : String) (cancelUses ctxUses : List String) : CtxOrigin :=
  if rhs == "context.WithCancel(context.Background())" then
    (if cancelUses == ["cancel()", "cancel()"] && ctxUses == ["in[i].Next(ctx)", "sender.Send(ctx,item)"]
      then .plainCancel else .other)
  else if ctor == "context.WithTimeout" || ctor == "context.WithDeadline" then .deadline
  else if ctor == "context.WithCancel" then .derivedFromCaller
  else .other

/-- the origin of `ctx` in the `stream.Merge` that was read on this run -/
def ctxOrigin : CtxOrigin :=
  ctxOriginOf Gen.Merge.smCtxRhs Gen.Merge.smCtxCtor Gen.Merge.smCtxParent Gen.Merge.smCtxCancelUses
    Gen.Merge.smCtxCtxUses

/-- ghost: why a goroutine left its loop -/
inductive Why | ended | lostCas | wonCas | sendFailed
  deriving DecidableEq, Repr, Hashable

inductive GPc (V : Type)
  | next                              -- inside `in[i].Next(ctx)`
  | gotErr (e : Err)                  -- `Next` returned a non-End error: at the CAS
  | won (e : Err) (rest : List WinStep) -- CAS won: running `cancel()`, `sender.Close(err)`
  | send (v : V)                      -- inside `sender.Send(ctx, v)`
  | exiting (rest : List ExitStep)    -- running the deferred calls
  | finished
  deriving DecidableEq, Repr, Hashable

/-- Goroutine `i` together with the ghost log of its input. -/
structure G (V : Type) where
  pc : GPc V := .next
  items : List V := []       -- ghost: items returned by `in[i].Next` so far
  nexts : Nat := 1           -- ghost: `in[i].Next` calls begun
  closes : Nat := 0          -- ghost: `in[i].Close` calls
  nextAfterClose : Bool := false  -- ghost: a `Next` began after a `Close`
  dropped : List V := []     -- ghost: the item whose `Send` failed (context / receiver / sender closed)
  why : Option Why := none   -- ghost: why the loop was left
  deriving DecidableEq, Repr, Hashable

inductive CPc
  | idle
  | inNext (live : Bool)            -- inside `Next(ctx)`; `live = false`: ctx already expired
  | closing (rest : List CloseStep) -- inside `Close`; `closing []` = `Close` has returned
  deriving DecidableEq, Repr, Hashable

inductive Res (V : Type)
  | item (i : Nat) (v : V) | endd | err (e : Err) | ctx
  deriving DecidableEq, Repr, Hashable

structure St (V : Type) where
  k : Nat
  origin : CtxOrigin           -- where `ctx` comes from (constant; `init` reads it from the generated facts)
  gs : List (G V)
  nDone : Nat := 0
  closeOnce : Bool := false
  cancelled : Bool := false
  wg : Nat
  senderCloses : Nat := 0          -- number of `sender.Close` calls (a second one panics)
  senderErr : Option Err := none   -- `*s.senderErr` (nil = none)
  streamDone : Bool := false
  cpc : CPc := .idle
  errLog : List (Nat × Nat) := []  -- ghost: (input, error) for every injected error returned by a `Next`
  winner : Option (Nat × Err) := none  -- ghost: (goroutine, error) of the CAS that succeeded (the first attempt)
  out : List (Nat × V) := []       -- ghost: items handed to the consumer, tagged with their input
  results : List (Res V) := []     -- ghost: what the consumer's `Next` calls returned, in order
  deriving DecidableEq, Repr, Hashable

inductive Label (V : Type)
  -- inputs (environment): what a `Next` call in progress returns
  | inItem (i : Nat) (v : V) | inEnd (i : Nat) | inErr (i : Nat) (e : Nat)
  | inCtx (i : Nat)              -- the input honours the cancelled shared context
  /-- environment: the context handed to the inputs ends although `cancel()` has not been called — its
  deadline passes, its parent is cancelled, another holder of `cancel` calls it. Enabled iff the origin of
  the context is not `plainCancel`. -/
  | ctxEnds
  -- goroutine `i`
  | cas (i : Nat) | win (i : Nat) | sendOk (i : Nat) | sendFail (i : Nat) | exitStep (i : Nat)
  -- consumer of the merged stream
  | cCall (live : Bool) | cEnd | cCtx | cClose | cCloseStep
  /-- environment: the context of the consumer's pending `Next` expires / is cancelled while the call is
  in progress (`inNext true → inNext false`); from then on the `ctx.Done()` arm of that `Next` is ready -/
  | cExpire
  deriving DecidableEq, Repr

def init (V : Type) (k : Nat) : St V :=
  { k := k, origin := ctxOrigin, gs := List.replicate k {}, wg := wgInit k,
    senderCloses := if Gen.Merge.smZeroCond k && Gen.Merge.smZeroCloses then 1 else 0 }

def setPc {V : Type} (s : St V) (i : Nat) (g : G V) (pc : GPc V) : St V :=
  { s with gs := s.gs.set i { g with pc := pc } }

/-- Goroutine `i` leaves its loop and starts running its deferred calls. -/
def leave {V : Type} (s : St V) (i : Nat) (g : G V) (w : Why) : St V :=
  { s with gs := s.gs.set i { g with pc := .exiting exitSeq, why := some w } }

/-- Goroutine `i` calls `in[i].Next` again. -/
def again {V : Type} (g : G V) : G V :=
  { g with pc := .next, nexts := g.nexts + 1, nextAfterClose := g.nextAfterClose || decide (0 < g.closes) }

def senderClose {V : Type} (s : St V) (e : Option Err) : St V :=
  if senderCloseCloses then { s with senderCloses := s.senderCloses + 1, senderErr := e }
  else { s with senderErr := e }

def step {V : Type} (s : St V) : Label V → Option (St V)
  | .inItem i v =>
    match s.gs[i]? with
    | some g => match g.pc with
      | .next => some { s with gs := s.gs.set i { g with pc := .send v, items := g.items ++ [v] } }
      | _ => none
    | none => none
  | .inEnd i =>
    match s.gs[i]? with
    | some g => match g.pc with
      | .next => if Gen.Merge.smEndReturns then some (leave s i g .ended) else none
      | _ => none
    | none => none
  | .inErr i e =>
    match s.gs[i]? with
    | some g => match g.pc with
      | .next => some { setPc s i g (.gotErr (.inj e)) with errLog := s.errLog ++ [(i, e)] }
      | _ => none
    | none => none
  | .inCtx i =>
    match s.gs[i]? with
    | some g => match g.pc with
      | .next => if s.cancelled && nextUsesCtx then some (setPc s i g (.gotErr .ctx)) else none
      | _ => none
    | none => none
  | .ctxEnds =>
    if s.origin != .plainCancel && !s.cancelled then some { s with cancelled := true } else none
  | .cas i =>
    match s.gs[i]? with
    | some g => match g.pc with
      | .gotErr e =>
        if casGuards && !s.closeOnce then
          some { setPc s i g (.won e winSeq) with closeOnce := true, winner := some (i, e) }
        else if casGuards then some (leave s i g .lostCas)
        else none
      | _ => none
    | none => none
  | .win i =>
    match s.gs[i]? with
    | some g => match g.pc with
      | .won e (.cancel :: rest) => some { setPc s i g (.won e rest) with cancelled := true }
      | .won e (.closeErr :: rest) => some (senderClose (setPc s i g (.won e rest)) (some e))
      | .won _ [] => if Gen.Merge.smErrReturns then some (leave s i g .wonCas) else none
      | _ => none
    | none => none
  | .sendOk i =>
    match s.gs[i]? with
    | some g => match g.pc, s.cpc with
      | .send v, .inNext _ =>
        if sendArmC && nextArmC && consumerNextIsPipeNext && decide (Gen.Merge.smPipeBuf = 0) then
          some { s with gs := s.gs.set i (again g), cpc := .idle,
                        out := s.out ++ [(i, v)], results := s.results ++ [.item i v] }
        else none
      | _, _ => none
    | none => none
  | .sendFail i =>
    match s.gs[i]? with
    | some g => match g.pc with
      | .send v =>
        if ((s.cancelled && sendUsesCtx && sendArmCtx) || (s.streamDone && sendArmStreamDone)
            || (decide (0 < s.senderCloses) && sendArmSenderDone)) && Gen.Merge.smSendErrReturns then
          some (leave s i { g with dropped := g.dropped ++ [v] } .sendFailed)
        else none
      | _ => none
    | none => none
  | .exitStep i =>
    match s.gs[i]? with
    | some g => match g.pc with
      | .exiting (.markDone :: rest) =>
        some { setPc s i g (.exiting (.checkLast (s.nDone + 1) :: rest)) with nDone := s.nDone + 1 }
      | .exiting (.checkLast d :: rest) =>
        let s' := setPc s i g (.exiting rest)
        if Gen.Merge.smLastCond d s.k (if s.closeOnce then 1 else 0) && Gen.Merge.smLastCloses then
          some (senderClose s' none)
        else some s'
      | .exiting (.closeInput :: rest) =>
        some { s with gs := s.gs.set i { g with pc := .exiting rest, closes := g.closes + 1 } }
      | .exiting (.wgDone :: rest) => some { setPc s i g (.exiting rest) with wg := s.wg - 1 }
      | .exiting [] => some (setPc s i g .finished)
      | _ => none
    | none => none
  | .cCall live =>
    match s.cpc with
    | .idle => some { s with cpc := .inNext live }
    | _ => none
  | .cEnd =>
    match s.cpc with
    | .inNext _ =>
      if decide (0 < s.senderCloses) && nextArmSenderDone && consumerNextIsPipeNext then
        some { s with cpc := .idle,
                      results := s.results ++ [match s.senderErr with | none => .endd | some e => .err e] }
      else none
    | _ => none
  | .cExpire =>
    match s.cpc with
    | .inNext true => some { s with cpc := .inNext false }
    | _ => none
  | .cCtx =>
    match s.cpc with
    | .inNext false =>
      if nextArmCtx then some { s with cpc := .idle, results := s.results ++ [.ctx] } else none
    | _ => none
  | .cClose =>
    match s.cpc with
    | .idle => some { s with cpc := .closing closeSeq }
    | _ => none
  | .cCloseStep =>
    match s.cpc with
    | .closing (.closeInner :: rest) => some { s with cpc := .closing rest, streamDone := true }
    | .closing (.cancel :: rest) => some { s with cpc := .closing rest, cancelled := true }
    | .closing (.wait :: rest) => if s.wg = 0 then some { s with cpc := .closing rest } else none
    | _ => none

inductive Reach {V : Type} (s0 : St V) : St V → Prop
  | refl : Reach s0 s0
  | step {s s' : St V} (l : Label V) : Reach s0 s → step s l = some s' → Reach s0 s'

def run {V : Type} (s : St V) : List (Label V) → Option (St V)
  | [] => some s
  | l :: ls => match step s l with
    | some s' => run s' ls
    | none => none

/-- Labels that need no further input: steps of the goroutines and of the consumer's pending call,
plus `inCtx` (an input whose `Next` honours the context it was given). -/
def internalLabels {V : Type} (s : St V) : List (Label V) :=
  [.cEnd, .cCtx, .cCloseStep] ++
  (List.range s.k).flatMap fun i => [.inCtx i, .cas i, .win i, .sendOk i, .sendFail i, .exitStep i]

def proj {V : Type} (i : Nat) (out : List (Nat × V)) : List V :=
  (out.filter (fun p => p.1 == i)).map (·.2)

def heldG {V : Type} : GPc V → List V
  | .send v => [v]
  | _ => []

end Juniper.Model.StreamMerge
