import Juniper.Generated.Par
import Juniper.Generated.ParSync
/-!
# Models of `parallel.MapStream` and `parallel.MapIterator` — C14 (and the MapStream clauses of C08/C09)

Labelled transition systems: one label = one atomic step of one goroutine (one `select` arm, one
channel hand-off, one atomic counter operation, one lock-protected section). The dispatcher, the `P`
workers and the consumer (`Next` / `Close`) are the goroutines; the source stream / iterator and `f`
are the environment (their calls begin with an internal step and return with an environment label
carrying an arbitrary result). The reorder heap is abstracted to a finite set of `(index, value)`
pairs with "peek/pop the minimum index" (container/xheap is verified separately, C05).

Guards, channel capacities, token count and `select` arm tables are the definitions regenerated from
`parallel/parallel.go` (`Juniper.Gen.Par`); they enter through the records `Stream.Code` / `Iter.Code`.
So do three *disciplines* computed from `Juniper.Gen.ParSync` (ordered synchronisation operations with
the receiver resolved to the struct field, origin of the context, call sites of `cancel`):

* `Iter.sectionsAtomic` — MapIterator's two critical sections lock the same `sync.Mutex` field, which is
  the locker of the `*sync.Cond` both use; the wait is a `for` loop; increment / decrement / `Signal` are
  inside; nothing else touches `inFlight` or the lock. Only then are `dAcquire` ("Lock; check; park or
  take a slot; Unlock") and the lock section of `cYield` atomic labels. When it does not hold the LTS has
  the behaviour such code has: the dispatcher's check and its parking are two steps (`dAcquire` to
  `.checked`, then `dPark`), a `cYield` may come in between and its `Signal` is lost.
* `Stream.ctxPlain` — the context handed to the source, to `f` and to the selects is
  `errgroup.WithContext(context.WithCancel(<the caller's ctx>))` and `cancel` is called by `Close` only.
  Otherwise the environment label `libCtxEnd` — that context ends by the library's own
  doing, e.g. a timeout — is enabled.
* `Stream.code.closeCancels` / `closeWaits` — `Close` is `s.cancel()` followed by `s.eg.Wait()`.
  Otherwise `closeCall` does not cancel / `cCloseDone` does not wait.
Core Lean only.
-/
namespace Juniper.Model.ParMap
open Juniper.Gen Juniper.Facts

/-- number of iterations of `for j := 0; cond j; j++` (with fuel) -/
def loopCount (cond : Int → Bool) : Nat → Int → Nat
  | 0, _ => 0
  | f + 1, j => if cond j then loopCount cond f (j + 1) + 1 else 0

/-- Result of one call of `f`: a value or error number `k`. -/
inductive Res where
  | ok (v : Nat)
  | err (k : Nat)
  deriving DecidableEq, Repr, Hashable, BEq

/-- minimum index in the reorder buffer (`h.Peek().idx`) -/
def heapMin (h : List (Nat × Nat)) : Option Nat := (h.map (·.1)).min?

/-- calls on the source, in order -/
inductive SrcEv where
  | nextBegin | nextEnd | closeBegin | closeEnd
  deriving DecidableEq, Repr, Hashable, BEq

/-- what a source call returns -/
inductive SrcRes where
  | item (v : Nat)
  | «end»
  | err (k : Nat)
  deriving DecidableEq, Repr, Hashable, BEq

/-! ## MapStream -/
namespace Stream

structure Code where
  clampLow : Int → Bool
  bufClamp : Int → Int → Bool
  inCap : Int → Int
  readyCap : Int → Int
  cCap : Int → Int
  tokenLoop : Int → Int → Bool
  spawnLoop : Int → Int → Bool
  dispEnd : Bool → Bool
  dispFailed : Bool → Bool
  dispWaitArms : List Arm
  dispSendArms : List Arm
  workerSendArms : List Arm
  nextArms : List Arm
  lastWorker : Int → Int → Bool
  workerFailed : Bool → Bool
  nextReady : Int → Int → Int → Bool
  nextClosed : Bool → Bool
  nextFailed : Bool → Bool
  /-- `defer s.Close()` in the dispatcher -/
  closesSource : Bool
  /-- `defer close(in)` in the dispatcher -/
  closesIn : Bool
  /-- `close(c)` by the last worker -/
  lastCloses : Bool
  /-- `s.ready <- struct{}{}` when yielding -/
  releases : Bool
  /-- `s.cancel()` is the first statement of `Close` -/
  closeCancels : Bool
  /-- `_ = s.eg.Wait()` in `Close` -/
  closeWaits : Bool
  /-- the context handed to the source / `f` / the selects is `errgroup.WithContext(context.WithCancel(ctx))`,
  cancelled by `Close` only (`ctxPlain`); otherwise it can end by the library's own doing (`libCtxEnd`) -/
  ctxPlain : Bool
  /-- remaining presence facts -/
  structural : Bool

/-- **Origin of the context** (`Juniper.Gen.ParSync`): the only assignments to `ctx` / `cancel` / `eg` in the
whole body of `MapStream` (closures included) are `ctx, cancel := context.WithCancel(ctx)` followed by
`eg, ctx := errgroup.WithContext(ctx)`; no function literal re-binds these names; `cancel` is used twice:
stored in the returned `mapStream` and called by `mapStream.Close`; `context` / `errgroup` are the standard
packages. Then the context the dispatcher passes to the source's `Next`, the workers pass to `f` and all
their selects wait on is done only when the caller's context is, when `Close` was called, or when the
errgroup recorded a failure — never by the passage of time. -/
def ctxPlainOf (assigns : List (String × String)) (shadows : List String) (cancelUses imports : List (String × String)) :
    Bool :=
  assigns == [("ctx, cancel", "context.WithCancel(ctx)"), ("eg, ctx", "errgroup.WithContext(ctx)")]
  && shadows == []
  && cancelUses == [("MapStream", "cancel: cancel"), ("mapStream.Close", "s.cancel()")]
  && imports.contains ("", "context")
  && imports.contains ("", "golang.org/x/sync/errgroup")

/-- `ctxPlainOf` of the source as it is now -/
def ctxPlain : Bool :=
  ctxPlainOf ParSync.msCtxAssigns ParSync.msCtxShadows ParSync.msCancelUses ParSync.parImports

/-- `parallel.MapStream`, `mapStream.Next`, `mapStream.Close` as they are in the source now. -/
def code : Code where
  clampLow := Par.msClampLow
  bufClamp := Par.msBufClamp
  inCap := Par.msInCap
  readyCap := Par.msReadyCap
  cCap := Par.msCCap
  tokenLoop := Par.msTokenLoop
  spawnLoop := Par.msSpawnLoop
  dispEnd := Par.msDispEnd
  dispFailed := Par.msDispFailed
  dispWaitArms := Par.msDispWaitArms
  dispSendArms := Par.msDispSendArms
  workerSendArms := Par.msWorkerSendArms
  nextArms := Par.msNextArms
  lastWorker := Par.msLastWorker
  workerFailed := Par.msWorkerFailed
  nextReady := Par.msNextReady
  nextClosed := Par.msNextClosed
  nextFailed := Par.msNextFailed
  closesSource := Par.msDispClosesSource
  closesIn := Par.msDispClosesIn
  lastCloses := Par.msLastCloses
  releases := Par.msNextReleases
  closeCancels := Par.msCloseCancels && Par.msCloseCancelBeforeWait
  closeWaits := Par.msCloseWaits
  ctxPlain := ctxPlain
  structural := Par.msBufClampAssigns && Par.msTokenLoopSends && Par.msCancelCtx && Par.msErrgroup
    && Par.msCancelOutsideErrgroup && Par.msDispPulls && Par.msDispEndBreaks && Par.msDispReturnsErr
    && Par.msDispWaitCtxReturns && Par.msDispSendCtxReturns && Par.msDispNumbers && Par.msDispReturnsNil
    && Par.msWorkerCalls && Par.msWorkerReturnsErr && Par.msWorkerCtxReturns && Par.msWorkerReturnsNil
    && Par.msNextPops && Par.msNextAdvances && Par.msNextYields && Par.msNextWaits
    && Par.msNextReturnsErr && Par.msNextReturnsEnd && Par.msNextPushes && Par.msNextCtxReturns

def ctxDoneArm : Arm := .recv "ctx.Done()"

/-- What the proofs need to know about the anchored sites of MapStream. -/
structure Code.Sound (c : Code) : Prop where
  clampLow : ∀ p, c.clampLow p = decide (p ≤ 0)
  bufClamp : ∀ b p, c.bufClamp b p = decide (b < p)
  inCap : ∀ b, c.inCap b = 0
  readyCap : ∀ b, c.readyCap b = b
  cCap : ∀ b, c.cCap b = b
  tokenLoop : ∀ i b, c.tokenLoop i b = decide (i < b)
  spawnLoop : ∀ i p, c.spawnLoop i p = decide (i < p)
  dispEnd : ∀ b, c.dispEnd b = b
  dispFailed : ∀ b, c.dispFailed b = b
  dispWaitArms : sameArms c.dispWaitArms [ctxDoneArm, .recv "ready"] = true
  dispSendArms : sameArms c.dispSendArms [ctxDoneArm, .send "in"] = true
  workerSendArms : sameArms c.workerSendArms [.send "c", ctxDoneArm] = true
  nextArms : sameArms c.nextArms [.recv "s.c", ctxDoneArm] = true
  waitHasReady : c.dispWaitArms.contains (.recv "ready") = true
  waitHasCtx : c.dispWaitArms.contains ctxDoneArm = true
  sendHasIn : c.dispSendArms.contains (.send "in") = true
  sendHasCtx : c.dispSendArms.contains ctxDoneArm = true
  workerHasC : c.workerSendArms.contains (.send "c") = true
  workerHasCtx : c.workerSendArms.contains ctxDoneArm = true
  nextHasC : c.nextArms.contains (.recv "s.c") = true
  nextHasCtx : c.nextArms.contains ctxDoneArm = true
  lastWorker : ∀ d p, c.lastWorker d p = decide (d = p)
  workerFailed : ∀ b, c.workerFailed b = b
  nextReady : ∀ l m i, c.nextReady l m i = (decide (l > 0) && decide (m = i))
  nextClosed : ∀ b, c.nextClosed b = !b
  nextFailed : ∀ b, c.nextFailed b = b
  closesSource : c.closesSource = true
  closesIn : c.closesIn = true
  lastCloses : c.lastCloses = true
  releases : c.releases = true
  closeCancels : c.closeCancels = true
  closeWaits : c.closeWaits = true
  ctxPlain : c.ctxPlain = true
  structural : c.structural = true

structure Cfg where
  code : Code
  /-- requested parallelism -/
  P : Int
  /-- requested buffer size -/
  B : Int
  gmp : Nat

/-- parallelism after `if parallelism <= 0 { parallelism = GOMAXPROCS }` -/
def par (cfg : Cfg) : Int := if cfg.code.clampLow cfg.P then (cfg.gmp : Int) else cfg.P

/-- bufferSize after `if bufferSize < parallelism { bufferSize = parallelism }` -/
def buf (cfg : Cfg) : Int := if cfg.code.bufClamp cfg.B (par cfg) then par cfg else cfg.B

def numWorkers (cfg : Cfg) : Nat :=
  loopCount (fun j => cfg.code.spawnLoop j (par cfg)) ((par cfg).toNat + 1) 0

def numTokens (cfg : Cfg) : Nat :=
  loopCount (fun j => cfg.code.tokenLoop j (buf cfg)) ((buf cfg).toNat + 1) 0

def readyCap (cfg : Cfg) : Nat := (cfg.code.readyCap (buf cfg)).toNat
def cCap (cfg : Cfg) : Nat := (cfg.code.cCap (buf cfg)).toNat

inductive Err where
  | f (k : Nat)
  | src (k : Nat)
  /-- `ctx.Err()` after the context given to MapStream was cancelled by the caller -/
  | ctxParent
  /-- `ctx.Err()` after `Close` cancelled -/
  | ctxClose
  /-- `ctx.Err()` after the errgroup cancelled its own context -/
  | ctxLib
  deriving DecidableEq, Repr, Hashable, BEq

inductive Cause where
  | parent | close | lib
  deriving DecidableEq, Repr, Hashable, BEq

def Cause.err : Cause → Err
  | .parent => .ctxParent
  | .close => .ctxClose
  | .lib => .ctxLib

/-- dispatcher -/
inductive DPc where
  | pull
  | inNext
  | waitReady (v : Nat)
  | sendIn (v : Nat)
  /-- the function body returned `r`; `close(in)` and `s.Close()` are deferred -/
  | exiting (r : Option Err)
  /-- inside the deferred `s.Close()` -/
  | srcClosing (r : Option Err)
  /-- errgroup bookkeeping pending -/
  | egRet (r : Option Err)
  | done
  deriving DecidableEq, Repr, Hashable, BEq

/-- worker -/
inductive WPc where
  | idle
  | inF (k : Nat)
  | sendC (k : Nat) (v : Nat)
  | exiting (r : Option Err)
  | egRet (r : Option Err)
  | done
  deriving DecidableEq, Repr, Hashable, BEq

/-- consumer -/
inductive CPc where
  | idle
  /-- inside `Next`; `live`: its context has not expired -/
  | next (live : Bool)
  /-- inside `Next`, popped `(k, v)`, about to `s.ready <- struct{}{}` -/
  | releasing (k v : Nat)
  /-- inside `Next`, in `s.eg.Wait()` -/
  | nextWait
  /-- inside `Close`, in `s.eg.Wait()` -/
  | closeWait
  | closed
  deriving DecidableEq, Repr, Hashable, BEq

inductive NextRes where
  | val (k v : Nat)
  | «end»
  | err (e : Err)
  /-- the error of the context passed to this `Next` call -/
  | ctxCons
  deriving DecidableEq, Repr, Hashable, BEq

structure St where
  disp : DPc
  /-- dispatcher's `i`: number of items handed to workers -/
  dispI : Nat
  ready : Nat
  inClosed : Bool
  ws : List WPc
  nDone : Nat
  c : List (Nat × Nat)
  cClosed : Bool
  parentCancelled : Bool
  closeCalled : Bool
  /-- the errgroup context is done, and who cancelled first -/
  ctxCause : Option Cause
  egErr : Option Err
  /-- goroutines of the errgroup that have not finished -/
  egLive : Nat
  cons : CPc
  heap : List (Nat × Nat)
  i : Nat
  -- ghost
  srcLog : List SrcEv
  srcItems : List Nat
  srcErr : Option Nat
  srcEnded : Bool
  fBegun : List (Nat × Nat)
  fEnded : List (Nat × Res)
  /-- indices whose result never reaches `c`: `f` failed, or the worker saw `ctx.Done()` -/
  dropped : List Nat
  /-- tokens taken by the dispatcher whose item was never sent -/
  lost : Nat
  results : List NextRes
  deriving DecidableEq, Repr, Hashable, BEq

def init (cfg : Cfg) : St where
  disp := .pull
  dispI := 0
  ready := numTokens cfg
  inClosed := false
  ws := List.replicate (numWorkers cfg) .idle
  nDone := 0
  c := []
  cClosed := false
  parentCancelled := false
  closeCalled := false
  ctxCause := none
  egErr := none
  egLive := numWorkers cfg + 1
  cons := .idle
  heap := []
  i := 0
  srcLog := []
  srcItems := []
  srcErr := none
  srcEnded := false
  fBegun := []
  fEnded := []
  dropped := []
  lost := 0
  results := []

inductive Label where
  -- dispatcher
  | dPull
  | srcRet (r : SrcRes)          -- environment
  | dTakeToken
  | dWaitCtx
  | dSend (w : Nat)
  | dSendCtx
  | dCloseIn
  | srcCloseRet                  -- environment
  | dEgDone
  -- workers
  | fRet (w : Nat) (r : Res)     -- environment
  | wSendC (w : Nat)
  | wSendCtx (w : Nat)
  | wExitIdle (w : Nat)
  | wDefer (w : Nat)
  | wEgDone (w : Nat)
  -- consumer
  | nextCall (live : Bool)       -- environment
  | consCtxExpire                -- environment
  | cYield
  | cRelease
  | cRecv
  | cRecvClosed
  | cCtx
  | cWaitDone
  | closeCall                    -- environment
  | cCloseDone
  | parentCancel                 -- environment
  /-- environment: the library's context ends by the library's own doing (a timeout, a stray `cancel()`);
  enabled only when `ctxPlain` does not hold -/
  | libCtxEnd
  deriving DecidableEq, Repr

def Label.isEnv : Label → Bool
  | .srcRet _ | .srcCloseRet | .fRet _ _ | .nextCall _ | .consCtxExpire | .closeCall | .parentCancel
  | .libCtxEnd => true
  | _ => false

def ctxDone (s : St) : Bool := s.ctxCause.isSome

/-- `ctx.Err()` of the errgroup context (only evaluated when it is done) -/
def ctxErr (s : St) : Err := match s.ctxCause with
  | some c => c.err
  | none => .ctxLib

/-- errgroup bookkeeping of a goroutine whose function returned `r`: the first non-nil error is
recorded and the context cancelled; `wg.Done()` -/
def egRecord (s : St) (r : Option Err) : St :=
  { s with egErr := if s.egErr.isSome then s.egErr else r,
           ctxCause := if r.isSome && s.egErr.isNone && s.ctxCause.isNone then some .lib else s.ctxCause,
           egLive := s.egLive - 1 }

/-- the consumer's `if s.h.Len() > 0 && s.h.Peek().idx == s.i` -/
def canYield (cfg : Cfg) (s : St) : Bool :=
  cfg.code.nextReady s.heap.length ((heapMin s.heap).getD 0) s.i

def step (cfg : Cfg) (s : St) : Label → Option St
  | .dPull =>
    match s.disp with
    | .pull => some { s with disp := .inNext, srcLog := s.srcLog ++ [SrcEv.nextBegin] }
    | _ => none
  | .srcRet r =>
    match s.disp with
    | .inNext =>
      let s := { s with srcLog := s.srcLog ++ [SrcEv.nextEnd] }
      match r with
      | .item v =>
        if cfg.code.dispEnd false || cfg.code.dispFailed false then none
        else some { s with disp := .waitReady v, srcItems := s.srcItems ++ [v] }
      | .end =>
        if cfg.code.dispEnd true then some { s with disp := .exiting none, srcEnded := true } else none
      | .err k =>
        if !cfg.code.dispEnd false && cfg.code.dispFailed true then
          some { s with disp := .exiting (some (.src k)), srcErr := some k }
        else none
    | _ => none
  | .dTakeToken =>
    match s.disp with
    | .waitReady v =>
      if cfg.code.dispWaitArms.contains (.recv "ready") && decide (s.ready > 0) then
        some { s with disp := .sendIn v, ready := s.ready - 1 }
      else none
    | _ => none
  | .dWaitCtx =>
    match s.disp with
    | .waitReady _ =>
      if cfg.code.dispWaitArms.contains ctxDoneArm && ctxDone s then
        some { s with disp := .exiting (some (ctxErr s)) }
      else none
    | _ => none
  | .dSend w =>
    match s.disp, s.ws[w]? with
    | .sendIn v, some .idle =>
      if cfg.code.dispSendArms.contains (.send "in") && !s.inClosed then
        some { s with disp := .pull, dispI := s.dispI + 1, ws := s.ws.set w (.inF s.dispI),
                      fBegun := s.fBegun ++ [(s.dispI, v)] }
      else none
    | _, _ => none
  | .dSendCtx =>
    match s.disp with
    | .sendIn _ =>
      if cfg.code.dispSendArms.contains ctxDoneArm && ctxDone s then
        some { s with disp := .exiting (some (ctxErr s)), lost := s.lost + 1 }
      else none
    | _ => none
  | .dCloseIn =>
    match s.disp with
    | .exiting r =>
      let s := { s with inClosed := s.inClosed || cfg.code.closesIn }
      if cfg.code.closesSource then
        some { s with disp := .srcClosing r, srcLog := s.srcLog ++ [SrcEv.closeBegin] }
      else some { s with disp := .egRet r }
    | _ => none
  | .srcCloseRet =>
    match s.disp with
    | .srcClosing r => some { s with disp := .egRet r, srcLog := s.srcLog ++ [SrcEv.closeEnd] }
    | _ => none
  | .dEgDone =>
    match s.disp with
    | .egRet r => some { egRecord s r with disp := .done }
    | _ => none
  | .fRet w r =>
    match s.ws[w]? with
    | some (.inF k) =>
      let s := { s with fEnded := s.fEnded ++ [(k, r)] }
      match r with
      | .ok v => if cfg.code.workerFailed false then none else some { s with ws := s.ws.set w (.sendC k v) }
      | .err e =>
        if cfg.code.workerFailed true then
          some { s with ws := s.ws.set w (.exiting (some (.f e))), dropped := s.dropped ++ [k] }
        else none
    | _ => none
  | .wSendC w =>
    match s.ws[w]? with
    | some (.sendC k v) =>
      if cfg.code.workerSendArms.contains (.send "c") && decide (s.c.length < cCap cfg) && !s.cClosed then
        some { s with ws := s.ws.set w .idle, c := s.c ++ [(k, v)] }
      else none
    | _ => none
  | .wSendCtx w =>
    match s.ws[w]? with
    | some (.sendC k _) =>
      if cfg.code.workerSendArms.contains ctxDoneArm && ctxDone s then
        some { s with ws := s.ws.set w (.exiting (some (ctxErr s))), dropped := s.dropped ++ [k] }
      else none
    | _ => none
  | .wExitIdle w =>
    match s.ws[w]? with
    | some .idle => if s.inClosed then some { s with ws := s.ws.set w (.exiting none) } else none
    | _ => none
  | .wDefer w =>
    match s.ws[w]? with
    | some (.exiting r) =>
      let d := s.nDone + 1
      some { s with ws := s.ws.set w (.egRet r), nDone := d,
                    cClosed := s.cClosed || (cfg.code.lastWorker d (par cfg) && cfg.code.lastCloses) }
    | _ => none
  | .wEgDone w =>
    match s.ws[w]? with
    | some (.egRet r) => some { egRecord s r with ws := s.ws.set w .done }
    | _ => none
  | .nextCall live =>
    match s.cons with
    | .idle => some { s with cons := .next live }
    | _ => none
  | .consCtxExpire =>
    match s.cons with
    | .next true => some { s with cons := .next false }
    | _ => none
  | .cYield =>
    match s.cons with
    | .next _ =>
      if canYield cfg s then
        match s.heap.find? (fun kv => kv.1 == (heapMin s.heap).getD 0) with
        | some (k, v) =>
          some { s with cons := .releasing k v, heap := s.heap.eraseP (fun kv => kv.1 == k), i := s.i + 1 }
        | none => none
      else none
    | _ => none
  | .cRelease =>
    match s.cons with
    | .releasing k v =>
      if cfg.code.releases then
        if s.ready < readyCap cfg then
          some { s with cons := .idle, ready := s.ready + 1, results := s.results ++ [.val k v] }
        else none
      else some { s with cons := .idle, results := s.results ++ [.val k v] }
    | _ => none
  | .cRecv =>
    match s.cons, s.c with
    | .next _, kv :: rest =>
      if !canYield cfg s && cfg.code.nextArms.contains (.recv "s.c") then
        some { s with c := rest, heap := s.heap ++ [kv] }
      else none
    | _, _ => none
  | .cRecvClosed =>
    match s.cons, s.c with
    | .next _, [] =>
      if !canYield cfg s && cfg.code.nextArms.contains (.recv "s.c") && s.cClosed && cfg.code.nextClosed false then
        some { s with cons := .nextWait }
      else none
    | _, _ => none
  | .cCtx =>
    match s.cons with
    | .next false =>
      if !canYield cfg s && cfg.code.nextArms.contains ctxDoneArm then
        some { s with cons := .idle, results := s.results ++ [.ctxCons] }
      else none
    | _ => none
  | .cWaitDone =>
    match s.cons with
    | .nextWait =>
      if s.egLive == 0 then
        match s.egErr with
        | some e =>
          if cfg.code.nextFailed true then some { s with cons := .idle, results := s.results ++ [.err e] }
          else some { s with cons := .idle, results := s.results ++ [.end] }
        | none => some { s with cons := .idle, results := s.results ++ [.end] }
      else none
    | _ => none
  | .closeCall =>
    match s.cons with
    | .idle =>
      if cfg.code.closeCancels then
        some { s with cons := .closeWait, closeCalled := true,
                      ctxCause := if s.ctxCause.isSome then s.ctxCause else some .close }
      else some { s with cons := .closeWait, closeCalled := true }
    | _ => none
  | .cCloseDone =>
    match s.cons with
    | .closeWait =>
      if cfg.code.closeWaits then
        if s.egLive == 0 then some { s with cons := .closed } else none
      else some { s with cons := .closed }
    | _ => none
  | .parentCancel =>
    if s.parentCancelled then none else
    some { s with parentCancelled := true,
                  ctxCause := if s.ctxCause.isSome then s.ctxCause else some .parent }
  | .libCtxEnd =>
    if cfg.code.ctxPlain then none
    else if s.ctxCause.isNone then some { s with ctxCause := some .lib } else none

inductive Reach (cfg : Cfg) : St → Prop where
  | init : Reach cfg (init cfg)
  | step {s s' : St} {l : Label} : Reach cfg s → step cfg s l = some s' → Reach cfg s'

def run (cfg : Cfg) : St → List Label → Option St
  | s, [] => some s
  | s, l :: ls => match step cfg s l with
    | some s' => run cfg s' ls
    | none => none

theorem reach_of_run {cfg : Cfg} {s s' : St} {ls : List Label} (h : Reach cfg s)
    (hr : run cfg s ls = some s') : Reach cfg s' := by
  induction ls generalizing s with
  | nil => simp [run] at hr; exact hr ▸ h
  | cons l ls ih =>
    simp only [run] at hr
    split at hr
    · next s1 hs => exact ih (Reach.step h hs) hr
    · simp at hr

def internalLabels (s : St) : List Label :=
  [.dPull, .dTakeToken, .dWaitCtx, .dSendCtx, .dCloseIn, .dEgDone, .cYield, .cRelease, .cRecv,
   .cRecvClosed, .cCtx, .cWaitDone, .cCloseDone]
  ++ (List.range s.ws.length).flatMap
      (fun w => [.dSend w, .wSendC w, .wSendCtx w, .wExitIdle w, .wDefer w, .wEgDone w])

/-- calls of `f` in progress -/
def fRunning (s : St) : Nat := s.ws.countP (fun pc => match pc with | .inF _ => true | _ => false)

/-- a call on the source is in progress -/
def srcBusy (s : St) : Bool := match s.disp with
  | .inNext => true
  | .srcClosing _ => true
  | _ => false

/-- items taken from the source and not yet yielded -/
def inFlight (s : St) : Nat := s.srcItems.length - s.results.countP (fun r => match r with | .val _ _ => true | _ => false)

end Stream

/-! ## MapIterator -/
namespace Iter

structure Code where
  clampLow : Int → Bool
  bufClamp : Int → Int → Bool
  inCap : Int → Int
  chCap : Int → Int
  srcEnded : Bool → Bool
  full : Int → Int → Bool
  spawnLoop : Int → Int → Bool
  lastWorker : Int → Int → Bool
  nextReady : Int → Int → Int → Bool
  signalCond : Int → Int → Bool
  nextClosed : Bool → Bool
  closesIn : Bool
  lastCloses : Bool
  signals : Bool
  waits : Bool
  /-- both critical sections use the same mutex, which is the cond's locker (`sectionsAtomic`) -/
  sectionsAtomic : Bool
  structural : Bool

/-- **Lock / cond discipline of MapIterator** (`Juniper.Gen.ParSync`: ordered synchronisation operations with
the receiver resolved to the struct field, `it` = the `*mapIterator`). The dispatcher's section is
`Lock l; for <full> { Wait c }; inFlight++; Unlock l` inside its loop, `Next`'s is
`Lock l; inFlight--; if <cond> { Signal c }; Unlock l` inside the yield branch, with the *same* lock field
`l` of type `sync.Mutex` and the *same* `*sync.Cond` field `c`, whose one `sync.NewCond(&l)` names `l`;
`inFlight` is an `int` field; the rest of `MapIterator` (constructor, comparison, workers) contains no
lock / cond operation and no access to `inFlight` besides that `NewCond`; no other function of the package
mentions `.inFlight` / `.cond`; `sync` is the standard package. (`bufferSize` / the two guards are the
facts `miFull`, `miNextSignalCond`.) -/
def sectionsAtomicOf (disp next condInit fields rest : List (String × String)) (touchers : List String)
    (imports : List (String × String)) : Bool :=
  match disp, next, condInit with
  | [("for", ""), ("Lock", l1), ("for", _), ("Wait", c1), ("}", _), ("inc", x1), ("Unlock", u1), ("}", _)],
    [("for", ""), ("if", _), ("Lock", l2), ("dec", x2), ("if", _), ("Signal", c2), ("}", _), ("Unlock", u2),
     ("}", _), ("}", _)],
    [(c0, l0)] =>
      l1 == u1 && l2 == u2 && l1 == l2 && c1 == c2 && c0 == c1 && l0 == l1 && x1 == x2
      && fields.lookup l1 == some "sync.Mutex"
      && fields.lookup c1 == some "*sync.Cond"
      && fields.lookup x1 == some "int"
      && rest == [("NewCond", c0 ++ " = sync.NewCond(&" ++ l0 ++ ")")]
      && touchers == ["MapIterator", "mapIterator.Next"]
      && imports.contains ("", "sync")
  | _, _, _ => false

/-- `sectionsAtomicOf` of the source as it is now -/
def sectionsAtomic : Bool :=
  sectionsAtomicOf ParSync.miDispSync ParSync.miNextSync ParSync.miCondInit ParSync.miFields ParSync.miRestSync
    ParSync.miTouchers ParSync.parImports

def code : Code where
  clampLow := Par.miClampLow
  bufClamp := Par.miBufClamp
  inCap := Par.miInCap
  chCap := Par.miChCap
  srcEnded := Par.miSrcEnded
  full := Par.miFull
  spawnLoop := Par.miSpawnLoop
  lastWorker := Par.miLastWorker
  nextReady := Par.miNextReady
  signalCond := Par.miNextSignalCond
  nextClosed := Par.miNextClosed
  closesIn := Par.miClosesIn
  lastCloses := Par.miLastCloses
  signals := Par.miNextSignals
  waits := Par.miWaits
  sectionsAtomic := sectionsAtomic
  structural := Par.miBufClampAssigns && Par.miIncrements && Par.miIncBeforeSend && Par.miNumbers
    && Par.miWorkerCalls && Par.miWorkerSends && Par.miNextPops && Par.miNextAdvances
    && Par.miNextDecrements && Par.miNextRecvs && Par.miNextEnds && Par.miNextPushes

structure Code.Sound (c : Code) : Prop where
  clampLow : ∀ p, c.clampLow p = decide (p ≤ 0)
  bufClamp : ∀ b p, c.bufClamp b p = decide (b < p)
  inCap : ∀ b, c.inCap b = 0
  chCap : ∀ b, c.chCap b = 0
  srcEnded : ∀ b, c.srcEnded b = !b
  full : ∀ f b, c.full f b = decide (f ≥ b)
  spawnLoop : ∀ i p, c.spawnLoop i p = decide (i < p)
  lastWorker : ∀ d p, c.lastWorker d p = decide (d = p)
  nextReady : ∀ l m i, c.nextReady l m i = (decide (l > 0) && decide (m = i))
  signalCond : ∀ f b, c.signalCond f b = decide (f = b - 1)
  nextClosed : ∀ b, c.nextClosed b = !b
  closesIn : c.closesIn = true
  lastCloses : c.lastCloses = true
  signals : c.signals = true
  waits : c.waits = true
  sectionsAtomic : c.sectionsAtomic = true
  structural : c.structural = true

structure Cfg where
  code : Code
  P : Int
  B : Int
  gmp : Nat

def par (cfg : Cfg) : Int := if cfg.code.clampLow cfg.P then (cfg.gmp : Int) else cfg.P
def buf (cfg : Cfg) : Int := if cfg.code.bufClamp cfg.B (par cfg) then par cfg else cfg.B
def numWorkers (cfg : Cfg) : Nat :=
  loopCount (fun j => cfg.code.spawnLoop j (par cfg)) ((par cfg).toNat + 1) 0

/-- dispatcher -/
inductive DPc where
  | pull
  | inNext
  /-- holding item `v`, at `mIter.m.Lock(); for mIter.inFlight >= bufferSize` -/
  | acquire (v : Nat)
  /-- has found `inFlight >= bufferSize` and is not yet registered with the cond: a state that exists only
  when the two critical sections are not atomic with respect to each other (`sectionsAtomic = false`) -/
  | checked (v : Nat)
  /-- parked in `cond.Wait()` -/
  | parked (v : Nat)
  | sendIn (v : Nat)
  | done
  deriving DecidableEq, Repr, Hashable, BEq

inductive WPc where
  | idle
  | inF (k : Nat)
  | sendCh (k : Nat) (v : Nat)
  | done
  deriving DecidableEq, Repr, Hashable, BEq

inductive CPc where
  | idle
  | next
  deriving DecidableEq, Repr, Hashable, BEq

inductive NextRes where
  | val (k v : Nat)
  | «end»
  deriving DecidableEq, Repr, Hashable, BEq

structure St where
  disp : DPc
  dispI : Nat
  inFlight : Int
  inClosed : Bool
  ws : List WPc
  nDone : Nat
  chClosed : Bool
  cons : CPc
  heap : List (Nat × Nat)
  i : Nat
  -- ghost
  srcItems : List Nat
  srcEnded : Bool
  srcCalls : Nat
  fBegun : List (Nat × Nat)
  fEnded : List (Nat × Nat)
  results : List NextRes
  deriving DecidableEq, Repr, Hashable, BEq

def init (cfg : Cfg) : St where
  disp := .pull
  dispI := 0
  inFlight := 0
  inClosed := false
  ws := List.replicate (numWorkers cfg) .idle
  nDone := 0
  chClosed := false
  cons := .idle
  heap := []
  i := 0
  srcItems := []
  srcEnded := false
  srcCalls := 0
  fBegun := []
  fEnded := []
  results := []

inductive Label where
  | dPull
  /-- environment: the source iterator returns an item or its end -/
  | srcRet (r : Option Nat)
  | dAcquire
  /-- the dispatcher that has seen the buffer full registers with the cond (a step of its own only when
  `sectionsAtomic = false`) -/
  | dPark
  | dSend (w : Nat)
  /-- environment: `f` returns `v` in worker `w` -/
  | fRet (w : Nat) (v : Nat)
  /-- rendez-vous on `mIter.ch` between worker `w` and the consumer -/
  | wHandOff (w : Nat)
  | wExitIdle (w : Nat)
  /-- environment: the consumer calls `Next` -/
  | nextCall
  | cYield
  | cRecvClosed
  deriving DecidableEq, Repr

def Label.isEnv : Label → Bool
  | .srcRet _ | .fRet _ _ | .nextCall => true
  | _ => false

def canYield (cfg : Cfg) (s : St) : Bool :=
  cfg.code.nextReady s.heap.length ((heapMin s.heap).getD 0) s.i

def step (cfg : Cfg) (s : St) : Label → Option St
  | .dPull =>
    match s.disp with
    | .pull => some { s with disp := .inNext, srcCalls := s.srcCalls + 1 }
    | _ => none
  | .srcRet r =>
    match s.disp with
    | .inNext =>
      match r with
      | some v =>
        if cfg.code.srcEnded true then none
        else some { s with disp := .acquire v, srcItems := s.srcItems ++ [v] }
      | none =>
        if cfg.code.srcEnded false then
          some { s with disp := .done, inClosed := s.inClosed || cfg.code.closesIn, srcEnded := true }
        else none
    | _ => none
  | .dAcquire =>
    match s.disp with
    | .acquire v =>
      if cfg.code.full s.inFlight (buf cfg) then
        if cfg.code.waits then
          if cfg.code.sectionsAtomic then some { s with disp := .parked v }
          else some { s with disp := .checked v }
        else none
      else some { s with disp := .sendIn v, inFlight := s.inFlight + 1 }
    | _ => none
  | .dPark =>
    match s.disp with
    | .checked v => if cfg.code.sectionsAtomic then none else some { s with disp := .parked v }
    | _ => none
  | .dSend w =>
    match s.disp, s.ws[w]? with
    | .sendIn v, some .idle =>
      some { s with disp := .pull, dispI := s.dispI + 1, ws := s.ws.set w (.inF s.dispI),
                    fBegun := s.fBegun ++ [(s.dispI, v)] }
    | _, _ => none
  | .fRet w v =>
    match s.ws[w]? with
    | some (.inF k) => some { s with ws := s.ws.set w (.sendCh k v), fEnded := s.fEnded ++ [(k, v)] }
    | _ => none
  | .wHandOff w =>
    match s.cons, s.ws[w]? with
    | .next, some (.sendCh k v) =>
      if !canYield cfg s && !s.chClosed then
        some { s with ws := s.ws.set w .idle, heap := s.heap ++ [(k, v)] }
      else none
    | _, _ => none
  | .wExitIdle w =>
    match s.ws[w]? with
    | some .idle =>
      if s.inClosed then
        let d := s.nDone + 1
        some { s with ws := s.ws.set w .done, nDone := d,
                      chClosed := s.chClosed || (cfg.code.lastWorker d (par cfg) && cfg.code.lastCloses) }
      else none
    | _ => none
  | .nextCall =>
    match s.cons with
    | .idle => some { s with cons := .next }
    | _ => none
  | .cYield =>
    match s.cons with
    | .next =>
      if canYield cfg s then
        match s.heap.find? (fun kv => kv.1 == (heapMin s.heap).getD 0) with
        | some (k, v) =>
          let fl := s.inFlight - 1
          let wake := cfg.code.signalCond fl (buf cfg) && cfg.code.signals
          some { s with cons := .idle, heap := s.heap.eraseP (fun kv => kv.1 == k), i := s.i + 1,
                        inFlight := fl, results := s.results ++ [.val k v],
                        disp := match s.disp with
                          | .parked x => if wake then .acquire x else .parked x
                          | d => d }
        | none => none
      else none
    | _ => none
  | .cRecvClosed =>
    match s.cons with
    | .next =>
      if !canYield cfg s && s.chClosed && cfg.code.nextClosed false then
        some { s with cons := .idle, results := s.results ++ [.end] }
      else none
    | _ => none

inductive Reach (cfg : Cfg) : St → Prop where
  | init : Reach cfg (init cfg)
  | step {s s' : St} {l : Label} : Reach cfg s → step cfg s l = some s' → Reach cfg s'

def run (cfg : Cfg) : St → List Label → Option St
  | s, [] => some s
  | s, l :: ls => match step cfg s l with
    | some s' => run cfg s' ls
    | none => none

theorem reach_of_run {cfg : Cfg} {s s' : St} {ls : List Label} (h : Reach cfg s)
    (hr : run cfg s ls = some s') : Reach cfg s' := by
  induction ls generalizing s with
  | nil => simp [run] at hr; exact hr ▸ h
  | cons l ls ih =>
    simp only [run] at hr
    split at hr
    · next s1 hs => exact ih (Reach.step h hs) hr
    · simp at hr

def internalLabels (s : St) : List Label :=
  [.dPull, .dAcquire, .dPark, .cYield, .cRecvClosed]
  ++ (List.range s.ws.length).flatMap (fun w => [.dSend w, .wHandOff w, .wExitIdle w])

def fRunning (s : St) : Nat := s.ws.countP (fun pc => match pc with | .inF _ => true | _ => false)

end Iter

end Juniper.Model.ParMap
