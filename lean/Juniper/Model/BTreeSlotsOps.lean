import Juniper.Generated.Tree
import Juniper.Generated.TreeSlots
set_option linter.unusedVariables false
/-!
# Slot-level model of `container/tree` (C03, "no retained garbage")

Executable, core-only. Where `Model/BTree.lean` keeps only the live prefix `keys[:n]` of a node, this
model keeps the node's three fixed arrays slot by slot: `List (Option _)` of the generated lengths
(`Gen.Tree.keysLen`, `valuesLen`, `childrenLen`), `none` being the zero value (a nil pointer for
pointer-typed keys, values and for every child slot).

Four layers, each composed from the one before exactly as `btree.go` composes them:

1. the array primitives (`setSlot` = `a[i] = x`, `copySlots` = `copy`, `insertOne`, `removeOne`,
   `clearFrom` = `xslices.Clear(a[lo:])`, the ascending / descending fill loops of `overfill`);
2. the node-level operations on one, two or three nodes (`leafInsert`, `setValue`, `leafRemove`,
   `removeRightmostAt`, `replaceEntry`, `splitNode` (the amalgam, both halves, the three `Clear`
   calls), `newRootNode`, `parentInsert`, `mergeNodes`, `rotateRightNodes`, `rotateLeftNodes`);
3. node-level histories (`NodeOp`, `applyOp`, `runOps`): arbitrary sequences of the node-level
   operations on the family of all node objects, each within its documented precondition;
4. a pointer-level heap of such nodes (`Heap`, node identity = allocation number, parent pointers)
   with `Put` / `Delete` transliterated statement by statement, loops bounded by fuel, changing the
   store only through `applyOp`. This layer is what the correspondence harness runs against the real
   `tree.Map[*int,*int]`, raw slot by raw slot.

Whether a zeroing / clearing / shifting statement is executed is decided by the *generated* presence
fact of that statement (`Juniper.Gen.TreeSlots`, re-extracted from `btree.go` on every run); index
and slice-bound expressions are the generated definitions. Dropping e.g. `left.children[left.n] = nil`
from `rotateRight` therefore makes this model stop clearing the slot too, the theorems of
`Props/C03Slots.lean` (which take the facts as hypotheses discharged by `decide`) stop compiling, and
the model keeps following the code so that the harness' retention monitor finds the stale pointer.

A situation in which the Go code would panic (index out of range, nil dereference) is the explicit
outcome `none`, never totalised away.
-/
namespace Juniper.Model.BTreeSlotsOps
open Juniper.Gen

/-- one fixed array of a node: `none` = the zero value -/
abbrev Slots (α : Type) := List (Option α)

def keysCap : Nat := Tree.keysLen.toNat
def valuesCap : Nat := Tree.valuesLen.toNat
def childrenCap : Nat := Tree.childrenLen.toNat

/-- a Go index or slice bound; a negative one is a run-time panic -/
def toIdx (i : Int) : Option Nat := if 0 ≤ i then some i.toNat else none

section Primitives
variable {α : Type}

/-- `a[i] = x`; `none` = index out of range -/
def setSlot (a : Slots α) (i : Nat) (x : Option α) : Option (Slots α) :=
  if i < a.length then some (a.take i ++ x :: a.drop (i + 1)) else none

/-- `copy(dst[dlo:dhi], src[slo:shi])`: copies `min` of the two lengths, `memmove` semantics when
`src` is `dst` itself; `none` = a slice bound out of range -/
def copySlots (dst : Slots α) (dlo dhi : Nat) (src : Slots α) (slo shi : Nat) : Option (Slots α) :=
  if dlo ≤ dhi ∧ dhi ≤ dst.length ∧ slo ≤ shi ∧ shi ≤ src.length then
    let m := min (dhi - dlo) (shi - slo)
    some (dst.take dlo ++ (src.drop slo).take m ++ dst.drop (dlo + m))
  else none

/-- `insertOne(a[:hi], idx, x)`: `copy(a[idx+1:], a[idx:]); a[idx] = x` (clobbers `a[hi-1]`); each of
the two statements only if it is present in the source -/
def insertOne (a : Slots α) (hi : Nat) (idx : Int) (x : Option α) : Option (Slots α) := do
  let d ← toIdx (TreeSlots.insertOneDstLo idx)
  let s ← toIdx (TreeSlots.insertOneSrcLo idx)
  let i ← toIdx idx
  let b ← if TreeSlots.insertOneShifts then copySlots a d hi a s hi
          else (if hi ≤ a.length then some a else none)
  if TreeSlots.insertOneWrites then (if i < hi then setSlot b i x else none) else some b

/-- `removeOne(a[:hi], idx)`: `copy(a[idx:], a[idx+1:]); a[len(a)-1] = zero`; each of the two
statements only if it is present in the source -/
def removeOne (a : Slots α) (hi : Nat) (idx : Nat) : Option (Slots α) := do
  let b ← if TreeSlots.removeOneShifts then copySlots a idx hi a (idx + 1) hi
          else (if hi ≤ a.length then some a else none)
  if TreeSlots.removeOneZeroesLast then
    (if 0 < hi ∧ hi ≤ b.length then setSlot b (hi - 1) none else none)
  else some b

/-- `xslices.Clear(a[lo:])` -/
def clearFrom (a : Slots α) (lo : Nat) : Option (Slots α) :=
  if lo ≤ a.length then some (a.take lo ++ List.replicate (a.length - lo) none) else none

/-- `for i := 0; cond i; i++ { a[i] = f i }` (`f` does not read `a`: the right half of a split is
filled from the node being split). `fuel` only has to exceed `a.length`: an index beyond the array
panics first. -/
def fillUp (cond : Nat → Bool) (f : Nat → Option α) : Nat → Nat → Slots α → Option (Slots α)
  | 0, _, a => some a
  | fuel + 1, i, a => if cond i then (setSlot a i (f i)).bind (fillUp cond f fuel (i + 1)) else some a

/-- `for i := cnt-1; i >= 0; i-- { a[i] = f a i }` where `f` reads the *current* array (the left half
of a split is rewritten in place through the amalgam view of the very same arrays). -/
def fillDown (f : Slots α → Nat → Option α) : Nat → Slots α → Option (Slots α)
  | 0, a => some a
  | j + 1, a => (setSlot a j (f a j)).bind (fillDown f j)

/-- `xslices.Index(a[:], x)` -/
def indexOf [DecidableEq α] (a : Slots α) (x : α) : Option Nat :=
  let i := a.findIdx (· == some x)
  if i < a.length then some i else none

end Primitives

/-! ## nodes -/

/-- `node[K,V]`; `C` is whatever denotes a node (`*node`) -/
structure SNode (K V C : Type) where
  n : Int
  keys : Slots K
  vals : Slots V
  kids : Slots C
  parent : Option C
  deriving DecidableEq, Repr

variable {K V C : Type}

/-- `&node[K,V]{}` -/
def SNode.fresh : SNode K V C :=
  { n := 0, keys := List.replicate keysCap none, vals := List.replicate valuesCap none,
    kids := List.replicate childrenCap none, parent := none }

/-- `x.leaf()`: `x.children[0] == nil` -/
def SNode.isLeaf (x : SNode K V C) : Bool := (x.kids.headD none).isNone

def bumpIf (b : Bool) (n : Int) (d : Int) : Int := if b then n + d else n

/-- `insertIntoLeaf` once `idx` is known -/
def leafInsert (x : SNode K V C) (idx : Nat) (k : K) (v : V) : Option (SNode K V C) := do
  let khi ← toIdx (TreeSlots.leafInsertKeysHi x.n)
  let vhi ← toIdx (TreeSlots.leafInsertValuesHi x.n)
  let keys ← if khi ≤ x.keys.length then insertOne x.keys khi idx (some k) else none
  let vals ← if vhi ≤ x.vals.length then insertOne x.vals vhi idx (some v) else none
  pure { x with keys := keys, vals := vals, n := bumpIf TreeSlots.leafInsertBumpsN x.n 1 }

/-- `curr.values[idx] = v` (`Put` on a key that is present) -/
def setValue (x : SNode K V C) (idx : Nat) (v : V) : Option (SNode K V C) := do
  let vals ← setSlot x.vals idx (some v)
  pure { x with vals := vals }

/-- the leaf branch of `Delete`: `removeOne(curr.keys[:n], idx); removeOne(curr.values[:n], idx); curr.n--` -/
def leafRemove (x : SNode K V C) (idx : Nat) : Option (SNode K V C) := do
  let hi ← toIdx x.n
  let keys ← if TreeSlots.leafRemoveShiftsKeys then removeOne x.keys hi idx else some x.keys
  let vals ← if TreeSlots.leafRemoveShiftsValues then removeOne x.vals hi idx else some x.vals
  pure { x with keys := keys, vals := vals, n := bumpIf TreeSlots.leafRemoveDecN x.n (-1) }

/-- `removeRightmost` on the leaf it found: the last entry and the shrunk leaf -/
def removeRightmostAt (x : SNode K V C) : Option (Option K × Option V × SNode K V C) := do
  let i ← toIdx (TreeSlots.removeRightmostIdx x.n)
  let k ← x.keys[i]?
  let v ← x.vals[i]?
  let keys ← if TreeSlots.removeRightmostZeroesKey then (toIdx (x.n - 1)).bind (setSlot x.keys · none) else some x.keys
  let vals ← if TreeSlots.removeRightmostZeroesValue then (toIdx (x.n - 1)).bind (setSlot x.vals · none) else some x.vals
  pure (k, v, { x with keys := keys, vals := vals, n := bumpIf TreeSlots.removeRightmostDecN x.n (-1) })

/-- `curr.keys[idx] = replacementK; curr.values[idx] = replacementV` -/
def replaceEntry (x : SNode K V C) (idx : Nat) (k : Option K) (v : Option V) : Option (SNode K V C) := do
  let keys ← setSlot x.keys idx k
  let vals ← setSlot x.vals idx v
  pure { x with keys := keys, vals := vals }

/-- `amalgam1.Key` / `.Value` / `.Child` over the array `a` with the extra element `extra`; `e` is
`extraIdx`. (With `i ≤ len a` and `e ≤ len a` the index is in range.) -/
def amalgamGet {α : Type} (isExtra shifts : Int → Int → Bool) (dec : Bool) (a : Slots α) (extra : Option α)
    (e : Nat) (i : Nat) : Option α :=
  if isExtra i e then extra
  else
    let j : Int := if shifts i e then bumpIf dec i (-1) else i
    (a.getD j.toNat none)

def amalgamKey (a : Slots K) (extra : Option K) (e i : Nat) : Option K :=
  amalgamGet TreeSlots.amalgamKeyIsExtra TreeSlots.amalgamKeyShifts TreeSlots.amalgamKeyDec a extra e i
def amalgamValue (a : Slots V) (extra : Option V) (e i : Nat) : Option V :=
  amalgamGet TreeSlots.amalgamValueIsExtra TreeSlots.amalgamValueShifts TreeSlots.amalgamValueDec a extra e i
def amalgamChild (a : Slots C) (extra : Option C) (e i : Nat) : Option C :=
  amalgamGet TreeSlots.amalgamChildIsExtra TreeSlots.amalgamChildShifts TreeSlots.amalgamChildDec a extra e i

/-- one round of `overfill`'s loop up to and including the three `Clear` calls: the full node `x`, the
extra entry `(k, v)` that belongs at amalgam position `e` and its right child `afterK` become the left
half (in place, same node object), the separator and the right half (a fresh node). The `parent`
assignments of the moved children are done by the caller (`Heap.overfill`). -/
def splitNode (x : SNode K V C) (e : Nat) (k : Option K) (v : Option V) (afterK : Option C) :
    Option (SNode K V C × Option K × Option V × SNode K V C) := do
  let m ← toIdx Tree.medianIdx
  let rn ← toIdx Tree.rightN
  let ln ← toIdx Tree.leftN
  let leaf := x.isLeaf
  let sepK := amalgamKey x.keys k e m
  let sepV := amalgamValue x.vals v e m
  let fresh : SNode K V C := SNode.fresh
  -- right half
  let rkeys ← fillUp (fun i => TreeSlots.overfillRightKeysCond i Tree.rightN)
    (fun i => amalgamKey x.keys k e (Tree.rightFirstIdx i).toNat) (fresh.keys.length + 1) 0 fresh.keys
  let rvals ← fillUp (fun i => TreeSlots.overfillRightKeysCond i Tree.rightN)
    (fun i => amalgamValue x.vals v e (Tree.rightFirstIdx i).toNat) (fresh.vals.length + 1) 0 fresh.vals
  let rkids ← if leaf then some fresh.kids else
    fillUp (fun i => TreeSlots.overfillRightChildrenCond i Tree.rightN)
      (fun i => amalgamChild x.kids afterK e (Tree.rightFirstChildIdx i).toNat) (fresh.kids.length + 1) 0 fresh.kids
  -- left half, in place, from the top down
  let lkeys ← fillDown (fun a i => amalgamKey a k e i) (TreeSlots.overfillLeftKeysFrom Tree.leftN + 1).toNat x.keys
  let lvals ← fillDown (fun a i => amalgamValue a v e i) (TreeSlots.overfillLeftKeysFrom Tree.leftN + 1).toNat x.vals
  let lkids ← if leaf then some x.kids else
    fillDown (fun a i => amalgamChild a afterK e i) (TreeSlots.overfillLeftChildrenFrom Tree.leftN + 1).toNat x.kids
  -- the three Clear calls
  let lkeys ← if TreeSlots.overfillClearsKeys then clearFrom lkeys ln else some lkeys
  let lvals ← if TreeSlots.overfillClearsValues then clearFrom lvals ln else some lvals
  let lkids ← if TreeSlots.overfillClearsChildren then clearFrom lkids (ln + 1) else some lkids
  pure ({ x with n := Tree.leftN, keys := lkeys, vals := lvals, kids := lkids }, sepK, sepV,
        { fresh with n := Tree.rightN, keys := rkeys, vals := rvals, kids := rkids })

/-- the new root of `overfill`: `parent := &node{}; keys[0], values[0] = sep; n = 1; children[0] = left;
children[1] = right` -/
def newRootNode (sepK : Option K) (sepV : Option V) (left right : C) : Option (SNode K V C) := do
  let fresh : SNode K V C := SNode.fresh
  let keys ← setSlot fresh.keys 0 sepK
  let vals ← setSlot fresh.vals 0 sepV
  let kids ← setSlot fresh.kids 0 (some left)
  let kids ← setSlot kids 1 (some right)
  pure { fresh with n := 1, keys := keys, vals := vals, kids := kids }

/-- `overfill`, parent not full: the separator and the new right node go in at `idxInParent` -/
def parentInsert (p : SNode K V C) (idx : Nat) (sepK : Option K) (sepV : Option V) (right : C) :
    Option (SNode K V C) := do
  let khi ← toIdx (TreeSlots.parentInsertKeysHi p.n)
  let vhi ← toIdx (TreeSlots.parentInsertValuesHi p.n)
  let chi ← toIdx (TreeSlots.parentInsertChildrenHi p.n)
  let keys ← if khi ≤ p.keys.length then insertOne p.keys khi (TreeSlots.parentInsertSepIdx idx) sepK else none
  let vals ← if vhi ≤ p.vals.length then insertOne p.vals vhi (TreeSlots.parentInsertValueIdx idx) sepV else none
  let kids ← if chi ≤ p.kids.length then insertOne p.kids chi (TreeSlots.parentInsertChildIdx idx) (some right) else none
  pure { p with keys := keys, vals := vals, kids := kids, n := bumpIf TreeSlots.parentInsertBumpsN p.n 1 }

/-- `mergeTwo(left, right)` on the three nodes involved (`idx` = `idxInParent` of `left`): the new
parent, the merged left node and the unlinked right node. -/
def mergeNodes (parent left right : SNode K V C) (idx : Nat) :
    Option (SNode K V C × SNode K V C × SNode K V C) := do
  let sepK ← parent.keys[idx]?
  let sepV ← parent.vals[idx]?
  let ki ← toIdx (TreeSlots.mergeSepKeyIdx left.n)
  let lkeys ← setSlot left.keys ki sepK
  let kd ← toIdx (TreeSlots.mergeKeysDst left.n)
  let ks ← toIdx (TreeSlots.mergeKeysSrcHi right.n)
  let lkeys ← copySlots lkeys kd lkeys.length right.keys 0 ks
  let vi ← toIdx (TreeSlots.mergeSepValueIdx left.n)
  let lvals ← setSlot left.vals vi sepV
  let vd ← toIdx (TreeSlots.mergeValuesDst left.n)
  let vs ← toIdx (TreeSlots.mergeValuesSrcHi right.n)
  let lvals ← copySlots lvals vd lvals.length right.vals 0 vs
  let cd ← toIdx (TreeSlots.mergeChildrenDst left.n)
  let cs ← toIdx (TreeSlots.mergeChildrenSrcHi right.n)
  let lkids ← copySlots left.kids cd left.kids.length right.kids 0 cs
  let pn ← toIdx parent.n
  let pkeys ← if TreeSlots.mergeRemovesSepKey then removeOne parent.keys pn idx else some parent.keys
  let pvals ← if TreeSlots.mergeRemovesSepValue then removeOne parent.vals pn idx else some parent.vals
  let pkids ← if TreeSlots.mergeRemovesRightChild then removeOne parent.kids (pn + 1) (idx + 1) else some parent.kids
  pure ({ parent with keys := pkeys, vals := pvals, kids := pkids, n := bumpIf TreeSlots.mergeParentDecN parent.n (-1) },
        { left with keys := lkeys, vals := lvals, kids := lkids, n := left.n + TreeSlots.mergeAddN right.n },
        { right with n := if TreeSlots.mergeZeroesRight then 0 else right.n })

/-- `rotateRight(left, right)` (`idx` = `idxInParent` of `left`): new parent, left, right and the
child that changed sides (its `parent` pointer is re-set by the caller). -/
def rotateRightNodes (parent left right : SNode K V C) (idx : Nat) :
    Option (SNode K V C × SNode K V C × SNode K V C × Option C) := do
  let oldSepK ← parent.keys[idx]?
  let oldSepV ← parent.vals[idx]?
  let ci ← toIdx (TreeSlots.rotateRightChildIdx left.n)
  let child ← left.kids[ci]?
  let mi ← toIdx (TreeSlots.rotateRightMaxIdx left.n)
  let mk ← left.keys[mi]?
  let mv ← left.vals[mi]?
  let pkeys ← setSlot parent.keys idx mk
  let pvals ← setSlot parent.vals idx mv
  let lkeys ← if TreeSlots.rotateRightZeroesKey then (toIdx (left.n - 1)).bind (setSlot left.keys · none) else some left.keys
  let lvals ← if TreeSlots.rotateRightZeroesValue then (toIdx (left.n - 1)).bind (setSlot left.vals · none) else some left.vals
  let lkids ← if TreeSlots.rotateRightZeroesChild then (toIdx left.n).bind (setSlot left.kids · none) else some left.kids
  let rkeys ← if TreeSlots.rotateRightInsertsKey then insertOne right.keys right.keys.length 0 oldSepK else some right.keys
  let rvals ← if TreeSlots.rotateRightInsertsValue then insertOne right.vals right.vals.length 0 oldSepV else some right.vals
  let rkids ← if TreeSlots.rotateRightInsertsChild then insertOne right.kids right.kids.length 0 child else some right.kids
  pure ({ parent with keys := pkeys, vals := pvals },
        { left with keys := lkeys, vals := lvals, kids := lkids, n := bumpIf TreeSlots.rotateRightDecLeft left.n (-1) },
        { right with keys := rkeys, vals := rvals, kids := rkids, n := bumpIf TreeSlots.rotateRightIncRight right.n 1 }, child)

/-- `rotateLeft(left, right)` (`idx` = `idxInParent` of `right`). -/
def rotateLeftNodes (parent left right : SNode K V C) (idx : Nat) :
    Option (SNode K V C × SNode K V C × SNode K V C × Option C) := do
  let si ← toIdx (TreeSlots.rotateLeftSepIdx idx)
  let oldSepK ← parent.keys[si]?
  let oldSepV ← parent.vals[si]?
  let child ← right.kids[0]?
  let rk0 ← right.keys[0]?
  let rv0 ← right.vals[0]?
  let pkeys ← setSlot parent.keys si rk0
  let pvals ← setSlot parent.vals si rv0
  let rkeys ← if TreeSlots.rotateLeftShiftsKeys then removeOne right.keys right.keys.length 0 else some right.keys
  let rvals ← if TreeSlots.rotateLeftShiftsValues then removeOne right.vals right.vals.length 0 else some right.vals
  let rkids ← if TreeSlots.rotateLeftShiftsChildren then removeOne right.kids right.kids.length 0 else some right.kids
  let ki ← toIdx (TreeSlots.rotateLeftKeyIdx left.n)
  let lkeys ← setSlot left.keys ki oldSepK
  let vi ← toIdx (TreeSlots.rotateLeftValueIdx left.n)
  let lvals ← setSlot left.vals vi oldSepV
  let ci ← toIdx (TreeSlots.rotateLeftChildIdx left.n)
  let lkids ← setSlot left.kids ci child
  pure ({ parent with keys := pkeys, vals := pvals },
        { left with keys := lkeys, vals := lvals, kids := lkids, n := bumpIf TreeSlots.rotateLeftIncLeft left.n 1 },
        { right with keys := rkeys, vals := rvals, kids := rkids, n := bumpIf TreeSlots.rotateLeftDecRight right.n (-1) }, child)


/-! ## node-level histories

The family of all node objects (addressed by position = allocation number; `none` = an object that
has been unlinked and is garbage) under arbitrary sequences of the node-level operations, each
applied within the precondition its Go function documents ("Assumes left and right are siblings and
right is not full", "either left or right has n < minKVs and the other n == minKVs", `overfill` on a
full node, `insertIntoLeaf` on a non-full leaf …). `Heap.put` / `Heap.delete` below change the store
*only* through `applyOp` (`Heap.step`), so every `Put` / `Delete` history of the heap model is such a
history, and an invariant of every node-level history is an invariant of the whole tree. -/

/-- all node objects ever allocated; `none` = unlinked -/
abbrev Fam (K V C : Type) := List (Option (SNode K V C))

def getNode (fam : Fam K V C) (i : Nat) : Option (SNode K V C) := (fam[i]?).join

inductive NodeOp (K V C : Type) where
  /-- `insertIntoLeaf` on the non-full leaf `i` -/
  | leafInsert (i idx : Nat) (k : K) (v : V)
  /-- `Put` on a present key -/
  | setValue (i idx : Nat) (v : V)
  /-- `Delete`, leaf branch -/
  | leafRemove (i idx : Nat)
  /-- `removeRightmost` arriving at leaf `i` -/
  | removeRightmost (i : Nat)
  /-- `Delete`, inner branch: the replacement entry is written at `idx` of node `i` -/
  | replaceEntry (i idx : Nat) (k : K) (v : V)
  /-- one round of `overfill` on the full node `i`; the right half is a new object -/
  | split (i e : Nat) (k : K) (v : V) (afterK : Option C)
  /-- the new root of `overfill` is a new object -/
  | newRoot (k : K) (v : V) (left right : C)
  /-- `overfill`, parent `i` not full -/
  | parentInsert (i idx : Nat) (k : K) (v : V) (right : C)
  /-- `mergeTwo(l, r)` below parent `p`; the right node is unlinked -/
  | mergeTwo (p l r idx : Nat)
  | rotateRight (p l r idx : Nat)
  | rotateLeft (p l r idx : Nat)
  /-- `x.parent = p` -/
  | setParent (i : Nat) (p : Option C)
  /-- a node becomes unreachable (the collapsed root) -/
  | drop (i : Nat)

/-- one step; `none` = the operation is not enabled (precondition violated) or panics -/
def applyOp (fam : Fam K V C) : NodeOp K V C → Option (Fam K V C)
  | .leafInsert i idx k v => do
    let x ← getNode fam i
    if x.isLeaf ∧ (idx : Int) ≤ x.n ∧ x.n < keysCap then
      let x' ← leafInsert x idx k v
      pure (fam.set i (some x'))
    else none
  | .setValue i idx v => do
    let x ← getNode fam i
    if (idx : Int) < x.n then
      let x' ← setValue x idx v
      pure (fam.set i (some x'))
    else none
  | .leafRemove i idx => do
    let x ← getNode fam i
    if x.isLeaf ∧ (idx : Int) < x.n then
      let x' ← leafRemove x idx
      pure (fam.set i (some x'))
    else none
  | .removeRightmost i => do
    let x ← getNode fam i
    if x.isLeaf ∧ 0 < x.n then
      let (_, _, x') ← removeRightmostAt x
      pure (fam.set i (some x'))
    else none
  | .replaceEntry i idx k v => do
    let x ← getNode fam i
    if (idx : Int) < x.n then
      let x' ← replaceEntry x idx (some k) (some v)
      pure (fam.set i (some x'))
    else none
  | .split i e k v afterK => do
    let x ← getNode fam i
    if x.n = keysCap ∧ e ≤ keysCap ∧ (x.isLeaf ∨ afterK.isSome) then
      let (l, _, _, r) ← splitNode x e (some k) (some v) afterK
      pure (fam.set i (some l) ++ [some r])
    else none
  | .newRoot k v l r => do
    let x ← newRootNode (some k) (some v) l r
    pure (fam ++ [some x])
  | .parentInsert i idx k v r => do
    let x ← getNode fam i
    if ¬ x.isLeaf ∧ (idx : Int) ≤ x.n ∧ x.n < keysCap then
      let x' ← parentInsert x idx (some k) (some v) r
      pure (fam.set i (some x'))
    else none
  | .mergeTwo p l r idx => do
    let xp ← getNode fam p
    let xl ← getNode fam l
    let xr ← getNode fam r
    if p ≠ l ∧ l ≠ r ∧ p ≠ r ∧ ¬ xp.isLeaf ∧ (idx : Int) < xp.n ∧ xl.isLeaf = xr.isLeaf ∧ xl.n + 1 + xr.n ≤ keysCap then
      let (p', l', _) ← mergeNodes xp xl xr idx
      pure (((fam.set p (some p')).set l (some l')).set r none)
    else none
  | .rotateRight p l r idx => do
    let xp ← getNode fam p
    let xl ← getNode fam l
    let xr ← getNode fam r
    if p ≠ l ∧ l ≠ r ∧ p ≠ r ∧ (idx : Int) < xp.n ∧ xl.isLeaf = xr.isLeaf ∧ 0 < xl.n ∧ xr.n < keysCap then
      let (p', l', r', _) ← rotateRightNodes xp xl xr idx
      pure (((fam.set p (some p')).set l (some l')).set r (some r'))
    else none
  | .rotateLeft p l r idx => do
    let xp ← getNode fam p
    let xl ← getNode fam l
    let xr ← getNode fam r
    if p ≠ l ∧ l ≠ r ∧ p ≠ r ∧ 0 < idx ∧ (idx : Int) ≤ xp.n ∧ xl.isLeaf = xr.isLeaf ∧ 0 < xr.n ∧ xl.n < keysCap then
      let (p', l', r', _) ← rotateLeftNodes xp xl xr idx
      pure (((fam.set p (some p')).set l (some l')).set r (some r'))
    else none
  | .setParent i p => do
    let x ← getNode fam i
    pure (fam.set i (some { x with parent := p }))
  | .drop i => some (fam.set i none)

/-- a history -/
def runOps (fam : Fam K V C) : List (NodeOp K V C) → Option (Fam K V C)
  | [] => some fam
  | op :: ops => (applyOp fam op).bind (runOps · ops)

/-! ## the heap of nodes: `Put` / `Delete` statement by statement

Node identity = allocation number = position in the store, parent pointers, loops bounded by fuel.
The store is changed only by `Heap.step`, i.e. by an enabled `applyOp`: where the Go code would
silently leave the documented precondition of one of its helpers (a rotation into a full node, a merge
that does not fit) the model answers `none` like for a panic, and the correspondence harness would
report the difference in outcome. -/

/-- the store, the fields of `btree`, and two logs that the driver prints and resets: the nodes
written and the structural events since the last dump. -/
structure Heap (K V : Type) where
  nodes : Fam K V Nat
  root : Nat
  size : Int
  gen : Int
  dirty : List Nat
  events : List String

namespace Heap
variable {K V : Type}

/-- `newBtree` -/
def empty : Heap K V :=
  { nodes := [some SNode.fresh], root := 0, size := 0, gen := 0, dirty := [0], events := [] }

def get (h : Heap K V) (id : Nat) : Option (SNode K V Nat) := getNode h.nodes id

/-- the only way the store changes: one enabled node-level operation (`written` = the nodes it
writes, for the driver's dump) -/
def step (h : Heap K V) (op : NodeOp K V Nat) (written : List Nat) : Option (Heap K V) :=
  (applyOp h.nodes op).map fun fam => { h with nodes := fam, dirty := written ++ h.dirty }

def event (h : Heap K V) (e : String) : Heap K V := { h with events := e :: h.events }

def level (x : SNode K V Nat) : String := if x.isLeaf then "leaf" else "int"

/-- `c.parent = p` for every node of the list; a nil entry is a nil dereference -/
def setParents (h : Heap K V) (cs : List (Option Nat)) (p : Option Nat) : Option (Heap K V) :=
  cs.foldlM (fun h c => do
    let id ← c
    h.step (.setParent id p) [id]) h

/-- the loop of `searchNode` over `keys[0..n)`; comparing with a zero key = nil dereference in the
harness' comparator -/
def searchFrom (cmp : K → K → Int) (k : K) (keys : Slots K) : Nat → Nat → Option (Nat × Bool)
  | 0, i => some (i, false)
  | r + 1, i =>
    match keys[i]? with
    | some (some k') =>
      let c := cmp k k'
      if Tree.searchLess c then some (i, false)
      else if Tree.searchEq c then some (i, true)
      else searchFrom cmp k keys r (i + 1)
    | _ => none

def searchNode (cmp : K → K → Int) (k : K) (x : SNode K V Nat) : Option (Nat × Bool) :=
  (toIdx x.n).bind fun n => searchFrom cmp k x.keys n 0

/-- first index in `keys[0..n)` with `p (cmp k key)`, else `n` (`insertIntoLeaf`, `newAmalgam1`) -/
def lowerFrom (p : Int → Bool) (cmp : K → K → Int) (k : K) (keys : Slots K) : Nat → Nat → Option Nat
  | 0, i => some i
  | r + 1, i =>
    match keys[i]? with
    | some (some k') => if p (cmp k k') then some i else lowerFrom p cmp k keys r (i + 1)
    | _ => none

/-- the descent shared by `Put` and `Delete`: the node reached, the index, whether the key is there -/
def descend (cmp : K → K → Int) (k : K) (h : Heap K V) : Nat → Nat → Option (Nat × Nat × Bool)
  | 0, _ => none
  | fuel + 1, curr => do
    let x ← h.get curr
    let (idx, inNode) ← searchNode cmp k x
    if inNode then pure (curr, idx, true)
    else if x.isLeaf then pure (curr, idx, false)
    else
      let c ← x.kids[idx]?
      let c ← c
      descend cmp k h fuel c

/-- `overfill` -/
def overfill (cmp : K → K → Int) : Nat → Heap K V → Nat → K → V → Option Nat → Option (Heap K V)
  | 0, _, _, _, _, _ => none
  | fuel + 1, h, xid, k, v, afterK => do
    let x ← h.get xid
    let e ← lowerFrom Tree.amalgamLess cmp k x.keys x.keys.length 0
    -- what the split will produce (separator, the children that move); the store is changed by `step`
    let sp ← splitNode x e (some k) (some v) afterK
    let left := sp.1
    let sepK := sp.2.1
    let sepV := sp.2.2.1
    let right := sp.2.2.2
    let rid := h.nodes.length
    let h ← h.step (.split xid e k v afterK) [xid, rid]
    let h := h.event ("split-" ++ level x)
    let rn ← toIdx right.n
    let ln ← toIdx left.n
    let h ← (if x.isLeaf then some h else
      (h.setParents (right.kids.take (rn + 1)) (some rid)).bind fun h =>
        h.setParents (left.kids.take (ln + 1)) (some xid))
    let sk ← sepK
    let sv ← sepV
    if xid = h.root then
      let pid := h.nodes.length
      let h ← h.step (.newRoot sk sv xid rid) [pid]
      let h ← h.setParents [some xid, some rid] (some pid)
      pure (Heap.event { h with root := pid } "newroot")
    else
      let left ← h.get xid
      let pid ← left.parent
      let p ← h.get pid
      if Tree.overfillParentHasRoom (Tree.full p.n) then
        let idx ← indexOf p.kids xid
        let h ← h.step (.parentInsert pid idx sk sv rid) [pid]
        h.setParents [some rid] (some pid)
      else
        overfill cmp fuel h pid sk sv (some rid)

/-- `btree.Put` -/
def put (cmp : K → K → Int) (h : Heap K V) (k : K) (v : V) : Option (Heap K V) := do
  let d ← descend cmp k h (h.nodes.length + 1) h.root
  let curr := d.1
  let idx := d.2.1
  let x ← h.get curr
  if d.2.2 then
    h.step (.setValue curr idx v) [curr]
  else
    let h ← (if Tree.putInsertsDirect (Tree.full x.n) then
        (toIdx x.n).bind fun n => (lowerFrom Tree.insertLess cmp k x.keys n 0).bind fun i =>
          h.step (.leafInsert curr i k v) [curr]
      else overfill cmp (h.nodes.length + 1) h curr k v none)
    pure { h with gen := bumpIf Tree.putBumpsGen h.gen 1, size := bumpIf Tree.putBumpsSize h.size 1 }

/-- `siblings`: the two neighbouring child slots of the parent (`none` = nil) and nothing if `x` has
no parent -/
def siblings (h : Heap K V) (xid : Nat) : Option (Option Nat × Option Nat) := do
  let x ← h.get xid
  match x.parent with
  | none => pure (none, none)
  | some pid =>
    let p ← h.get pid
    let idx ← indexOf p.kids xid
    let left ← if Tree.hasLeftSibling idx then (toIdx (Tree.leftSiblingIdx idx)).bind (p.kids[·]?) else some none
    let right ← if Tree.hasRightSibling idx p.n then (toIdx (Tree.rightSiblingIdx idx)).bind (p.kids[·]?) else some none
    pure (left, right)

/-- `rotateLeft(left, right)` on the heap -/
def rotateLeft (h : Heap K V) (lid rid : Nat) : Option (Heap K V) := do
  let left ← h.get lid
  let right ← h.get rid
  let pid ← right.parent
  let p ← h.get pid
  let idx ← indexOf p.kids rid
  let child ← right.kids[0]?
  let h ← h.step (.rotateLeft pid lid rid idx) [pid, rid, lid]
  let h ← (match child with
    | none => some h
    | some c => h.setParents [some c] (some lid))
  pure (h.event ("rotl-" ++ level left))

/-- `rotateRight(left, right)` on the heap -/
def rotateRight (h : Heap K V) (lid rid : Nat) : Option (Heap K V) := do
  let left ← h.get lid
  let pid ← left.parent
  let p ← h.get pid
  let idx ← indexOf p.kids lid
  let ci ← toIdx (TreeSlots.rotateRightChildIdx left.n)
  let child ← left.kids[ci]?
  let h ← h.step (.rotateRight pid lid rid idx) [pid, lid, rid]
  let h ← (match child with
    | none => some h
    | some c => h.setParents [some c] (some rid))
  pure (h.event ("rotr-" ++ level left))

/-- `sib.n` if the sibling exists (the Go conditions only read it behind `sib != nil &&`) -/
def nOf (h : Heap K V) : Option Nat → Option Int
  | some r => (h.get r).map (·.n)
  | none => some 0

/-- the node a variable of `steal` / `merge` denotes (`none` = nil) -/
def argNode (xid : Nat) (left right : Option Nat) : Tree.NodeArg → Option Nat
  | .x => some xid
  | .left => left
  | .right => right

/-- the two nodes of the call the generated fact says `steal` / `merge` make, provided it is a call of
one of the helpers in `fs`; `none`: a nil argument (nil dereference in the helper), or a statement
list this model cannot follow -/
def callArgs (call : Option (Tree.Callee × Tree.NodeArg × Tree.NodeArg)) (fs : List Tree.Callee)
    (xid : Nat) (left right : Option Nat) : Option (Tree.Callee × Nat × Nat) :=
  match call with
  | none => none
  | some (f, a, b) =>
    if fs.contains f then
      (argNode xid left right a).bind fun ia => (argNode xid left right b).map fun ib => (f, ia, ib)
    else none

/-- the rotation `steal` calls in one of its two branches -/
def rotCall (h : Heap K V) (call : Option (Tree.Callee × Tree.NodeArg × Tree.NodeArg))
    (xid : Nat) (left right : Option Nat) : Option (Heap K V) :=
  match callArgs call [.rotateLeft, .rotateRight] xid left right with
  | some (.rotateLeft, a, b) => rotateLeft h a b
  | some (.rotateRight, a, b) => rotateRight h a b
  | _ => none

/-- `steal` -/
def steal (h : Heap K V) (xid : Nat) : Option (Heap K V × Bool) := do
  let lr ← siblings h xid
  let left := lr.1
  let right := lr.2
  let rn ← nOf h right
  if Tree.stealRight right.isSome rn then
    let h ← rotCall h Tree.stealRightCall xid left right
    pure (h, true)
  else
    let ln ← nOf h left
    if Tree.stealLeft left.isSome ln then
      let h ← rotCall h Tree.stealLeftCall xid left right
      pure (h, true)
    else pure (h, false)

/-- `merge` and `mergeTwo` (mutually recursive in the source through the cascade). -/
def mergeFrom : Nat → Heap K V → Nat → Option (Heap K V)
  | 0, _, _ => none
  | fuel + 1, h, xid => do
    -- merge(x)
    let lr ← siblings h xid
    let left := lr.1
    let right := lr.2
    let ln ← nOf h left
    let lrid ← callArgs (if Tree.mergeIntoLeft left.isSome ln then Tree.mergeLeftCall else Tree.mergeRightCall)
      [.mergeTwo] xid left right
    let lid := lrid.2.1
    let rid := lrid.2.2
    -- mergeTwo(left, right)
    let l ← h.get lid
    let r ← h.get rid
    let pid ← l.parent
    let p ← h.get pid
    let idx ← indexOf p.kids lid
    let h ← (if r.isLeaf then some h else
      (toIdx r.n).bind fun rn => h.setParents (r.kids.take (rn + 1)) (some lid))
    let h ← h.step (.mergeTwo pid lid rid idx) [lid, pid]
    let h := h.event ("merge-" ++ level l)
    let p' ← h.get pid
    if Tree.mergeRootCheck pid h.root then
      if Tree.mergeRootEmpty p'.n then
        -- `t.root = left; left.parent = nil`, each only if it is in the source
        let h ← (if Tree.mergeCollapseClearsParent then h.step (.setParent lid none) [lid] else some h)
        if Tree.mergeCollapseSetsRoot then
          let h ← h.step (.drop pid) []
          pure (Heap.event { h with root := lid } "collapse")
        else pure h
      else pure h
    else if Tree.mergeCascades p'.n false then
      let hs ← steal h pid
      if Tree.mergeCascades p'.n hs.2 then mergeFrom fuel hs.1 pid else pure hs.1
    else pure h

/-- `rightmostLeaf` -/
def rightmostLeaf (h : Heap K V) : Nat → Nat → Option Nat
  | 0, _ => none
  | fuel + 1, curr => do
    let x ← h.get curr
    if x.isLeaf then pure curr
    else
      let i ← toIdx x.n
      let c ← x.kids[i]?
      let c ← c
      rightmostLeaf h fuel c

/-- `Delete`, leaf branch: the new heap and the leaf that still has to be merged, if any -/
def deleteLeaf (h : Heap K V) (curr idx : Nat) : Option (Heap K V × Option Nat) := do
  let h ← h.step (.leafRemove curr idx) [curr]
  let x' ← h.get curr
  if Tree.deleteLeafDone x'.n false then pure (h, none)
  else
    let hs ← steal h curr
    if Tree.deleteLeafDone x'.n hs.2 then pure (hs.1, none) else pure (hs.1, some curr)

/-- `Delete`, inner branch -/
def deleteInner (h : Heap K V) (curr idx : Nat) (x : SNode K V Nat) (fuel : Nat) : Option (Heap K V × Option Nat) := do
  let c ← x.kids[idx]?
  let c ← c
  let lf ← rightmostLeaf h fuel c
  let lx ← h.get lf
  let r ← removeRightmostAt lx
  let h ← h.step (.removeRightmost lf) [lf]
  let lx' ← h.get lf
  let rk ← r.1
  let rv ← r.2.1
  let h ← h.step (.replaceEntry curr idx rk rv) [curr]
  if Tree.removeRightmostUnder lx'.n then
    if Tree.deleteInnerDone false false then pure (h, none)
    else
      let hs ← steal h lf
      if Tree.deleteInnerDone false hs.2 then pure (hs.1, none) else pure (hs.1, some lf)
  else if Tree.deleteInnerDone true false then pure (h, none) else none

/-- `btree.Delete` -/
def delete (cmp : K → K → Int) (h : Heap K V) (k : K) : Option (Heap K V) := do
  let d ← descend cmp k h (h.nodes.length + 1) h.root
  let curr := d.1
  let idx := d.2.1
  if !d.2.2 then
    -- `if curr.leaf() { return }`; without the `return` the loop descends into a nil child
    (if Tree.deleteMissReturnsFirst then pure h else none)
  else
    let h := { h with size := bumpIf Tree.deleteDecSize h.size (-1), gen := bumpIf Tree.deleteBumpsGen h.gen 1 }
    let x ← h.get curr
    let fuel := h.nodes.length + 1
    let hl ← (if x.isLeaf then deleteLeaf h curr idx else deleteInner h curr idx x fuel)
    match hl.2 with
    | none => pure hl.1
    | some lf => if Tree.deleteMerges lf hl.1.root then mergeFrom fuel hl.1 lf else pure hl.1

/-- a `Put` / `Delete` history -/
inductive Mut (K V : Type) where
  | put (k : K) (v : V)
  | del (k : K)

def runMuts (cmp : K → K → Int) (h : Heap K V) : List (Mut K V) → Option (Heap K V)
  | [] => some h
  | .put k v :: ms => (h.put cmp k v).bind (runMuts cmp · ms)
  | .del k :: ms => (h.delete cmp k).bind (runMuts cmp · ms)

/-- pre-order walk from the root over *all* non-nil child slots (like the hook), each node once; a
reference to an unlinked object ends the walk there -/
def walk (h : Heap K V) : Nat → List Nat → List Nat → List Nat
  | 0, _, acc => acc
  | _, [], acc => acc
  | fuel + 1, nid :: todo, acc =>
    if acc.contains nid then walk h fuel todo acc
    else
      match h.get nid with
      | none => walk h fuel todo (nid :: acc)
      | some x => walk h fuel (x.kids.filterMap (fun c => c) ++ todo) (nid :: acc)

/-- the live nodes in pre-order -/
def live (h : Heap K V) : List Nat := (walk h (h.nodes.length * (childrenCap + 1) + 2) [h.root] []).reverse

end Heap

end Juniper.Model.BTreeSlotsOps
