/-!
# Control skeletons the hand-written state machines were written for (C07–C09, tie 1)

The guards, flag updates and `Close`/`defer` statements of `Model/Iter.lean` and `Model/Stream.lean` are
regenerated definitions (`Juniper.Gen.Comb`), but the *shape* of every machine — which branch pulls
from the source, where a `Next` returns, which loop goes round again — is written by hand. Each
constant below is the control skeleton of the Go method that the machine of the same name transcribes
(grammar: `tools/gofacts/sites_comb.go`, `combSkeleton`: nested statement kinds, identifiers normalised
away, calls of `Next`/`Peek`/`Close` and of user callbacks tagged). `Juniper/Proofs/Skeleton.lean`
proves `regenerated = expected` for each (`by decide`), and every denotation / close theorem of
`Props/C07–C09` is stated *under* those tie lemmas: an added early return, an extra pull from the
source, a dropped `Close`, an extra callback call in the Go code breaks the tie lemma and, through it,
the named theorems of that combinator — even when a monitor would not notice.

When the Go code is changed on purpose, the machine has to be re-read against the new method and the
constant updated here.
-/
namespace Juniper.Model.CombSkel

/-- `iterator.counterIterator.Next` -/
def itCounterNext : String := "if{ret};asg;inc;ret"

/-- `iterator.repeatIterator.Next` -/
def itRepeatNext : String := "if{var;ret};dec;ret"

/-- `iterator.sliceIterator.Next` -/
def itSliceNext : String := "if{var;ret};asg;asg;ret"

/-- `iterator.peekable.Next` -/
def itPeekNext : String := "if{asg;asg;var;asg;ret};ret<Next>"

/-- `iterator.peekable.Peek` -/
def itPeekPeek : String := "if{asg<Next>};ret"

/-- `iterator.chunkIterator.Next` -/
def itChunkNext : String := "asg;for{asg<Next>;if{brk};asg;if{ret}};if{ret};ret"

/-- `iterator.compactIterator.Next` -/
def itCompactNext : String := "for{asg<Next>;if{ret};if{asg;asg;ret}else if<cb>{asg;ret}}"

/-- `iterator.filterIterator.Next` -/
def itFilterNext : String := "for{asg<Next>;if{brk};if<cb>{ret}};var;ret"

/-- `iterator.firstIterator.Next` -/
def itFirstNext : String := "if{var;ret};dec;ret<Next>"

/-- `iterator.flattenIterator.Next` -/
def itFlattenNext : String := "for{if{var;asg<Next>;if{var;ret}};asg<Next>;if{asg;cont};ret}"

/-- `iterator.joinIterator.Next` -/
def itJoinNext : String := "for?{asg<Next>;if{ret};asg};var;ret"

/-- `iterator.mapIterator.Next` -/
def itMapNext : String := "var;asg<Next>;if{ret};ret<cb>"

/-- `iterator.runsIterator.Next` -/
def itRunsNext : String := "if{for{asg<Next>;if{brk}};asg};asg<Peek>;if{ret};asg;ret"

/-- `iterator.runsInnerIterator.Next` -/
def itRunsInnerNext : String := "var;if{ret};asg<Peek>;if<cb>{asg;ret};asg;ret<Next>"

/-- `iterator.whileIterator.Next` -/
def itWhileNext : String := "var;if{ret};asg<Next>;if{ret};if<cb>{asg;ret};ret"

/-- `iterator.Collect` -/
def itCollect : String := "ret<fn><func>"

/-- `iterator.Equal` -/
def itEqual : String := "if{ret};for{asg<Next>;for(asg)?(inc){asg<Next>;if{ret};if{ret}};if{ret}}"

/-- `iterator.Last` -/
def itLast : String := "asg;asg;for{asg<Next>;if{brk};if{asg};inc};if{ret};asg;if{asg;call;call};ret"

/-- `iterator.One` -/
def itOne : String := "var;asg<Next>;if{ret};asg<Next>;if{ret};ret"

/-- `iterator.Reduce` -/
def itReduce : String := "asg;for{asg<Next>;if{ret};asg<fn>}"

/-- `stream.iteratorStream.Next` -/
def stFromIterNext : String := "var;if{ret};asg<Next>;if{ret};ret"

/-- `stream.iteratorStream.Close` -/
def stFromIterClose : String := ""

/-- `stream.peekable.Next` -/
def stPeekNext : String := "if{asg;asg;var;asg;ret};ret<Next>"

/-- `stream.peekable.Peek` -/
def stPeekPeek : String := "var;if{var;asg<Next>;if{asg;ret}else if{ret};asg};ret"

/-- `stream.peekable.Close` -/
def stPeekClose : String := "call<Close>"

/-- `stream.chunkStream.Next` -/
def stChunkNext : String := "for{asg<Next>;if{brk}else if{ret};asg;if{asg;asg;ret}};if{asg;asg;ret};ret"

/-- `stream.chunkStream.Close` -/
def stChunkClose : String := "call<Close>"

/-- `stream.compactStream.Next` -/
def stCompactNext : String := "for{asg<Next>;if{ret};if{asg;asg;ret}else if<cb>{asg;ret}}"

/-- `stream.compactStream.Close` -/
def stCompactClose : String := "call<Close>"

/-- `stream.filterStream.Next` -/
def stFilterNext : String := "var;for{asg<Next>;if{ret};asg<cb>;if{ret};if{ret}}"

/-- `stream.filterStream.Close` -/
def stFilterClose : String := "call<Close>"

/-- `stream.firstStream.Next` -/
def stFirstNext : String := "if{var;ret};asg<Next>;if{ret};dec;ret"

/-- `stream.firstStream.Close` -/
def stFirstClose : String := "call<Close>"

/-- `stream.flattenStream.Next` -/
def stFlattenNext : String := "for{if{var;asg<Next>;if{var;ret}};asg<Next>;if{call<Close>;asg;cont}else if{ret};ret}"

/-- `stream.flattenStream.Close` -/
def stFlattenClose : String := "if{call<Close>};call<Close>"

/-- `stream.flattenSlicesStream.Next` -/
def stFlattenSlicesNext : String := "var;for{if{asg;asg;ret};var;asg<Next>;if{ret}}"

/-- `stream.flattenSlicesStream.Close` -/
def stFlattenSlicesClose : String := "call<Close>"

/-- `stream.joinStream.Next` -/
def stJoinNext : String := "var;for?{asg<Next>;if{call<Close>;asg;cont}else if{ret};ret};ret"

/-- `stream.joinStream.Close` -/
def stJoinClose : String := "range{call<Close>}"

/-- `stream.mapStream.Next` -/
def stMapNext : String := "var;asg<Next>;if{ret};asg<cb>;if{ret};ret"

/-- `stream.mapStream.Close` -/
def stMapClose : String := "call<Close>"

/-- `stream.runsStream.Next` -/
def stRunsNext : String := "if{for{asg<Next>;if{brk}else if{ret}};call<Close>;asg};asg<Peek>;if{ret};asg;ret"

/-- `stream.runsStream.Close` -/
def stRunsClose : String := "call<Close>"

/-- `stream.runsInnerStream.Next` -/
def stRunsInnerNext : String := "var;if{ret};asg<Peek>;if{ret}else if{ret}else if<cb>{ret};asg;ret<Next>"

/-- `stream.runsInnerStream.Close` -/
def stRunsInnerClose : String := "asg"

/-- `stream.whileStream.Next` -/
def stWhileNext : String := "var;if{ret};if{var;asg<Next>;if{ret};asg};asg<cb>;if{ret};if{asg;ret};asg;ret"

/-- `stream.whileStream.Close` -/
def stWhileClose : String := "call<Close>"

/-- `stream.Collect` -/
def stCollect : String := "defer<Close>;var;for{asg<Next>;if{ret}else if{ret};asg}"

/-- `stream.Last` -/
def stLast : String := "defer<Close>;asg;asg;for{asg<Next>;if{brk}else if{ret};if{asg};inc};if{ret};asg;if{asg;call;call};ret"

/-- `stream.One` -/
def stOne : String := "defer<Close>;var;asg<Next>;if{ret}else if{ret};asg<Next>;if{ret}else if{ret};ret"

/-- `stream.Reduce` -/
def stReduce : String := "defer<Close>;asg;for{asg<Next>;if{ret}else if{ret};asg<fn>;if{ret}}"

/-- `iterator.chanIterator.Next` -/
def itChanNext : String := "asg;ret"

/-- `iterator.emptyIterator.Next` -/
def itEmptyNext : String := "var;ret"

/-- `stream.chanStream.Next` / `Close` -/
def stChanNext : String := "var;select{case{if{ret};ret};case{ret}}"
def stChanClose : String := ""

/-- `stream.emptyStream.Next` / `Close` -/
def stEmptyNext : String := "var;ret"
def stEmptyClose : String := ""

/-- `stream.errorStream.Next` / `Close` -/
def stErrorNext : String := "var;ret"
def stErrorClose : String := ""

/-- `xrand.rSampleStream`: `defer s.Close()` first; reads the stream in the inner loop (the outer loop's
`samp.Next()` is the sampler, not the stream), leaves at the end, returns the error -/
def sampleStream : String := "defer<Close>;asg;asg;asg<fn>;label:for{asg<Next>;for{asg<Next>;if{brk}else if{ret};if{asg;inc;brk};inc}};if{asg};call<fn>;ret"

/-- the exported functions of `iterator`, of `stream`, and of `xslices` (the API the models, the driver
and the generator of `harness/cmd/c07` cover: the harness reports a function it never called) -/
def itApi : List String := ["Chan", "Chunk", "Collect", "Compact", "CompactFunc", "Counter", "Empty", "Equal", "Filter",
  "First", "Flatten", "Join", "Last", "Map", "One", "Reduce", "Repeat", "Runs", "Slice", "While", "WithPeek"]
def stApi : List String := ["Batch", "BatchFunc", "Chan", "Chunk", "Collect", "Compact", "CompactFunc", "Empty", "Error",
  "Filter", "First", "Flatten", "FlattenSlices", "FromIterator", "Join", "Last", "Map", "Merge", "One", "Pipe", "Reduce",
  "Runs", "While", "WithPeek"]
/-- the `xslices` functions that have an iterator / stream namesake (the agreement clause of C07) -/
def xsCounterparts : List String := ["Chunk", "Compact", "CompactFunc", "Equal", "Filter", "Join", "Map", "Reduce", "Repeat", "Runs"]

end Juniper.Model.CombSkel
