/-!
# Documented contracts of the standard-library functions the thin wrappers of C19 delegate to

**Trusted base.** The deprecated helpers of `xslices_go1.21.go`, `xsort.Slice*`, `xsort.OrderedLess`
and `xmath.Min/Max` are one-line wrappers over `slices.*`, `sort.*`, `cmp.Less` and the builtins
`min`/`max`. Their bodies are regenerated from the source (`Juniper.Gen.Helpers.*W`, with the callee
as a parameter); what is written *here* is the contract of the callee as documented by the Go 1.23
standard library (the doc sentence is quoted at every definition). It is not extracted from the
standard library's source; the correspondence check (`harness/cmd/c19`) compares it with the real
behaviour on every run.

A Go slice value is `Sl α`: the window of its backing array from the slice's first element up to its
capacity (`arr`, so `cap = arr.length`), its length, and whether the array was allocated during the
call (`fresh = true`) or is the caller's array. In-place functions return a slice with the same
`fresh` flag and a modified `arr`; the caller's array after the call is `Sl.callerAfter`. A panic is
`none`. Core-only, executable.
-/
namespace Juniper.Model.Stdlib

variable {α β : Type}

structure Sl (α : Type) where
  arr : List α
  len : Nat
  fresh : Bool
  deriving DecidableEq, Repr

namespace Sl
/-- the elements `s[0:len(s)]` -/
def items (s : Sl α) : List α := s.arr.take s.len
def cap (s : Sl α) : Nat := s.arr.length
/-- a slice of the caller with `cap = len` -/
def ofList (l : List α) : Sl α := ⟨l, l.length, false⟩
/-- a slice of the caller with spare capacity holding `spare` -/
def withSpare (l spare : List α) : Sl α := ⟨l ++ spare, l.length, false⟩
/-- the caller's backing array after a call that was given `orig` and returned `r` -/
def callerAfter (orig r : Sl α) : List α := if r.fresh then orig.arr else r.arr
/-- `len ≤ cap` -/
def WF (s : Sl α) : Prop := s.len ≤ s.arr.length
/-- in-place update: the first `len` elements are replaced by `l` (not longer than `len`), the vacated
elements are set to `zero`, the spare capacity is untouched -/
def shrinkTo (zero : α) (s : Sl α) (l : List α) : Sl α :=
  { arr := l ++ List.replicate (s.items.length - l.length) zero ++ s.arr.drop s.len, len := l.length, fresh := s.fresh }
end Sl

/-! ## package slices -/

/-- `slices.ContainsFunc`: "reports whether at least one element e of s satisfies f(e)." -/
def containsFunc (s : Sl α) (f : α → Bool) : Bool := s.items.any f

/-- `slices.Clone`: "returns a copy of the slice. The elements are copied using assignment, so this is
a shallow clone." (a new array; its capacity is unspecified and not modelled) -/
def clone (s : Sl α) : Sl α := ⟨s.items, s.items.length, true⟩

/-- keeps `y` iff it is not `eq` to its predecessor `prev` in the original sequence -/
def compactGo (eq : α → α → Bool) (prev : α) : List α → List α
  | [] => []
  | y :: rest => if eq y prev then compactGo eq y rest else y :: compactGo eq y rest

/-- "replaces consecutive runs of equal elements with a single copy" / "For runs of elements that
compare equal, CompactFunc keeps the first one." (`eq` is called as `eq(s[k], s[k-1])`) -/
def compactBy (eq : α → α → Bool) : List α → List α
  | [] => []
  | x :: xs => x :: compactGo eq x xs

/-- `slices.CompactFunc`: "... CompactFunc modifies the contents of the slice s and returns the
modified slice, which may have a smaller length. CompactFunc zeroes the elements between the new
length and the original length." -/
def compactFunc (zero : α) (s : Sl α) (eq : α → α → Bool) : Sl α := s.shrinkTo zero (compactBy eq s.items)

/-- `slices.Compact`: "Compact replaces consecutive runs of equal elements with a single copy. This is
like the uniq command found on Unix. Compact modifies the contents of the slice s and returns the
modified slice, which may have a smaller length. Compact zeroes the elements between the new length
and the original length." -/
def compact [DecidableEq α] (zero : α) (s : Sl α) : Sl α := compactFunc zero s (fun a b => decide (a = b))

/-- `slices.Equal`: "reports whether two slices are equal: the same length and all elements equal. If
the lengths are different, Equal returns false. ... Empty and nil slices are considered equal." -/
def equal [DecidableEq α] (a b : Sl α) : Bool := decide (a.items = b.items)

def equalFuncL (eq : α → β → Bool) : List α → List β → Bool
  | [], [] => true
  | x :: xs, y :: ys => eq x y && equalFuncL eq xs ys
  | _, _ => false

/-- `slices.EqualFunc`: "reports whether two slices are equal using an equality function on each pair
of elements. If the lengths are different, EqualFunc returns false. Otherwise, the elements are
compared in increasing index order, and the comparison stops at the first unequal pair." -/
def equalFunc (a : Sl α) (b : Sl β) (eq : α → β → Bool) : Bool := equalFuncL eq a.items b.items

/-- `slices.DeleteFunc`: "removes any elements from s for which del returns true, returning the
modified slice. DeleteFunc zeroes the elements between the new length and the original length." -/
def deleteFunc (zero : α) (s : Sl α) (del : α → Bool) : Sl α :=
  s.shrinkTo zero (s.items.filter (fun x => !del x))

/-- `slices.Delete`: "removes the elements s[i:j] from s, returning the modified slice. Delete panics
if j > len(s) or s[i:j] is not a valid slice. ... Delete zeroes the elements
s[len(s)-(j-i):len(s)]." -/
def delete (zero : α) (s : Sl α) (i j : Int) : Option (Sl α) :=
  if 0 ≤ i ∧ i ≤ j ∧ j ≤ (s.len : Int) then
    some (s.shrinkTo zero (s.items.take i.toNat ++ s.items.drop j.toNat))
  else none

/-- The allocator's limit, in elements: a `make([]T, n)` / `slices.Grow(s, n)` asking for more than this
many elements panics ("len out of range" — Go: `n * sizeof(T)` overflows or exceeds `maxAlloc = 2^48`
bytes). Between the memory the machine has and that limit a real process dies instead of panicking; the
harness therefore only asks for at most a few thousand or at least 2^61 elements, where the model is
exact whatever the precise limit; theorems about allocating helpers carry `n ≤ allocLimit` explicitly. -/
def allocLimit : Int := 17592186044416   -- 2^44

/-- `slices.Grow`: "increases the slice's capacity, if necessary, to guarantee space for another n
elements. After Grow(n), at least n elements can be appended to the slice without another
allocation. If n is negative or too large to allocate the memory, Grow panics." (the new capacity is
only bounded from below by the documentation: the model takes the bound itself) -/
def grow (zero : α) (s : Sl α) (n : Int) : Option (Sl α) :=
  if n < 0 then none
  else if s.len + n.toNat ≤ s.cap then some s
  else if n > allocLimit then none      -- "too large to allocate the memory"
  else some ⟨s.items ++ List.replicate n.toNat zero, s.items.length, true⟩

/-- `slices.IndexFunc`: "returns the first index i satisfying f(s[i]), or -1 if none do." -/
def indexFunc (s : Sl α) (f : α → Bool) : Int :=
  match s.items.findIdx? f with
  | some i => (i : Int)
  | none => -1

/-- `slices.Index`: "returns the index of the first occurrence of v in s, or -1 if not present." -/
def index [DecidableEq α] (s : Sl α) (v : α) : Int := indexFunc s (fun y => decide (y = v))

/-- `slices.Insert`: "inserts the values v... into s at index i, returning the modified slice. The
elements at s[i:] are shifted up to make room. In the returned slice r, r[i] == v[0], and, if
i < len(s), r[i+len(v)] == value originally at r[i]. Insert panics if i > len(s)." The result uses
`s`'s array when the capacity suffices (the standard library's `s[:n+m]` branch), else a new one. -/
def insert (s : Sl α) (i : Int) (v : List α) : Option (Sl α) :=
  if i < 0 ∨ (s.len : Int) < i then none
  else
    let r := s.items.take i.toNat ++ v ++ s.items.drop i.toNat
    if r.length ≤ s.cap then some ⟨r ++ s.arr.drop r.length, r.length, s.fresh⟩
    else some ⟨r, r.length, true⟩

/-! ## package sort, cmp, builtins -/

/-- stable insertion of `x` in front of a sorted list: before the first element that is not less
than `x` ... i.e. after every element less than `x` only -/
def insertStable (lt : α → α → Bool) (x : α) : List α → List α
  | [] => [x]
  | y :: ys => if lt y x then y :: insertStable lt x ys else x :: y :: ys

/-- the stable sort of a list -/
def sortStable (lt : α → α → Bool) (l : List α) : List α := l.foldr (insertStable lt) []

/-- the element order induced by an index-less function `less(i, j)` that only reads the elements at
positions `i` and `j` of the slice: compare the two elements of a two-element slice -/
def elemLess (lessIdx : Sl α → Int → Int → Bool) (a b : α) : Bool := lessIdx (Sl.ofList [a, b]) 0 1

/-- `sort.SliceStable`: "sorts the slice x using the provided less function, keeping equal elements in
their original order." (in place) -/
def sortSliceStable (x : Sl α) (lessIdx : Sl α → Int → Int → Bool) : Sl α :=
  { x with arr := sortStable (elemLess lessIdx) x.items ++ x.arr.drop x.len, len := x.items.length }

/-- `sort.Slice`: "sorts the slice x given the provided less function. ... The sort is not guaranteed
to be stable: equal elements may be reversed from their original order." Which of the sorted
arrangements results is unspecified; the model returns the stable one and the correspondence compares
up to the order of equivalent items. -/
def sortSlice (x : Sl α) (lessIdx : Sl α → Int → Int → Bool) : Sl α := sortSliceStable x lessIdx

/-- `sort.SliceIsSorted`: "reports whether the slice x is sorted according to the provided less
function." — no element is less than its predecessor. -/
def sortSliceIsSorted (x : Sl α) (lessIdx : Sl α → Int → Int → Bool) : Bool :=
  (List.range (x.len - 1)).all fun i => !lessIdx x ((i : Int) + 1) (i : Int)

/-- `s[i]` inside the adapter closures (`zero` for an index the contract never asks for) -/
def elemAt (zero : α) (s : Sl α) (i : Int) : α := if i < 0 then zero else s.items.getD i.toNat zero

/-- `cmp.Less` on integers: "reports whether x is less than y." -/
def cmpLess (a b : Int) : Bool := decide (a < b)

/-- builtin `min` / `max` on integers -/
def builtinMin (a b : Int) : Int := if a ≤ b then a else b
def builtinMax (a b : Int) : Int := if a ≤ b then b else a

end Juniper.Model.Stdlib
