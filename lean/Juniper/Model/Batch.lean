import Juniper.Generated.Batch
/-!
# Model of `stream.Batch` / `stream.BatchFunc` (C11; Batch clauses of C08, C09)

A labelled transition system: one label = one atomic step of one of the three goroutines
(producer, batcher, the consumer inside `batchStream.Next`), of the runtime (timer expiry), or of the
environment (the source answering the producer's `Next`, a consumer calling `Next`, a per-call
context expiring, the clock advancing, `Close`). All interleavings = all label sequences.

Every `select` arm, the calls to `stopTimer()` / `startTimer()`, the deferred calls of the producer
and the small guards are *not* written here: they are read from `Juniper.Gen.Batch` (regenerated
from `stream/stream.go` on every run) through `code` below and through the generated expressions
`waitElapsed`, `timerDur`, `endFlushCond`, `firstItemCond`, `waitNonEmptyCond`, `batchFull`.

Core Lean only (this file is linked into the `driver` executable).
-/
namespace Juniper.Model.Batch
open Juniper.Facts

/-- What the source's `Next` may return to the producer. -/
inductive SrcEv where
  | item (v : Nat)
  | eof
  | err
  deriving DecidableEq, Repr

/-- Producer goroutine: in `s.Next(bgCtx)`; at the hand-off `c <- item`; then the deferred calls
`close(c)`, `s.Close()`, `wg.Done()`. -/
inductive PPc where
  | next
  | send (v : Nat)
  | closeC
  | closeSrc
  | done
  deriving DecidableEq, Repr

/-- Why the batcher flushes. -/
inductive Reason where
  | full     -- case (A): `full(batch)`
  | timer    -- case (B): the `<-timerC` arm
  | waiter   -- case (B'): a consumer announced itself and maxWait had already elapsed
  | srcEnd   -- case (C): `c` closed
  deriving DecidableEq, Repr

/-- Batcher goroutine: at the loop's `select`; inside the user's `full(batch)`; inside `flush`'s
`select`; running its deferred cleanup; finished. -/
inductive BPc where
  | sel
  | inFull
  | flush (r : Reason)
  | exit
  | done
  deriving DecidableEq, Repr

/-- The `*time.Timer`: never started or stopped/consumed; running with a deadline; expired with the
value waiting in its channel. -/
inductive Timer where
  | idle
  | armed (t : Nat)
  | fired
  deriving DecidableEq, Repr

/-- The consumer inside `batchStream.Next`: not in a call; at the outer `select`; at the inner one
(after `iter.waiting <- struct{}{}`). -/
inductive CPc where
  | idle
  | outer
  | inner
  deriving DecidableEq, Repr

/-- Result of one `Next` call. -/
inductive Res where
  | batch (b : List Nat)
  | endOK
  | srcErr
  | ctxErr
  /-- the error of the stream's *own* background context (`bgCtx.Err()`), which no source produced and
  no consumer's context carries — possible only when `bgCtx` can end without `Close` (label `bgEnds`) -/
  | bgErr
  deriving DecidableEq, Repr

/-- Where `BatchFunc`'s background context comes from (the regenerated right-hand side of
`bgCtx, bgCancel := …`): `context.WithCancel(context.Background())` — done only when `bgCancel` is
called —, a context with a deadline of its own (`WithTimeout` / `WithDeadline`: done after a while
whatever anybody does, with `context.DeadlineExceeded`), or anything else (a parent that somebody else
may cancel: done at any time, with `context.Canceled`). -/
inductive BgOrigin where
  | plainCancel
  | deadline
  | other
  deriving DecidableEq, Repr

/-- Ghost record of one hand-over batcher → consumer. -/
structure Delivered where
  items : List Nat
  /-- clock value at which the batcher received the oldest item of this batch -/
  firstAt : Nat
  /-- the code's `batchStart` at the hand-over -/
  start : Nat
  /-- clock value of the hand-over -/
  time : Nat
  reason : Reason
  /-- the receiving consumer had announced itself (was in the inner select) -/
  toWaiter : Bool
  deriving DecidableEq, Repr

/-- The facts of the Go source the transition relation depends on. -/
structure Code where
  loopRecvC : Bool
  loopRecvTimer : Bool
  loopRecvWaiting : Bool
  flushAbortArm : Bool
  flushSendArm : Bool
  prodSendArm : Bool
  prodCancelArm : Bool
  outerRecv : Bool
  outerAnnounce : Bool
  outerCtx : Bool
  innerRecv : Bool
  innerCtx : Bool
  fullStopsTimer : Bool
  firstSetsStart : Bool
  firstStartsTimer : Bool
  timerArmClearsTimerC : Bool
  waitElapsedStopsTimer : Bool
  waitNotElapsedStartsTimer : Bool
  waitEmptySetsFlag : Bool
  flushClearsWaitingAtEmpty : Bool
  stopTimerClearsTimerC : Bool
  startTimerStopsFirst : Bool
  startTimerSetsTimerC : Bool
  batcherClosesBatchC : Bool
  producerRecordsErr : Bool
  producerClosesSource : Bool
  producerClosesC : Bool
  /-- Truth table of the producer's test "this error out of `s.Next(bgCtx)` is my own cancellation
  (Close was called), not a failure of the source" — the regenerated `else if` guard
  `Gen.Batch.prodCancelGuard` — for an error that is `context.Canceled` itself (`Bare`), one that
  wraps it (`Wrap`), any other error (`Other`); while `bgCtx` is live (`Live`: Close has not been
  called) and after Close (`Closed`). -/
  guardBareLive : Bool
  guardWrapLive : Bool
  guardOtherLive : Bool
  guardBareClosed : Bool
  guardWrapClosed : Bool
  guardOtherClosed : Bool
  /-- the guard for a `context.DeadlineExceeded` out of `s.Next(bgCtx)` while `bgCtx.Err()` is
  `DeadlineExceeded` (only reachable when `bgOrigin = .deadline`) -/
  guardDeadlineExpired : Bool
  /-- where `bgCtx` comes from -/
  bgOrigin : BgOrigin
  /-- `bgCancel` is used nowhere but: defined, stored in the stream's `bgCancel` field, called first
  thing in `batchStream.Close` (the regenerated list of *every* occurrence of the identifier in the
  package is exactly that) -/
  bgCancelOnlyInClose : Bool
  /-- the producer hands `bgCtx` itself to the source's `Next` -/
  srcNextGetsBg : Bool
  /-- `bgCtx` occurs nowhere but: defined, argument of the producer's `s.Next`, in the producer's guard,
  in the `<-bgCtx.Done()` arms of the hand-off and of `flush` (nobody else is given it, nothing else
  selects on it) -/
  bgCtxUsesPinned : Bool
  deriving DecidableEq, Repr

/-- `bgCtx` can become done although `Close` has not been called: it has a deadline / a foreign
parent, or `bgCancel` has escaped to somewhere else than `Close`. -/
def Code.bgMayEnd (k : Code) : Bool := (k.bgOrigin != .plainCancel) || !k.bgCancelOnlyInClose

/-- "`bgCtx` is done exactly when `Close` has called `bgCancel()`, and it is what the source's `Next` is
given": the three regenerated facts the LTS's `bgCancelled` flag stands on. Every property theorem that
needs it states it as a conjunct of its own (so that a changed origin / a stray use of `bgCancel` /
another context handed to the source breaks *that* theorem, not only the tie `code_is_good`). -/
def Code.BgTied (k : Code) : Prop :=
  k.bgOrigin = .plainCancel ∧ k.bgCancelOnlyInClose = true ∧ k.srcNextGetsBg = true ∧ k.bgCtxUsesPinned = true

instance (k : Code) : Decidable k.BgTied := by unfold Code.BgTied; infer_instance

/-- The regenerated right-hand side of `bgCtx, bgCancel := …`, classified. `plainCancel` needs all
of: one single assignment to the pair, whose text is the expected one (constructor
`context.WithCancel`, one argument, `context.Background()`). -/
def bgOriginOf (assigns : List String) (ctor parent : String) (nargs : Nat) : BgOrigin :=
  if assigns = ["bgCtx, bgCancel := context.WithCancel(context.Background())"] ∧ ctor = "context.WithCancel" ∧
      parent = "context.Background()" ∧ nargs = 1 then .plainCancel
  else if ctor = "context.WithTimeout" ∨ ctor = "context.WithDeadline" ∨ ctor = "context.WithTimeoutCause" ∨
      ctor = "context.WithDeadlineCause" then .deadline
  else .other

/-- The code as it is now (every field is a closed term over the generated facts). -/
def code : Code where
  loopRecvC := Gen.Batch.loopArms.contains (.recv "c")
  loopRecvTimer := Gen.Batch.loopArms.contains (.recv "timerC")
  loopRecvWaiting := Gen.Batch.loopArms.contains (.recv "out.waiting")
  flushAbortArm := Gen.Batch.flushArms.contains (.recv "bgCtx.Done()")
  flushSendArm := Gen.Batch.flushArms.contains (.send "out.batchC")
  prodSendArm := Gen.Batch.producerSendArms.contains (.send "c")
  prodCancelArm := Gen.Batch.producerSendArms.contains (.recv "bgCtx.Done()")
  outerRecv := Gen.Batch.nextOuterArms.contains (.recv "iter.batchC")
  outerAnnounce := Gen.Batch.nextOuterArms.contains (.send "iter.waiting")
  outerCtx := Gen.Batch.nextOuterArms.contains (.recv "ctx.Done()")
  innerRecv := Gen.Batch.nextInnerArms.contains (.recv "iter.batchC")
  innerCtx := Gen.Batch.nextInnerArms.contains (.recv "ctx.Done()")
  fullStopsTimer := Gen.Batch.fullStmts.head? == some "stopTimer()"
  firstSetsStart := Gen.Batch.firstItemStmts.head? == some "batchStart = time.Now()"
  firstStartsTimer := Gen.Batch.firstItemStmts.contains "startTimer()"
  timerArmClearsTimerC := Gen.Batch.timerArmStmts.head? == some "timerC = nil"
  waitElapsedStopsTimer := Gen.Batch.waitElapsedStmts.head? == some "stopTimer()"
  waitNotElapsedStartsTimer := Gen.Batch.waitNotElapsedStmts.contains "startTimer()"
  waitEmptySetsFlag := Gen.Batch.waitEmptyStmts.contains "waitingAtEmpty = true"
  flushClearsWaitingAtEmpty := Gen.Batch.flushClearsWaitingAtEmpty
  stopTimerClearsTimerC := Gen.Batch.stopTimerClearsTimerC
  startTimerStopsFirst := Gen.Batch.startTimerStopsFirst
  startTimerSetsTimerC := Gen.Batch.startTimerSetsTimerC
  batcherClosesBatchC := Gen.Batch.batcherClosesBatchC
  producerRecordsErr := Gen.Batch.producerRecordsErr
  producerClosesSource := Gen.Batch.producerDefers.contains "s.Close()"
  producerClosesC := Gen.Batch.producerDefers.contains "close(c)"
  -- arguments: err == context.Canceled, errors.Is(err, context.Canceled), bgCtx.Err() == context.Canceled, bgCtx.Err() != nil
  guardBareLive := Gen.Batch.prodCancelGuard true true false false
  guardWrapLive := Gen.Batch.prodCancelGuard false true false false
  guardOtherLive := Gen.Batch.prodCancelGuard false false false false
  guardBareClosed := Gen.Batch.prodCancelGuard true true true true
  guardWrapClosed := Gen.Batch.prodCancelGuard false true true true
  guardOtherClosed := Gen.Batch.prodCancelGuard false false true true
  guardDeadlineExpired := Gen.Batch.prodCancelGuard false false false true
  bgOrigin := bgOriginOf Gen.Batch.bgCtxAssigns Gen.Batch.bgCtxCtor Gen.Batch.bgCtxParent Gen.Batch.bgCtxCtorArgs
  bgCancelOnlyInClose := Gen.Batch.bgCancelUses ==
    ["BatchFunc: assigned (:=)", "BatchFunc: bgCancel: bgCancel", "BatchFunc: bgCancel: bgCancel",
     "type batchStream: field bgCancel context.CancelFunc", "batchStream.Close: iter.bgCancel()"]
  srcNextGetsBg := Gen.Batch.srcNextCtxArg == "bgCtx"
  bgCtxUsesPinned := Gen.Batch.bgCtxUses ==
    ["BatchFunc: assigned (:=)", "BatchFunc.func0: item, err := s.Next(bgCtx)",
     "BatchFunc.func0: if err == context.Canceled && bgCtx.Err() == context.Canceled",
     "BatchFunc.func0: <-bgCtx.Done()", "BatchFunc.func1.func1: <-bgCtx.Done()"]

/-- Parameters of one stream: `maxWait` and which answers `full` may give (`Batch`: exactly the
generated predicate; `BatchFunc`: whatever the user function says). -/
structure Cfg where
  maxWait : Nat
  fullOK : List Nat → Bool → Bool

/-- `Batch(s, maxWait, batchSize)`: `full` is the generated `len(batch) >= batchSize`, and the
`maxWait` that reaches `BatchFunc` is the regenerated second argument of the `BatchFunc(…)` call in
`Batch` (`maxWait` itself on the unchanged tree). -/
def Cfg.ofBatch (maxWait batchSize : Nat) : Cfg where
  maxWait := (Gen.Batch.batchMaxWaitArg (maxWait : Int)).toNat
  fullOK := fun b r => r == Gen.Batch.batchFull (b.length : Int) (batchSize : Int)

/-- `BatchFunc` with an arbitrary (even non-deterministic, stateful) `full`. -/
def Cfg.ofFunc (maxWait : Nat) : Cfg where
  maxWait := maxWait
  fullOK := fun _ _ => true

structure State where
  -- source side (ghost except `srcCloses`)
  srcTerm : Option SrcEv := none
  pulled : List Nat := []
  srcCloses : Nat := 0
  srcNexts : Nat := 0
  srcNextAfterClose : Bool := false
  -- producer
  ppc : PPc := .next
  err : Bool := false
  cClosed : Bool := false
  -- batcher
  bpc : BPc := .sel
  batch : List Nat := []
  batchStart : Nat := 0
  timer : Timer := .idle
  timerCSet : Bool := false
  waitingAtEmpty : Bool := false
  batchCClosed : Bool := false
  firstAt : Nat := 0
  -- consumer
  cons : CPc := .idle
  ctxDone : Bool := false
  results : List Res := []
  delivered : List Delivered := []
  -- Close
  bgCancelled : Bool := false
  closeReturned : Bool := false
  now : Nat := 0
  -- only for code whose `bgCtx` can end without Close (`Code.bgMayEnd`; never set otherwise)
  /-- `bgCtx` became done of its own accord (deadline passed / somebody else cancelled it) -/
  bgExpired : Bool := false
  /-- `out.err` holds `bgCtx`'s error, which no source produced -/
  errBg : Bool := false
  deriving DecidableEq, Repr

def init : State := {}

inductive Label where
  -- environment
  | srcRet (ev : SrcEv)      -- the source's `Next` returns `ev` to the producer
  | srcCancelErr (wrapped : Bool) -- the source's `Next` fails *of its own accord* with `context.Canceled`
                             -- (`wrapped`: with an error wrapping it) — not because `bgCtx` was cancelled
  | nextCall (live : Bool)   -- a consumer calls `Next` (with a live or an already expired context)
  | ctxExpire                -- the pending call's context expires
  | tick (d : Nat)           -- the clock advances
  | close                    -- `Close` is called (`bgCancel()`)
  | bgEnds                   -- `bgCtx` becomes done although `Close` has not been called (its deadline
                             -- passes, `bgCancel` is called from elsewhere): enabled iff `Code.bgMayEnd`
  -- producer
  | prodCancelled            -- `s.Next(bgCtx)` fails because bgCtx is cancelled
  | prodSend                 -- hand-off producer → batcher over `c` (joint with the loop's `<-c` arm)
  | prodSendCancel           -- the `<-bgCtx.Done()` arm of the hand-off (if the code has one)
  | prodCloseC               -- deferred `close(c)`
  | prodCloseSrc             -- deferred `s.Close()` and `wg.Done()`
  -- batcher
  | fullRet (b : Bool)       -- the user's `full(batch)` returns `b`
  | recvCClosed              -- the loop's `<-c` arm sees `c` closed
  | recvTimer                -- the loop's `<-timerC` arm
  | flushAbort               -- `flush`: the `<-bgCtx.Done()` arm
  | batchExit                -- deferred `timer.Stop()`, `close(out.batchC)`, `wg.Done()`
  -- consumer
  | announce                 -- `iter.waiting <- struct{}{}` (joint with the loop's `<-out.waiting` arm)
  | deliver                  -- `out.batchC <- batch` in `flush` (joint with a `<-iter.batchC` arm)
  | consClosed               -- a `<-iter.batchC` arm sees the channel closed
  | consCtx                  -- a `<-ctx.Done()` arm
  -- runtime
  | timerExpire              -- the armed timer's deadline has passed: its channel becomes ready
  | closeReturn              -- `wg.Wait()` returns
  deriving DecidableEq, Repr

/-- Labels that are not choices of the environment (the source, the consumer's caller, the clock). -/
def Label.internal : Label → Bool
  | .srcRet _ | .srcCancelErr _ | .nextCall _ | .ctxExpire | .tick _ | .close | .bgEnds => false
  | _ => true

/-- `bgCtx.Done()` is closed: `Close` has called `bgCancel()`, or — only for code with
`Code.bgMayEnd` — the context ended of its own accord. (`bgExpired` is set by the label `bgEnds` only,
which needs `k.bgMayEnd`; repeating the test here keeps the term free of `bgExpired` for the code the
proofs are about.) -/
def bgDone (k : Code) (s : State) : Bool := s.bgCancelled || (k.bgMayEnd && s.bgExpired)

def stopTimer (k : Code) (s : State) : State :=
  { s with timer := .idle, timerCSet := if k.stopTimerClearsTimerC then false else s.timerCSet }

/-- `time.Since(batchStart)` -/
def since (s : State) : Int := (s.now : Int) - (s.batchStart : Int)

def startTimer (k : Code) (cfg : Cfg) (s : State) : State :=
  let s1 := if k.startTimerStopsFirst then stopTimer k s else s
  { s1 with
    timer := .armed (s1.now + (Gen.Batch.timerDur (since s1) (cfg.maxWait : Int)).toNat)
    timerCSet := if k.startTimerSetsTimerC then true else s1.timerCSet }

/-- The `if len(batch) == 1 { batchStart = time.Now(); if waitingAtEmpty { startTimer() } }`
bookkeeping at the end of the `<-c` arm; the batcher is back at its `select` afterwards. -/
def afterFull (k : Code) (cfg : Cfg) (s : State) : State :=
  if Gen.Batch.firstItemCond (s.batch.length : Int) then
    let s1 := if k.firstSetsStart then { s with batchStart := s.now } else s
    let s2 := if s1.waitingAtEmpty && k.firstStartsTimer then startTimer k cfg s1 else s1
    { s2 with bpc := .sel }
  else
    { s with bpc := .sel }

def step (k : Code) (cfg : Cfg) (s : State) : Label → Option State
  | .srcRet ev =>
    if s.ppc = .next then
      let s := { s with srcNexts := s.srcNexts + 1,
                        srcNextAfterClose := s.srcNextAfterClose || decide (0 < s.srcCloses) }
      match ev with
      | .item v => some { s with ppc := .send v, pulled := s.pulled ++ [v] }
      | .eof => some { s with ppc := .closeC, srcTerm := some .eof }
      | .err => some { s with ppc := .closeC, srcTerm := some .err, err := s.err || k.producerRecordsErr }
    else none
  | .srcCancelErr wrapped =>
    -- the source fails with a `context.Canceled`-flavoured error of its own. Whether the producer
    -- records it (`out.err = err; return`) or takes it for its own cancellation (`break`, nothing
    -- recorded) is the regenerated guard. Taken for its own cancellation while Close has *not* been
    -- called, the source's failure is lost: the stream will end with `End` (`srcTerm = some .err`,
    -- `err = false`).
    if s.ppc = .next then
      let s := { s with srcNexts := s.srcNexts + 1,
                        srcNextAfterClose := s.srcNextAfterClose || decide (0 < s.srcCloses) }
      let rec_ : State := { s with ppc := .closeC, srcTerm := some .err, err := s.err || k.producerRecordsErr }
      match s.bgCancelled, wrapped with
      | false, false => if k.guardBareLive then some { s with ppc := .closeC, srcTerm := some .err } else some rec_
      | false, true => if k.guardWrapLive then some { s with ppc := .closeC, srcTerm := some .err } else some rec_
      | true, false => if k.guardBareClosed then some { s with ppc := .closeC } else some rec_
      | true, true => if k.guardWrapClosed then some { s with ppc := .closeC } else some rec_
    else none
  | .nextCall live =>
    if s.cons = .idle ∧ s.bgCancelled = false then some { s with cons := .outer, ctxDone := !live } else none
  | .ctxExpire =>
    if s.cons ≠ .idle then some { s with ctxDone := true } else none
  | .tick d => some { s with now := s.now + d }
  | .close =>
    if s.bgCancelled = false ∧ s.cons = .idle then some { s with bgCancelled := true } else none
  | .bgEnds =>
    if k.bgMayEnd = true ∧ s.bgCancelled = false ∧ s.bgExpired = false then some { s with bgExpired := true }
    else none
  | .prodCancelled =>
    -- the source's `Next` was given `bgCtx` and returns `bgCtx.Err()` because `bgCtx` is done. What the
    -- producer does with that error is the regenerated guard: after `Close` (and for a context that
    -- somebody else cancelled) the error is `context.Canceled` and `bgCtx.Err()` is too; a context
    -- whose own deadline passed yields `DeadlineExceeded` on both sides. Guard not taken: the
    -- producer records the context's error as if the source had failed (`out.err = err`).
    if s.ppc = .next ∧ bgDone k s = true ∧ k.srcNextGetsBg = true then
      let taken := if k.bgMayEnd && s.bgExpired && (k.bgOrigin == .deadline) then k.guardDeadlineExpired
                   else k.guardBareClosed
      if taken then some { s with ppc := .closeC }
      else some { s with ppc := .closeC, err := s.err || k.producerRecordsErr,
                         errBg := s.errBg || k.producerRecordsErr }
    else none
  | .prodSend =>
    match s.ppc with
    | .send v =>
      if s.bpc = .sel ∧ k.prodSendArm = true ∧ k.loopRecvC = true then
        some { s with ppc := .next, batch := s.batch ++ [v], bpc := .inFull,
                      firstAt := if s.batch = [] then s.now else s.firstAt }
      else none
    | _ => none
  | .prodSendCancel =>
    match s.ppc with
    | .send _ => if bgDone k s = true ∧ k.prodCancelArm = true then some { s with ppc := .closeC } else none
    | _ => none
  | .prodCloseC =>
    if s.ppc = .closeC then some { s with ppc := .closeSrc, cClosed := s.cClosed || k.producerClosesC } else none
  | .prodCloseSrc =>
    if s.ppc = .closeSrc then
      some { s with ppc := .done, srcCloses := s.srcCloses + (if k.producerClosesSource then 1 else 0) }
    else none
  | .fullRet b =>
    if s.bpc = .inFull ∧ cfg.fullOK s.batch b = true then
      if b then
        let s1 := if k.fullStopsTimer then stopTimer k s else s
        some { s1 with bpc := .flush .full }
      else some (afterFull k cfg s)
    else none
  | .recvCClosed =>
    if s.bpc = .sel ∧ s.cClosed = true ∧ k.loopRecvC = true then
      if Gen.Batch.endFlushCond (s.batch.length : Int) then some { s with bpc := .flush .srcEnd }
      else some { s with bpc := .exit }
    else none
  | .recvTimer =>
    if s.bpc = .sel ∧ s.timer = .fired ∧ s.timerCSet = true ∧ k.loopRecvTimer = true then
      some { s with timer := .idle, timerCSet := !k.timerArmClearsTimerC, bpc := .flush .timer }
    else none
  | .flushAbort =>
    match s.bpc with
    | .flush _ => if bgDone k s = true ∧ k.flushAbortArm = true then some { s with bpc := .exit } else none
    | _ => none
  | .batchExit =>
    if s.bpc = .exit then
      some { s with bpc := .done, timer := .idle, batchCClosed := s.batchCClosed || k.batcherClosesBatchC }
    else none
  | .announce =>
    if s.cons = .outer ∧ s.bpc = .sel ∧ k.outerAnnounce = true ∧ k.loopRecvWaiting = true then
      let s := { s with cons := .inner }
      if Gen.Batch.waitNonEmptyCond (s.batch.length : Int) then
        if Gen.Batch.waitElapsed (since s) (cfg.maxWait : Int) then
          let s1 := if k.waitElapsedStopsTimer then stopTimer k s else s
          some { s1 with bpc := .flush .waiter }
        else
          some (if k.waitNotElapsedStartsTimer then startTimer k cfg s else s)
      else
        some { s with waitingAtEmpty := s.waitingAtEmpty || k.waitEmptySetsFlag }
    else none
  | .deliver =>
    match s.bpc with
    | .flush r =>
      if s.cons ≠ .idle ∧ k.flushSendArm = true ∧ (s.cons = .outer → k.outerRecv = true) ∧
          (s.cons = .inner → k.innerRecv = true) then
        let s1 := { s with
          results := s.results ++ [.batch s.batch]
          delivered := s.delivered ++ [{ items := s.batch, firstAt := s.firstAt, start := s.batchStart,
                                         time := s.now, reason := r, toWaiter := decide (s.cons = .inner) }]
          cons := .idle
          batch := []
          waitingAtEmpty := if k.flushClearsWaitingAtEmpty then false else s.waitingAtEmpty }
        match r with
        | .full => some (afterFull k cfg s1)
        | .timer => some { s1 with bpc := .sel }
        | .waiter => some { s1 with bpc := .sel }
        | .srcEnd => some { s1 with bpc := .exit }
      else none
    | _ => none
  | .consClosed =>
    if s.cons ≠ .idle ∧ s.batchCClosed = true ∧ (s.cons = .outer → k.outerRecv = true) ∧
        (s.cons = .inner → k.innerRecv = true) then
      let r : Res := if s.err then (if k.bgMayEnd && s.errBg then .bgErr else .srcErr) else .endOK
      some { s with cons := .idle, results := s.results ++ [r] }
    else none
  | .consCtx =>
    if s.cons ≠ .idle ∧ s.ctxDone = true ∧ (s.cons = .outer → k.outerCtx = true) ∧
        (s.cons = .inner → k.innerCtx = true) then
      some { s with cons := .idle, results := s.results ++ [.ctxErr] }
    else none
  | .timerExpire =>
    match s.timer with
    | .armed t => if t ≤ s.now then some { s with timer := .fired } else none
    | _ => none
  | .closeReturn =>
    if s.bgCancelled = true ∧ s.closeReturned = false ∧ s.ppc = .done ∧ s.bpc = .done then
      some { s with closeReturned := true }
    else none

/-- States reachable from `init` (all interleavings, all clock advances, all environment choices). -/
inductive Reach (k : Code) (cfg : Cfg) : State → Prop where
  | init : Reach k cfg init
  | step {s s' : State} (l : Label) : Reach k cfg s → step k cfg s l = some s' → Reach k cfg s'

/-- Run a label sequence (for concrete witnesses). -/
def run (k : Code) (cfg : Cfg) : State → List Label → Option State
  | s, [] => some s
  | s, l :: ls => match step k cfg s l with
    | some s' => run k cfg s' ls
    | none => none

theorem reach_of_run {k cfg} {s s' : State} (hs : Reach k cfg s) :
    ∀ ls, run k cfg s ls = some s' → Reach k cfg s' := by
  intro ls
  induction ls generalizing s with
  | nil => intro h; simp [run] at h; exact h ▸ hs
  | cons l ls ih =>
    intro h
    simp only [run] at h
    split at h
    · rename_i s1 hstep
      exact ih (Reach.step l hs hstep) h
    · cases h

/-- No step of a goroutine or of the runtime is enabled (only the environment can move). -/
def Quiescent (k : Code) (cfg : Cfg) (s : State) : Prop :=
  ∀ l, l.internal = true → step k cfg s l = none

/-- The internal labels (finite: `fullRet` has two instances), for executable exploration. -/
def internalLabels : List Label :=
  [.prodCancelled, .prodSend, .prodSendCancel, .prodCloseC, .prodCloseSrc, .fullRet true, .fullRet false,
   .recvCClosed, .recvTimer, .flushAbort, .batchExit, .announce, .deliver, .consClosed, .consCtx,
   .timerExpire, .closeReturn]

end Juniper.Model.Batch
