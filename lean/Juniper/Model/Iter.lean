import Juniper.Generated.Comb
/-!
# Executable model of `iterator/iterator.go` (C07)

An iterator is a state machine `IM σ α` whose `step` performs **at most one pull from its source**
and answers `item a`, `done`, or `skip` ("my `Next` loop goes round once more"). A call of the real
`Next()` is `drive`: steps until the first non-`skip` answer. Writing the machines at this granularity
keeps every combinator loop-free and total for an arbitrary (abstract) inner iterator, while the
sequence of source pulls and callback invocations is exactly that of the nested Go loops (this is
what the correspondence harness compares: values *and* the pull log after every consumer call).

Guards and flag updates are the definitions regenerated from the Go source (`Juniper.Gen.Comb`).
Core Lean only.
-/
namespace Juniper.Model.Iter
open Juniper.Gen.Comb
universe u v w

inductive Step (α : Type v) where
  | item (a : α)
  | skip
  | done
  deriving Repr, DecidableEq

/-- Iterator machine over an explicit state type. -/
structure IM (σ : Type u) (α : Type v) where
  step : σ → Step α × σ

variable {σ : Type u} {τ : Type w} {α : Type v} {β : Type v}

/-! ## Sources -/

/-- `iterator.Slice` instrumented with a call counter and a pulled-items counter. -/
structure Src (α : Type v) where
  rest : List α
  calls : Nat := 0
  pulled : Nat := 0
  deriving Repr

def Src.of (l : List α) : Src α := { rest := l }

def srcStep (s : Src α) : Step α × Src α :=
  if itSliceDone (s.rest.length : Int) then (.done, { s with calls := s.calls + 1 })
  else match s.rest with
    | [] => (.done, { s with calls := s.calls + 1 })
    | a :: r => (.item a, { rest := r, calls := s.calls + 1, pulled := s.pulled + 1 })

def src : IM (Src α) α := ⟨srcStep⟩

/-- `counterIterator.Next`: state `i`, limit `n`; the yielded item is the regenerated `iter.i`. -/
def counter (n : Int) : IM Int Int :=
  ⟨fun i => if itCounterDone i n then (.done, i) else (.item (itCounterItem i n), if itCounterAdvances then i + 1 else i)⟩

/-- `iterator.Counter(n)` = `&counterIterator{i: 0, n: n}`: the machine (its limit) and its first state,
both from the regenerated field initialisers -/
def counterOf (n : Int) : IM Int Int := counter (itCounterInitN n)
def counterInit (n : Int) : Int := itCounterInitI n

/-- `repeatIterator.Next`: state `x`. -/
def repeat_ (a : α) : IM Int α :=
  ⟨fun x => if itRepeatDone x then (.done, x) else (.item a, if itRepeatDecrements then x - 1 else x)⟩

/-- `iterator.Repeat(item, n)` = `&repeatIterator{item: item, x: n}` -/
def repeatInit (n : Int) : Int := itRepeatInitX n

/-- `iterator.Empty()`: `return zero, false` (the regenerated second result; `true` would be an iterator
that yields zero values for ever: it never answers). -/
def empty : IM Unit α := ⟨fun u => if itEmptyOk then (.skip, u) else (.done, u)⟩

/-- `iterator.Chan(c)`: `buf` = what the channel holds, `closed` = it was closed. `Next` is
`item, ok := <-iter.c; return item, ok` (the regenerated statement list): the next buffered value; on a
closed and drained channel `(zero, false)`; a receive from an empty open channel blocks (`skip` for ever). -/
structure ChanSt (α : Type v) where
  buf : List α
  closed : Bool := true

def chan : IM (ChanSt α) α :=
  ⟨fun st =>
    if itChanBody = ["item, ok := <-iter.c", "return item, ok"] then
      match st.buf with
      | a :: r => (.item a, { st with buf := r })
      | [] => if st.closed then (.done, st) else (.skip, st)
    else (.skip, st)⟩

/-! ## Peekable -/

/-- `peekable{inner, curr, has}`: `curr = some a` iff `has`. -/
structure PeekSt (σ : Type u) (α : Type v) where
  inner : σ
  curr : Option α := none

def peekNext (m : IM σ α) (p : PeekSt σ α) : Step α × PeekSt σ α :=
  if itPeekNextHas p.curr.isSome then
    match p.curr with
    | some a => (.item a, { p with curr := if itPeekNextClearsHas then none else some a })
    | none => (.skip, p)
  else
    let (r, s') := m.step p.inner
    (r, { p with inner := s' })

def peekPeek (m : IM σ α) (p : PeekSt σ α) : Step α × PeekSt σ α :=
  if itPeekPulls p.curr.isSome then
    match m.step p.inner with
    | (.item a, s') => (.item a, { inner := s', curr := some a })
    | (.skip, s') => (.skip, { inner := s', curr := none })
    | (.done, s') => (.done, { inner := s', curr := none })
  else
    match p.curr with
    | some a => (.item a, p)
    | none => (.done, p)

def withPeek (m : IM σ α) : IM (PeekSt σ α) α := ⟨peekNext m⟩

/-! ## Combinators -/

structure ChunkSt (σ : Type u) (α : Type v) where
  inner : σ
  pend : List α := []

def chunk (size : Int) (m : IM σ α) : IM (ChunkSt σ α) (List α) :=
  ⟨fun st =>
    match m.step st.inner with
    | (.item a, s') =>
      let p := st.pend ++ [a]
      if itChunkFull (p.length : Int) size then (.item p, { inner := s', pend := [] })
      else (.skip, { inner := s', pend := p })
    | (.skip, s') => (.skip, { st with inner := s' })
    | (.done, s') =>
      if itChunkFlush (st.pend.length : Int) then (.item st.pend, { inner := s', pend := [] })
      else (.done, { inner := s', pend := [] })⟩

structure CompactSt (σ : Type u) (α : Type v) where
  inner : σ
  first : Bool := true
  prev : Option α := none

def compact (eq : α → α → Bool) (m : IM σ α) : IM (CompactSt σ α) α :=
  ⟨fun st =>
    match m.step st.inner with
    | (.item a, s') =>
      let setPrev : Option α := if itCompactSetsPrev ≥ 2 then some a else st.prev
      if st.first then
        (.item a, { inner := s', first := if itCompactClearsFirst then false else true, prev := setPrev })
      else
        match st.prev with
        | some p => if itCompactKeeps eq p a then (.item a, { st with inner := s', prev := setPrev })
                    else (.skip, { st with inner := s' })
        | none => (.item a, { st with inner := s', prev := setPrev })
    | (.skip, s') => (.skip, { st with inner := s' })
    | (.done, s') => (.done, { st with inner := s' })⟩

/-- `iterator.CompactFunc(iter, eq)` = `&compactIterator{inner: iter, first: true, eq: eq}` -/
def compactInit (s : σ) : CompactSt σ α := { inner := s, first := itCompactInitFirst, prev := none }

/-- `iterator.Compact(iter)` = `CompactFunc(iter, func(a, b T) bool { return a == b })` (regenerated body,
`CompactFunc` as a parameter) -/
def compactEq [BEq α] (m : IM σ α) : IM (CompactSt σ α) α :=
  itCompactW (fun (m : IM σ α) (eq : α → α → Bool) => compact eq m) m

def filter (keep : α → Bool) (m : IM σ α) : IM σ α :=
  ⟨fun s =>
    match m.step s with
    | (.item a, s') => if itFilterKeeps keep a then (.item a, s') else (.skip, s')
    | (.skip, s') => (.skip, s')
    | (.done, s') => (.done, s')⟩

/-- `firstIterator{inner, x}`; `inCall` = the decrement has happened and `inner.Next()` is in progress. -/
structure FirstSt (σ : Type u) where
  inner : σ
  x : Int
  inCall : Bool := false

def first (m : IM σ α) : IM (FirstSt σ) α :=
  ⟨fun st =>
    if st.inCall then
      match m.step st.inner with
      | (.skip, s') => (.skip, { st with inner := s' })
      | (r, s') => (r, { st with inner := s', inCall := false })
    else if itFirstDone st.x then (.done, st)
    else
      let x' := if itFirstDecrements then st.x - 1 else st.x
      match m.step st.inner with
      | (.skip, s') => (.skip, { inner := s', x := x', inCall := true })
      | (r, s') => (r, { inner := s', x := x', inCall := false })⟩

/-- `iterator.First(iter, n)` = `&firstIterator{inner: iter, x: n}` -/
def firstInit (s : σ) (n : Int) : FirstSt σ := { inner := s, x := itFirstInitX n }

/-- `flattenIterator{inner, curr}`; the outer iterator yields states of the inner machine `mi`. -/
structure FlattenSt (σ : Type u) (τ : Type w) where
  outer : σ
  curr : Option τ := none

def flatten (mo : IM σ τ) (mi : IM τ α) : IM (FlattenSt σ τ) α :=
  ⟨fun st =>
    match st.curr with
    | none =>
      match mo.step st.outer with
      | (.item c, s') => (.skip, { outer := s', curr := some c })
      | (.skip, s') => (.skip, { st with outer := s' })
      | (.done, s') => (.done, { st with outer := s' })
    | some c =>
      match mi.step c with
      | (.item a, c') => (.item a, { st with curr := some c' })
      | (.skip, c') => (.skip, { st with curr := some c' })
      | (.done, c') => (.skip, { st with curr := if itFlattenClearsCurr then none else some c' })⟩

/-- `joinIterator{iters}`: the remaining iterators (states of one machine). -/
def join (m : IM σ α) : IM (List σ) α :=
  ⟨fun st =>
    -- `for len(iter.iters) > 0 { … }`
    if itJoinLoops (st.length : Int) then
      match st with
      | [] => (.done, [])
      | s :: r =>
        match m.step s with
        | (.item a, s') => (.item a, s' :: r)
        | (.skip, s') => (.skip, s' :: r)
        | (.done, s') => (.skip, if itJoinAdvances then r else s' :: r)
    else (.done, st)⟩

def map (f : α → β) (m : IM σ α) : IM σ β :=
  ⟨fun s =>
    match m.step s with
    | (.item a, s') => (.item (f a), s')
    | (.skip, s') => (.skip, s')
    | (.done, s') => (.done, s')⟩

structure WhileSt (σ : Type u) where
  inner : σ
  done : Bool := false

def while_ (f : α → Bool) (m : IM σ α) : IM (WhileSt σ) α :=
  ⟨fun st =>
    if itWhileDone st.done then (.done, st)
    else
      match m.step st.inner with
      | (.item a, s') =>
        if itWhileStops f a then (.done, { inner := s', done := if itWhileSetsDone then true else st.done })
        else (.item a, { st with inner := s' })
      | (.skip, s') => (.skip, { st with inner := s' })
      | (.done, s') => (.done, { st with inner := s' })⟩

/-- `iterator.While(iter, f)` = `&whileIterator{inner: iter, f: f, done: false}` -/
def whileInit (s : σ) : WhileSt σ := { inner := s, done := itWhileInitDone }

/-! ## Runs: one machine with an outer port and inner ports sharing the peekable -/

/-- `live = some (g, prev, ended)`: the inner iterator handed out last has handle `g`, compares with
`prev` (the previous item of its run) and `ended` says it has detached itself
(`parent = nil`). Older handles are always detached. -/
structure RunsSt (σ : Type u) (α : Type v) where
  pk : PeekSt σ α
  gen : Nat := 0
  live : Option (Nat × α × Bool) := none

/-- `runsInnerIterator.Next` on handle `g`. -/
def runsInner (same : α → α → Bool) (m : IM σ α) (g : Nat) (st : RunsSt σ α) : Step α × RunsSt σ α :=
  match st.live with
  | some (g', prev, ended) =>
    if g' ≠ g || ended then (.done, st)
    else
      match peekPeek m st.pk with
      | (.skip, pk') => (.skip, { st with pk := pk' })
      | (.done, pk') =>
        -- `!ok || …`: the second operand is not evaluated
        if itRunsInnerStops same prev prev false then
          (.done, { st with pk := pk', live := some (g', prev, if itRunsInnerDetaches then true else false) })
        else (.skip, { st with pk := pk' })
      | (.item a, pk') =>
        if itRunsInnerStops same prev a true then
          (.done, { st with pk := pk', live := some (g', prev, if itRunsInnerDetaches then true else false) })
        else
          let (r, pk'') := peekNext m pk'
          (r, { st with pk := pk'', live := some (g', if itRunsInnerTracksPrev then a else prev, ended) })
  | none => (.done, st)

/-- `runsIterator.Next`: answers the handle of the new inner iterator. -/
def runsOuter (same : α → α → Bool) (m : IM σ α) (st : RunsSt σ α) : Step Nat × RunsSt σ α :=
  match st.live with
  | some (g, _, _) =>
    -- drain the current inner iterator
    match runsInner same m g st with
    | (.done, st') => (.skip, { st' with live := if itRunsClearsCurr then none else st'.live })
    | (_, st') => (.skip, st')
  | none =>
    match peekPeek m st.pk with
    | (.item a, pk') => (.item (st.gen + 1), { pk := pk', gen := st.gen + 1, live := some (st.gen + 1, a, false) })
    | (.skip, pk') => (.skip, { st with pk := pk' })
    | (.done, pk') => (.done, { st with pk := pk' })

/-- the consumer takes at most `take` items from each inner iterator (`none`: all of them) -/
def takeReached (take : Option Nat) (k : Nat) : Bool :=
  match take with
  | some t => decide (t ≤ k)
  | none => false

/-- The documented protocol as one iterator: `Next` on the outer iterator, then up to `take` items
are taken from the inner iterator (`none` = drain it completely, i.e. until it reports the end), then the outer
iterator is advanced again. Yields each run as a list. -/
structure RunsProtoSt (σ : Type u) (α : Type v) where
  rs : RunsSt σ α
  cur : Option (Nat × List α × Nat) := none   -- handle, items taken so far, inner Next calls made

def runsProto (same : α → α → Bool) (take : Option Nat) (m : IM σ α) : IM (RunsProtoSt σ α) (List α) :=
  ⟨fun st =>
    match st.cur with
    | none =>
      match runsOuter same m st.rs with
      | (.item g, rs') => (.skip, { rs := rs', cur := some (g, [], 0) })
      | (.skip, rs') => (.skip, { st with rs := rs' })
      | (.done, rs') => (.done, { st with rs := rs' })
    | some (g, acc, k) =>
      if takeReached take k then (.item acc, { st with cur := none })
      else
        match runsInner same m g st.rs with
        | (.item a, rs') => (.skip, { rs := rs', cur := some (g, acc ++ [a], k + 1) })
        | (.skip, rs') => (.skip, { st with rs := rs' })
        | (.done, rs') => (.item acc, { rs := rs', cur := none })⟩

/-! ## Consumer side: `Next` = drive to the first non-skip answer; reducers (explicit fuel) -/

/-- One consumer-level `Next()`. `none` = fuel exhausted (never happens for fuel > remaining work). -/
def drive (m : IM σ α) : Nat → σ → Option (Option α) × σ
  | 0, s => (none, s)
  | fuel + 1, s =>
    match m.step s with
    | (.item a, s') => (some (some a), s')
    | (.done, s') => (some none, s')
    | (.skip, s') => drive m fuel s'

/-- `iterator.Reduce`. -/
def reduce (m : IM σ α) (f : β → α → β) : Nat → β → σ → Option β × σ
  | 0, _, s => (none, s)
  | fuel + 1, acc, s =>
    match m.step s with
    | (.item a, s') => reduce m f fuel (f acc a) s'
    | (.skip, s') => reduce m f fuel acc s'
    | (.done, s') => (some acc, s')

/-- `iterator.Collect(iter)` = `Reduce(iter, nil, func(out []T, item T) []T { return append(out, item) })`
(regenerated body; `Reduce`, `nil` and `append` as parameters). -/
def collect (m : IM σ α) (fuel : Nat) (s : σ) : Option (List α) × σ :=
  itCollectW (fun (s : σ) (init : List α) (f : List α → α → List α) => reduce m f fuel init s) [] (fun acc a => acc ++ [a]) s

inductive Outcome (ρ : Type v) where
  | ok (r : ρ)
  | panic
  | fuel
  deriving Repr, DecidableEq

/-- Ring buffer of `iterator.Last`: `buf` has length `n`, `i` counts the items seen. A store at
`buf[i%n]` with `n = 0` is Go's integer-divide-by-zero panic. -/
def lastStore (buf : List (Option α)) (i n : Int) (a : α) : Option (List (Option α)) :=
  if itLastStoreGuard n then
    if n = 0 then none else some (buf.set (itLastSlot i n).toNat (some a))
  else some buf

def lastLoop (m : IM σ α) (n : Int) : Nat → List (Option α) → Int → σ → Outcome (List (Option α) × Int) × σ
  | 0, _, _, s => (.fuel, s)
  | fuel + 1, buf, i, s =>
    match m.step s with
    | (.item a, s') =>
      match lastStore buf i n a with
      | none => (.panic, s')
      | some buf' => lastLoop m n fuel buf' (if itLastCounts then i + 1 else i) s'
    | (.skip, s') => lastLoop m n fuel buf i s'
    | (.done, s') => (.ok (buf, i), s')

/-- The part of `Last` after the loop. -/
def lastFinish (buf : List (Option α)) (i n : Int) : Outcome (List (Option α)) :=
  if itLastShort i n then .ok (buf.take (itLastTake i n 0).toNat)
  else if itLastRotGuard n then
    if n = 0 then .panic
    else
      let idx := itLastIdx i n
      -- copy(out, buf[idx:]); copy(out[n-idx:], buf[:idx])
      let out : List (Option α) := List.replicate n.toNat none
      let a := buf.drop (itLastFrom i n idx).toNat
      let out := a ++ out.drop a.length
      let split := itLastSplit n idx
      if split < 0 || split > n then .panic   -- out[n-idx:] out of range
      else
        let k := split.toNat
        let b := buf.take (itLastUpto i n idx).toNat
        .ok ((out.take k ++ b ++ out.drop (k + b.length)).take n.toNat)
  else .ok (List.replicate n.toNat none)

/-- `iterator.Last(iter, n)` for `n ≥ 0` (`make([]T, n)` panics for negative `n`). -/
def last (m : IM σ α) (n : Int) (fuel : Nat) (s : σ) : Outcome (List (Option α)) × σ :=
  if n < 0 then (.panic, s)
  else
    match lastLoop m n fuel (List.replicate n.toNat none) 0 s with
    | (.ok (buf, i), s') => (lastFinish buf i n, s')
    | (.panic, s') => (.panic, s')
    | (.fuel, s') => (.fuel, s')

/-- `iterator.One`: `some a` iff exactly one item (`if !ok { return zero, false }` after the first `Next`,
`if ok { return zero, false }` after the second: the two regenerated tests). -/
def one (m : IM σ α) (fuel : Nat) (s : σ) : Option (Option α) × σ :=
  match drive m fuel s with
  | (none, s') => (none, s')
  | (some r1, s') =>
    if itOneEmpty r1.isSome then (some none, s')
    else
      match drive m fuel s' with
      | (none, s'') => (none, s'')
      | (some r2, s'') => if itOneMore r2.isSome then (some none, s'') else (some r1, s'')

/-- the header of the inner loop of `iterator.Equal` is `for i := 1; i < len(iters); i++` (regenerated start
and condition): the iterators after the first are visited in order -/
def equalLoopOk : Bool := itEqualStart == 1 && itEqualLoops 1 2 && !itEqualLoops 2 2

/-- One round of `iterator.Equal`: pull every iterator once (first to last), stop at the first
mismatch (the later iterators are then not pulled). `none` = out of fuel. `ref` = what the first
iterator answered. -/
def equalRound [DecidableEq α] (m : IM σ α) (fuel : Nat) (ref : Option α) : List σ → Option Bool × List σ
  | [] => (some true, [])
  | s :: r =>
    match drive m fuel s with
    | (none, s') => (none, s' :: r)
    | (some x, s') =>
      if itEqualLenDiff ref.isSome x.isSome then (some false, s' :: r)
      else if itEqualItemDiff ref.isSome ref x then (some false, s' :: r)
      else
        let (b, r') := equalRound m fuel ref r
        (b, s' :: r')

/-- `iterator.Equal(iters...)`. -/
def equal [DecidableEq α] (m : IM σ α) (fuel : Nat) : Nat → List σ → Option Bool × List σ
  | _, [] => (if itEqualNone 0 then some true else none, [])
  | 0, ss => (none, ss)
  | rounds + 1, s :: r =>
    if !equalLoopOk then (none, s :: r)
    else
    match drive m fuel s with
    | (none, s') => (none, s' :: r)
    | (some x, s') =>
      match equalRound m fuel x r with
      | (none, r') => (none, s' :: r')
      | (some false, r') => (some false, s' :: r')
      | (some true, r') => if itEqualDone x.isSome then (some true, s' :: r') else equal m fuel rounds (s' :: r')

end Juniper.Model.Iter
