import Juniper.Model.BTree
set_option linter.unusedVariables false
/-!
# `tree.Map` / `tree.Set` values as handles (C01: "copies of a Map or Set value denote the same collection")

Executable, core-only. `Model/BTree.lean` models ONE `btree` object. A `tree.Map[K,V]` value is
`struct { t *btree[K, V] }`: this file adds the heap of `btree` objects (`Store`, address = allocation
number), the `Map` / `Set` value (`Handle` = the address it holds), copying such a value, and calling a
`btree` method through it. What is shared and what is copied is decided by *generated* facts
(`Juniper.Gen.Tree`, re-extracted from the Go source on every run):

* `mapIsHandle` / `setIsHandle` — the struct has exactly one field, of pointer type, and value
  receivers: copying the value copies the pointer (`copyHandle`); were the `btree` held by value, a
  copy would be a second, independent object;
* `newBtreeReturnsPtr` — `newBtree` is `return &btree{…}`: one fresh shared object per constructor
  call (`newHandle`);
* `btreeRecvIsPtr` — for every `btree` method whether its receiver is a pointer
  (`func (t *btree[K, V]) Put`). A method with a VALUE receiver runs on a copy of the header
  `{root, compare, size, gen}`: the nodes it reaches through the copied `root` pointer are the shared
  ones, but its writes to `t.root`, `t.size`, `t.gen` are lost when it returns (`keepHeader`);
* `btreeWritesHeader` — which methods write a header field at all: `Put` / `Delete` call helpers
  (`overfill`, `mergeTwo`) on `t`, so their effect is the shared one only if the called method AND
  every header-writing method have pointer receivers (`sharedUpdate`).
-/
namespace Juniper.Model.TreeHandle
open Juniper.Gen.Tree Juniper.Model.BTree

variable {K V O : Type}

/-- the heap of `btree` objects; address = position -/
structure Store (K V : Type) where
  objs : List (Tree K V)

def Store.empty : Store K V := { objs := [] }

/-- a `tree.Map` / `tree.Set` value: its one field, the address of the shared `btree` -/
structure Handle where
  addr : Nat
  deriving DecidableEq, Repr

/-- the text of a constructor body that builds the value around a fresh `newBtree(…)` -/
def ctorWrapsNewBtree (body : String) : Bool :=
  body = "returnMap[K,V]{t:newBtree[K,V](xsort.LessCompare(less)),}" ||
  body = "returnMap[K,V]{t:newBtree[K,V](compare),}" ||
  body = "returnSet[T]{t:newBtree[T,struct{}](xsort.LessCompare(less)),}" ||
  body = "returnSet[T]{t:newBtree[T,struct{}](compare),}"

/-- `NewMap` / `NewMapCmp` / `NewSet` / `NewSetCmp` (`ctor` = its name): `Map{t: newBtree(…)}` with
`newBtree` = `return &btree{…}` allocates one empty tree and hands out its address. `none`: the
generated facts do not show that shape (the model cannot say what the constructor hands out). -/
def newHandle (ctor : String) (s : Store K V) : Option (Store K V × Handle) :=
  match ctorBodies.lookup ctor with
  | none => none
  | some body =>
    if ctorWrapsNewBtree body && newBtreeReturnsPtr then
      some ({ objs := s.objs ++ [Tree.empty] }, { addr := s.objs.length })
    else none

/-- Go assignment / argument passing / return of a `Map` or `Set` value. `isHandle` is the generated
`mapIsHandle` / `setIsHandle`: with exactly one field, a pointer, the copy holds the same address;
otherwise the struct holds the `btree` header itself and the copy is a second object. -/
def copyHandle (isHandle : Bool) (s : Store K V) (h : Handle) : Option (Store K V × Handle) :=
  if isHandle then some (s, h)
  else (s.objs[h.addr]?).map fun t => ({ objs := s.objs ++ [t] }, { addr := s.objs.length })

mutual
/-- the node object with identity `id` below `x` -/
def nodeById (id : Nat) : Node K V → Option (Node K V)
  | .mk i kvs kids => if i = id then some (.mk i kvs kids) else nodeByIdIn id kids
def nodeByIdIn (id : Nat) : List (Node K V) → Option (Node K V)
  | [] => none
  | c :: cs =>
    match nodeById id c with
    | some x => some x
    | none => nodeByIdIn id cs
end

/-- the caller's object after a method with a VALUE receiver has run on a copy of the header: `old`
before the call, `new` what the method computed in its copy. The node objects are shared (the copy
holds the same `root` pointer), so the caller's `root` — still the OLD root object — now shows whatever
that object has become (e.g. the left half after a root split); `size` and `gen` are the old ones. -/
def keepHeader (old new : Tree K V) : Tree K V :=
  { root := (nodeById old.root.id new.root).getD old.root, size := old.size, gen := old.gen, nextId := new.nextId }

/-- every `btree` method that writes a header field (`t.root = …`, `t.size++`, `t.gen++`) has a
pointer receiver -/
def headerWritersArePtr : Bool :=
  btreeRecvIsPtr.all fun r => r.2 || !((btreeWritesHeader.lookup r.1).getD true)

/-- does a call of the `btree` method `meth` update the shared object? `none`: no such method. -/
def sharedUpdate (meth : String) : Option Bool :=
  (btreeRecvIsPtr.lookup meth).map fun isPtr => isPtr && headerWritersArePtr

/-- how a wrapper reaches the `btree`: a method call `m.t.M(…)` or a plain field read `m.t.size` -/
inductive Access where
  | method (name : String)
  | field
  deriving DecidableEq, Repr

/-- one call through the handle `h`; `step` is the model of the `btree` method on one tree.
`none`: nil dereference / no such object / no such method. -/
def call (s : Store K V) (h : Handle) (acc : Access) (step : Tree K V → Option (Tree K V × O)) :
    Option (Store K V × O) :=
  match s.objs[h.addr]? with
  | none => none
  | some t =>
    match step t with
    | none => none
    | some (t', out) =>
      match acc with
      | .field => some ({ objs := s.objs.set h.addr t' }, out)
      | .method m =>
        match sharedUpdate m with
        | none => none
        | some true => some ({ objs := s.objs.set h.addr t' }, out)
        | some false => some ({ objs := s.objs.set h.addr (keepHeader t t') }, out)

end Juniper.Model.TreeHandle
