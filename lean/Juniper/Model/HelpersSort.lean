import Juniper.Model.HelpersSlices
import Juniper.Model.HelpersStdlib
/-!
# Models of the `xsort` and `xmaps` helpers (C19)

`Merge`/`MinK` use `internal/heap`; the heap is modelled by its specification only (agent `heap`
proves the heap itself, C05): `pop lt h` returns *some* minimal element of the bag `h` and the rest.
The models are parametric in `pop`; the theorems hold for every `pop` satisfying `PopSpec`, the
driver instantiates it with `popFirstMin`.
-/
namespace Juniper.Model.Helpers
open Juniper.Gen.Helpers

variable {α : Type}

/-! ## LessCompare, Search -/

/-- the closure returned by `xsort.LessCompare(less)` -/
def lessCompareOf (less : α → α → Bool) (a b : α) : Int := lessCompare (less a b) (less b a)

/-- `sort.Search(n, pred)` (the standard library's binary search; `h := int(uint(i+j) >> 1)`). -/
def sortSearch (pred : Int → Bool) : Nat → Int → Int → Int
  | 0, i, _ => i
  | fuel + 1, i, j =>
    if i < j then
      let h := (i + j) / 2
      if !pred h then sortSearch pred fuel (h + 1) j else sortSearch pred fuel i h
    else i

/-- the predicate `Search` hands to `sort.Search` -/
def searchPredAt (less : α → α → Bool) (x : List α) (item : α) (i : Int) : Bool :=
  match getI x i with
  | some xi => searchPred (less item xi) (less xi item)
  | none => false

/-- `xsort.Search` -/
def search (less : α → α → Bool) (x : List α) (item : α) : Int :=
  sortSearch (searchPredAt less x item) (x.length + 1) 0 (searchN x.length)

/-! ## heap specification -/

/-- first minimal element of a bag kept as a list, and the rest (the driver's instance of `pop`) -/
def popFirstMin (lt : α → α → Bool) : List α → Option (α × List α)
  | [] => none
  | x :: xs =>
    match popFirstMin lt xs with
    | none => some (x, [])
    | some (m, rest) => if lt m x then some (m, x :: rest) else some (x, xs)

/-! ## Merge / MergeSlices -/

/-- `mergeIterator.Next` iterated to exhaustion. `ins` are the not yet consumed parts of the inputs,
`h` the heap of `(value, source)` pairs. -/
def mergeLoop (less : α → α → Bool) (pop : ((α × Nat) → (α × Nat) → Bool) → List (α × Nat) → Option ((α × Nat) × List (α × Nat))) :
    Nat → List (List α) → List (α × Nat) → List α → List α
  | 0, _, _, out => out
  | fuel + 1, ins, h, out =>
    if mergeEmpty h.length then out else
    match pop (fun a b => less a.1 b.1) h with
    | none => out
    | some ((v, src), h') =>
      match ins[src]? with
      | some (y :: ys) =>
        if mergeRefill true then
          mergeLoop less pop fuel (ins.set src ys) (if mergePushes then (y, src) :: h' else h') (out ++ [v])
        else mergeLoop less pop fuel (ins.set src ys) h' (out ++ [v])
      | _ => mergeLoop less pop fuel ins h' (out ++ [v])

/-- heads of the non-empty inputs with their source index (`initial` in `Merge`) -/
def mergeInitial : Nat → List (List α) → List (α × Nat)
  | _, [] => []
  | i, [] :: rest => if mergeSkipsEmpty false && mergeSkipContinues then mergeInitial (i + 1) rest else mergeInitial (i + 1) rest
  | i, (x :: _) :: rest => (x, i) :: mergeInitial (i + 1) rest

def totalLen (ins : List (List α)) : Nat := (ins.map List.length).sum

/-- `xsort.Merge` drained -/
def merge (less : α → α → Bool) (pop : ((α × Nat) → (α × Nat) → Bool) → List (α × Nat) → Option ((α × Nat) × List (α × Nat)))
    (ins : List (List α)) : List α :=
  mergeLoop less pop (totalLen ins + 1) (ins.map List.tail) (mergeInitial 0 ins) []

/-- `xsort.MergeSlices`: `(result, result uses out's backing array)`. Whether the caller's buffer is
re-used is decided by `out = xslices.Grow(out[:0], n)`: the slice expression's bound and the count
handed to `Grow` are generated, `Grow` is the documented contract of `slices.Grow`
(`Model/HelpersStdlib.lean`): it keeps the array iff `n` more elements fit the capacity. -/
def mergeSlices (less : α → α → Bool) (pop : ((α × Nat) → (α × Nat) → Bool) → List (α × Nat) → Option ((α × Nat) × List (α × Nat)))
    (outCap : Int) (ins : List (List α)) : List α × Bool :=
  let n := (ins.foldl (fun n l => if msSumBody = ["n += len(in[i])"] then n + (l.length : Int) else n) msN0)
  let out0 : Stdlib.Sl Unit := ⟨List.replicate outCap.toNat (), msGrowHi.toNat, false⟩   -- `out[:0]`
  (merge less pop ins,
    match Stdlib.grow () out0 (msGrowN n) with
    | some r => !r.fresh
    | none => false)

/-! ## MinK -/

/-- the push/pop loop of `MinK`: `h` is a max-heap (a min-heap for the reversed order) -/
def minKLoop (less : α → α → Bool) (pop : (α → α → Bool) → List α → Option (α × List α)) (k : Int) :
    List α → List α → List α
  | [], h => h
  | x :: xs, h =>
    let h := x :: h
    if minKPop h.length k && minKPops then
      match pop (fun a b => if minKReversed then less b a else less a b) h with
      | some (_, h') => minKLoop less pop k xs h'
      | none => minKLoop less pop k xs h
    else minKLoop less pop k xs h

/-- the output loop of `MinK`: `for i := len(out) - 1; cond(i); i-- { out[i] = h.Pop() }` from the given
start index (`cond` = the generated loop condition `minKFillCond`; the `i--` of the `for` clause is
pinned, `pin_xsort_MinK`). `none` = panic: `h.Pop()` on an empty heap or `out[i]` out of range. -/
def minKFill (cond : Int → Bool) (lt : α → α → Bool) (pop : (α → α → Bool) → List α → Option (α × List α)) :
    Nat → Int → List α → List α → Option (List α)
  | 0, _, _, out => some out
  | fuel + 1, i, h, out =>
    if cond i then
      match pop lt h with
      | none => none
      | some (m, h') =>
        match setI out i m with
        | none => none
        | some out' => minKFill cond lt pop fuel (i - 1) h' out'
    else some out

/-- `xsort.MinK`; `none` = panic. `out := make([]T, h.Len())` (length: the generated `minKOutLen`,
zero-filled), then the output loop from the generated start index `minKFillFrom (len(out))`. -/
def minK (zero : α) (less : α → α → Bool) (pop : (α → α → Bool) → List α → Option (α × List α)) (xs : List α) (k : Int) :
    Option (List α) :=
  let h := minKLoop less pop k xs []
  let n := minKOutLen h.length
  if n < 0 then none else                                     -- make with a negative length
  minKFill minKFillCond (fun a b => if minKReversed then less b a else less a b) pop (n.toNat + 1) (minKFillFrom n) h
    (List.replicate n.toNat zero)

/-! ## xmaps: finite maps as association lists with distinct keys, sets as duplicate-free lists -/

variable {κ ν : Type}

/-- `m[k] = v` -/
def mput [DecidableEq κ] (m : List (κ × ν)) (k : κ) (v : ν) : List (κ × ν) :=
  (k, v) :: m.filter (fun p => p.1 ≠ k)

/-- `m[k]` -/
def mget [DecidableEq κ] (m : List (κ × ν)) (k : κ) : Option ν :=
  match m.find? (fun p => p.1 = k) with
  | some p => some p.2
  | none => none

/-! The loop bodies are mirrored by hand and guarded by their generated statement lists (`mapRevBody`,
`rsBody`, `toIndexBody`, `fkvBody`, `unionBody`, `diffBody`), as in `Model/HelpersMore.lean`: an
iteration has its effect only if the body is the statement list mirrored here, otherwise it does
nothing and the `*_spec` theorem stops holding. -/

/-- `xmaps.Reverse` -/
def mapReverse [DecidableEq κ] [DecidableEq ν] : List (κ × ν) → List (ν × List κ)
  | [] => []
  | (k, v) :: rest =>
    let r := mapReverse rest
    if mapRevBody = ["result[v] = append(result[v], k)"] then mput r v (k :: (mget r v).getD []) else r

/-- `xmaps.ReverseSingle` (the map is visited in the order of the list) -/
def mapReverseSingle [DecidableEq κ] [DecidableEq ν] : List (κ × ν) → List (ν × κ) × Bool
  | [] => ([], rsOk0)
  | (k, v) :: rest =>
    let (r, ok) := mapReverseSingle rest
    if rsBody = ["if ok {", "allOk = false", "}", "result[v] = k"] then
      (mput r v k, if rsDup (mget r v).isSome then rsDupVal else ok)
    else (r, ok)

/-- `xmaps.ToIndex` -/
def toIndexFrom [DecidableEq κ] : Nat → List κ → List (κ × Nat) → List (κ × Nat)
  | _, [], m => m
  | i, k :: ks, m => toIndexFrom (i + 1) ks (if toIndexBody = ["m[keys[i]] = i"] then mput m k i else m)

def toIndex [DecidableEq κ] (keys : List κ) : List (κ × Nat) := toIndexFrom 0 keys []

def fromKVLoop [DecidableEq κ] : List κ → List ν → List (κ × ν) → Bool → List (κ × ν) × Bool
  | k :: ks, v :: vs, m, ok =>
    if fkvBody = ["if ok {", "allOk = false", "}", "m[keys[i]] = values[i]"] then
      fromKVLoop ks vs (mput m k v) (if fkvDup (mget m k).isSome then fkvDupVal else ok)
    else fromKVLoop ks vs m ok
  | _, _, m, ok => (m, ok)

/-- `xmaps.FromKeysAndValues`; `none` = panic -/
def fromKeysAndValues [DecidableEq κ] (keys : List κ) (values : List ν) : Option (List (κ × ν) × Bool) :=
  if fkvPanics keys.length values.length then none else some (fromKVLoop keys values [] fkvOk0)

/-- `xmaps.Union` -/
def setUnion [DecidableEq κ] (sets : List (List κ)) : List κ :=
  sets.foldl (fun out set =>
    if unionBody = ["for k := range set { out[k] = struct{}{} }"] then
      set.foldl (fun out k => if k ∈ out then out else out ++ [k]) out
    else out) []

/-- insertion of a set into a list ordered by size (what `xsort.Slice` by `len` establishes; the
sort is not stable, which set comes first among equally small ones does not matter) -/
def insertBySize (s : List κ) : List (List κ) → List (List κ)
  | [] => [s]
  | t :: ts => if s.length ≤ t.length then s :: t :: ts else t :: insertBySize s ts

def sortBySize (sets : List (List κ)) : List (List κ) := sets.foldr insertBySize []

/-- the inner loop of `Intersection` / `Intersects`, every piece a generated fact of the function:
`for j := J0; loop(j, len(sets)); j++ { if _, ok := sets[j][k]; miss(ok) { include = missVal; break } }`
— `loop` the loop condition, `miss` the miss guard, `missVal` the value stored on a miss, `breaks` = the
miss branch ends with `break` (else the scan goes on), `incs` = the number of `j++` in the post clause
(the step). Returns the final value of `include`; `none` = `sets[j]` out of range, or the loop does not
come to an end within `len(sets) + 1` rounds (no `j++`). -/
def missScan [DecidableEq κ] (loop : Int → Int → Bool) (miss : Bool → Bool) (missVal breaks : Bool) (incs : Nat)
    (k : κ) (sets : List (List κ)) : Nat → Int → Bool → Option Bool
  | 0, _, _ => none
  | fuel + 1, j, inc =>
    if loop j sets.length then
      match getI sets j with
      | none => none
      | some t =>
        if miss (decide (k ∈ t)) then
          (if breaks then some missVal
           else missScan loop miss missVal breaks incs k sets fuel (j + (incs : Int)) missVal)
        else missScan loop miss missVal breaks incs k sets fuel (j + (incs : Int)) inc
    else some inc

/-- `include` for the key `k` of `sets[0]` in `Intersection` -/
def interInclude [DecidableEq κ] (k : κ) (sorted : List (List κ)) : Option Bool :=
  missScan interLoop interMiss interMissVal interMissBreaks interIncs k sorted (sorted.length + 1) interJ0 interInclude0

/-- `for k := range sets[0] { …; if include { out[k] = struct{}{} } }` -/
def interKeys [DecidableEq κ] (sorted : List (List κ)) : List κ → Option (List κ)
  | [] => some []
  | k :: ks =>
    match interInclude k sorted with
    | none => none
    | some inc =>
      match interKeys sorted ks with
      | none => none
      | some r => some (if interStores inc then k :: r else r)

/-- `xmaps.Intersection`; `none` = panic. `xsort.Slice(sets, by len)` is applied iff the statement is
there (`interSortsBySize`). -/
def setIntersection [DecidableEq κ] (sets : List (List κ)) : Option (List κ) :=
  if interEmpty sets.length then some [] else
  match (if interSortsBySize then sortBySize sets else sets) with
  | [] => some []
  | s0 :: rest => interKeys (s0 :: rest) s0

/-- `include` for the key `k` of `sets[0]` in `Intersects` (from the facts of `Intersects`) -/
def intsInclude [DecidableEq κ] (k : κ) (sorted : List (List κ)) : Option Bool :=
  missScan intsLoop intsMiss intsMissVal intsMissBreaks intsIncs k sorted (sorted.length + 1) intsJ0 intsInclude0

/-- `for k := range sets[0] { …; if include { return true } }; return false` -/
def intsKeys [DecidableEq κ] (sorted : List (List κ)) : List κ → Option Bool
  | [] => some intsEndRet
  | k :: ks =>
    match intsInclude k sorted with
    | none => none
    | some inc => if intsHit inc then some intsHitRet else intsKeys sorted ks

/-- `xmaps.Intersects`; `none` = panic -/
def setIntersects [DecidableEq κ] (sets : List (List κ)) : Option Bool :=
  if intsEmpty sets.length then some intsEmptyRet else
  match (if intsSortsBySize then sortBySize sets else sets) with
  | [] => some intsEndRet
  | s0 :: rest => intsKeys (s0 :: rest) s0

/-- `xmaps.Difference` -/
def setDifference [DecidableEq κ] (a b : List κ) : List κ :=
  a.filter (fun k => if diffBody = ["if !ok {", "result[k] = struct{}{}", "}"] then diffKeeps (decide (k ∈ b)) else false)

end Juniper.Model.Helpers
