import Juniper.Generated.Deque
/-!
# Model of `container/deque` (C04, C15)

Executable, core-only. Every index computation, guard and `resize` argument is the *generated*
definition re-extracted from `deque.go` on every run (`Juniper.Gen.Deque`); the hand-written part is
the order of the statements and the slice copies, which the correspondence check ties to the code.

A slot holding Go's zero value is `none` (the harness instantiates `T` with a pointer type so that a
cleared slot is observable as `nil`).
-/
namespace Juniper.Model.Deque
open Juniper.Gen.Deque

structure Deque (α : Type) where
  a     : List (Option α)   -- raw backing slice; `a.length` is `len(d.a)`
  isNil : Bool              -- `d.a == nil`
  front : Int
  back  : Int
  gen   : Int
  deriving Repr

/-- Outcome of an operation: the Go code either returns or panics. In both cases the state that the
deque is left in is reported (statements before the panic have taken effect). -/
inductive Res (σ β : Type) where
  | ok (s : σ) (v : β)
  | panic (s : σ)
  deriving Repr

variable {α : Type}

def zero : Deque α := { a := [], isNil := true, front := 0, back := 0, gen := 0 }

def cap (d : Deque α) : Int := d.a.length

/-- `Deque.Len`. -/
def len (d : Deque α) : Int :=
  if lenEmpty d.isNil (cap d) d.front d.back then 0
  else if lenContig d.isNil (cap d) d.front d.back then lenContigVal d.isNil (cap d) d.front d.back
  else lenWrapVal d.isNil (cap d) d.front d.back

/-- `d.a[i]` — `none` when Go would panic with index out of range. -/
def slot (a : List (Option α)) (i : Int) : Option (Option α) :=
  if i < 0 then none else a[i.toNat]?

/-- `d.a[i] = v` — `none` when Go would panic. -/
def setSlot (a : List (Option α)) (i : Int) (v : Option α) : Option (List (Option α)) :=
  if i < 0 then none else if i.toNat < a.length then some (a.set i.toNat v) else none

/-- The live window in order (what the two `copy` calls of `resize` move). -/
def window (d : Deque α) : List (Option α) :=
  if resizeCopies d.isNil (cap d) d.front d.back then
    if resizeContig d.isNil (cap d) d.front d.back then
      (d.a.drop d.front.toNat).take (d.back + 1 - d.front).toNat
    else
      d.a.drop d.front.toNat ++ d.a.take (d.back + 1).toNat
  else []

def bump (b : Bool) (g : Int) : Int := if b then g + 1 else g

/-- `Deque.resize(n)`; `make([]T, n)` panics for negative `n`. -/
def resize (d : Deque α) (n : Int) : Res (Deque α) Unit :=
  if n < 0 then .panic d else
  let oldLen := len d
  let w := (window d).take n.toNat
  let newA := w ++ List.replicate (n.toNat - w.length) none
  .ok { d with a := newA, isNil := false, front := resizeFront oldLen,
               back := resizeBack oldLen, gen := bump resizeBumpsGen d.gen } ()

def grow (d : Deque α) (n : Int) : Res (Deque α) Unit :=
  let extraCap := growExtra d.isNil (cap d) d.front d.back (len d)
  if growCond extraCap n then resize d (growArg d.isNil (cap d) d.front d.back (len d) n)
  else .ok d ()

def shrink (d : Deque α) (n : Int) : Res (Deque α) Unit :=
  if shrinkPanic n then .panic d
  else if shrinkCond d.isNil (cap d) d.front d.back (len d) n then
    resize d (shrinkArg d.isNil (cap d) d.front d.back (len d) n)
  else .ok d ()

def maybeExpand (d : Deque α) : Res (Deque α) Unit :=
  if expandCond d.isNil (cap d) d.front d.back (len d) then
    resize d (expandArg d.isNil (cap d) d.front d.back (len d))
  else .ok d ()

def pushFront (d : Deque α) (x : α) : Res (Deque α) Unit :=
  match maybeExpand d with
  | .panic s => .panic s
  | .ok d () =>
    let front := pushFrontFront d.isNil (cap d) d.front d.back
    let d := { d with front := front }
    match setSlot d.a d.front (some x) with
    | none => .panic d
    | some a =>
      let d := { d with a := a }
      let d := if pushFrontFixBack d.isNil (cap d) d.front d.back then { d with back := d.front } else d
      .ok { d with gen := bump pushFrontBumpsGen d.gen } ()

def pushBack (d : Deque α) (x : α) : Res (Deque α) Unit :=
  match maybeExpand d with
  | .panic s => .panic s
  | .ok d () =>
    let d := if pushBackWasEmpty d.isNil (cap d) d.front d.back
      then { d with back := pushBackBackEmpty d.isNil (cap d) d.front d.back }
      else { d with back := pushBackBack d.isNil (cap d) d.front d.back }
    match setSlot d.a d.back (some x) with
    | none => .panic d
    | some a => .ok { d with a := a, gen := bump pushBackBumpsGen d.gen } ()

def popFront (d : Deque α) : Res (Deque α) (Option α) :=
  let l := len d
  if popFrontEmpty l then .panic d else
  match slot d.a d.front with
  | none => .panic d
  | some item =>
    if popFrontLast l then
      match (if popFrontClearsLast then setSlot d.a d.front none else some d.a) with
      | none => .panic d
      | some a =>
        let d1 := { d with a := a }
        .ok { d1 with front := popFrontLastFront d.isNil (cap d) d.front d.back,
                      back := popFrontLastBack d.isNil (cap d) d.front d.back,
                      gen := bump popFrontLastBumpsGen d.gen } item
    else
      match (if popFrontClears ≥ 2 then setSlot d.a d.front none else some d.a) with
      | none => .panic d
      | some a =>
        .ok { d with a := a, front := popFrontFront d.isNil (cap d) d.front d.back,
                     gen := bump (decide (popFrontGenBumps ≥ 1)) d.gen } item

def popBack (d : Deque α) : Res (Deque α) (Option α) :=
  let l := len d
  if popBackEmpty l then .panic d else
  match slot d.a d.back with
  | none => .panic d
  | some item =>
    if popBackLast l then
      match (if popBackClearsLast then setSlot d.a d.back none else some d.a) with
      | none => .panic d
      | some a =>
        let d1 := { d with a := a }
        .ok { d1 with front := popBackLastFront d.isNil (cap d) d.front d.back,
                      back := popBackLastBack d.isNil (cap d) d.front d.back,
                      gen := bump popBackLastBumpsGen d.gen } item
    else
      match (if popBackClears ≥ 2 then setSlot d.a d.back none else some d.a) with
      | none => .panic d
      | some a =>
        .ok { d with a := a, back := popBackBack d.isNil (cap d) d.front d.back,
                     gen := bump (decide (popBackGenBumps ≥ 1)) d.gen } item

def frontOf (d : Deque α) : Res (Deque α) (Option α) :=
  if frontPanics d.isNil (cap d) d.front d.back then .panic d else
  match slot d.a d.front with
  | none => .panic d
  | some v => .ok d v

def backOf (d : Deque α) : Res (Deque α) (Option α) :=
  match slot d.a d.back with
  | none => .panic d
  | some v => .ok d v

def item (d : Deque α) (i : Int) : Res (Deque α) (Option α) :=
  if itemPanics d.isNil (cap d) d.front d.back (len d) i then .panic d else
  if cap d = 0 then .panic d else   -- `% len(d.a)` with an empty buffer: integer divide by zero
  match slot d.a (itemIdx d.isNil (cap d) d.front d.back i) with
  | none => .panic d
  | some v => .ok d v

def set (d : Deque α) (i : Int) (x : α) : Res (Deque α) Unit :=
  if setPanics d.isNil (cap d) d.front d.back (len d) i then .panic d else
  if cap d = 0 then .panic d else
  match setSlot d.a (setIdx d.isNil (cap d) d.front d.back i) (some x) with
  | none => .panic d
  | some a => .ok { d with a := a, gen := bump setBumpsGen d.gen } ()

/-! ## Iterator (C15) -/

structure Iter where
  i    : Int
  done : Bool
  gen  : Int
  deriving Repr

def iterate (d : Deque α) : Iter := { i := d.front, done := false, gen := d.gen }

/-- `dequeIterator.Next`: `panic`, or `(item?, ok)`. -/
def iterNext (d : Deque α) (it : Iter) : Res Iter (Option (Option α)) :=
  if iterModified it.gen d.gen then .panic it
  else if iterEmpty (len d) then .ok it none
  else if it.done then .ok it none
  else
    match slot d.a it.i with
    | none => .panic it
    | some v =>
      let it1 := if iterAtBack it.i d.back then { it with done := true } else it
      if cap d = 0 then .panic it1 else
      .ok { it1 with i := iterAdvance it.i (cap d) } (some v)

/-! ## Abstraction -/

/-- The abstract content: the live window, front to back. -/
def toList (d : Deque α) : List (Option α) := window d

end Juniper.Model.Deque
