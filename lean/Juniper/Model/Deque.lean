import Juniper.Generated.Deque
import Juniper.Spec.Deque
/-!
# Model of `container/deque` (C04, C15)

Executable, core-only. Every index computation, guard and `resize` argument is the *generated*
definition re-extracted from `deque.go` on every run (`Juniper.Gen.Deque`); the hand-written part is
the order of the statements and the slice copies, which the correspondence check ties to the code.

A slot holding Go's zero value is `none` (the harness instantiates `T` with a pointer type so that a
cleared slot is observable as `nil`).
-/
namespace Juniper.Model.Deque
open Juniper.Gen.Deque

structure Deque (α : Type) where
  a     : List (Option α)   -- raw backing slice; `a.length` is `len(d.a)`
  isNil : Bool              -- `d.a == nil`
  front : Int
  back  : Int
  gen   : Int
  deriving Repr, DecidableEq

/-- Outcome of an operation: the Go code either returns or panics. In both cases the state that the
deque is left in is reported (statements before the panic have taken effect). -/
inductive Res (σ β : Type) where
  | ok (s : σ) (v : β)
  | panic (s : σ)
  deriving Repr, DecidableEq

variable {α : Type}

def zero : Deque α := { a := [], isNil := true, front := 0, back := 0, gen := 0 }

def cap (d : Deque α) : Int := d.a.length

/-- `Deque.Len`. -/
def len (d : Deque α) : Int :=
  if lenEmpty d.isNil (cap d) d.front d.back then 0
  else if lenContig d.isNil (cap d) d.front d.back then lenContigVal d.isNil (cap d) d.front d.back
  else lenWrapVal d.isNil (cap d) d.front d.back

/-- `d.a[i]` — `none` when Go would panic with index out of range. -/
def slot (a : List (Option α)) (i : Int) : Option (Option α) :=
  if i < 0 then none else a[i.toNat]?

/-- `d.a[i] = v` — `none` when Go would panic. -/
def setSlot (a : List (Option α)) (i : Int) (v : Option α) : Option (List (Option α)) :=
  if i < 0 then none else if i.toNat < a.length then some (a.set i.toNat v) else none

/-- The live window in order (what the two `copy` calls of `resize` move). -/
def window (d : Deque α) : List (Option α) :=
  if resizeCopies d.isNil (cap d) d.front d.back then
    if resizeContig d.isNil (cap d) d.front d.back then
      (d.a.drop d.front.toNat).take (d.back + 1 - d.front).toNat
    else
      d.a.drop d.front.toNat ++ d.a.take (d.back + 1).toNat
  else []

def bump (b : Bool) (g : Int) : Int := if b then g + 1 else g

/-- Does the part of a pop *after* the `if l == 1 { … return }` block contain the statement?
`total` counts the statement in the whole function, `inLast` says whether the `l == 1` block has it. -/
def afterLast (total : Nat) (inLast : Bool) : Bool := decide (total ≥ (if inLast then 2 else 1))

/-- `Deque.resize(n)`; `make([]T, n)` panics for negative `n`. -/
def resize (d : Deque α) (n : Int) : Res (Deque α) Unit :=
  if n < 0 then .panic d else
  let oldLen := len d
  let w := (window d).take n.toNat
  let newA := w ++ List.replicate (n.toNat - w.length) none
  .ok { d with a := newA, isNil := false, front := resizeFront oldLen,
               back := resizeBack oldLen, gen := bump resizeBumpsGen d.gen } ()

def grow (d : Deque α) (n : Int) : Res (Deque α) Unit :=
  let extraCap := growExtra d.isNil (cap d) d.front d.back (len d)
  if growCond extraCap n then resize d (growArg d.isNil (cap d) d.front d.back (len d) n)
  else .ok d ()

def shrink (d : Deque α) (n : Int) : Res (Deque α) Unit :=
  if shrinkPanic n then .panic d
  else if shrinkCond d.isNil (cap d) d.front d.back (len d) n then
    resize d (shrinkArg d.isNil (cap d) d.front d.back (len d) n)
  else .ok d ()

def maybeExpand (d : Deque α) : Res (Deque α) Unit :=
  if expandCond d.isNil (cap d) d.front d.back (len d) then
    resize d (expandArg d.isNil (cap d) d.front d.back (len d))
  else .ok d ()

/-- `PushFront` after `maybeExpand`. -/
def pushFrontAt (d : Deque α) (x : α) : Res (Deque α) Unit :=
  let front := pushFrontFront d.isNil (cap d) d.front d.back
  let d := { d with front := front }
  match setSlot d.a d.front (some x) with
  | none => .panic d
  | some a =>
    let d := { d with a := a }
    let d := if pushFrontFixBack d.isNil (cap d) d.front d.back then { d with back := d.front } else d
    .ok { d with gen := bump pushFrontBumpsGen d.gen } ()

def pushFront (d : Deque α) (x : α) : Res (Deque α) Unit :=
  match maybeExpand d with
  | .panic s => .panic s
  | .ok d () => pushFrontAt d x

/-- `PushBack` after `maybeExpand`. -/
def pushBackAt (d : Deque α) (x : α) : Res (Deque α) Unit :=
  let d := if pushBackWasEmpty d.isNil (cap d) d.front d.back
    then { d with back := pushBackBackEmpty d.isNil (cap d) d.front d.back }
    else { d with back := pushBackBack d.isNil (cap d) d.front d.back }
  match setSlot d.a d.back (some x) with
  | none => .panic d
  | some a => .ok { d with a := a, gen := bump pushBackBumpsGen d.gen } ()

def pushBack (d : Deque α) (x : α) : Res (Deque α) Unit :=
  match maybeExpand d with
  | .panic s => .panic s
  | .ok d () => pushBackAt d x

def popFront (d : Deque α) : Res (Deque α) (Option α) :=
  let l := len d
  if popFrontEmpty l then .panic d else
  match slot d.a d.front with
  | none => .panic d
  | some item =>
    if popFrontLast l then
      match (if popFrontClearsLast then setSlot d.a d.front none else some d.a) with
      | none => .panic d
      | some a =>
        let d1 := { d with a := a }
        .ok { d1 with front := popFrontLastFront d.isNil (cap d) d.front d.back,
                      back := popFrontLastBack d.isNil (cap d) d.front d.back,
                      gen := bump popFrontLastBumpsGen d.gen } item
    else
      match (if afterLast popFrontClears popFrontClearsLast then setSlot d.a d.front none else some d.a) with
      | none => .panic d
      | some a =>
        .ok { d with a := a, front := popFrontFront d.isNil (cap d) d.front d.back,
                     gen := bump (afterLast popFrontGenBumps popFrontLastBumpsGen) d.gen } item

def popBack (d : Deque α) : Res (Deque α) (Option α) :=
  let l := len d
  if popBackEmpty l then .panic d else
  match slot d.a d.back with
  | none => .panic d
  | some item =>
    if popBackLast l then
      match (if popBackClearsLast then setSlot d.a d.back none else some d.a) with
      | none => .panic d
      | some a =>
        let d1 := { d with a := a }
        .ok { d1 with front := popBackLastFront d.isNil (cap d) d.front d.back,
                      back := popBackLastBack d.isNil (cap d) d.front d.back,
                      gen := bump popBackLastBumpsGen d.gen } item
    else
      match (if afterLast popBackClears popBackClearsLast then setSlot d.a d.back none else some d.a) with
      | none => .panic d
      | some a =>
        .ok { d with a := a, back := popBackBack d.isNil (cap d) d.front d.back,
                     gen := bump (afterLast popBackGenBumps popBackLastBumpsGen) d.gen } item

def frontOf (d : Deque α) : Res (Deque α) (Option α) :=
  if frontPanics d.isNil (cap d) d.front d.back then .panic d else
  match slot d.a d.front with
  | none => .panic d
  | some v => .ok d v

def backOf (d : Deque α) : Res (Deque α) (Option α) :=
  match slot d.a d.back with
  | none => .panic d
  | some v => .ok d v

def item (d : Deque α) (i : Int) : Res (Deque α) (Option α) :=
  if itemPanics d.isNil (cap d) d.front d.back (len d) i then .panic d else
  if cap d = 0 then .panic d else   -- `% len(d.a)` with an empty buffer: integer divide by zero
  match slot d.a (itemIdx d.isNil (cap d) d.front d.back i) with
  | none => .panic d
  | some v => .ok d v

def set (d : Deque α) (i : Int) (x : α) : Res (Deque α) Unit :=
  if setPanics d.isNil (cap d) d.front d.back (len d) i then .panic d else
  if cap d = 0 then .panic d else
  match setSlot d.a (setIdx d.isNil (cap d) d.front d.back i) (some x) with
  | none => .panic d
  | some a => .ok { d with a := a, gen := bump setBumpsGen d.gen } ()

/-! ## Iterator (C15) -/

structure Iter where
  i    : Int
  done : Bool
  gen  : Int
  deriving Repr, DecidableEq

def iterate (d : Deque α) : Iter := { i := d.front, done := false, gen := d.gen }

/-- `dequeIterator.Next`: `panic`, or `(item?, ok)`. -/
def iterNext (d : Deque α) (it : Iter) : Res Iter (Option (Option α)) :=
  if iterModified it.gen d.gen then .panic it
  else if iterEmpty (len d) then .ok it none
  else if it.done then .ok it none
  else
    match slot d.a it.i with
    | none => .panic it
    | some v =>
      let it1 := if iterAtBack it.i d.back then { it with done := true } else it
      if cap d = 0 then .panic it1 else
      .ok { it1 with i := iterAdvance it.i (cap d) } (some v)

open Juniper.Spec.Deque (Obs)

def nextObs (d : Deque α) (it : Iter) : Iter × Obs α :=
  match iterNext d it with
  | .panic it' => (it', .panic)
  | .ok it' none => (it', .done)
  | .ok it' (some v) => (it', .item v)

/-- `n` consecutive `Next` calls on a deque that is not touched in between. -/
def nexts (d : Deque α) (it : Iter) : Nat → Iter × List (Obs α)
  | 0 => (it, [])
  | n + 1 => ((nexts d (nextObs d it).1 n).1, (nextObs d it).2 :: (nexts d (nextObs d it).1 n).2)

/-- Drain a fresh iterator (`iterator.Collect(d.Iterate())`); `none` = it panicked (or did not end
within `len(d.a)+1` calls, which cannot happen for a well-formed state). -/
def collectFrom (d : Deque α) : Nat → Iter → Option (List (Option α))
  | 0, _ => none
  | n + 1, it =>
    match nextObs d it with
    | (_, .panic) => none
    | (_, .done) => some []
    | (it', .item v) => (collectFrom d n it').map (v :: ·)

def collect (d : Deque α) : Option (List (Option α)) := collectFrom d (d.a.length + 1) (iterate d)

/-! ## Abstraction -/

/-- The raw live window, front to back (`none` = a zero-valued slot). -/
def toList (d : Deque α) : List (Option α) := window d

/-- The abstract contents: the elements of the live window, front to back. -/
def contents (d : Deque α) : List α := (window d).filterMap id

/-! ## Presence facts consumed by the theorems (discharged by `decide` on the generated values) -/

/-- Both pops overwrite the vacated slot with the zero value, in the `l == 1` branch and after it. -/
def ClearFacts : Prop :=
  popFrontClearsLast = true ∧ afterLast popFrontClears popFrontClearsLast = true ∧
  popBackClearsLast = true ∧ afterLast popBackClears popBackClearsLast = true

instance : Decidable ClearFacts := by unfold ClearFacts; exact inferInstance

/-- Every mutator bumps the modification counter on every path that changes what an iterator
would see: both pushes, both branches of both pops, `resize` and `Set`. -/
def GenFacts : Prop :=
  pushFrontBumpsGen = true ∧ pushBackBumpsGen = true ∧
  popFrontLastBumpsGen = true ∧ afterLast popFrontGenBumps popFrontLastBumpsGen = true ∧
  popBackLastBumpsGen = true ∧ afterLast popBackGenBumps popBackLastBumpsGen = true ∧
  resizeBumpsGen = true ∧ setBumpsGen = true

instance : Decidable GenFacts := by unfold GenFacts; exact inferInstance

/-! ## Histories (C04) and iterator scenarios (C15) -/

open Juniper.Spec.Deque (Op Out)

def outUnit : Res (Deque α) Unit → Deque α × Out α
  | .ok d () => (d, .unit)
  | .panic d => (d, .panic)

def outVal : Res (Deque α) (Option α) → Deque α × Out α
  | .ok d v => (d, .val v)
  | .panic d => (d, .panic)

/-- One call of the exported API. -/
def applyOp (d : Deque α) : Op α → Deque α × Out α
  | .pushFront x => outUnit (pushFront d x)
  | .pushBack x => outUnit (pushBack d x)
  | .popFront => outVal (popFront d)
  | .popBack => outVal (popBack d)
  | .front => outVal (frontOf d)
  | .back => outVal (backOf d)
  | .item i => outVal (item d i)
  | .set i x => outUnit (set d i x)
  | .len => (d, .int (len d))
  | .grow n => outUnit (grow d n)
  | .shrink n => outUnit (shrink d n)
  | .iterate => (d, match collect d with | some l => .list l | none => .panic)

/-- A history: final state and everything returned. -/
def run (d : Deque α) : List (Op α) → Deque α × List (Out α)
  | [] => (d, [])
  | o :: os => ((run (applyOp d o).1 os).1, (applyOp d o).2 :: (run (applyOp d o).1 os).2)

/-- What happens while one iterator is live: the deque is used, or the iterator is advanced. -/
inductive Ev (α : Type) where
  | op (o : Op α)
  | next
  deriving Repr, DecidableEq

/-- The observations made through one iterator during a sequence of events. -/
def runEv (d : Deque α) (it : Iter) : List (Ev α) → List (Obs α)
  | [] => []
  | .op o :: es => runEv (applyOp d o).1 it es
  | .next :: es => (nextObs d it).2 :: runEv d (nextObs d it).1 es

end Juniper.Model.Deque
