import Juniper.Facts
import Juniper.Generated.Pipe
/-!
# Model of `stream.Chan` (`chanStream`): a stream reading from a caller-supplied Go channel

The environment owns the channel: it puts values into it (a send that the channel accepts: there is
room in the buffer, or — unbuffered — `Next` is parked and takes the value directly) and may close it.
`Next` is one `select` whose arm table and arm bodies are regenerated from the source
(`Gen.Pipe.chanNextArms`, `chanNextBodies`). Hand-written: Go's channel semantics (a receive from a
closed channel yields `!ok` only once the buffer is empty).
-/
namespace Juniper.Model.ChanStream
open Juniper.Facts
open Juniper.Gen.Pipe

abbrev chCtx : String := "ctx.Done()"
abbrev chData : String := "s.c"

structure State where
  cap : Nat
  buf : List Int := []
  closed : Bool := false
  /-- `Next` is parked in its `select` -/
  parked : Bool := false
  rctx : Bool := false
  /-- ghost: values the channel accepted, in order -/
  puts : List Int := []
  /-- ghost: values `Next` returned, in order -/
  delivered : List Int := []
  endReported : Bool := false
  deriving DecidableEq, Repr

inductive Label where
  | put (v : Int)
  | close
  | startNext (ctxDone : Bool)
  | cancelNext
  | arm (a : Arm)
  deriving DecidableEq, Repr

/-- `Next` accepts a value from the data channel. -/
def accepts (st : State) : Bool := st.parked && chanNextArms.contains (.recv chData)

def step (st : State) : Label → Option State
  | .put v =>
    if st.closed then none
    else if st.buf.length < st.cap then some { st with buf := st.buf ++ [v], puts := st.puts ++ [v] }
    else if st.cap = 0 ∧ accepts st = true then
      some { st with parked := false, puts := st.puts ++ [v], delivered := st.delivered ++ [v] }
    else none
  | .close => if st.closed then none else some { st with closed := true }
  | .startNext c => if st.parked then none else some { st with parked := true, rctx := c }
  | .cancelNext => if st.parked then some { st with rctx := true } else none
  | .arm a =>
    if st.parked ∧ chanNextArms.contains a = true then
      match a with
      | .recv ch =>
        if ch == chData then
          match st.buf with
          | v :: rest => some { st with buf := rest, delivered := st.delivered ++ [v], parked := false }
          | [] => if st.closed then some { st with parked := false, endReported := true } else none
        else if ch == chCtx then
          if st.rctx then some { st with parked := false } else none
        else none
      | _ => none
    else none

def init (cap : Nat) : State := { cap := cap }

inductive Reach (s0 : State) : State → Prop
  | refl : Reach s0 s0
  | step {s s' : State} {l : Label} : Reach s0 s → step s l = some s' → Reach s0 s'

def run (st : State) : List Label → Option State
  | [] => some st
  | l :: ls => match step st l with
    | none => none
    | some st' => run st' ls

/-- Canonical result of `Next` (harness tokens `v<value> end ctx`). -/
inductive Res where
  | val (v : Int)
  | fin
  | ctx
  | unknown
  deriving DecidableEq, Repr

def Res.token : Res → String
  | .val v => s!"v{v}" | .fin => "end" | .ctx => "ctx" | .unknown => "?"

/-- What the data arm of `chanStream.Next` returns, read off its regenerated body: `End` when the
receive reports `!ok` (channel closed and drained), the received item otherwise. A body this model does
not know yields `unknown`, which no observation matches. -/
def dataResult (item : Option Int) : Res :=
  match chanNextBodies.lookup (.recv chData) with
  | some ["bind item,ok:=", "if !ok {", "return zero, End", "}", "return item, nil"] =>
    (match item with
     | some v => .val v   -- ok
     | none => .fin)      -- !ok
  | _ => .unknown

/-- The result `Next` returns in the step `st --l-->`, if it returns. -/
def completion (st : State) : Label → Option Res
  | .put v => if st.cap = 0 ∧ st.buf.length ≥ st.cap then some (dataResult (some v)) else none
  | .arm (.recv ch) =>
    if ch == chData then some (dataResult st.buf.head?)
    else
      match chanNextBodies.lookup (.recv ch) with
      | some ["return zero, ctx.Err()"] => some .ctx
      | _ => some .unknown
  | _ => none

def tablesKnown : Bool :=
  sameArms chanNextArms [.recv chData, .recv chCtx] && chanNextSelects == 1

end Juniper.Model.ChanStream
