import Juniper.Generated.Heap
/-!
# Model of `internal/heap` (C05, heap half of C15)

Executable, core-only. The array-embedded binary heap is a `List`; `percolateUp` walks to the root
without early exit exactly as the Go loop does; `percolateDown`, `New` (bottom-up heapify, then one
notification per index), `Push`, `Pop`, `RemoveAt`, `UpdateAt` return, next to the new array, the
ordered list of `(item, index)` notifications that the Go code hands to `indexChanged`.

Every index computation (`parent`, `children`), loop guard, comparison orientation and the presence of
each statement the model executes (`swap`, `notifyIndexChanged`, `h.gen++`, …) is the *generated*
definition re-extracted from `heap.go` on every run (`Juniper.Gen.Heap`). Hand-written: the order of
the statements and the loop structure, tied to the code by the correspondence check
(`harness/cmd/c05`, `harness/cmd/c15heap`).

Loops use fuel (`i+1` for the walk to the root, `len` for the walk to a leaf, `len` for heapify) so
that `decide` can evaluate concrete instances; the theorems show the fuel is never exhausted.
A Go panic (index out of range on an empty heap / bad index) is the outcome `none`; all panics of
`heap.go` happen before the first mutation, so the state is unchanged.
-/
namespace Juniper.Model.Heap
open Juniper.Gen.Heap

variable {α : Type}

/-- one call `indexChanged(item, index)` -/
abbrev Note (α : Type) := α × Nat

structure Heap (α : Type) where
  a   : List α
  gen : Int
  deriving Repr, DecidableEq

def empty : Heap α := { a := [], gen := 0 }

def bump (b : Bool) (g : Int) : Int := if b then g + 1 else g

/-- `parent(i)` on array indices -/
def parentN (i : Nat) : Nat := (upParent (i : Int)).toNat
/-- `children(i)` on array indices -/
def leftN (i : Nat) : Nat := (downChildren (i : Int)).1.toNat
def rightN (i : Nat) : Nat := (downChildren (i : Int)).2.toNat

/-- `h.less(i, j)` -/
def lessAt (less : α → α → Bool) (a : List α) (i j : Nat) : Bool :=
  match a[i]?, a[j]? with
  | some x, some y => lessOrient (less x y)
  | _, _ => false

/-- the array part of `h.swap(i, j)` -/
def swapAt (a : List α) (i j : Nat) : List α :=
  match a[i]?, a[j]? with
  | some x, some y => if swapExchanges then (a.set i y).set j x else a
  | _, _ => a

/-- `h.notifyIndexChanged(i)` -/
def notifyAt (a : List α) (i : Nat) : List (Note α) :=
  match a[i]? with
  | some x => if notifyReportsItemAndIndex then [(x, i)] else []
  | none => []

/-- `h.swap(i, j)`: exchange, then notify `i`, then notify `j` -/
def swapN (a : List α) (i j : Nat) : List α × List (Note α) :=
  let a' := swapAt a i j
  (a', (if swapNotifiesI then notifyAt a' i else []) ++ (if swapNotifiesJ then notifyAt a' j else []))

/-- `percolateUp`: `for i > 0 { p := parent(i); if less(i,p) { swap(i,p) }; i = p }` -/
def upLoop (less : α → α → Bool) : Nat → List α → Nat → List α × List (Note α)
  | 0, a, _ => (a, [])
  | f + 1, a, i =>
    if upGuard (i : Int) then
      let p := parentN i
      let s := if upSwapCond (lessAt less a i p) && upSwaps then swapN a i p else (a, [])
      let r := upLoop less f s.1 (upNext (p : Int)).toNat
      (r.1, s.2 ++ r.2)
    else (a, [])

def percolateUp (less : α → α → Bool) (a : List α) (i : Nat) : List α × List (Note α) :=
  upLoop less (i + 1) a i

/-- `percolateDown` -/
def downLoop (less : α → α → Bool) : Nat → List α → Nat → List α × List (Note α)
  | 0, a, _ => (a, [])
  | f + 1, a, i =>
    let l := leftN i
    let r := rightN i
    if downNoChild (l : Int) (a.length : Int) then (a, [])
    else if downOnlyLeft (r : Int) (a.length : Int) then
      if downLeftCond (lessAt less a l i) then
        let s := if downLeftSwaps then swapN a l i else (a, [])
        let t := downLoop less f s.1 (downLeftNext (l : Int)).toNat
        (t.1, s.2 ++ t.2)
      else (a, [])
    else
      let least := (if downPickRight (lessAt less a r l) then downLeastAlt (l : Int) (r : Int)
                    else downLeastInit (l : Int) (r : Int)).toNat
      if downSwapCond (lessAt less a least i) then
        let s := if downSwaps then swapN a least i else (a, [])
        let t := downLoop less f s.1 (downNext (least : Int)).toNat
        (t.1, s.2 ++ t.2)
      else (a, [])

def percolateDown (less : α → α → Bool) (a : List α) (i : Nat) : List α × List (Note α) :=
  downLoop less a.length a i

/-- first loop of `New`: `for i := len/2 - 1; i >= 0; i-- { percolateDown(i) }` -/
def heapifyLoop (less : α → α → Bool) : Nat → List α → Int → List α × List (Note α)
  | 0, a, _ => (a, [])
  | f + 1, a, i =>
    if newGuard i then
      let s := if newSiftsDown then percolateDown less a i.toNat else (a, [])
      let t := heapifyLoop less f s.1 (if newDecrements then i - 1 else i)
      (t.1, s.2 ++ t.2)
    else (a, [])

/-- second loop of `New`: `for i := range initial { notifyIndexChanged(i) }` -/
def notifyAll (a : List α) : List (Note α) :=
  if notifyReportsItemAndIndex then a.zipIdx else []

/-- `heap.New(less, indexChanged, initial)` -/
def new (less : α → α → Bool) (initial : List α) : Heap α × List (Note α) :=
  let s := heapifyLoop less initial.length initial (newStart (initial.length : Int))
  ({ a := s.1, gen := 0 }, s.2 ++ (if newNotifiesAll then notifyAll s.1 else []))

def len (h : Heap α) : Int := lenVal (h.a.length : Int)

/-- `Peek`: `h.a[0]`, panics on an empty heap -/
def peek (h : Heap α) : Option α := h.a[peekIdx.toNat]?

/-- `Item(i)` -/
def item (h : Heap α) (i : Nat) : Option α := h.a[(itemIdx (i : Int)).toNat]?

/-- `Push` -/
def push (less : α → α → Bool) (h : Heap α) (x : α) : Heap α × List (Note α) :=
  let a1 := if pushAppends then h.a ++ [x] else h.a
  let n1 := if pushNotifies then notifyAt a1 (a1.length - 1) else []
  let s := if pushSiftsUp then percolateUp less a1 (a1.length - 1) else (a1, [])
  ({ a := s.1, gen := bump pushBumpsGen h.gen }, n1 ++ s.2)

/-- `Pop`; `none` = the index-out-of-range panic of `h.a[0]` on an empty heap -/
def pop (less : α → α → Bool) (h : Heap α) : Option (Heap α × α × List (Note α)) :=
  match h.a[popIdx.toNat]?, h.a.getLast? with
  | some it, some last =>
    let a1 := if popMovesLast then h.a.set 0 last else h.a
    let a2 := if popTruncates then a1.dropLast else a1
    let n1 := if popNotifyGuard (a2.length : Int) && popNotifies then notifyAt a2 0 else []
    let s := if popSiftsDown then percolateDown less a2 0 else (a2, [])
    some ({ a := s.1, gen := bump popBumpsGen h.gen }, it, n1 ++ s.2)
  | _, _ => none

/-- `RemoveAt(i)`; `none` = index-out-of-range panic (nothing modified yet) -/
def removeAt (less : α → α → Bool) (h : Heap α) (i : Nat) : Option (Heap α × List (Note α)) :=
  if i < h.a.length then
    match h.a.getLast? with
    | none => none
    | some last =>
      let a1 := if removeAtMovesLast then h.a.set i last else h.a
      let a2 := if removeAtTruncates then a1.dropLast else a1
      if removeAtGuard (i : Int) (a2.length : Int) then
        let n1 := if removeAtNotifies then notifyAt a2 i else []
        let s := if removeAtSiftsUp then percolateUp less a2 i else (a2, [])
        let t := if removeAtSiftsDown then percolateDown less s.1 i else (s.1, [])
        some ({ a := t.1, gen := bump removeAtBumpsGen h.gen }, n1 ++ s.2 ++ t.2)
      else
        some ({ a := a2, gen := bump removeAtBumpsGen h.gen }, [])
  else none

/-- `UpdateAt(i, item)`; `none` = index-out-of-range panic -/
def updateAt (less : α → α → Bool) (h : Heap α) (i : Nat) (x : α) : Option (Heap α × List (Note α)) :=
  if i < h.a.length then
    let a1 := if updateAtSets then h.a.set i x else h.a
    let n1 := if updateAtNotifies then notifyAt a1 i else []
    let s := if updateAtSiftsUp then percolateUp less a1 i else (a1, [])
    let t := if updateAtSiftsDown then percolateDown less s.1 i else (s.1, [])
    some ({ a := t.1, gen := bump updateAtBumpsGen h.gen }, n1 ++ s.2 ++ t.2)
  else none

/-- `Grow` / `Shrink` reallocate at most (`xslices.Grow/Shrink`, not modelled: contents unchanged);
`gen` moves iff the generated fact says the function contains `h.gen++` -/
def grow (h : Heap α) : Heap α := { h with gen := bump growBumpsGen h.gen }
def shrink (h : Heap α) : Heap α := { h with gen := bump shrinkBumpsGen h.gen }

/-! ## iterator (`heapIterator`): `gen` is captured at the first `Next`, then the slice is walked -/

structure Iter where
  gen : Int   -- `iter.gen`; `iterInitGen` (= -1) until the first `Next`
  pos : Nat   -- items already taken from the captured slice
  len : Nat   -- length of the captured slice
  deriving Repr, DecidableEq

inductive IterOut (α : Type) where
  | panic
  | done
  | item (x : Option α)   -- `none`: the slot is no longer part of the live array (Go yields the zero value)
  deriving Repr, DecidableEq

def iterate : Iter := { gen := iterInitGen, pos := 0, len := 0 }

def iterStep (h : Heap α) (it : Iter) : Iter × IterOut α :=
  if it.pos < it.len then ({ it with pos := it.pos + 1 }, .item h.a[it.pos]?) else (it, .done)

def iterNext (h : Heap α) (it : Iter) : Iter × IterOut α :=
  if iterFresh it.gen then
    iterStep h { gen := if iterCapturesGen then h.gen else it.gen, pos := 0,
                 len := if iterCapturesSlice then h.a.length else 0 }
  else if iterModified it.gen h.gen && iterPanics then (it, .panic)
  else iterStep h it

/-! ## `xheap.Heap`: `less`- or `compare`-constructed wrapper that forwards to the inner heap -/

/-- `xheap.New` wraps the user's `less` -/
def lessOfLess (less : α → α → Bool) : α → α → Bool := fun a b => newLessWrap (less a b)
/-- `xheap.NewCmp`: `compare(a, b) < 0` -/
def lessOfCmp (cmp : α → α → Int) : α → α → Bool := fun a b => newLessWrap (cmpLess (cmp a b))

/-! The methods of `xheap.Heap` (the only way `internal/heap` is reachable from outside the module).
Each is *defined* by the generated fact "the body of the wrapper is exactly the forwarding statement":
with the fact `false` the wrapper does nothing (returns nothing = `none`), so every theorem about the
wrapper operations (`Props/C05`, `Props/C15Heap`) needs the fact. -/
namespace X

def push (less : α → α → Bool) (h : Heap α) (x : α) : Heap α :=
  if xPushForwards then (Heap.push less h x).1 else h

/-- `Pop`; `none` = panic -/
def pop (less : α → α → Bool) (h : Heap α) : Option (Heap α × α) :=
  if xPopForwards then (Heap.pop less h).map (fun r => (r.1, r.2.1)) else none

/-- `Peek`; `none` = panic -/
def peek (h : Heap α) : Option α := if xPeekForwards then Heap.peek h else none

def len (h : Heap α) : Int := if xLenForwards then Heap.len h else 0

def grow (h : Heap α) : Heap α := if xGrowForwards then Heap.grow h else h
def shrink (h : Heap α) : Heap α := if xShrinkForwards then Heap.shrink h else h

/-- `Next` of the iterator handed out by `xheap.Heap.Iterate`: the inner heap's iterator (an
iterator that is not the inner heap's is modelled as the empty one) -/
def iterNext (h : Heap α) (it : Iter) : Iter × IterOut α :=
  if xIterateForwards then Heap.iterNext h it else (it, .done)

/-- `Pop` until the heap is empty (at most `fuel` times): the items in the order handed out -/
def drain (less : α → α → Bool) : Nat → Heap α → List α
  | 0, _ => []
  | f + 1, h =>
    match pop less h with
    | none => []
    | some (h', x) => x :: drain less f h'

end X

end Juniper.Model.Heap
