import Juniper.Generated.Comb
import Juniper.Model.HelpersMore
/-!
# Executable model of the `xslices` counterparts of the combinators (C07 cross-version agreement)

`Chunk` and `Runs` follow the Go loops as written, with the count / bounds / initial values /
guards regenerated from the source (`Juniper.Gen.Comb`). `Compact`, `CompactFunc`, `Filter`, `Equal`
(one-line wrappers over package `slices`), `Join`, `Map`, `Reduce`, `Repeat` (own loops) are the models
of C19 (`Model/HelpersMore.lean`: whole bodies / loop bodies regenerated into `Juniper.Gen.Helpers`,
the `slices.*` callees by their documented contract, `Model/HelpersStdlib.lean`), applied to a slice
with `cap = len`. `driver comb` executes every function of this file and `harness/cmd/c07` compares it
with the real `xslices` function. `zero` is the zero value of the element type. Core Lean only.
-/
namespace Juniper.Model.XSlices
open Juniper.Gen.Comb
open Juniper.Model.Stdlib (Sl)
variable {α β : Type}

/-- `s[lo:hi]`; `none` = slice bounds out of range (panic). -/
def slice (s : List α) (lo hi : Int) : Option (List α) :=
  if 0 ≤ lo ∧ lo ≤ hi ∧ hi ≤ s.length then some ((s.take hi.toNat).drop lo.toNat) else none

def chunkLoop (s : List α) (size : Int) : Nat → Int → Option (List (List α))
  | 0, _ => some []
  | k + 1, i =>
    let start := xsChunkStart i size
    let e := xsChunkEndLast s.length
    let e := if xsChunkFull s.length start size then xsChunkEnd start size else e
    match slice s start e, chunkLoop s size k (i + 1) with
    | some c, some r => some (c :: r)
    | _, _ => none

/-- `xslices.Chunk(s, chunkSize)`; `none` = panic. -/
def chunk (s : List α) (size : Int) : Option (List (List α)) :=
  if xsChunkPanics size then none
  else
    let cnt := xsChunkMake (if xsChunkNonEmpty s.length then xsChunkCount s.length size else xsChunkCount0)
    if cnt < 0 then none else chunkLoop s size cnt.toNat 0

/-- the `for i := 1; i < len(s); i++` loop of `xslices.Runs`; `none` = index/slice panic -/
def runsLoop (same : α → α → Bool) (s : List α) : Nat → Int → Int → Int → List (List α) → Option (List (List α) × Int × Int)
  | 0, _, start, e, runs => some (runs, start, e)
  | fuel + 1, i, start, e, runs =>
    if xsRunsLoops i s.length then
      match s[(xsRunsCmpLeft i).toNat]?, s[(xsRunsCmpRight i).toNat]? with
      | some a, some b =>
        if same a b then runsLoop same s fuel (i + 1) start (xsRunsExtend i) runs
        else
          match slice s start e with
          | some r => runsLoop same s fuel (i + 1) (xsRunsNewStart i) (xsRunsNewEnd i) (runs ++ [r])
          | none => none
      | _, _ => none
    else some (runs, start, e)

/-- `xslices.Runs(s, same)`; `none` = panic. -/
def runs (same : α → α → Bool) (s : List α) : Option (List (List α)) :=
  let e0 : Int := if xsRunsNonEmpty s.length then xsRunsEnd1 else xsRunsEnd0
  match runsLoop same s s.length xsRunsI0 xsRunsStart0 e0 [] with
  | none => none
  | some (runs, start, e) =>
    if xsRunsFinal e then
      match slice s start s.length with
      | some r => some (runs ++ [r])
      | none => none
    else some runs

/-- `xslices.CompactFunc(s, eq)`: the items of the returned slice -/
def compactFunc (zero : α) (eq : α → α → Bool) (l : List α) : List α :=
  (Helpers.compactFunc zero (Sl.ofList l) eq).items

/-- `xslices.Compact(s)` -/
def compact [DecidableEq α] (zero : α) (l : List α) : List α := (Helpers.compact zero (Sl.ofList l)).items

/-- `xslices.Filter(s, keep)` -/
def filter (zero : α) (keep : α → Bool) (l : List α) : List α := (Helpers.filter zero (Sl.ofList l) keep).items

/-- `xslices.Join(in...)`; `none` = panic -/
def join (zero : α) (ls : List (List α)) : Option (List α) := (Helpers.join zero ls).map Prod.fst

/-- `xslices.Map(s, f)`; `none` = panic -/
def map (zero : β) (f : α → β) (l : List α) : Option (List β) := Helpers.map zero f l

/-- `xslices.Reduce(s, initial, f)` -/
def reduce (zero : β) (f : β → α → β) (init : β) (l : List α) : β := Helpers.reduce zero l init f

/-- `xslices.Equal(a, b)` -/
def equal [DecidableEq α] (a b : List α) : Bool := Helpers.equal (Sl.ofList a) (Sl.ofList b)

/-- `xslices.Repeat(s, n)`; `none` = `make` panics for negative `n`. -/
def repeat_ (zero : α) (a : α) (n : Int) : Option (List α) := Helpers.repeatN zero a n

end Juniper.Model.XSlices
