import Juniper.Generated.Comb
/-!
# Executable model of the `xslices` counterparts of the combinators (C07 cross-version agreement)

`Chunk` and `Runs` follow the Go loops as written, with the count / bounds / initial values /
guards regenerated from the source. `Compact(Func)`, `Filter` delegate to `slices.*` in the Go
code and are modelled by the documented behaviour of those functions. Core Lean only.
-/
namespace Juniper.Model.XSlices
open Juniper.Gen.Comb
variable {α β : Type}

/-- `s[lo:hi]`; `none` = slice bounds out of range (panic). -/
def slice (s : List α) (lo hi : Int) : Option (List α) :=
  if 0 ≤ lo ∧ lo ≤ hi ∧ hi ≤ s.length then some ((s.take hi.toNat).drop lo.toNat) else none

def chunkLoop (s : List α) (size : Int) : Nat → Int → Option (List (List α))
  | 0, _ => some []
  | k + 1, i =>
    let start := xsChunkStart i size
    let e := xsChunkEndLast s.length
    let e := if xsChunkFull s.length start size then xsChunkEnd start size else e
    match slice s start e, chunkLoop s size k (i + 1) with
    | some c, some r => some (c :: r)
    | _, _ => none

/-- `xslices.Chunk(s, chunkSize)`; `none` = panic. -/
def chunk (s : List α) (size : Int) : Option (List (List α)) :=
  if xsChunkPanics size then none
  else
    let cnt := xsChunkMake (if xsChunkNonEmpty s.length then xsChunkCount s.length size else xsChunkCount0)
    if cnt < 0 then none else chunkLoop s size cnt.toNat 0

/-- the `for i := 1; i < len(s); i++` loop of `xslices.Runs`; `none` = index/slice panic -/
def runsLoop (same : α → α → Bool) (s : List α) : Nat → Int → Int → Int → List (List α) → Option (List (List α) × Int × Int)
  | 0, _, start, e, runs => some (runs, start, e)
  | fuel + 1, i, start, e, runs =>
    if xsRunsLoops i s.length then
      match s[(xsRunsCmpLeft i).toNat]?, s[(xsRunsCmpRight i).toNat]? with
      | some a, some b =>
        if same a b then runsLoop same s fuel (i + 1) start (xsRunsExtend i) runs
        else
          match slice s start e with
          | some r => runsLoop same s fuel (i + 1) (xsRunsNewStart i) (xsRunsNewEnd i) (runs ++ [r])
          | none => none
      | _, _ => none
    else some (runs, start, e)

/-- `xslices.Runs(s, same)`; `none` = panic. -/
def runs (same : α → α → Bool) (s : List α) : Option (List (List α)) :=
  let e0 : Int := if xsRunsNonEmpty s.length then xsRunsEnd1 else xsRunsEnd0
  match runsLoop same s s.length xsRunsI0 xsRunsStart0 e0 [] with
  | none => none
  | some (runs, start, e) =>
    if xsRunsFinal e then
      match slice s start s.length with
      | some r => some (runs ++ [r])
      | none => none
    else some runs

/-- `slices.CompactFunc` (documented behaviour: keeps the first of each run of elements for which
`eq(current, previous)` holds). -/
def compactFunc (eq : α → α → Bool) : List α → List α
  | [] => []
  | [a] => [a]
  | a :: b :: l => if eq b a then (match compactFunc eq (b :: l) with | [] => [a] | _ :: t => a :: t)
                   else a :: compactFunc eq (b :: l)

def compact [DecidableEq α] (l : List α) : List α := compactFunc (fun a b => decide (a = b)) l

/-- `slices.DeleteFunc(slices.Clone(s), !keep)`. -/
def filter (keep : α → Bool) (l : List α) : List α := l.filter keep

def join (ls : List (List α)) : List α := ls.flatten

def map (f : α → β) (l : List α) : List β := l.map f

def reduce (f : β → α → β) (init : β) (l : List α) : β := l.foldl f init

/-- `xslices.Equal(a, b)` = `slices.Equal` (documented behaviour: same length and equal elements). -/
def equal [DecidableEq α] (a b : List α) : Bool := decide (a = b)

/-- `xslices.Repeat(s, n)`; `none` = `make` panics for negative `n`. -/
def repeat_ (a : α) (n : Int) : Option (List α) := if n < 0 then none else some (List.replicate n.toNat a)

end Juniper.Model.XSlices
