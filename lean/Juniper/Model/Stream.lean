import Juniper.Generated.Comb
import Juniper.Model.Iter
/-!
# Executable model of the caller's-goroutine part of `stream/stream.go` (C07, C08, C09)

Same granularity as `Model/Iter.lean`: a stream machine `SM σ α` has a `step` that performs at most
one pull from its source under the per-call context flag (`true` = live, `false` = expired) and
answers `item a | end_ | err e | skip`, and a `close`. Sources are *fault scripts* with ghost
`Next`/`Close` logs. Guards, flag updates, `Close` forwarding and `defer s.Close()` are the
regenerated facts of `Juniper.Gen.Comb`. Core Lean only.
-/
namespace Juniper.Model.Stream
open Juniper.Gen.Comb
universe u v w x

/-- Errors, by provenance (the harness injects distinguishable error values). -/
inductive Err where
  | ctx                    -- ctx.Err() of an expired per-call context
  | transient (n : Nat)    -- source failed once; the next call continues
  | fatal (n : Nat)        -- source failed for good (sticky)
  | cb (n : Nat)           -- a user callback failed
  | empty                  -- stream.ErrEmpty
  | moreThanOne            -- stream.ErrMoreThanOne
  | bogus                  -- an answer only a *changed* method gives: `return zero, nil` where the end or an
                           -- error is due, an error operand that is none of nil / End / err / ErrEmpty / ErrMoreThanOne
  deriving Repr, DecidableEq

/-- A failed `Next` that "costs nothing": expired context or transient source failure. -/
def Err.soft : Err → Bool
  | .ctx => true
  | .transient _ => true
  | _ => false

inductive SStep (α : Type v) where
  | item (a : α)
  | skip
  | end_
  | err (e : Err)
  deriving Repr, DecidableEq

structure SM (σ : Type u) (α : Type v) where
  step : σ → Bool → SStep α × σ
  close : σ → σ

variable {σ : Type u} {τ : Type w} {α : Type v} {β : Type v}

/-! ## Go `error` values, as the methods test and return them

The error guards (`err == End`, `err != nil`) and the error operand of every `return` of the methods
and reducers are regenerated from `stream.go` as functions of an *error code*: `nil` = 0, `End` = 1,
the error held in `err` = 2 (so `return zero, err` is the identity on the code), `ErrEmpty` = 3,
`ErrMoreThanOne` = 4. A machine hands the code of what its source answered to the regenerated guards
and turns the code of the returned operand back into an answer with `ret`: `return item, End` instead of
`return item, err` therefore changes what the machine answers. -/

/-- code of the `err` a pull (`inner.Next(ctx)`, or a callback) produced -/
def SStep.code : SStep α → Int
  | .item _ => 0
  | .skip => 0
  | .end_ => 1
  | .err _ => 2

/-- the error a failed pull holds in `err` -/
def SStep.held : SStep α → Err
  | .err e => e
  | _ => .bogus

/-- the answer of `return v, E` where the error operand `E` evaluates to code `k`: `ok` is the answer
when `E` is `nil` (the value operand), `held` the error in `err`. -/
def ret (k : Int) (ok : SStep α) (held : Err) : SStep α :=
  if k = 0 then ok
  else if k = 1 then .end_
  else if k = 2 then .err held
  else if k = 3 then .err .empty
  else if k = 4 then .err .moreThanOne
  else .err .bogus

/-- `return zero, E`: there is no item to deliver, so a `nil` operand is an answer the code must never give -/
def retE (k : Int) (held : Err) : SStep α := ret k (.err .bogus) held

/-- code of a callback's `err` -/
def cbCode {ρ : Type w} : Except Err ρ → Int
  | .ok _ => 0
  | .error _ => 2

/-! ## Scripted source with ghost logs -/

inductive Ev (α : Type v) where
  | item (a : α)
  | transient (n : Nat)
  | fatal (n : Nat)
  deriving Repr, DecidableEq

structure Src (α : Type v) where
  script : List (Ev α)
  calls : Nat := 0     -- Next calls with a live context
  pulled : Nat := 0    -- items handed out
  closes : Nat := 0    -- Close calls
  after : Nat := 0     -- Next calls that arrived after a Close
  deriving Repr

def Src.of (sc : List (Ev α)) : Src α := { script := sc }

def srcStep (s : Src α) (c : Bool) : SStep α × Src α :=
  -- a call whose context has already expired is answered before anything is touched (it is only
  -- logged when it arrives after Close)
  if !c then (.err .ctx, { s with after := if s.closes > 0 then s.after + 1 else s.after })
  else
  let s := { s with calls := s.calls + 1, after := if s.closes > 0 then s.after + 1 else s.after }
  match s.script with
    | [] => (.end_, s)
    | .item a :: r => (.item a, { s with script := r, pulled := s.pulled + 1 })
    | .transient n :: r => (.err (.transient n), { s with script := r })
    | .fatal n :: _ => (.err (.fatal n), s)

def srcClose (s : Src α) : Src α := { s with closes := s.closes + 1 }

def src : SM (Src α) α := ⟨srcStep, srcClose⟩

/-- `stream.Empty()`: `return zero, End`. -/
def empty : SM Unit α := ⟨fun u _ => (retE (stEmptyRet 0) .bogus, u), id⟩

/-- `stream.Error(err)`: `return zero, s.err`. -/
def error (e : Err) : SM Unit α := ⟨fun u _ => (retE (stErrorRet 2) e, u), id⟩

/-- `stream.FromIterator(iter)`: checks the context (`ctx.Err() != nil`), then pulls; `Close` does nothing. -/
def fromIterator (m : Iter.IM σ α) : SM σ α :=
  ⟨fun s c =>
    let ce : Int := if c then 0 else 2   -- `ctx.Err()`: nil for a live context, else the context's error
    if stFromIterCtxGuard ce then (retE (stFromIterCtxRet ce) .ctx, s)
    else match m.step s with
      | (.skip, s') => (.skip, s')
      | (.item a, s') =>
        if stFromIterEndGuard true then (retE (stFromIterEndRet 0) .bogus, s') else (ret (stFromIterItemRet 0) (.item a) .bogus, s')
      | (.done, s') =>
        if stFromIterEndGuard false then (retE (stFromIterEndRet 0) .bogus, s') else (retE (stFromIterItemRet 0) .bogus, s'),
   id⟩

/-- `stream.Chan(c)` as a caller's-goroutine machine: `buf` = what the channel holds, `closed` = it was
closed. The `select` has a data arm and a context arm (`stChanArms`); with an expired context the
model takes the context arm (Go may take either when both are ready: the harness only uses live
contexts on `Chan`). A receive from an empty open channel blocks: `skip` for ever. `Close` does nothing.
The concurrent behaviour (any capacity, sends and close in between) is `Props/C10Chan`. -/
structure ChanSt (α : Type v) where
  buf : List α
  closed : Bool := true

def chan : SM (ChanSt α) α :=
  ⟨fun st c =>
    if !c && stChanArms.contains "ctx.Done()" then (retE (stChanCtxRet 2) .ctx, st)
    else if !stChanArms.contains "s.c" then (.skip, st)
    else match st.buf with
      | a :: r =>
        if stChanEndGuard true then (retE (stChanEndRet 0) .bogus, { st with buf := r })
        else (ret (stChanItemRet 0) (.item a) .bogus, { st with buf := r })
      | [] =>
        if st.closed then
          (if stChanEndGuard false then (retE (stChanEndRet 0) .bogus, st) else (retE (stChanItemRet 0) .bogus, st))
        else (.skip, st),
   id⟩

/-! ## Peekable -/

structure PeekSt (σ : Type u) (α : Type v) where
  inner : σ
  curr : Option α := none

def peekNext (m : SM σ α) (p : PeekSt σ α) (c : Bool) : SStep α × PeekSt σ α :=
  if stPeekNextHas p.curr.isSome then
    match p.curr with
    | some a => (ret (stPeekNextItemRet 0) (.item a) .bogus, { p with curr := if stPeekNextClearsHas then none else some a })
    | none => (.skip, p)
  else
    let (r, s') := m.step p.inner c
    (r, { p with inner := s' })

/-- what `Peek` does with the answer `r` of its pull: `err == End` → `has = false; return zero, End`;
`err != nil` → `return zero, err`; else `has = true; return curr, nil` -/
def peekOn (s' : σ) (r : SStep α) : SStep α × PeekSt σ α :=
  let k := r.code
  if stPeekEndGuard k then (retE (stPeekEndRet k) r.held, { inner := s', curr := none })
  else if stPeekErrGuard k then (retE (stPeekErrRet k) r.held, { inner := s', curr := none })
  else match r with
    | .item a => (ret (stPeekItemRet k) (.item a) .bogus, { inner := s', curr := if stPeekSetsHas then some a else none })
    | _ => (.err .bogus, { inner := s', curr := none })

def peekPeek (m : SM σ α) (p : PeekSt σ α) (c : Bool) : SStep α × PeekSt σ α :=
  if stPeekPulls p.curr.isSome then
    match m.step p.inner c with
    | (.skip, s') => (.skip, { inner := s', curr := none })
    | (r, s') => peekOn s' r
  else
    match p.curr with
    | some a => (ret (stPeekItemRet 0) (.item a) .bogus, p)
    | none => (.end_, p)

def peekClose (m : SM σ α) (p : PeekSt σ α) : PeekSt σ α :=
  if stPeekCloseForwards then { p with inner := m.close p.inner } else p

def withPeek (m : SM σ α) : SM (PeekSt σ α) α := ⟨peekNext m, peekClose m⟩

/-! ## Combinators -/

structure ChunkSt (σ : Type u) (α : Type v) where
  inner : σ
  pend : List α := []

/-- `chunkStream.Next` after its pull answered `r`: `err == End` → `break` (flush what is pending, or
`return nil, End`); `err != nil` → `return nil, err`; else append, and return the chunk when it is full -/
def chunkOn (size : Int) (st : ChunkSt σ α) (s' : σ) (r : SStep α) : SStep (List α) × ChunkSt σ α :=
  let k := r.code
  if stChunkEndGuard k then
    if stChunkFlush (st.pend.length : Int) then (ret (stChunkFlushRet k) (.item st.pend) .bogus, { inner := s', pend := [] })
    else (retE (stChunkDoneRet k) .bogus, { st with inner := s' })
  else if stChunkErrGuard k then (retE (stChunkErrRet k) r.held, { st with inner := s' })
  else match r with
    | .item a =>
      let p := st.pend ++ [a]
      if stChunkFull (p.length : Int) size then (ret (stChunkFullRet k) (.item p) .bogus, { inner := s', pend := [] })
      else (.skip, { inner := s', pend := p })
    | _ => (.err .bogus, { st with inner := s' })

def chunk (size : Int) (m : SM σ α) : SM (ChunkSt σ α) (List α) :=
  ⟨fun st c =>
    match m.step st.inner c with
    | (.skip, s') => (.skip, { st with inner := s' })
    | (r, s') => chunkOn size st s' r,
   fun st => if stChunkCloseForwards then { st with inner := m.close st.inner } else st⟩

structure CompactSt (σ : Type u) (α : Type v) where
  inner : σ
  first : Bool := true
  prev : Option α := none

/-- `compactStream.Next` after its pull answered `r`: `err != nil` → `return item, err` (the end included) -/
def compactOn (eq : α → α → Bool) (st : CompactSt σ α) (s' : σ) (r : SStep α) : SStep α × CompactSt σ α :=
  let k := r.code
  if stCompactErrGuard k then (retE (stCompactErrRet k) r.held, { st with inner := s' })
  else match r with
    | .item a =>
      let setPrev : Option α := if stCompactSetsPrev ≥ 2 then some a else st.prev
      if st.first then
        (ret (stCompactFirstRet k) (.item a) .bogus,
          { inner := s', first := if stCompactClearsFirst then false else true, prev := setPrev })
      else
        match st.prev with
        | some p => if stCompactKeeps eq p a then (ret (stCompactItemRet k) (.item a) .bogus, { st with inner := s', prev := setPrev })
                    else (.skip, { st with inner := s' })
        | none => (ret (stCompactItemRet k) (.item a) .bogus, { st with inner := s', prev := setPrev })
    | _ => (.err .bogus, { st with inner := s' })

def compact (eq : α → α → Bool) (m : SM σ α) : SM (CompactSt σ α) α :=
  ⟨fun st c =>
    match m.step st.inner c with
    | (.skip, s') => (.skip, { st with inner := s' })
    | (r, s') => compactOn eq st s' r,
   fun st => if stCompactCloseForwards then { st with inner := m.close st.inner } else st⟩

/-- `stream.CompactFunc(s, eq)`: `first: true` -/
def compactInit (s : σ) : CompactSt σ α := { inner := s, first := stCompactInitFirst, prev := none }

/-- `stream.Compact(s)` = `CompactFunc(s, func(a, b T) bool { return a == b })` (regenerated body) -/
def compactEq [BEq α] (m : SM σ α) : SM (CompactSt σ α) α :=
  stCompactW (fun (m : SM σ α) (eq : α → α → Bool) => compact eq m) m

/-- Wrappers that keep no state of their own carry the inner state in a one-field structure so
that `close` forwarding is uniform. -/
structure Wrap (σ : Type u) where
  inner : σ

/-- `filterStream.Next` after its pull answered `r`: `err != nil` → `return zero, err`; then the callback:
`err != nil` → `return zero, err`; `ok` → `return item, nil` -/
def filterOn (keep : α → Except Err Bool) (s' : σ) (r : SStep α) : SStep α × Wrap σ :=
  let k := r.code
  if stFilterErrGuard k then (retE (stFilterErrRet k) r.held, ⟨s'⟩)
  else match r with
    | .item a =>
      if stFilterCbGuard (cbCode (keep a)) then
        (retE (stFilterCbRet (cbCode (keep a))) (match keep a with | .error e => e | .ok _ => .bogus), ⟨s'⟩)
      else match keep a with
        | .ok b => if stFilterKeeps b then (ret (stFilterItemRet 0) (.item a) .bogus, ⟨s'⟩) else (.skip, ⟨s'⟩)
        | .error _ => (.err .bogus, ⟨s'⟩)
    | _ => (.err .bogus, ⟨s'⟩)

def filter (keep : α → Except Err Bool) (m : SM σ α) : SM (Wrap σ) α :=
  ⟨fun st c =>
    match m.step st.inner c with
    | (.skip, s') => (.skip, ⟨s'⟩)
    | (r, s') => filterOn keep s' r,
   fun st => if stFilterCloseForwards then ⟨m.close st.inner⟩ else st⟩

/-- `mapStream.Next` after its pull answered `r` -/
def mapOn (f : α → Except Err β) (s' : σ) (r : SStep α) : SStep β × Wrap σ :=
  let k := r.code
  if stMapErrGuard k then (retE (stMapErrRet k) r.held, ⟨s'⟩)
  else match r with
    | .item a =>
      if stMapCbGuard (cbCode (f a)) then
        (retE (stMapCbRet (cbCode (f a))) (match f a with | .error e => e | .ok _ => .bogus), ⟨s'⟩)
      else match f a with
        | .ok b => (ret (stMapItemRet 0) (.item b) .bogus, ⟨s'⟩)
        | .error _ => (.err .bogus, ⟨s'⟩)
    | _ => (.err .bogus, ⟨s'⟩)

def map (f : α → Except Err β) (m : SM σ α) : SM (Wrap σ) β :=
  ⟨fun st c =>
    match m.step st.inner c with
    | (.skip, s') => (.skip, ⟨s'⟩)
    | (r, s') => mapOn f s' r,
   fun st => if stMapCloseForwards then ⟨m.close st.inner⟩ else st⟩

structure FirstSt (σ : Type u) where
  inner : σ
  x : Int

/-- `firstStream.Next` after its pull answered `r`: `err != nil` → `return item, err`; else `x--; return item, nil` -/
def firstOn (st : FirstSt σ) (s' : σ) (r : SStep α) : SStep α × FirstSt σ :=
  let k := r.code
  if stFirstErrGuard k then (retE (stFirstErrRet k) r.held, { st with inner := s' })
  else match r with
    | .item a => (ret (stFirstItemRet k) (.item a) .bogus, { inner := s', x := if stFirstDecrements then st.x - 1 else st.x })
    | _ => (.err .bogus, { st with inner := s' })

def first (m : SM σ α) : SM (FirstSt σ) α :=
  ⟨fun st c =>
    if stFirstDone st.x then (retE (stFirstDoneRet 0) .bogus, st)
    else
      match m.step st.inner c with
      | (.skip, s') => (.skip, { st with inner := s' })
      | (r, s') => firstOn st s' r,
   fun st => if stFirstCloseForwards then { st with inner := m.close st.inner } else st⟩

/-- `stream.First(s, n)`: `x: n` -/
def firstInit (s : σ) (n : Int) : FirstSt σ := { inner := s, x := stFirstInitX n }

/-- `flattenStream{inner, curr}`; `finished` is ghost: the final states of the inner streams that ended. -/
structure FlattenSt (σ : Type u) (τ : Type w) where
  outer : σ
  curr : Option τ := none
  finished : List τ := []

/-- `flattenStream.Next`, `curr == nil`: after the pull of the outer stream answered `r` -/
def flattenOuterOn (st : FlattenSt σ τ) (s' : σ) (r : SStep τ) : SStep α × FlattenSt σ τ :=
  let k := r.code
  if stFlattenOuterErrGuard k then (retE (stFlattenOuterErrRet k) r.held, { st with outer := s' })
  else match r with
    | .item x => (.skip, { st with outer := s', curr := some x })
    | _ => (.err .bogus, { st with outer := s' })

/-- `flattenStream.Next` after the pull of the current inner stream answered `r`: `err == End` → close it,
`curr = nil`, `continue`; `err != nil` → `return item, err` -/
def flattenInnerOn (mi : SM τ α) (st : FlattenSt σ τ) (x' : τ) (r : SStep α) : SStep α × FlattenSt σ τ :=
  let k := r.code
  if stFlattenEndGuard k then
    let x'' := if stFlattenClosesEnded then mi.close x' else x'
    if stFlattenClearsCurr then (.skip, { st with curr := none, finished := st.finished ++ [x''] })
    else (.skip, { st with curr := some x'' })
  else if stFlattenErrGuard k then (retE (stFlattenErrRet k) r.held, { st with curr := some x' })
  else match r with
    | .item a => (ret (stFlattenItemRet k) (.item a) .bogus, { st with curr := some x' })
    | _ => (.err .bogus, { st with curr := some x' })

/-- `flattenStream.Close`: `if s.curr != nil { s.curr.Close() }; s.inner.Close()` — the condition under
which the current inner stream is closed is the regenerated text -/
def flattenCloseCurr : Bool := stFlattenCloseCurr && stFlattenCloseCond == "s.curr != nil"

def flatten (mo : SM σ τ) (mi : SM τ α) : SM (FlattenSt σ τ) α :=
  ⟨fun st c =>
    match st.curr with
    | none =>
      match mo.step st.outer c with
      | (.skip, s') => (.skip, { st with outer := s' })
      | (r, s') => flattenOuterOn st s' r
    | some x =>
      match mi.step x c with
      | (.skip, x') => (.skip, { st with curr := some x' })
      | (r, x') => flattenInnerOn mi st x' r,
   fun st =>
    let st := match st.curr with
      | some x => if flattenCloseCurr then { st with curr := some (mi.close x) } else st
      | none => st
    if stFlattenCloseForwards then { st with outer := mo.close st.outer } else st⟩

structure FlattenSlicesSt (σ : Type u) (α : Type v) where
  inner : σ
  buffer : List α := []

/-- `flattenSlicesStream.Next`, buffer empty, after its pull answered `r`: `err != nil` → `return zero, err` -/
def flattenSlicesOn (st : FlattenSlicesSt σ α) (s' : σ) (r : SStep (List α)) : SStep α × FlattenSlicesSt σ α :=
  let k := r.code
  if stFlattenSlicesErrGuard k then (retE (stFlattenSlicesErrRet k) r.held, { st with inner := s' })
  else match r with
    | .item xs => (.skip, { inner := s', buffer := xs })
    | _ => (.err .bogus, { st with inner := s' })

def flattenSlices (m : SM σ (List α)) : SM (FlattenSlicesSt σ α) α :=
  ⟨fun st c =>
    -- `if len(s.buffer) > 0 { item := s.buffer[0]; s.buffer = s.buffer[1:]; return item, nil }`
    if stFlattenSlicesHas (st.buffer.length : Int) then
      match st.buffer[stFlattenSlicesHead.toNat]? with
      | some a => (ret (stFlattenSlicesItemRet 0) (.item a) .bogus, { st with buffer := st.buffer.drop stFlattenSlicesRest.toNat })
      | none => (.err .bogus, st)
    else
      match m.step st.inner c with
      | (.skip, s') => (.skip, { st with inner := s' })
      | (r, s') => flattenSlicesOn st s' r,
   fun st => if stFlattenSlicesCloseForwards then { st with inner := m.close st.inner } else st⟩

/-- `joinStream{remaining}`; `finished` is ghost (the streams that ended and were dropped). -/
structure JoinSt (σ : Type u) where
  remaining : List σ
  finished : List σ := []

/-- `joinStream.Next` after the pull of `remaining[0]` answered `r`: `err == End` → close it, drop it,
`continue`; `err != nil` → `return zero, err` -/
def joinOn (m : SM σ α) (st : JoinSt σ) (s' : σ) (rest : List σ) (r : SStep α) : SStep α × JoinSt σ :=
  let k := r.code
  if stJoinEndGuard k then
    let s'' := if stJoinClosesEnded then m.close s' else s'
    if stJoinAdvances then (.skip, { remaining := rest, finished := st.finished ++ [s''] })
    else (.skip, { st with remaining := s'' :: rest })
  else if stJoinErrGuard k then (retE (stJoinErrRet k) r.held, { st with remaining := s' :: rest })
  else match r with
    | .item a => (ret (stJoinItemRet k) (.item a) .bogus, { st with remaining := s' :: rest })
    | _ => (.err .bogus, { st with remaining := s' :: rest })

/-- `joinStream.Close`: `for i := range s.remaining { s.remaining[i].Close() }` — which of the remaining
streams are closed is decided by the regenerated range operand and loop body -/
def joinCloseAll : Bool :=
  stJoinCloseForwards && stJoinCloseRange == "s.remaining" && stJoinCloseStmt == "{ s.remaining[i].Close() }"

def join (m : SM σ α) : SM (JoinSt σ) α :=
  ⟨fun st c =>
    -- `for len(s.remaining) > 0 { … }; return zero, End`
    if stJoinLoops (st.remaining.length : Int) then
      match st.remaining with
      | [] => (retE (stJoinDoneRet 0) .bogus, st)
      | s :: r =>
        match m.step s c with
        | (.skip, s') => (.skip, { st with remaining := s' :: r })
        | (x, s') => joinOn m st s' r x
    else (retE (stJoinDoneRet 0) .bogus, st),
   fun st => if joinCloseAll then { st with remaining := st.remaining.map m.close } else st⟩

structure WhileSt (σ : Type u) (α : Type v) where
  inner : σ
  held : Option α := none
  done : Bool := false

/-- the part of `whileStream.Next` after an item is held: the callback; `err != nil` → `return zero, err`;
`!ok` → `done = true; return zero, End`; else `has = false; return item, nil` -/
def whileEval (f : α → Except Err Bool) (st : WhileSt σ α) (a : α) : SStep α × WhileSt σ α :=
  if stWhileCbGuard (cbCode (f a)) then
    (retE (stWhileCbRet (cbCode (f a))) (match f a with | .error e => e | .ok _ => .bogus), st)
  else match f a with
    | .ok b =>
      if stWhileStops b then (retE (stWhileStopRet 0) .bogus, { st with done := if stWhileSetsDone then true else st.done })
      else (ret (stWhileItemRet 0) (.item a) .bogus, { st with held := if stWhileClearsHas then none else st.held })
    | .error _ => (.err .bogus, st)

/-- `whileStream.Next`, nothing held, after its pull answered `r`: `err != nil` → `return zero, err` -/
def whileOn (f : α → Except Err Bool) (st : WhileSt σ α) (s' : σ) (r : SStep α) : SStep α × WhileSt σ α :=
  let k := r.code
  if stWhileErrGuard k then (retE (stWhileErrRet k) r.held, { st with inner := s' })
  else match r with
    | .item a => whileEval f { st with inner := s', held := if stWhileSetsHas then some a else none } a
    | _ => (.err .bogus, { st with inner := s' })

def while_ (f : α → Except Err Bool) (m : SM σ α) : SM (WhileSt σ α) α :=
  ⟨fun st c =>
    if stWhileDone st.done then (retE (stWhileDoneRet 0) .bogus, st)
    else if stWhilePulls st.held.isSome then
      match m.step st.inner c with
      | (.skip, s') => (.skip, { st with inner := s' })
      | (r, s') => whileOn f st s' r
    else
      match st.held with
      | some a => whileEval f st a
      | none => (.skip, st),
   fun st => if stWhileCloseForwards then { st with inner := m.close st.inner } else st⟩

/-! ## Runs: outer port, inner ports, shared peekable -/

/-- `live = some (g, prev, detached)`: handle of the inner stream handed out last, the item it
compares with (the previous item of its run), whether its `parent` is nil (inner `Close`, or the outer
`Next` moved on). -/
structure RunsSt (σ : Type u) (α : Type v) where
  pk : PeekSt σ α
  gen : Nat := 0
  live : Option (Nat × α × Bool) := none

/-- `runsInnerStream.Next` after `parent.inner.Peek(ctx)` answered `r`: `err == End` → `return zero, End`;
`err != nil` → `return zero, err`; `!same(prev, item)` → `return zero, End`; else `prev = item` and the
item is consumed (`return parent.inner.Next(ctx)`) -/
def runsInnerOn (same : α → α → Bool) (m : SM σ α) (st : RunsSt σ α) (g' : Nat) (prev : α) (det : Bool)
    (pk' : PeekSt σ α) (c : Bool) (r : SStep α) : SStep α × RunsSt σ α :=
  let k := r.code
  if stRunsInnerEndGuard k then (retE (stRunsInnerEndRet k) r.held, { st with pk := pk' })
  else if stRunsInnerErrGuard k then (retE (stRunsInnerErrRet k) r.held, { st with pk := pk' })
  else match r with
    | .item a =>
      if stRunsInnerStops same prev a then (retE (stRunsInnerOtherRet k) .bogus, { st with pk := pk' })
      else
        let (r, pk'') := peekNext m pk' c
        (r, { st with pk := pk'', live := some (g', if stRunsInnerTracksPrev then a else prev, det) })
    | _ => (.err .bogus, { st with pk := pk' })

def runsInner (same : α → α → Bool) (m : SM σ α) (g : Nat) (st : RunsSt σ α) (c : Bool) :
    SStep α × RunsSt σ α :=
  match st.live with
  | some (g', prev, det) =>
    if g' ≠ g || det then (retE (stRunsInnerDetachedRet 0) .bogus, st)
    else
      match peekPeek m st.pk c with
      | (.skip, pk') => (.skip, { st with pk := pk' })
      | (r, pk') => runsInnerOn same m st g' prev det pk' c r
  | none => (.end_, st)

def runsInnerClose (g : Nat) (st : RunsSt σ α) : RunsSt σ α :=
  match st.live with
  | some (g', prev, det) =>
    if g' = g then { st with live := some (g', prev, if stRunsInnerCloseDetaches then true else det) } else st
  | none => st

/-- `runsStream.Next`, draining the current inner stream, after its `Next` answered `r`:
`err == End` → `break` (then `curr.Close(); curr = nil`); `err != nil` → `return nil, err` -/
def runsDrainOn (g : Nat) (st' : RunsSt σ α) (r : SStep α) : SStep Nat × RunsSt σ α :=
  let k := r.code
  if stRunsDrainEndGuard k then
    let st' := if stRunsClosesCurr then runsInnerClose g st' else st'
    (.skip, { st' with live := if stRunsClearsCurr then none else st'.live })
  else if stRunsDrainErrGuard k then (retE (stRunsDrainErrRet k) r.held, st')
  else (.skip, st')

/-- `runsStream.Next`, no current inner stream, after `inner.Peek(ctx)` answered `r`: `err != nil` →
`return nil, err` (the end included) -/
def runsPeekOn (st : RunsSt σ α) (pk' : PeekSt σ α) (r : SStep α) : SStep Nat × RunsSt σ α :=
  let k := r.code
  if stRunsPeekErrGuard k then (retE (stRunsPeekErrRet k) r.held, { st with pk := pk' })
  else match r with
    | .item a => (ret (stRunsItemRet k) (.item (st.gen + 1)) .bogus, { pk := pk', gen := st.gen + 1, live := some (st.gen + 1, a, false) })
    | _ => (.err .bogus, { st with pk := pk' })

def runsOuter (same : α → α → Bool) (m : SM σ α) (st : RunsSt σ α) (c : Bool) : SStep Nat × RunsSt σ α :=
  match st.live with
  | some (g, _, _) =>
    match runsInner same m g st c with
    | (.skip, st') => (.skip, st')
    | (r, st') => runsDrainOn g st' r
  | none =>
    match peekPeek m st.pk c with
    | (.skip, pk') => (.skip, { st with pk := pk' })
    | (r, pk') => runsPeekOn st pk' r

def runsClose (m : SM σ α) (st : RunsSt σ α) : RunsSt σ α :=
  if stRunsCloseForwards then { st with pk := peekClose m st.pk } else st

/-- The documented protocol as one stream of runs: outer `Next`; then the inner stream is read
until it ends (`take = none`) or `take` items were taken; a fully read inner stream is closed when
`closeInner`; then the outer stream is advanced again. -/
structure RunsProtoSt (σ : Type u) (α : Type v) where
  rs : RunsSt σ α
  cur : Option (Nat × List α × Nat) := none

def runsProto (same : α → α → Bool) (take : Option Nat) (closeInner : Bool) (m : SM σ α) :
    SM (RunsProtoSt σ α) (List α) :=
  ⟨fun st c =>
    match st.cur with
    | none =>
      match runsOuter same m st.rs c with
      | (.item g, rs') => (.skip, { rs := rs', cur := some (g, [], 0) })
      | (.skip, rs') => (.skip, { st with rs := rs' })
      | (.end_, rs') => (.end_, { st with rs := rs' })
      | (.err e, rs') => (.err e, { st with rs := rs' })
    | some (g, acc, k) =>
      if Iter.takeReached take k then (.item acc, { st with cur := none })
      else
        match runsInner same m g st.rs c with
        | (.item a, rs') => (.skip, { rs := rs', cur := some (g, acc ++ [a], k + 1) })
        | (.skip, rs') => (.skip, { st with rs := rs' })
        | (.err e, rs') => (.err e, { st with rs := rs' })
        | (.end_, rs') =>
          (.item acc, { rs := if closeInner then runsInnerClose g rs' else rs', cur := none }),
   fun st => { st with rs := runsClose m st.rs }⟩

/-! ## Consumer side -/

/-- One consumer-level `Next(ctx)`. `none` = fuel exhausted. -/
def drive (m : SM σ α) (c : Bool) : Nat → σ → Option (SStep α) × σ
  | 0, s => (none, s)
  | fuel + 1, s =>
    match m.step s c with
    | (.skip, s') => drive m c fuel s'
    | (r, s') => (some r, s')

/-- Result of a reducer. -/
inductive ROut (ρ : Type v) where
  | ok (r : ρ)
  | error (e : Err)
  | panic
  | fuel
  deriving Repr, DecidableEq

/-- `return v, E` of a reducer: `ok` is the result when the error operand is `nil`; a reducer never
returns `End`. -/
def rret {ρ : Type x} (k : Int) (ok : ROut ρ) (held : Err) : ROut ρ :=
  if k = 0 then ok
  else if k = 2 then .error held
  else if k = 3 then .error .empty
  else if k = 4 then .error .moreThanOne
  else .error .bogus

/-- the regenerated error guards / returned error operands of a reducer's read loop
(`if err == End {…} else if err != nil {…}`, and the guard after the callback) -/
structure RGuards where
  endG : Int → Bool
  endR : Int → Int
  errG : Int → Bool
  errR : Int → Int
  cbG : Int → Bool
  cbR : Int → Int

def reduceG : RGuards := ⟨stReduceEndGuard, stReduceEndRet, stReduceErrGuard, stReduceErrRet, stReduceCbGuard, stReduceCbRet⟩
/-- `Collect`'s callback (`append`) cannot fail -/
def collectG : RGuards := ⟨stCollectEndGuard, stCollectEndRet, stCollectErrGuard, stCollectErrRet, fun _ => false, id⟩
/-- `xrand.rSampleStream`: `err == stream.End` → `break Outer`, then `return out, nil` -/
def sampleG : RGuards := ⟨sampleEndGuard, sampleRet, sampleErrGuard, sampleErrRet, fun _ => false, id⟩

/-- the loop `for { item, err := s.Next(ctx); if err == End { return acc, nil } else if err != nil { return …, err };
acc, err = f(acc, item); if err != nil { return acc, err } }` -/
def reduceLoop {γ : Type x} (g : RGuards) (m : SM σ α) (f : γ → α → Except Err γ) (c : Bool) : Nat → γ → σ → ROut γ × σ
  | 0, _, s => (.fuel, s)
  | fuel + 1, acc, s =>
    match m.step s c with
    | (.skip, s') => reduceLoop g m f c fuel acc s'
    | (r, s') =>
      let k := r.code
      if g.endG k then (rret (g.endR k) (.ok acc) r.held, s')
      else if g.errG k then (rret (g.errR k) (.error .bogus) r.held, s')
      else match r with
        | .item a =>
          if g.cbG (cbCode (f acc a)) then
            (rret (g.cbR (cbCode (f acc a))) (.error .bogus) (match f acc a with | .error e => e | .ok _ => .bogus), s')
          else match f acc a with
            | .ok acc' => reduceLoop g m f c fuel acc' s'
            | .error _ => (.error .bogus, s')
        | _ => (.error .bogus, s')

/-- a deferred `s.Close()` runs on every path, if the `defer` statement is there (as the first statement) -/
def deferClose (present : Bool) (m : SM σ α) (s : σ) : σ := if present then m.close s else s

/-- `stream.Reduce`. -/
def reduce {γ : Type x} (m : SM σ α) (f : γ → α → Except Err γ) (c : Bool) (fuel : Nat) (init : γ) (s : σ) : ROut γ × σ :=
  let (r, s') := reduceLoop reduceG m f c fuel init s
  (r, deferClose stReduceDefersClose m s')

/-- `stream.Collect`. -/
def collect (m : SM σ α) (c : Bool) (fuel : Nat) (s : σ) : ROut (List α) × σ :=
  let (r, s') := reduceLoop collectG m (fun (acc : List α) a => .ok (acc ++ [a])) c fuel [] s
  (r, deferClose stCollectDefersClose m s')

def lastStore (buf : List (Option α)) (i n : Int) (a : α) : Option (List (Option α)) :=
  if stLastStoreGuard n then
    if n = 0 then none else some (buf.set (stLastSlot i n).toNat (some a))
  else some buf

def lastLoop (m : SM σ α) (n : Int) (c : Bool) :
    Nat → List (Option α) → Int → σ → ROut (List (Option α) × Int) × σ
  | 0, _, _, s => (.fuel, s)
  | fuel + 1, buf, i, s =>
    match m.step s c with
    | (.skip, s') => lastLoop m n c fuel buf i s'
    | (r, s') =>
      let k := r.code
      if stLastEndGuard k then (.ok (buf, i), s')                 -- `break`
      else if stLastErrGuard k then (rret (stLastErrRet k) (.error .bogus) r.held, s')
      else match r with
        | .item a =>
          match lastStore buf i n a with
          | none => (.panic, s')
          | some buf' => lastLoop m n c fuel buf' (if stLastCounts then i + 1 else i) s'
        | _ => (.error .bogus, s')

def lastFinish (buf : List (Option α)) (i n : Int) : ROut (List (Option α)) :=
  if stLastShort i n then rret (stLastShortRet 0) (.ok (buf.take (stLastTake i n 0).toNat)) .bogus
  else if stLastRotGuard n then
    if n = 0 then .panic
    else
      let idx := stLastIdx i n
      let out : List (Option α) := List.replicate n.toNat none
      let a := buf.drop (stLastFrom i n idx).toNat
      let out := a ++ out.drop a.length
      let split := stLastSplit n idx
      if split < 0 || split > n then .panic
      else
        let k := split.toNat
        let b := buf.take (stLastUpto i n idx).toNat
        rret (stLastRet 0) (.ok ((out.take k ++ b ++ out.drop (k + b.length)).take n.toNat)) .bogus
  else rret (stLastRet 0) (.ok (List.replicate n.toNat none)) .bogus

/-- `stream.Last(ctx, s, n)`, `n ≥ 0`. The deferred `Close` also runs when the body panics. -/
def last (m : SM σ α) (n : Int) (c : Bool) (fuel : Nat) (s : σ) : ROut (List (Option α)) × σ :=
  if n < 0 then (.panic, deferClose stLastDefersClose m s)
  else
    let (r, s') := lastLoop m n c fuel (List.replicate n.toNat none) 0 s
    let r' : ROut (List (Option α)) := match r with
      | .ok (buf, i) => lastFinish buf i n
      | .error e => .error e
      | .panic => .panic
      | .fuel => .fuel
    (r', deferClose stLastDefersClose m s')

/-- `stream.One`, after its first `Next` answered `r`: `err == End` → `return zero, ErrEmpty`;
`err != nil` → `return zero, err` -/
def oneFirst (r : SStep α) : Option (ROut α) :=
  let k := r.code
  if stOneEmptyGuard k then some (rret (stOneEmptyRet k) (.error .bogus) r.held)
  else if stOneErr1Guard k then some (rret (stOneErr1Ret k) (.error .bogus) r.held)
  else none

/-- … and after its second `Next` answered `r`: `err == End` → `return x, nil`; `err != nil` → `return zero, err`;
else `return zero, ErrMoreThanOne` -/
def oneSecond (x : α) (r : SStep α) : ROut α :=
  let k := r.code
  if stOneOkGuard k then rret (stOneOkRet k) (.ok x) r.held
  else if stOneErr2Guard k then rret (stOneErr2Ret k) (.error .bogus) r.held
  else rret (stOneMoreRet k) (.error .bogus) r.held

/-- `stream.One`. -/
def one (m : SM σ α) (c : Bool) (fuel : Nat) (s : σ) : ROut α × σ :=
  let (r, s') : ROut α × σ :=
    match drive m c fuel s with
    | (none, s') => (.fuel, s')
    | (some .skip, s') => (.fuel, s')
    | (some r1, s') =>
      match oneFirst r1 with
      | some out => (out, s')
      | none =>
        match r1 with
        | .item x =>
          match drive m c fuel s' with
          | (none, s'') => (.fuel, s'')
          | (some .skip, s'') => (.fuel, s'')
          | (some r2, s'') => (oneSecond x r2, s'')
        | _ => (.error .bogus, s')
  (r, deferClose stOneDefersClose m s')

/-- `xrand.SampleStream` = `rSampleStream(ctx, defaultRand{}, s, k)` (regenerated body); `rSampleStream` as
far as C08 / C09 are concerned: reads the stream to its end (or to the first error), then the deferred
`Close` runs. The answer is the number of items read. -/
def rSampleCount (m : SM σ α) (c : Bool) (fuel : Nat) (s : σ) : ROut Nat × σ :=
  let (r, s') := reduceLoop sampleG m (fun (acc : Nat) _ => .ok (acc + 1)) c fuel 0 s
  (r, deferClose sampleStreamDefersClose m s')

def sampleCount (m : SM σ α) (c : Bool) (fuel : Nat) (s : σ) : ROut Nat × σ :=
  sampleStreamW (fun (c : Bool) (_ : Unit) (s : σ) (fuel : Nat) => rSampleCount m c fuel s) () c s fuel

end Juniper.Model.Stream
