import Juniper.Generated.Comb
import Juniper.Model.Iter
/-!
# Executable model of the caller's-goroutine part of `stream/stream.go` (C07, C08, C09)

Same granularity as `Model/Iter.lean`: a stream machine `SM σ α` has a `step` that performs at most
one pull from its source under the per-call context flag (`true` = live, `false` = expired) and
answers `item a | end_ | err e | skip`, and a `close`. Sources are *fault scripts* with ghost
`Next`/`Close` logs. Guards, flag updates, `Close` forwarding and `defer s.Close()` are the
regenerated facts of `Juniper.Gen.Comb`. Core Lean only.
-/
namespace Juniper.Model.Stream
open Juniper.Gen.Comb
universe u v w x

/-- Errors, by provenance (the harness injects distinguishable error values). -/
inductive Err where
  | ctx                    -- ctx.Err() of an expired per-call context
  | transient (n : Nat)    -- source failed once; the next call continues
  | fatal (n : Nat)        -- source failed for good (sticky)
  | cb (n : Nat)           -- a user callback failed
  | empty                  -- stream.ErrEmpty
  | moreThanOne            -- stream.ErrMoreThanOne
  deriving Repr, DecidableEq

/-- A failed `Next` that "costs nothing": expired context or transient source failure. -/
def Err.soft : Err → Bool
  | .ctx => true
  | .transient _ => true
  | _ => false

inductive SStep (α : Type v) where
  | item (a : α)
  | skip
  | end_
  | err (e : Err)
  deriving Repr, DecidableEq

structure SM (σ : Type u) (α : Type v) where
  step : σ → Bool → SStep α × σ
  close : σ → σ

variable {σ : Type u} {τ : Type w} {α : Type v} {β : Type v}

/-! ## Scripted source with ghost logs -/

inductive Ev (α : Type v) where
  | item (a : α)
  | transient (n : Nat)
  | fatal (n : Nat)
  deriving Repr, DecidableEq

structure Src (α : Type v) where
  script : List (Ev α)
  calls : Nat := 0     -- Next calls with a live context
  pulled : Nat := 0    -- items handed out
  closes : Nat := 0    -- Close calls
  after : Nat := 0     -- Next calls that arrived after a Close
  deriving Repr

def Src.of (sc : List (Ev α)) : Src α := { script := sc }

def srcStep (s : Src α) (c : Bool) : SStep α × Src α :=
  -- a call whose context has already expired is answered before anything is touched (it is only
  -- logged when it arrives after Close)
  if !c then (.err .ctx, { s with after := if s.closes > 0 then s.after + 1 else s.after })
  else
  let s := { s with calls := s.calls + 1, after := if s.closes > 0 then s.after + 1 else s.after }
  match s.script with
    | [] => (.end_, s)
    | .item a :: r => (.item a, { s with script := r, pulled := s.pulled + 1 })
    | .transient n :: r => (.err (.transient n), { s with script := r })
    | .fatal n :: _ => (.err (.fatal n), s)

def srcClose (s : Src α) : Src α := { s with closes := s.closes + 1 }

def src : SM (Src α) α := ⟨srcStep, srcClose⟩

/-- `stream.Empty()`. -/
def empty : SM Unit α := ⟨fun u _ => (.end_, u), id⟩

/-- `stream.Error(err)`. -/
def error (e : Err) : SM Unit α := ⟨fun u _ => (.err e, u), id⟩

/-- `stream.FromIterator(iter)`: checks the context, then pulls; `Close` does nothing. -/
def fromIterator (m : Iter.IM σ α) : SM σ α :=
  ⟨fun s c =>
    if !c then (.err .ctx, s)
    else match m.step s with
      | (.item a, s') => (.item a, s')
      | (.skip, s') => (.skip, s')
      | (.done, s') => (.end_, s'),
   id⟩

/-! ## Peekable -/

structure PeekSt (σ : Type u) (α : Type v) where
  inner : σ
  curr : Option α := none

def peekNext (m : SM σ α) (p : PeekSt σ α) (c : Bool) : SStep α × PeekSt σ α :=
  if stPeekNextHas p.curr.isSome then
    match p.curr with
    | some a => (.item a, { p with curr := if stPeekNextClearsHas then none else some a })
    | none => (.skip, p)
  else
    let (r, s') := m.step p.inner c
    (r, { p with inner := s' })

def peekPeek (m : SM σ α) (p : PeekSt σ α) (c : Bool) : SStep α × PeekSt σ α :=
  if stPeekPulls p.curr.isSome then
    match m.step p.inner c with
    | (.item a, s') => (.item a, { inner := s', curr := if stPeekSetsHas then some a else none })
    | (r, s') => (r, { inner := s', curr := none })
  else
    match p.curr with
    | some a => (.item a, p)
    | none => (.end_, p)

def peekClose (m : SM σ α) (p : PeekSt σ α) : PeekSt σ α :=
  if stPeekCloseForwards then { p with inner := m.close p.inner } else p

def withPeek (m : SM σ α) : SM (PeekSt σ α) α := ⟨peekNext m, peekClose m⟩

/-! ## Combinators -/

structure ChunkSt (σ : Type u) (α : Type v) where
  inner : σ
  pend : List α := []

def chunk (size : Int) (m : SM σ α) : SM (ChunkSt σ α) (List α) :=
  ⟨fun st c =>
    match m.step st.inner c with
    | (.item a, s') =>
      let p := st.pend ++ [a]
      if stChunkFull (p.length : Int) size then (.item p, { inner := s', pend := [] })
      else (.skip, { inner := s', pend := p })
    | (.skip, s') => (.skip, { st with inner := s' })
    | (.end_, s') =>
      if stChunkFlush (st.pend.length : Int) then (.item st.pend, { inner := s', pend := [] })
      else (.end_, { st with inner := s' })
    | (.err e, s') => (.err e, { st with inner := s' }),
   fun st => if stChunkCloseForwards then { st with inner := m.close st.inner } else st⟩

structure CompactSt (σ : Type u) (α : Type v) where
  inner : σ
  first : Bool := true
  prev : Option α := none

def compact (eq : α → α → Bool) (m : SM σ α) : SM (CompactSt σ α) α :=
  ⟨fun st c =>
    match m.step st.inner c with
    | (.item a, s') =>
      let setPrev : Option α := if stCompactSetsPrev ≥ 2 then some a else st.prev
      if st.first then
        (.item a, { inner := s', first := if stCompactClearsFirst then false else true, prev := setPrev })
      else
        match st.prev with
        | some p => if !eq p a then (.item a, { st with inner := s', prev := setPrev })
                    else (.skip, { st with inner := s' })
        | none => (.item a, { st with inner := s', prev := setPrev })
    | (.skip, s') => (.skip, { st with inner := s' })
    | (.end_, s') => (.end_, { st with inner := s' })
    | (.err e, s') => (.err e, { st with inner := s' }),
   fun st => if stCompactCloseForwards then { st with inner := m.close st.inner } else st⟩

/-- Wrappers that keep no state of their own carry the inner state in a one-field structure so
that `close` forwarding is uniform. -/
structure Wrap (σ : Type u) where
  inner : σ

def filter (keep : α → Except Err Bool) (m : SM σ α) : SM (Wrap σ) α :=
  ⟨fun st c =>
    match m.step st.inner c with
    | (.item a, s') =>
      match keep a with
      | .error e => (.err e, ⟨s'⟩)
      | .ok true => (.item a, ⟨s'⟩)
      | .ok false => (.skip, ⟨s'⟩)
    | (.skip, s') => (.skip, ⟨s'⟩)
    | (.end_, s') => (.end_, ⟨s'⟩)
    | (.err e, s') => (.err e, ⟨s'⟩),
   fun st => if stFilterCloseForwards then ⟨m.close st.inner⟩ else st⟩

def map (f : α → Except Err β) (m : SM σ α) : SM (Wrap σ) β :=
  ⟨fun st c =>
    match m.step st.inner c with
    | (.item a, s') =>
      match f a with
      | .error e => (.err e, ⟨s'⟩)
      | .ok b => (.item b, ⟨s'⟩)
    | (.skip, s') => (.skip, ⟨s'⟩)
    | (.end_, s') => (.end_, ⟨s'⟩)
    | (.err e, s') => (.err e, ⟨s'⟩),
   fun st => if stMapCloseForwards then ⟨m.close st.inner⟩ else st⟩

structure FirstSt (σ : Type u) where
  inner : σ
  x : Int

def first (m : SM σ α) : SM (FirstSt σ) α :=
  ⟨fun st c =>
    if stFirstDone st.x then (.end_, st)
    else
      match m.step st.inner c with
      | (.item a, s') => (.item a, { inner := s', x := if stFirstDecrements then st.x - 1 else st.x })
      | (r, s') => (r, { st with inner := s' }),
   fun st => if stFirstCloseForwards then { st with inner := m.close st.inner } else st⟩

/-- `flattenStream{inner, curr}`; `finished` is ghost: the final states of the inner streams that ended. -/
structure FlattenSt (σ : Type u) (τ : Type w) where
  outer : σ
  curr : Option τ := none
  finished : List τ := []

def flatten (mo : SM σ τ) (mi : SM τ α) : SM (FlattenSt σ τ) α :=
  ⟨fun st c =>
    match st.curr with
    | none =>
      match mo.step st.outer c with
      | (.item x, s') => (.skip, { st with outer := s', curr := some x })
      | (.skip, s') => (.skip, { st with outer := s' })
      | (.end_, s') => (.end_, { st with outer := s' })
      | (.err e, s') => (.err e, { st with outer := s' })
    | some x =>
      match mi.step x c with
      | (.item a, x') => (.item a, { st with curr := some x' })
      | (.skip, x') => (.skip, { st with curr := some x' })
      | (.err e, x') => (.err e, { st with curr := some x' })
      | (.end_, x') =>
        let x'' := if stFlattenClosesEnded then mi.close x' else x'
        if stFlattenClearsCurr then (.skip, { st with curr := none, finished := st.finished ++ [x''] })
        else (.skip, { st with curr := some x'' }),
   fun st =>
    let st := match st.curr with
      | some x => if stFlattenCloseCurr then { st with curr := some (mi.close x) } else st
      | none => st
    if stFlattenCloseForwards then { st with outer := mo.close st.outer } else st⟩

structure FlattenSlicesSt (σ : Type u) (α : Type v) where
  inner : σ
  buffer : List α := []

def flattenSlices (m : SM σ (List α)) : SM (FlattenSlicesSt σ α) α :=
  ⟨fun st c =>
    match st.buffer with
    | a :: r => (.item a, { st with buffer := r })
    | [] =>
      match m.step st.inner c with
      | (.item xs, s') => (.skip, { inner := s', buffer := xs })
      | (.skip, s') => (.skip, { st with inner := s' })
      | (.end_, s') => (.end_, { st with inner := s' })
      | (.err e, s') => (.err e, { st with inner := s' }),
   fun st => if stFlattenSlicesCloseForwards then { st with inner := m.close st.inner } else st⟩

/-- `joinStream{remaining}`; `finished` is ghost (the streams that ended and were dropped). -/
structure JoinSt (σ : Type u) where
  remaining : List σ
  finished : List σ := []

def join (m : SM σ α) : SM (JoinSt σ) α :=
  ⟨fun st c =>
    match st.remaining with
    | [] => (.end_, st)
    | s :: r =>
      match m.step s c with
      | (.item a, s') => (.item a, { st with remaining := s' :: r })
      | (.skip, s') => (.skip, { st with remaining := s' :: r })
      | (.err e, s') => (.err e, { st with remaining := s' :: r })
      | (.end_, s') =>
        let s'' := if stJoinClosesEnded then m.close s' else s'
        if stJoinAdvances then (.skip, { remaining := r, finished := st.finished ++ [s''] })
        else (.skip, { st with remaining := s'' :: r }),
   fun st => if stJoinCloseForwards then { st with remaining := st.remaining.map m.close } else st⟩

structure WhileSt (σ : Type u) (α : Type v) where
  inner : σ
  held : Option α := none
  done : Bool := false

/-- the part of `whileStream.Next` after an item is held -/
def whileEval (f : α → Except Err Bool) (st : WhileSt σ α) (a : α) : SStep α × WhileSt σ α :=
  match f a with
  | .error e => (.err e, st)
  | .ok false => (.end_, { st with done := if stWhileSetsDone then true else st.done })
  | .ok true => (.item a, { st with held := if stWhileClearsHas then none else st.held })

def while_ (f : α → Except Err Bool) (m : SM σ α) : SM (WhileSt σ α) α :=
  ⟨fun st c =>
    if stWhileDone st.done then (.end_, st)
    else if stWhilePulls st.held.isSome then
      match m.step st.inner c with
      | (.item a, s') => whileEval f { st with inner := s', held := if stWhileSetsHas then some a else none } a
      | (.skip, s') => (.skip, { st with inner := s' })
      | (.end_, s') => (.end_, { st with inner := s' })
      | (.err e, s') => (.err e, { st with inner := s' })
    else
      match st.held with
      | some a => whileEval f st a
      | none => (.skip, st),
   fun st => if stWhileCloseForwards then { st with inner := m.close st.inner } else st⟩

/-! ## Runs: outer port, inner ports, shared peekable -/

/-- `live = some (g, prev, detached)`: handle of the inner stream handed out last, the item it
compares with (the previous item of its run), whether its `parent` is nil (inner `Close`, or the outer
`Next` moved on). -/
structure RunsSt (σ : Type u) (α : Type v) where
  pk : PeekSt σ α
  gen : Nat := 0
  live : Option (Nat × α × Bool) := none

def runsInner (same : α → α → Bool) (m : SM σ α) (g : Nat) (st : RunsSt σ α) (c : Bool) :
    SStep α × RunsSt σ α :=
  match st.live with
  | some (g', prev, det) =>
    if g' ≠ g || det then (.end_, st)
    else
      match peekPeek m st.pk c with
      | (.item a, pk') =>
        if !same prev a then (.end_, { st with pk := pk' })
        else
          let (r, pk'') := peekNext m pk' c
          (r, { st with pk := pk'', live := some (g', if stRunsInnerTracksPrev then a else prev, det) })
      | (r, pk') => (r, { st with pk := pk' })
  | none => (.end_, st)

def runsInnerClose (g : Nat) (st : RunsSt σ α) : RunsSt σ α :=
  match st.live with
  | some (g', prev, det) =>
    if g' = g then { st with live := some (g', prev, if stRunsInnerCloseDetaches then true else det) } else st
  | none => st

def runsOuter (same : α → α → Bool) (m : SM σ α) (st : RunsSt σ α) (c : Bool) : SStep Nat × RunsSt σ α :=
  match st.live with
  | some (g, _, _) =>
    match runsInner same m g st c with
    | (.end_, st') =>
      let st' := if stRunsClosesCurr then runsInnerClose g st' else st'
      (.skip, { st' with live := if stRunsClearsCurr then none else st'.live })
    | (.err e, st') => (.err e, st')
    | (_, st') => (.skip, st')
  | none =>
    match peekPeek m st.pk c with
    | (.item a, pk') => (.item (st.gen + 1), { pk := pk', gen := st.gen + 1, live := some (st.gen + 1, a, false) })
    | (.skip, pk') => (.skip, { st with pk := pk' })
    | (.end_, pk') => (.end_, { st with pk := pk' })
    | (.err e, pk') => (.err e, { st with pk := pk' })

def runsClose (m : SM σ α) (st : RunsSt σ α) : RunsSt σ α :=
  if stRunsCloseForwards then { st with pk := peekClose m st.pk } else st

/-- The documented protocol as one stream of runs: outer `Next`; then the inner stream is read
until it ends (`take = none`) or `take` items were taken; a fully read inner stream is closed when
`closeInner`; then the outer stream is advanced again. -/
structure RunsProtoSt (σ : Type u) (α : Type v) where
  rs : RunsSt σ α
  cur : Option (Nat × List α × Nat) := none

def runsProto (same : α → α → Bool) (take : Option Nat) (closeInner : Bool) (m : SM σ α) :
    SM (RunsProtoSt σ α) (List α) :=
  ⟨fun st c =>
    match st.cur with
    | none =>
      match runsOuter same m st.rs c with
      | (.item g, rs') => (.skip, { rs := rs', cur := some (g, [], 0) })
      | (.skip, rs') => (.skip, { st with rs := rs' })
      | (.end_, rs') => (.end_, { st with rs := rs' })
      | (.err e, rs') => (.err e, { st with rs := rs' })
    | some (g, acc, k) =>
      if Iter.takeReached take k then (.item acc, { st with cur := none })
      else
        match runsInner same m g st.rs c with
        | (.item a, rs') => (.skip, { rs := rs', cur := some (g, acc ++ [a], k + 1) })
        | (.skip, rs') => (.skip, { st with rs := rs' })
        | (.err e, rs') => (.err e, { st with rs := rs' })
        | (.end_, rs') =>
          (.item acc, { rs := if closeInner then runsInnerClose g rs' else rs', cur := none }),
   fun st => { st with rs := runsClose m st.rs }⟩

/-! ## Consumer side -/

/-- One consumer-level `Next(ctx)`. `none` = fuel exhausted. -/
def drive (m : SM σ α) (c : Bool) : Nat → σ → Option (SStep α) × σ
  | 0, s => (none, s)
  | fuel + 1, s =>
    match m.step s c with
    | (.skip, s') => drive m c fuel s'
    | (r, s') => (some r, s')

/-- Result of a reducer. -/
inductive ROut (ρ : Type v) where
  | ok (r : ρ)
  | error (e : Err)
  | panic
  | fuel
  deriving Repr, DecidableEq

def reduceLoop {γ : Type x} (m : SM σ α) (f : γ → α → Except Err γ) (c : Bool) : Nat → γ → σ → ROut γ × σ
  | 0, _, s => (.fuel, s)
  | fuel + 1, acc, s =>
    match m.step s c with
    | (.item a, s') =>
      match f acc a with
      | .error e => (.error e, s')
      | .ok acc' => reduceLoop m f c fuel acc' s'
    | (.skip, s') => reduceLoop m f c fuel acc s'
    | (.end_, s') => (.ok acc, s')
    | (.err e, s') => (.error e, s')

/-- a deferred `s.Close()` runs on every path, if the `defer` statement is there -/
def deferClose (present : Bool) (m : SM σ α) (s : σ) : σ := if present then m.close s else s

/-- `stream.Reduce`. -/
def reduce {γ : Type x} (m : SM σ α) (f : γ → α → Except Err γ) (c : Bool) (fuel : Nat) (init : γ) (s : σ) : ROut γ × σ :=
  let (r, s') := reduceLoop m f c fuel init s
  (r, deferClose stReduceDefersClose m s')

/-- `stream.Collect`. -/
def collect (m : SM σ α) (c : Bool) (fuel : Nat) (s : σ) : ROut (List α) × σ :=
  let (r, s') := reduceLoop m (fun (acc : List α) a => .ok (acc ++ [a])) c fuel [] s
  (r, deferClose stCollectDefersClose m s')

def lastStore (buf : List (Option α)) (i n : Int) (a : α) : Option (List (Option α)) :=
  if stLastStoreGuard n then
    if n = 0 then none else some (buf.set (stLastSlot i n).toNat (some a))
  else some buf

def lastLoop (m : SM σ α) (n : Int) (c : Bool) :
    Nat → List (Option α) → Int → σ → ROut (List (Option α) × Int) × σ
  | 0, _, _, s => (.fuel, s)
  | fuel + 1, buf, i, s =>
    match m.step s c with
    | (.item a, s') =>
      match lastStore buf i n a with
      | none => (.panic, s')
      | some buf' => lastLoop m n c fuel buf' (if stLastCounts then i + 1 else i) s'
    | (.skip, s') => lastLoop m n c fuel buf i s'
    | (.end_, s') => (.ok (buf, i), s')
    | (.err e, s') => (.error e, s')

def lastFinish (buf : List (Option α)) (i n : Int) : ROut (List (Option α)) :=
  if stLastShort i n then .ok (buf.take i.toNat)
  else if stLastRotGuard n then
    if n = 0 then .panic
    else
      let idx := stLastIdx i n
      let out : List (Option α) := List.replicate n.toNat none
      let a := buf.drop idx.toNat
      let out := a ++ out.drop a.length
      let split := stLastSplit n idx
      if split < 0 || split > n then .panic
      else
        let k := split.toNat
        let b := buf.take idx.toNat
        .ok ((out.take k ++ b ++ out.drop (k + b.length)).take n.toNat)
  else .ok (List.replicate n.toNat none)

/-- `stream.Last(ctx, s, n)`, `n ≥ 0`. The deferred `Close` also runs when the body panics. -/
def last (m : SM σ α) (n : Int) (c : Bool) (fuel : Nat) (s : σ) : ROut (List (Option α)) × σ :=
  if n < 0 then (.panic, deferClose stLastDefersClose m s)
  else
    let (r, s') := lastLoop m n c fuel (List.replicate n.toNat none) 0 s
    let r' : ROut (List (Option α)) := match r with
      | .ok (buf, i) => lastFinish buf i n
      | .error e => .error e
      | .panic => .panic
      | .fuel => .fuel
    (r', deferClose stLastDefersClose m s')

/-- `stream.One`. -/
def one (m : SM σ α) (c : Bool) (fuel : Nat) (s : σ) : ROut α × σ :=
  let (r, s') : ROut α × σ :=
    match drive m c fuel s with
    | (none, s') => (.fuel, s')
    | (some (.end_), s') => (.error .empty, s')
    | (some (.err e), s') => (.error e, s')
    | (some .skip, s') => (.fuel, s')
    | (some (.item x), s') =>
      match drive m c fuel s' with
      | (none, s'') => (.fuel, s'')
      | (some (.end_), s'') => (.ok x, s'')
      | (some (.err e), s'') => (.error e, s'')
      | (some .skip, s'') => (.fuel, s'')
      | (some (.item _), s'') => (.error .moreThanOne, s'')
  (r, deferClose stOneDefersClose m s')

/-- `xrand.rSampleStream` as far as C09 is concerned: reads the stream to its end (or to the first
error), then the deferred `Close` runs. The answer is the number of items read. -/
def sampleCount (m : SM σ α) (c : Bool) (fuel : Nat) (s : σ) : ROut Nat × σ :=
  let (r, s') := reduceLoop m (fun (acc : Nat) _ => .ok (acc + 1)) c fuel 0 s
  (r, deferClose sampleStreamDefersClose m s')

end Juniper.Model.Stream
