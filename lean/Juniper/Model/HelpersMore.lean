import Juniper.Model.HelpersSort
import Juniper.Model.HelpersStdlib
/-!
# Models of the remaining exported helpers of xslices, xsort, xmaps, xmath (C19, extension)

Two kinds of helpers:

* **own loop** (`All`, `CountFunc`, `Fill`, `Group`, `Join`, `LastIndex`, `LastIndexFunc`, `Map`,
  `Reduce`, `Repeat`, `SetFromSlice`, `Set.Add/Remove/Contains`): the loop is mirrored; guards, initial
  values, returned expressions, `make` arguments and the statement lists of the loop bodies are the
  regenerated definitions of `Juniper.Gen.Helpers`. A `for i := range s` loop whose body touches only
  position `i` is a structural recursion over the list.
* **thin wrapper** over the standard library or over another helper (`Any`, `Clone`, `Compact*`,
  `Equal*`, `Filter*`, `Grow`, `Index*`, `Insert`, `Remove`, `Count`, `Clear`, `xsort.Slice*`,
  `OrderedLess`, `Min`, `Max`): the *whole body* is generated (`Gen.Helpers.<name>W`, callee as a
  parameter) and instantiated here with the documented contract of the callee
  (`Model/HelpersStdlib.lean`, trusted base).

`xsort.Greater/LessOrEqual/GreaterOrEqual/Equal` and the closure of `xsort.Reverse` are generated
whole as Boolean functions of `less(a,b)` and `less(b,a)`.
-/
namespace Juniper.Model.Helpers
open Juniper.Gen.Helpers
open Juniper.Model.Stdlib (Sl)

variable {α β κ : Type}

/-! ## xslices: own loops -/

/-- `xslices.All` -/
def all (f : α → Bool) : List α → Bool
  | [] => allEndVal
  | x :: xs => if allStops (f x) then allStopVal else all f xs

def countFuncLoop (f : α → Bool) : List α → Int → Int
  | [], n => n
  | x :: xs, n => countFuncLoop f xs (if cfTakes (f x) then n + (cfIncs : Int) else n)

/-- `xslices.CountFunc` -/
def countFunc (f : α → Bool) (s : List α) : Int := cfRet (countFuncLoop f s cfInit)

/-- `xslices.Count` (generated body over `CountFunc`) -/
def count [DecidableEq α] (s : List α) (x : α) : Int := countW (fun s f => countFunc f s) s x

/-- `xslices.Fill`: the caller's array afterwards (`for i := range s { s[i] = x }`) -/
def fill (s : List α) (x : α) : List α :=
  s.map fun old => if fillBody = ["s[i] = x"] then x else old

/-- `xslices.Clear` (generated body over `Fill`) -/
def clear (zero : α) (s : List α) : List α := clearW (fun s x => fill s x) zero s

def groupLoop [DecidableEq κ] (f : α → κ) : List α → List (κ × List α) → List (κ × List α)
  | [], m => m
  | x :: xs, m =>
    groupLoop f xs (if groupBody = ["g := f(s[i])", "m[g] = append(m[g], s[i])"]
      then mput m (f x) ((mget m (f x)).getD [] ++ [x]) else m)

/-- `xslices.Group`: the map as an association list -/
def group [DecidableEq κ] (f : α → κ) (s : List α) : List (κ × List α) := groupLoop f s []

def joinSum : List (List α) → Int → Int
  | [], n => n
  | l :: ls, n => joinSum ls (if joinSumBody = ["n += len(in[i])"] then n + l.length else n)

/-- `out = append(out, l...)` on a slice with contents `out` and capacity `cap` (`none`: the
capacity is no longer the one that was asked for, because `append` had to reallocate) -/
def appendTo (out : List α) (cap : Option Int) (l : List α) : List α × Option Int :=
  (out ++ l, match cap with
    | some c => if ((out ++ l).length : Int) ≤ c then some c else none
    | none => none)

def joinAppend : List (List α) → List α × Option Int → List α × Option Int
  | [], st => st
  | l :: ls, st =>
    joinAppend ls (if joinAppendBody = ["out = append(out, in[i]...)"] then appendTo st.1 st.2 l else st)

/-- `xslices.Join`: `(contents, capacity)` of the result; `none` = panic (`make` with bad sizes) -/
def join (zero : α) (ins : List (List α)) : Option (List α × Option Int) :=
  let n := joinSum ins joinN0
  let len := joinMakeLen n
  let cap := joinMakeCap n
  if len < 0 ∨ cap < len then none
  else some (joinAppend ins (List.replicate len.toNat zero, some cap))

/-- the loop shared by `LastIndex` and `LastIndexFunc`, with the guards of either as parameters -/
def lastIdxLoop (cond : Int → Bool) (hit : α → Bool) (ret : Int → Int) (notFound : Int) (decs : Nat)
    (s : List α) : Nat → Int → Option Int
  | 0, _ => some notFound
  | fuel + 1, i =>
    if cond i then
      match getI s i with
      | none => none
      | some y => if hit y then some (ret i) else lastIdxLoop cond hit ret notFound decs s fuel (i - (decs : Int))
    else some notFound

/-- `xslices.LastIndex`; `none` = index out of range -/
def lastIndex [DecidableEq α] (s : List α) (x : α) : Option Int :=
  lastIdxLoop liCond (fun y => liHit (decide (y = x))) liRet liNone liDecs s (s.length + 1) (liStart s.length)

/-- `xslices.LastIndexFunc` -/
def lastIndexFunc (s : List α) (f : α → Bool) : Option Int :=
  lastIdxLoop lifCond (fun y => lifHit (f y)) lifRet lifNone lifDecs s (s.length + 1) (lifStart s.length)

/-- `xslices.Map`; `none` = panic (`make` with a negative length, `out[i]` out of range) -/
def map (zero : β) (f : α → β) (s : List α) : Option (List β) :=
  let m := mapMake s.length
  if m < 0 ∨ m < s.length then none
  else some ((s.map fun x => if mapBody = ["out[i] = f(s[i])"] then f x else zero) ++
    List.replicate (m.toNat - s.length) zero)

def reduceLoop (f : β → α → β) : List α → β → β
  | [], out => out
  | x :: xs, out => reduceLoop f xs (if reduceBody = ["out = f(out, s[i])"] then f out x else out)

/-- `xslices.Reduce` -/
def reduce (zero : β) (s : List α) (initial : β) (f : β → α → β) : β :=
  reduceLoop f s (if reduceStartsAtInitial then initial else zero)

/-- `xslices.Repeat`; `none` = panic (`make` with a negative length) -/
def repeatN (zero : α) (x : α) (n : Int) : Option (List α) :=
  if repeatMake n < 0 then none
  else if repeatMake n > Stdlib.allocLimit then none     -- `make`: len out of range
  else some ((List.replicate (repeatMake n).toNat zero).map fun old => if repeatBody = ["out[i] = s"] then x else old)

/-! ## xslices: wrappers over package slices (`Sl` = slice value with its backing array) -/

/-- `xslices.Any` -/
def any (s : Sl α) (f : α → Bool) : Bool := anyW Stdlib.containsFunc s f
/-- `xslices.Clone` -/
def clone (s : Sl α) : Sl α := cloneW Stdlib.clone s
/-- `xslices.Compact` -/
def compact [DecidableEq α] (zero : α) (s : Sl α) : Sl α := compactW (Stdlib.compact zero) Stdlib.clone s
/-- `xslices.CompactInPlace` -/
def compactInPlace [DecidableEq α] (zero : α) (s : Sl α) : Sl α := compactInPlaceW (Stdlib.compact zero) s
/-- `xslices.CompactFunc` -/
def compactFunc (zero : α) (s : Sl α) (eq : α → α → Bool) : Sl α :=
  compactFuncW (Stdlib.compactFunc zero) Stdlib.clone s eq
/-- `xslices.CompactInPlaceFunc` -/
def compactInPlaceFunc (zero : α) (s : Sl α) (eq : α → α → Bool) : Sl α :=
  compactInPlaceFuncW (Stdlib.compactFunc zero) s eq
/-- `xslices.Equal` -/
def equal [DecidableEq α] (a b : Sl α) : Bool := equalW Stdlib.equal a b
/-- `xslices.EqualFunc` -/
def equalFunc (a b : Sl α) (eq : α → α → Bool) : Bool := equalFuncW Stdlib.equalFunc a b eq
/-- `xslices.Filter` -/
def filter (zero : α) (s : Sl α) (keep : α → Bool) : Sl α := filterW (Stdlib.deleteFunc zero) Stdlib.clone s keep
/-- `xslices.FilterInPlace` -/
def filterInPlace (zero : α) (s : Sl α) (keep : α → Bool) : Sl α := filterInPlaceW (Stdlib.deleteFunc zero) s keep
/-- `xslices.Grow`; `none` = panic -/
def grow (zero : α) (s : Sl α) (n : Int) : Option (Sl α) := growW (Stdlib.grow zero) s n
/-- `xslices.Index` -/
def index [DecidableEq α] (s : Sl α) (x : α) : Int := indexW Stdlib.index s x
/-- `xslices.IndexFunc` -/
def indexFunc (s : Sl α) (f : α → Bool) : Int := indexFuncW Stdlib.indexFunc s f
/-- `xslices.Insert`; `none` = panic -/
def insertAt (s : Sl α) (idx : Int) (values : List α) : Option (Sl α) := insertW Stdlib.insert s idx values
/-- `xslices.Remove`; `none` = panic -/
def remove (zero : α) (s : Sl α) (idx n : Int) : Option (Sl α) := removeW (Stdlib.delete zero) s idx n

/-! ## xsort -/

/-- `xsort.Greater(less, a, b)` -/
def greaterOf (less : α → α → Bool) (a b : α) : Bool := greater (less a b) (less b a)
/-- `xsort.LessOrEqual(less, a, b)` -/
def lessOrEqualOf (less : α → α → Bool) (a b : α) : Bool := lessOrEqual (less a b) (less b a)
/-- `xsort.GreaterOrEqual(less, a, b)` -/
def greaterOrEqualOf (less : α → α → Bool) (a b : α) : Bool := greaterOrEqual (less a b) (less b a)
/-- `xsort.Equal(less, a, b)` -/
def sortEqualOf (less : α → α → Bool) (a b : α) : Bool := sortEqual (less a b) (less b a)
/-- the closure returned by `xsort.Reverse(less)` -/
def reverseOf (less : α → α → Bool) (a b : α) : Bool := sortReverse (less a b) (less b a)
/-- `xsort.OrderedLess` at `int` -/
def orderedLess (a b : Int) : Bool := orderedLessW Stdlib.cmpLess a b
/-- `xsort.Slice` (in place; which arrangement of equivalent items is unspecified) -/
def sortSlice (zero : α) (x : Sl α) (less : α → α → Bool) : Sl α :=
  sortSliceW Stdlib.sortSlice (Stdlib.elemAt zero) x less
/-- `xsort.SliceStable` (in place) -/
def sortSliceStable (zero : α) (x : Sl α) (less : α → α → Bool) : Sl α :=
  sortSliceStableW Stdlib.sortSliceStable (Stdlib.elemAt zero) x less
/-- `xsort.SliceIsSorted` -/
def sortSliceIsSorted (zero : α) (x : Sl α) (less : α → α → Bool) : Bool :=
  sortSliceIsSortedW Stdlib.sortSliceIsSorted (Stdlib.elemAt zero) x less

/-! ## xmaps.Set (sets as lists, as in `HelpersSort.lean`; Go maps by their documented semantics) -/

/-- `Set.Add`: the set afterwards -/
def setAdd [DecidableEq κ] (s : List κ) (item : κ) : List κ :=
  if setAddBody = ["s[item] = struct{}{}"] then (if item ∈ s then s else s ++ [item]) else s

/-- `Set.Remove`: the set afterwards -/
def setRemove [DecidableEq κ] (s : List κ) (item : κ) : List κ :=
  if setRemoveBody = ["delete(s, item)"] then s.filter (fun y => decide (y ≠ item)) else s

/-- `Set.Contains` -/
def setContains [DecidableEq κ] (s : List κ) (item : κ) : Bool :=
  if setContainsBody = ["_, ok := s[item]", "return ok"] then decide (item ∈ s) else false

/-- `SetFromSlice` -/
def setFromSlice [DecidableEq κ] (items : List κ) : List κ :=
  items.foldl (fun r k => if sfsBody = ["result[k] = struct{}{}"] then (if k ∈ r then r else r ++ [k]) else r) []

/-! ## xmath -/

/-- `xmath.Min` at `int` -/
def xmin (a b : Int) : Int := minW Stdlib.builtinMin a b
/-- `xmath.Max` at `int` -/
def xmax (a b : Int) : Int := maxW Stdlib.builtinMax a b

end Juniper.Model.Helpers
