import Juniper.Model.BTree
import Juniper.Generated.TreeAccess
set_option linter.unusedVariables false
/-!
# Comparison counting of `Get` / `Contains` (C03: "at most 15 key comparisons in each level")

Executable, core-only. The count is *derived from the functional search* `searchNode` (no second mirror
of the loop: `searchIters` is defined from `searchNode`'s result — the loop of `btree.searchNode` returns
from inside iteration `idx`, or falls out after `n` iterations) and from numbers regenerated from
`btree.go` on every run (`Juniper.Gen.TreeAccess`, `tools/gofacts/sites_tree_cost.go`):

* `searchLoopCompares` — comparator calls made by one iteration of `searchNode`'s loop,
* `getLoopSearches` / `containsLoopSearches` — `searchNode` calls made by one iteration (= one level) of
  the descent loop of `Get` / `Contains`.

That nothing compares *outside* those loops and that each of the three functions has exactly one loop is
the tie lemma `cost_skeleton` (`Proofs/TreeCost.lean`), used inside `getCost_le` / `containsCost_le`.
-/
namespace Juniper.Model.BTree
open Juniper.Gen.Tree Juniper.Gen.TreeAccess

variable {K V : Type}

/-- loop iterations `searchNode` enters on a node with entries `kvs`: it returns from inside iteration
`idx` (found, or first greater key), or leaves the loop after all `n` of them (`idx = n`). -/
def searchIters (cmp : K → K → Int) (k : K) (kvs : List (K × V)) : Nat :=
  min ((searchNode cmp k kvs).1 + 1) kvs.length

/-- number of comparator calls one `searchNode` call makes. -/
def searchCost (cmp : K → K → Int) (k : K) (kvs : List (K × V)) : Nat :=
  searchLoopCompares * searchIters cmp k kvs

/-- comparator calls per visited node (top-down along the search path of `k`), for a descent loop that
calls `searchNode` `calls` times per level. -/
def levelCosts (calls : Nat) (cmp : K → K → Int) (k : K) (x : Node K V) : List Nat :=
  match x with
  | .mk _ kvs kids =>
    match searchNode cmp k kvs with
    | (_, true) => [calls * searchCost cmp k kvs]
    | (i, false) =>
      match h : kids[i]? with
      | none => [calls * searchCost cmp k kvs]
      | some c => calls * searchCost cmp k kvs :: levelCosts calls cmp k c
termination_by sizeOf x
decreasing_by
  have := List.sizeOf_lt_of_mem (List.mem_of_getElem? h)
  simp only [Node.mk.sizeOf_spec]
  omega

/-- number of comparator calls of `Get`. -/
def getCost (cmp : K → K → Int) (k : K) (x : Node K V) : Nat := (levelCosts getLoopSearches cmp k x).sum
/-- number of comparator calls of `Contains`. -/
def containsCost (cmp : K → K → Int) (k : K) (x : Node K V) : Nat := (levelCosts containsLoopSearches cmp k x).sum

end Juniper.Model.BTree
