import Juniper.Generated.Tree
set_option linter.unusedVariables false
/-!
# Slot-level model of one B-tree node's fixed arrays (C03, "no retained garbage")

`Juniper/Model/BTree.lean` models a node by its *live prefix* (`kvs = keys[:n]`/`values[:n]`, `kids =
children[:n+1]`). The Go node however owns three **fixed-size arrays**

    keys [maxKVs]K      values [maxKVs]V      children [branchFactor]*node

and whatever sits in the slots `keys[n:]`, `values[n:]`, `children[n+1:]` is still referenced from
the live structure as far as the garbage collector is concerned. This file models ONE such array
as a `List (Option α)` of fixed length (`none` = the Go zero value / `nil`; the harness instantiates
keys and values with pointers so that "cleared" is observable), together with the array surgery that
`btree.go` performs, written *literally* as the Go text does it (`copy`, index assignment,
`xslices.Clear`, re-slicing `a[:m]`), **not** in the append style of the tree-level model.
`Juniper/Proofs/TreeSlots.lean` proves that on a *clean* array (live prefix, then only `none`) each
operation (1) yields a clean array again and (2) acts on the live prefix as the append-style list
operation that `Model/BTree.lean` uses.

Every zeroing statement of the Go source (`a[len(a)-1] = zero`, `curr.keys[n-1] = zeroK`,
`left.children[left.n] = nil`, `xslices.Clear(left.keys[left.n:])`, …) enters only through its
*generated presence fact* (`Juniper.Gen.Tree.removeOneZeroesLast`, `removeRightmostZeroesKey`, …,
`overfillClearsChildren`), re-extracted from the source on every run: if the statement is dropped
from `btree.go` the fact becomes `false`, the model keeps the stale slot, and the `slots_refine_*`
proofs (which discharge the facts by `decide`) stop compiling.

Conventions
* a slice `a[:m]` of an array is the prefix `take m`; operating on it leaves `drop m` untouched
  (`onPrefix`);
* out-of-range indices, on which the Go code panics, are totalised here as "no effect" (`List.set`
  out of range, `copy` into an empty destination); every theorem in `Proofs/TreeSlots.lean` carries
  the side condition under which the Go code does not panic, so the totalisation is never used;
* Go's `copy` has `memmove` semantics (overlapping source and destination behave as if the source
  were read first), which is what `copyInto arr i (arr.drop j)` expresses.
-/
namespace Juniper.Model.BTreeSlots
open Juniper.Gen.Tree

variable {α : Type}

/-! ## array lengths (generated) and the fresh node `&node[K, V]{}` -/

/-- `len(node.keys)` -/
def keysCap : Nat := keysLen.toNat
/-- `len(node.values)` -/
def valuesCap : Nat := valuesLen.toNat
/-- `len(node.children)` -/
def childrenCap : Nat := childrenLen.toNat

/-- an array of `cap` zero values: each array of `&node[K, V]{}` -/
def fresh (cap : Nat) : List (Option α) := List.replicate cap none

/-! ## primitives on a slice / array -/

/-- `arr[i] = v` (Go panics if `i ≥ len(arr)`; here: no effect). -/
def setSlot (arr : List (Option α)) (i : Nat) (v : Option α) : List (Option α) := arr.set i v

/-- a zeroing assignment `arr[i] = zero` whose presence in the source is the generated fact
`present`; if the statement were absent the old slot content stays. -/
def zeroSlot (present : Bool) (arr : List (Option α)) (i : Nat) : List (Option α) :=
  if present then setSlot arr i none else arr

/-- `xslices.Clear(arr[i:])`: every slot from `i` on becomes the zero value. -/
def clearFrom (arr : List (Option α)) (i : Nat) : List (Option α) :=
  arr.take i ++ List.replicate (arr.length - i) none

/-- `copy(arr[i:], src)`: overwrites `min (len(arr) - i) (len(src))` slots starting at `i`; length
of `arr` unchanged. -/
def copyInto (arr : List (Option α)) (i : Nat) (src : List (Option α)) : List (Option α) :=
  arr.take i ++ src.take (arr.length - i) ++ arr.drop (i + src.length)

/-- `removeOne(a, idx)`:

    copy(a[idx:], a[idx+1:])
    var zero T
    a[len(a)-1] = zero      -- presence: `removeOneZeroesLast`
-/
def removeOne (a : List (Option α)) (idx : Nat) : List (Option α) :=
  zeroSlot removeOneZeroesLast (copyInto a idx (a.drop (idx + 1))) (a.length - 1)

/-- `insertOne(a, idx, x)` ("Clobbers a[len(a)-1]"):

    copy(a[idx+1:], a[idx:])
    a[idx] = x
-/
def insertOne (a : List (Option α)) (idx : Nat) (x : Option α) : List (Option α) :=
  setSlot (copyInto a (idx + 1) (a.drop idx)) idx x

/-- run `f` on the slice `arr[:m]`; the rest of the array is untouched. -/
def onPrefix (m : Nat) (f : List (Option α) → List (Option α)) (arr : List (Option α)) :
    List (Option α) :=
  f (arr.take m) ++ arr.drop m

/-! ## node-level operations, one array each (`n` is the node's `n` *before* the operation) -/

/-- `insertIntoLeaf`: `insertOne(x.keys[:int(x.n)+1], idx, k)` (same for `values`). -/
def leafInsert (arr : List (Option α)) (n idx : Nat) (x : Option α) : List (Option α) :=
  onPrefix (n + 1) (fun a => insertOne a idx x) arr

/-- leaf branch of `Delete`: `removeOne(curr.keys[:int(curr.n)], idx)` (same for `values`). -/
def remove (arr : List (Option α)) (n idx : Nat) : List (Option α) :=
  onPrefix n (fun a => removeOne a idx) arr

/-- an overwrite of a live slot: `curr.values[idx] = v` in `Put`, `curr.keys[idx] = replacementK`
in `Delete`, `left.parent.keys[idxInParent] = left.keys[left.n-1]` in the rotations. -/
def replace (arr : List (Option α)) (idx : Nat) (x : Option α) : List (Option α) :=
  setSlot arr idx x

/-- `removeRightmost`: `curr.keys[int(curr.n)-1] = zeroK`. -/
def removeRightmostKeys (arr : List (Option α)) (n : Nat) : List (Option α) :=
  zeroSlot removeRightmostZeroesKey arr (n - 1)

/-- `removeRightmost`: `curr.values[int(curr.n)-1] = zeroV`. -/
def removeRightmostValues (arr : List (Option α)) (n : Nat) : List (Option α) :=
  zeroSlot removeRightmostZeroesValue arr (n - 1)

/-- `rotateRight`, donor (`left`): `left.keys[left.n-1] = zeroK`. -/
def rotateRightDonorKeys (arr : List (Option α)) (n : Nat) : List (Option α) :=
  zeroSlot rotateRightZeroesKey arr (n - 1)

/-- `rotateRight`, donor: `left.values[left.n-1] = zeroV`. -/
def rotateRightDonorValues (arr : List (Option α)) (n : Nat) : List (Option α) :=
  zeroSlot rotateRightZeroesValue arr (n - 1)

/-- `rotateRight`, donor: `left.children[left.n] = nil`. -/
def rotateRightDonorChildren (arr : List (Option α)) (n : Nat) : List (Option α) :=
  zeroSlot rotateRightZeroesChild arr n

/-- `rotateRight`, receiver (`right`): `insertOne(right.keys[:], 0, oldSepK)` on the WHOLE array
(same for `values`, and for `children` with `child`). -/
def rotateRightReceiver (arr : List (Option α)) (sep : Option α) : List (Option α) :=
  onPrefix arr.length (fun a => insertOne a 0 sep) arr

/-- `rotateLeft`, donor (`right`): `removeOne(right.keys[:], 0)` on the WHOLE array (same for
`values`, `children`). -/
def rotateLeftDonor (arr : List (Option α)) : List (Option α) :=
  onPrefix arr.length (fun a => removeOne a 0) arr

/-- `rotateLeft`, receiver (`left`): `left.keys[left.n] = oldSepK` (same for `values`; for
`children` it is `left.children[left.n+1] = child`, i.e. `rotateLeftReceiver children (n+1) child`). -/
def rotateLeftReceiver (arr : List (Option α)) (n : Nat) (sep : Option α) : List (Option α) :=
  setSlot arr n sep

/-- `mergeTwo`, `left` side, keys (same for `values`):

    left.keys[int(left.n)] = sepKey
    copy(left.keys[int(left.n)+1:], right.keys[:int(right.n)])
-/
def mergeLeft (arr : List (Option α)) (n : Nat) (sep : Option α) (right : List (Option α))
    (rn : Nat) : List (Option α) :=
  copyInto (setSlot arr n sep) (n + 1) (right.take rn)

/-- `mergeTwo`, `left` side, children:
`copy(left.children[int(left.n)+1:], right.children[:int(right.n)+1])`. -/
def mergeLeftChildren (arr : List (Option α)) (n : Nat) (right : List (Option α)) (rn : Nat) :
    List (Option α) :=
  copyInto arr (n + 1) (right.take (rn + 1))

/-- `mergeTwo`, `parent` side: `removeOne(parent.keys[:int(parent.n)], idxInParent)` (same for
`values`; for `children` it is `removeOne(parent.children[:int(parent.n)+1], idxInParent+1)`, i.e.
`mergeParent children (n+1) (idx+1)`). -/
def mergeParent (arr : List (Option α)) (n idx : Nat) : List (Option α) :=
  remove arr n idx

/-- the write loop of `overfill`'s left half, in the Go order (descending `i`):

    for i := m - 1; i >= 0; i-- { left.keys[i] = all.Key(i) }

with the amalgam `all` given as a list (for the aliasing of `all` with `left.keys` see
`writeAmalgamDesc`). `List.foldr` over `range m` performs `i = m-1` first. -/
def writeDesc (arr : List (Option α)) (all : List α) (m : Nat) : List (Option α) :=
  (List.range m).foldr (fun i a => setSlot a i all[i]?) arr

/-- `overfill`, `left` half of the split: the write loop, then
`xslices.Clear(left.keys[int(left.n):])` whose presence is the generated fact `clears`
(`overfillClearsKeys` / `overfillClearsValues`; for `children`, `m = left.n + 1` and
`overfillClearsChildren`). -/
def splitLeft (clears : Bool) (arr : List (Option α)) (all : List α) (m : Nat) : List (Option α) :=
  let w := writeDesc arr all m
  if clears then clearFrom w m else w

/-- `left.keys` after `overfill` (`left.n = int8(medianIdx)` is the generated `leftN`). -/
def splitLeftKeys (arr : List (Option α)) (all : List α) : List (Option α) :=
  splitLeft overfillClearsKeys arr all leftN.toNat
/-- `left.values` after `overfill`. -/
def splitLeftValues (arr : List (Option α)) (all : List α) : List (Option α) :=
  splitLeft overfillClearsValues arr all leftN.toNat
/-- `left.children` after `overfill`, inner node (`i` runs from `left.n` down to `0`, the clear
starts at `left.n + 1`). -/
def splitLeftChildren (arr : List (Option α)) (all : List α) : List (Option α) :=
  splitLeft overfillClearsChildren arr all (leftN.toNat + 1)
/-- `left.children` after `overfill`, leaf: the `if !leaf` loop is skipped, only the clear runs. -/
def splitLeftChildrenLeaf (arr : List (Option α)) : List (Option α) :=
  if overfillClearsChildren then clearFrom arr (leftN.toNat + 1) else arr

/-- `overfill`, `right` half: a fresh array receiving `all[from + i]` for `i < cnt`
(`right.keys[i] = all.Key(medianIdx + 1 + i)` for `i < right.n`). -/
def splitRight (cap : Nat) (all : List α) (frm cnt : Nat) : List (Option α) :=
  (List.range cnt).foldl (fun a i => setSlot a i all[frm + i]?) (fresh cap)

/-- `overfill`, parent with room: `insertOne(parent.keys[:int(parent.n)+1], idxInParent, sepKey)`
(same for `values`; for `children` it is
`insertOne(parent.children[:int(parent.n)+2], idxInParent+1, right)`, i.e.
`parentInsert children (n+1) (idx+1) right`). -/
def parentInsert (arr : List (Option α)) (n idx : Nat) (x : Option α) : List (Option α) :=
  leafInsert arr n idx x

/-! ## the amalgam as the Go code has it: a *view* aliasing the array being overwritten -/

/-- `all.Key(i)` read through the current content of the array (`extraIdx = e`, `extraKey = x`):

    if i == a.extraIdx { return a.extraKey } else if i > a.extraIdx { i-- }
    return a.keys[i]
-/
def amalgamGet (arr : List (Option α)) (e : Nat) (x : Option α) (i : Nat) : Option α :=
  if i = e then x else if i > e then (arr[i - 1]?).getD none else (arr[i]?).getD none

/-- the write loop of `overfill`'s left half with `all` aliasing `left.keys` (as in the source:
`left := x` and `all` holds `&x.keys`): each iteration reads through the array as already modified
by the previous iterations. -/
def writeAmalgamDesc (arr : List (Option α)) (e : Nat) (x : Option α) (m : Nat) :
    List (Option α) :=
  (List.range m).foldr (fun i a => setSlot a i (amalgamGet a e x i)) arr

/-- `overfill`, `left` half exactly as in the source: aliased write loop, then the clear. For
`keys`/`values`: `e = extraIdx`, `x = extraKey`/`extraValue`, `m = left.n`; for `children` of an
inner node: `e = extraIdx + 1` (`all.Child` compares with `a.extraIdx+1`), `x = extraChild`,
`m = left.n + 1`. -/
def splitLeftAliased (clears : Bool) (arr : List (Option α)) (e : Nat) (x : Option α) (m : Nat) :
    List (Option α) :=
  let w := writeAmalgamDesc arr e x m
  if clears then clearFrom w m else w

end Juniper.Model.BTreeSlots
