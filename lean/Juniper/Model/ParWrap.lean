import Juniper.Model.ParDo
/-!
# Model of the wrappers `parallel.Map` / `parallel.MapContext` — C13

`Map(parallelism, in, f)` allocates `out`, hands `Do` a callback and returns `out`;
`MapContext(ctx, parallelism, in, f)` does the same with `DoContext` and returns `nil, err` when it
fails. What the wrappers do is *generated* (`Juniper.Gen.ParDoFacts`, `tools/gofacts/sites_par_wrap.go`):
the length of the allocation, which function the callback is handed to and with which arguments
(`parallelism`, `len(in)`, the caller's `ctx`), the callback's own parameter binders, the index
expressions of the write `out[…]` and of the read `in[…]` as functions of the callback's own index
parameter, which context variable is handed to `f` (the callback's own parameter or the wrapper's),
the statement shapes of callback and wrapper, the result expressions of the `return` statements.

`Wrapper` is that description; `mapWrapper` / `mapContextWrapper` are computed from the facts. The
wrapper LTS `wstep` runs the `Do` / `DoContext` LTS of `Model/ParDo.lean` (`step`) with
`n := wrapper.n (len in)`, `P := wrapper.P parallelism` and does the callback's bookkeeping on top of it:
when the callee's callback begins for index `i` the user's `f` is called on `in[readIdx i]` with the
context the facts say; when it ends with a value, the value is stored at `out[writeIdx i]`; when the
callee returns, the wrapper returns what its `return` statements say. A changed index expression
changes where this model reads and writes. An index outside the slice is a run-time panic of the real
code: explicit here (`panic`), no step afterwards. Core Lean only.
-/
namespace Juniper.Model.ParWrap
open Juniper.Gen Juniper.Model.ParDo

/-- where the context handed to the user's `f` comes from -/
inductive CtxSrc where
  /-- the callback's own first parameter: the context the callee hands to the callback -/
  | closureParam
  /-- the wrapper's own `ctx` parameter: the caller's context -/
  | callerCtx
  | other
  deriving DecidableEq, Repr, Hashable, BEq

def CtxSrc.ofString (s : String) : CtxSrc :=
  if s == "closureParam" then .closureParam else if s == "callerCtx" then .callerCtx else .other

/-- the function the callback is handed to -/
def calleeCode (name : String) : Code := if name == "DoContext" then dcCode else doCode

/-- What a wrapper does, as far as the model computes with it. -/
structure Wrapper where
  /-- name of the callee (`Do` / `DoContext`) -/
  callee : String
  /-- length of `out` as a function of `len(in)` -/
  alloc : Int → Int
  /-- the `n` handed to the callee as a function of `len(in)` -/
  n : Int → Int
  /-- the parallelism handed to the callee as a function of the wrapper's `parallelism` -/
  P : Int → Int
  /-- the callee gets the wrapper's own `ctx` parameter as its context -/
  passesCallerCtx : Bool
  /-- index of the write `out[…]` as a function of the callback's own index parameter, `len(in)`, `len(out)` -/
  writeIdx : Int → Int → Int → Int
  /-- index of the read `in[…]`, likewise -/
  readIdx : Int → Int → Int → Int
  /-- the context handed to `f` -/
  ctxSrc : CtxSrc
  /-- `if err != nil` after the callee returned (constant `false` for `Map`) -/
  failed : Bool → Bool
  /-- result expressions of the `return` on the error path / at the end -/
  retErr : List String
  retOk : List String
  /-- the statement shapes (callback, wrapper, argument list, binders) are the ones this model was
  written against -/
  structural : Bool
  /-- the wrapper's control skeleton (`Juniper.Gen.SkeletonPar`) is the one this model was written against -/
  skeleton : Bool

def Wrapper.code (w : Wrapper) : Code := calleeCode w.callee

/-- `parallel.Map` as it is in the source now. -/
def mapWrapper : Wrapper where
  callee := ParDoFacts.mapCallee
  alloc := ParDoFacts.mapAllocLen
  n := Par.mapN
  P := Par.mapParallelism
  passesCallerCtx := false
  writeIdx := ParDoFacts.mapWriteIdx
  readIdx := ParDoFacts.mapReadIdx
  ctxSrc := .other
  failed := fun _ => false
  retErr := []
  retOk := ParDoFacts.mapRetOk
  structural :=
    Par.mapAllocates && Par.mapWritesPositionally && Par.mapReturnsOut
      && ParDoFacts.mapCallArgs == ["parallelism", "len(in)", "<cb>"]
      && ParDoFacts.mapCbParams == ["i"]
      && ParDoFacts.mapCbShape == ["out[#w]=f(in[#r])"]
      && ParDoFacts.mapStmts == ["out:=make([]U,len(in))", "Do(parallelism,len(in),<cb>)", "returnout"]
  -- allocate, `Do(…, func(i) { out[i] = f(in[i]) })`, `return out`
  skeleton := decide (SkeletonPar.pskelMap = ["define", "call{assign}", "return"])

/-- `parallel.MapContext` as it is in the source now. -/
def mapContextWrapper : Wrapper where
  callee := ParDoFacts.mcCallee
  alloc := ParDoFacts.mcAllocLen
  n := Par.mcN
  P := Par.mcParallelism
  passesCallerCtx := ParDoFacts.mcCalleeCtx == "callerCtx"
  writeIdx := ParDoFacts.mcWriteIdx
  readIdx := ParDoFacts.mcReadIdx
  ctxSrc := CtxSrc.ofString ParDoFacts.mcCtxSource
  failed := Par.mcFailed
  retErr := ParDoFacts.mcRetErr
  retOk := ParDoFacts.mcRetOk
  structural :=
    Par.mcAllocates && Par.mcWritesPositionally && Par.mcCallbackReturnsErr && Par.mcReturnsErr && Par.mcReturnsOut
      && ParDoFacts.mcCallArgs == ["ctx", "parallelism", "len(in)", "<cb>"]
      && ParDoFacts.mcCbParams == ["ctx", "i"]
      && ParDoFacts.mcCbShape == ["varerrerror", "out[#w],err=f(#c,in[#r])", "returnerr"]
      && ParDoFacts.mcStmts == ["out:=make([]U,len(in))", "err:=DoContext(ctx,parallelism,len(in),<cb>)",
            "iferr!=nil{", "returnnil,err", "}", "returnout,nil"]
  -- allocate, `err := DoContext(…, func … { var err error; out[i], err = …; return err })`,
  -- `if err != nil { return nil, err }`, `return out, nil`
  skeleton := decide (SkeletonPar.pskelMapContext = ["define", "define{decl;assign;return}", "if{return}", "return"])

/-- What the proofs need to know about a wrapper (`ctx` = the callee takes a context). Discharged for
`mapWrapper` / `mapContextWrapper` from the regenerated definitions inside every property theorem
(tactic `wrapper_sound`, `Proofs/ParWrap.lean`). -/
structure Wrapper.Sound (w : Wrapper) (ctx : Bool) : Prop where
  callee : w.callee = if ctx then "DoContext" else "Do"
  alloc : ∀ l, w.alloc l = l
  n : ∀ l, w.n l = l
  P : ∀ p, w.P p = p
  passesCallerCtx : w.passesCallerCtx = ctx
  writeIdx : ∀ i a b, w.writeIdx i a b = i
  readIdx : ∀ i a b, w.readIdx i a b = i
  ctxSrc : ctx = true → w.ctxSrc = .closureParam
  failed : ∀ b, w.failed b = (ctx && b)
  retErr : ctx = true → w.retErr = ["nil", "err"]
  retOk : w.retOk = if ctx then ["out", "nil"] else ["out"]
  structural : w.structural = true
  skeleton : w.skeleton = true

structure WCfg (α : Type) where
  w : Wrapper
  /-- the wrapper's `parallelism` argument -/
  P : Int
  /-- the wrapper's `in` argument -/
  inp : List α
  /-- `runtime.GOMAXPROCS(-1)` -/
  gmp : Nat

/-- the configuration the callee runs with -/
def WCfg.cfg {α} (wc : WCfg α) : Cfg :=
  { code := wc.w.code, P := wc.w.P wc.P, n := (wc.w.n wc.inp.length).toNat, gmp := wc.gmp }

/-- what the wrapper returns: the slice (`none` = `nil`) and the error -/
structure WRet where
  out : Option (List (Option Nat))
  err : Option Err
  deriving DecidableEq, Repr, Hashable, BEq

/-- one call of the user's `f` -/
structure Call (α : Type) where
  /-- the callee's index (the callback's own index parameter) -/
  idx : Nat
  /-- the element handed to `f`: `in[readIdx idx]` -/
  arg : α
  /-- was the context handed to `f` already cancelled at entry -/
  cancelled : Bool
  deriving DecidableEq, Repr, Hashable, BEq

structure WSt (α : Type) where
  /-- state of the callee (`Do` / `DoContext`) -/
  core : St
  /-- the wrapper's own `ctx` parameter is cancelled -/
  callerCancelled : Bool
  out : List (Option Nat)
  /-- an index expression of the callback was outside its slice: run-time panic -/
  panic : Bool
  /-- the wrapper has returned this -/
  wret : Option WRet
  /-- ghost: calls of the user's `f`, in the order they began -/
  calls : List (Call α)
  deriving DecidableEq, Repr, Hashable, BEq

def winit {α} (wc : WCfg α) : WSt α :=
  { core := init wc.cfg, callerCancelled := false,
    out := List.replicate (wc.w.alloc wc.inp.length).toNat none, panic := false, wret := none, calls := [] }

/-- `l[k]` for a Go `int` index: `none` outside the slice -/
def getAt {β} (l : List β) (k : Int) : Option β := if k < 0 then none else l[k.toNat]?

/-- is the context the callback hands to the user's `f` cancelled right now -/
def userCtxCancelled {α} (wc : WCfg α) (s : WSt α) : Bool :=
  match wc.w.ctxSrc with
  | .closureParam => ctxCancelled s.core
  | .callerCtx => s.callerCancelled
  | .other => false

/-- the wrapper's `return` statements, given what the callee returned -/
def retOf (w : Wrapper) (out : List (Option Nat)) (r : Option Err) : WRet :=
  let exprs := if w.failed r.isSome then w.retErr else w.retOk
  { out := if exprs[0]? == some "out" then some out else none,
    err := if exprs[1]? == some "err" then r else none }

def wstep {α} (wc : WCfg α) (s : WSt α) (l : Label) : Option (WSt α) :=
  if s.panic then none else
  match l with
  | .callerCancel =>
    if s.callerCancelled || !wc.w.code.ctxMode then none else
    if wc.w.passesCallerCtx then
      (step wc.cfg s.core .callerCancel).map fun c => { s with core := c, callerCancelled := true }
    else some { s with callerCancelled := true }
  | .begin w =>
    match step wc.cfg s.core (.begin w), s.core.ws[w]? with
    | some c, some (.call i) =>
      match getAt wc.inp (wc.w.readIdx i wc.inp.length s.out.length) with
      | some a => some { s with core := c, calls := s.calls ++ [⟨i, a, wc.w.code.ctxMode && userCtxCancelled wc s⟩] }
      | none => some { s with panic := true }
    | _, _ => none
  | .fEnd w r =>
    match step wc.cfg s.core (.fEnd w r), s.core.ws[w]? with
    | some c, some (.inF i) =>
      match r with
      | .ok v =>
        let k := wc.w.writeIdx i wc.inp.length s.out.length
        if k < 0 ∨ s.out.length ≤ k.toNat then some { s with core := c, panic := true }
        else some { s with core := c, out := s.out.set k.toNat (some v) }
      | .err _ => some { s with core := c }
    | _, _ => none
  | .ret =>
    match step wc.cfg s.core .ret with
    | some c => some { s with core := c, wret := c.ret.map (retOf wc.w s.out) }
    | none => none
  | l => (step wc.cfg s.core l).map fun c => { s with core := c }

inductive WReach {α} (wc : WCfg α) : WSt α → Prop where
  | init : WReach wc (winit wc)
  | step {s s' : WSt α} {l : Label} : WReach wc s → wstep wc s l = some s' → WReach wc s'

def wrun {α} (wc : WCfg α) : WSt α → List Label → Option (WSt α)
  | s, [] => some s
  | s, l :: ls => match wstep wc s l with
    | some s' => wrun wc s' ls
    | none => none

theorem wreach_of_run {α} {wc : WCfg α} {s s' : WSt α} {ls : List Label} (h : WReach wc s)
    (hr : wrun wc s ls = some s') : WReach wc s' := by
  induction ls generalizing s with
  | nil => simp [wrun] at hr; exact hr ▸ h
  | cons l ls ih =>
    simp only [wrun] at hr
    split at hr
    · next s1 hs => exact ih (WReach.step h hs) hr
    · simp at hr

/-- number of calls of the user's `f` made for the callee's index `i` -/
def callCount {α} (s : WSt α) (i : Nat) : Nat := s.calls.countP (·.idx == i)

end Juniper.Model.ParWrap
