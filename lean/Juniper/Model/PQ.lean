import Juniper.Model.Heap
/-!
# Model of `xheap.PriorityQueue` (C05, heap half of C15)

The queue is the inner heap of `(key, priority)` pairs plus the map `m : key → index`, kept as an
association list with one entry per key. Every heap operation returns its ordered notifications and
the queue applies them to `m` (`h.m[x.K] = i`), exactly what the `indexChanged` closure of
`NewPriorityQueue` does. The initial list is de-duplicated keeping first occurrences (and marking
`m[k] = -1`) before it is heapified. Guards, the presence of `delete(...)`, of the marking and of the
calls are the generated definitions.

`none` = the Go call panics.
-/
namespace Juniper.Model.PQ
open Juniper.Gen.Heap Juniper.Model.Heap

variable {K P : Type} [DecidableEq K]

abbrev KP (K P : Type) := K × P
abbrev IdxMap (K : Type) := List (K × Int)

def mGet : IdxMap K → K → Option Int
  | [], _ => none
  | (k', v) :: t, k => if k' = k then some v else mGet t k

def mDel (m : IdxMap K) (k : K) : IdxMap K := m.filter (fun e => !decide (e.1 = k))

def mSet (m : IdxMap K) (k : K) (v : Int) : IdxMap K := (k, v) :: mDel m k

/-- the `indexChanged` closure: `h.m[x.K] = i` -/
def applyNote (m : IdxMap K) (n : Note (KP K P)) : IdxMap K :=
  if pqRecordsIndex then mSet m n.1.1 (n.2 : Int) else m

def applyNotes (m : IdxMap K) (notes : List (Note (KP K P))) : IdxMap K :=
  notes.foldl applyNote m

structure PQ (K P : Type) where
  h : Heap (KP K P)
  m : IdxMap K
  deriving Repr

/-- the element order used by the inner heap: `less(a.P, b.P)` -/
def lessKP (less : P → P → Bool) : KP K P → KP K P → Bool := fun a b => pqLessWrap (less a.2 b.2)
/-- `NewPriorityQueueCmp`: `compare(a, b) < 0` -/
def lessOfCmpP (cmp : P → P → Int) : P → P → Bool := fun a b => pqCmpLess (cmp a b)

/-- the de-duplication loop of `NewPriorityQueue` -/
def dedup : List (KP K P) → IdxMap K → List (KP K P) × IdxMap K
  | [], m => ([], m)
  | kp :: t, m =>
    if dedupSkipCond (mGet m kp.1).isSome && dedupSkips then dedup t m
    else
      let m1 := if dedupMarks then mSet m kp.1 (-1) else m
      let r := dedup t m1
      (if dedupKeeps then kp :: r.1 else r.1, r.2)

def new (less : P → P → Bool) (initial : List (KP K P)) : PQ K P :=
  let d := dedup initial []
  let init := if dedupUsesFiltered then d.1 else initial
  let r := Heap.new (lessKP less) init
  { h := r.1, m := applyNotes d.2 r.2 }

def len (q : PQ K P) : Int := if pqLenForwards then Heap.len q.h else 0

/-- index stored for `k`, as a position of the array (`none` = absent; a negative entry would make
the Go index expression panic and is reported as out of range) -/
def idxOf (q : PQ K P) (k : K) : Option Int := mGet q.m k

def update (less : P → P → Bool) (q : PQ K P) (k : K) (p : P) : Option (PQ K P) :=
  let r := idxOf q k
  if updateExisting r.isSome then
    if updateCallsUpdateAt then
      match r with
      | some idx =>
        if idx < 0 then none else
        match Heap.updateAt (lessKP less) q.h idx.toNat (k, p) with
        | none => none
        | some (h', notes) => some { h := h', m := applyNotes q.m notes }
      | none => none
    else some q
  else
    if updateCallsPush then
      let (h', notes) := Heap.push (lessKP less) q.h (k, p)
      some { h := h', m := applyNotes q.m notes }
    else some q

def pop (less : P → P → Bool) (q : PQ K P) : Option (PQ K P × K) :=
  if pqPopPops then
    match Heap.pop (lessKP less) q.h with
    | none => none
    | some (h', it, notes) =>
      let m1 := applyNotes q.m notes
      -- `return item.K`; without it the call hands out nothing (modelled like a panic)
      if pqPopReturnsKey then some ({ h := h', m := if pqPopDeletes then mDel m1 it.1 else m1 }, it.1)
      else none
  else none

def peek (q : PQ K P) : Option K := if pqPeekForwards then (Heap.peek q.h).map (·.1) else none

def contains (q : PQ K P) (k : K) : Bool := containsRes (idxOf q k).isSome

/-- `Priority(k)`: `some none` = the zero value of `P` (key absent), `none` = panic -/
def priority (q : PQ K P) (k : K) : Option (Option P) :=
  match idxOf q k with
  | some idx =>
    -- `if ok { return h.inner.Item(idx).P }`; without that statement the code falls through to
    -- `return zero`
    if priorityPresent true && priorityReadsItem then
      if idx < 0 then none else
      match Heap.item q.h idx.toNat with
      | some kp => some (some kp.2)
      | none => none
    else some none
  | none => if priorityPresent false then none else some none

def remove (less : P → P → Bool) (q : PQ K P) (k : K) : Option (PQ K P) :=
  let r := idxOf q k
  if removeAbsent r.isSome && removeAbsentReturns then some q
  else
    match r with
    | none => none
    | some idx =>
      if idx < 0 then none else
      match (if removeCallsRemoveAt then Heap.removeAt (lessKP less) q.h idx.toNat else some (q.h, [])) with
      | none => none
      | some (h', notes) =>
        let m1 := applyNotes q.m notes
        some { h := h', m := if removeDeletes then mDel m1 k else m1 }

def grow (q : PQ K P) : PQ K P := { q with h := Heap.grow q.h }

/-- the function `iterator.Map` applies to what the inner iterator yields -/
def mapOut {α β : Type} (f : α → β) : IterOut α → IterOut β
  | .panic => .panic
  | .done => .done
  | .item x => .item (x.map f)

/-- `Next` of `PriorityQueue.Iterate()`. The generated fact `pqIterateMapsInnerToKey` says the body
of `Iterate` is exactly `return iterator.Map(h.inner.Iterate(), func(kp KP[K, P]) K { return kp.K })`:
the inner heap's (lazy, generation-checked) iterator with every item mapped to its key. Any other
body (e.g. collecting the keys eagerly) makes the fact `false`; the model then has no iterator to
follow (modelled as the empty one) and every theorem about `iterNext` fails. -/
def iterNext (q : PQ K P) (it : Iter) : Iter × IterOut K :=
  if pqIterateMapsInnerToKey then
    ((Heap.iterNext q.h it).1, mapOut (·.1) (Heap.iterNext q.h it).2)
  else (it, .done)

end Juniper.Model.PQ
