import Juniper.Generated.Merge
/-!
# Executable LTS models of `chans.Merge` (all four code paths) and `chans.Replicate`  (C12)

One label = one atomic step of the goroutine running `Merge` / `Replicate` (one `select` arm, one
channel hand-off) or one action of the environment (a producer offering a value on an input, closing
an input, the consumer taking a value from `out`). All interleavings are the reachable states.

Everything the code decides by a small expression, an arm table or the presence of a statement is
read from `Juniper.Gen.Merge` (regenerated from `chans/chans.go` on every run): the arity dispatch,
the arms of `merge2`/`merge3` with their `out <- item`, `inK = nil`, `nDone++`, `nDone == k` parts,
the loop-top test and the removal of the closed case on the reflect path, the form of the type
assertion on the reflect path, the loops of `Replicate`.

An input channel is abstracted to the FIFO of values currently receivable (`avail`: buffered values
and values of blocked senders, which Go serves in FIFO order) plus a `closed` flag; `sent` is a ghost
log of everything ever offered on it.
-/
namespace Juniper.Model.Merge
open Juniper.Facts

/-- Element types whose zero value is a nil interface (`isNil v`): only those can make
`item.Interface().(T)` fail on the reflect path. -/
class HasNil (V : Type) where
  isNil : V → Bool

instance : HasNil (Option Int) := ⟨fun v => v.isNone⟩

/-- The four code paths of `chans.Merge`. -/
inductive Path | range | m2 | m3 | reflect
  deriving DecidableEq, Repr, Hashable

/-- Arity dispatch of `chans.Merge` (the generated `len(in) == k` tests, in source order). -/
def pathOf (n : Nat) : Path :=
  if Gen.Merge.dispatch1 n then .range
  else if Gen.Merge.dispatch2 n then .m2
  else if Gen.Merge.dispatch3 n then .m3
  else .reflect

/-- What one `select` arm does. -/
structure ArmInfo where
  forwards : Bool   -- `out <- item` on a value
  nils : Bool       -- the arm is disabled once its input is seen closed
  incs : Bool       -- `nDone++` on close
  retLit : Int      -- `if nDone == retLit { return }` on close (-1: absent)
  deriving DecidableEq, Repr, Hashable

/-- `in[i]` ↦ `i` for the argument lists of the dispatch. -/
def chanArg (i : Nat) : String := s!"in[{i}]"

/-- The arm of `mergeK` that receives from the `i`-th input: the `i+1`-th parameter of `mergeK`
(after `out`) is looked up in the generated clause table. -/
def clauseFor (params : List String) (clauses : List (String × Bool × Bool × Bool × Int)) (i : Nat) :
    Option ArmInfo :=
  match params[i + 1]? with
  | none => none
  | some p =>
    match clauses.find? (fun c => c.1 == p) with
    | none => none
    | some (_, f, z, c, k) => some ⟨f, z, c, k⟩

/-- The arm listening on input `i` on the given path, if any. -/
def armInfo (p : Path) (n i : Nat) : Option ArmInfo :=
  match p with
  | .range =>
    if Gen.Merge.rangeChan == chanArg i then some ⟨Gen.Merge.rangeForwards, true, false, -1⟩ else none
  | .m2 =>
    if Gen.Merge.merge2Arms.contains (.recv (Gen.Merge.merge2Params.getD (i + 1) "?")) then
      clauseFor Gen.Merge.merge2Params Gen.Merge.merge2Clauses i else none
  | .m3 =>
    if Gen.Merge.merge3Arms.contains (.recv (Gen.Merge.merge3Params.getD (i + 1) "?")) then
      clauseFor Gen.Merge.merge3Params Gen.Merge.merge3Clauses i else none
  | .reflect =>
    if i < n && Gen.Merge.reflectCasesOver == "in" && Gen.Merge.reflectSelects then
      some ⟨Gen.Merge.reflectSendsOut, Gen.Merge.reflectRemoves, false, -1⟩ else none

/-- Does the close branch of the arm return, given the updated `nDone` and number of live arms? -/
def retAfterClose (p : Path) (a : ArmInfo) (nDone' : Nat) : Bool :=
  match p with
  | .range => Gen.Merge.rangeReturns
  | .m2 | .m3 => decide ((nDone' : Int) = a.retLit)
  | .reflect => false

/-- Loop-top test of the reflect path (`if len(selectCases) == 0 { return }`). -/
def retAtTop (p : Path) (live : Nat) : Bool :=
  match p with
  | .reflect => Gen.Merge.reflectRet live && Gen.Merge.reflectRetReturns
  | _ => false

/-- `item.Interface().(T)` without comma-ok panics on a nil interface value. -/
def panicsOn {V : Type} [HasNil V] (p : Path) (v : V) : Bool :=
  match p with
  | .reflect => HasNil.isNil v && Gen.Merge.reflectAssert != "commaok"
  | _ => false

structure Chan (V : Type) where
  avail : List V := []
  closed : Bool := false
  sent : List V := []
  deriving DecidableEq, Repr, Hashable

inductive Pc (V : Type)
  | top                      -- at the receive / `select` / `reflect.Select`
  | hold (i : Nat) (v : V)   -- blocked in `out <- item` with a value of input `i`
  | done                     -- returned
  | panicked
  deriving DecidableEq, Repr, Hashable

structure St (V : Type) where
  n : Nat
  ins : List (Chan V)
  live : List Nat            -- inputs whose arm is still enabled
  nDone : Nat
  pc : Pc V
  out : List (Nat × V)       -- ghost: everything delivered on `out`, tagged with its input
  deriving DecidableEq, Repr, Hashable

inductive Label (V : Type)
  | envSend (i : Nat) (v : V)  -- a producer offers `v` on input `i`
  | envClose (i : Nat)         -- input `i` is closed
  | recv (i : Nat)             -- Merge's receive on input `i` fires (value or closed)
  | deliver                    -- `out <- item` completes (the consumer took it)
  | exit                       -- loop-top return of the reflect path
  deriving DecidableEq, Repr, Hashable

def init (V : Type) (n : Nat) : St V :=
  { n := n, ins := List.replicate n {}, nDone := 0, pc := .top, out := [],
    live := (List.range n).filter fun i => (armInfo (pathOf n) n i).isSome }

def step {V : Type} [HasNil V] (s : St V) : Label V → Option (St V)
  | .envSend i v =>
    match s.ins[i]? with
    | some c => if c.closed then none
                else some { s with ins := s.ins.set i { c with avail := c.avail ++ [v], sent := c.sent ++ [v] } }
    | none => none
  | .envClose i =>
    match s.ins[i]? with
    | some c => if c.closed then none else some { s with ins := s.ins.set i { c with closed := true } }
    | none => none
  | .recv i =>
    match s.pc with
    | .top =>
      if s.live.contains i && !retAtTop (pathOf s.n) s.live.length then
        match armInfo (pathOf s.n) s.n i, s.ins[i]? with
        | some a, some c =>
          match c.avail with
          | v :: rest =>
            let s' := { s with ins := s.ins.set i { c with avail := rest } }
            if a.forwards then
              if panicsOn (pathOf s.n) v then some { s' with pc := .panicked } else some { s' with pc := .hold i v }
            else some s'
          | [] =>
            if c.closed then
              let live' := if a.nils then s.live.erase i else s.live
              let nDone' := if a.incs then s.nDone + 1 else s.nDone
              some { s with live := live', nDone := nDone',
                            pc := if retAfterClose (pathOf s.n) a nDone' then .done else .top }
            else none
        | _, _ => none
      else none
    | _ => none
  | .deliver =>
    match s.pc with
    | .hold i v => some { s with out := s.out ++ [(i, v)], pc := .top }
    | _ => none
  | .exit =>
    match s.pc with
    | .top => if retAtTop (pathOf s.n) s.live.length then some { s with pc := .done } else none
    | _ => none

/-- Reachability by any sequence of steps. -/
inductive Reach {V : Type} [HasNil V] (s0 : St V) : St V → Prop
  | refl : Reach s0 s0
  | step {s s' : St V} (l : Label V) : Reach s0 s → step s l = some s' → Reach s0 s'

/-- Steps of `Merge` itself that need nothing from the environment. -/
def internalLabels {V : Type} (s : St V) : List (Label V) :=
  .exit :: (List.range s.n).map .recv

def run {V : Type} [HasNil V] (s : St V) : List (Label V) → Option (St V)
  | [] => some s
  | l :: ls => match step s l with
    | some s' => run s' ls
    | none => none

/-- Values of `out` that came from input `i`, in order. -/
def proj {V : Type} (i : Nat) (out : List (Nat × V)) : List V :=
  (out.filter (fun p => p.1 == i)).map (·.2)

/-- The value `Merge` is holding for input `i` (blocked in `out <- item`). -/
def held {V : Type} (i : Nat) : Pc V → List V
  | .hold j v => if j = i then [v] else []
  | _ => []

/-! ## Replicate -/

inductive RPc (V : Type)
  | top                          -- at `range src`
  | sending (v : V) (j : Nat)    -- blocked in `dst <- item` for destination `j`
  | done
  deriving DecidableEq, Repr, Hashable

structure RSt (V : Type) where
  m : Nat                     -- number of destinations
  src : Chan V
  pc : RPc V
  outs : List (List V)        -- ghost: what each destination received
  deriving DecidableEq, Repr, Hashable

inductive RLabel (V : Type)
  | envSend (v : V)
  | envClose
  | recv                      -- the `range src` receive fires (value or closed)
  | deliver                   -- `dst <- item` for the current destination completes
  deriving DecidableEq, Repr, Hashable

def rinit (V : Type) (m : Nat) : RSt V :=
  { m := m, src := {}, pc := .top, outs := List.replicate m [] }

/-- After the hand-off to destination `j`: next destination of the inner loop, or back to the outer
`range` (both loops range over what the generated facts say: `src`, `dsts`). -/
def rAfter {V : Type} (m : Nat) (v : V) (j : Nat) : RPc V :=
  if j + 1 < m then .sending v (j + 1) else .top

def rstep {V : Type} (s : RSt V) : RLabel V → Option (RSt V)
  | .envSend v =>
    if s.src.closed then none
    else some { s with src := { s.src with avail := s.src.avail ++ [v], sent := s.src.sent ++ [v] } }
  | .envClose => if s.src.closed then none else some { s with src := { s.src with closed := true } }
  | .recv =>
    match s.pc with
    | .top =>
      if Gen.Merge.replSrc == "src" then
        match s.src.avail with
        | v :: rest =>
          let s' := { s with src := { s.src with avail := rest } }
          if Gen.Merge.replDsts == "dsts" && Gen.Merge.replSends && 0 < s.m then some { s' with pc := .sending v 0 }
          else some s'
        | [] => if s.src.closed then some { s with pc := .done } else none
      else none
    | _ => none
  | .deliver =>
    match s.pc with
    | .sending v j =>
      match s.outs[j]? with
      | some o => some { s with outs := s.outs.set j (o ++ [v]), pc := rAfter s.m v j }
      | none => none
    | _ => none

inductive RReach {V : Type} (s0 : RSt V) : RSt V → Prop
  | refl : RReach s0 s0
  | step {s s' : RSt V} (l : RLabel V) : RReach s0 s → rstep s l = some s' → RReach s0 s'

def rrun {V : Type} (s : RSt V) : List (RLabel V) → Option (RSt V)
  | [] => some s
  | l :: ls => match rstep s l with
    | some s' => rrun s' ls
    | none => none

/-- What destination `j` is still owed of the values already taken from `src`. -/
def rOwed {V : Type} (j : Nat) : RPc V → List V
  | .sending v k => if k ≤ j then [v] else []
  | _ => []

end Juniper.Model.Merge
