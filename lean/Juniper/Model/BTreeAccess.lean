import Juniper.Model.BTree
import Juniper.Generated.TreeAccess
set_option linter.unusedVariables false
/-!
# Memory-access model of `btree.Get` / `Contains` / `Put` / `Range` / `RangeReverse` / `Iterate` (C01, concurrent clause)

`Model/BTree.lean` is a functional model: an operation maps a tree to a tree, so it cannot exhibit a
data race. This file refines the three operations that the last sentence of C01 talks about
("Puts from several goroutines to distinct keys that are already present, concurrent with reads of
other keys, are free of data races and all take effect") to **sequences of atomic shared-memory
accesses**, and gives them an **interleaving semantics**.

* Shared memory (`Mem`): the header fields of `btree` (`root`, `size`, `gen`) and, per node object
  (identified by the same `id` as in `Model/BTree.lean`), the field `n` and the slots `keys[i]`,
  `values[i]`, `children[i]`. A location is `Loc.root | size | gen | node id field`.
* A goroutine executes one operation (`Op`). Its private state is a program counter `PC` that also
  holds the locals of the Go function (`curr`, the loop index of `searchNode`, `idx`, temporaries).
  `accessOf pc` is the *one* shared access the goroutine performs next (it depends on the private
  state only); `next` performs it on the current memory (the value read decides where the goroutine
  goes). The comparisons are `searchNode`'s generated `searchLess` / `searchEq`; the descent is the one
  of `lookup` / `ins`.
* The statement lists of `Put`, `Get`, `Contains`, `searchNode`, `insertIntoLeaf`, and — for the range
  readers — of `forwardIterator.Next`, `backwardIterator.Next`, `cursor.lost`, `valueUnchecked`, `Key`,
  `cursor.Next`, `Prev`, `seek`, `find`, the six `Seek*`, `leftmostLeaf`, `rightmostLeaf`, `node.leaf`,
  `btree.Cursor` are **generated**
  (`Juniper.Gen.TreeAccess`, re-extracted on every run). The control skeleton the machine implements is
  compared with them literally (`…Shape`); the straight-line parts — what `Put` does *before* its loop,
  what it does in the *overwrite branch* (`for[0]/if[0].body`), and what follows the insertion — are
  **interpreted** (`stmtOps`: `t.gen++` = read `gen`, write `gen`; `curr.values[idx] = v` = write of one
  value slot; …). Moving `t.gen++` to the top of `Put`, or into the overwrite branch, therefore changes
  the access sequence of a present-key `Put` (two such Puts then race on `gen`), and the theorems of
  `Props/C01Race.lean`, which pin the plans by `decide`, stop compiling.
* `Config` = memory + one `PC` per goroutine; `stepAt` = goroutine `i` performs its next access;
  `Reach` = reflexive-transitive closure; `Race` = two different goroutines whose next accesses touch
  the same location, at least one writing (there is no synchronisation in this API, so
  happens-before is program order and "both enabled in one configuration" is exactly "unordered").

* A **range reader** (`Op.scan`: `Range` / `RangeReverse` / `Iterate`, then up to `limit` calls of `Next`)
  is modelled access by access as well: the seek (`find` with `searchNode`, `leftmostLeaf` /
  `rightmostLeaf`, `c.k = c.curr.keys[c.i]`, `c.gen = c.t.gen`, the comparison that decides whether the
  seek steps once), and per `Next`: `lost()` (reads `gen`), the in-range test on the remembered key
  (private), **only then** the value read `values[c.i]`, then the cursor move `cursor.Next` / `Prev`
  (`lost()`, `leaf()`, `n`, `keys[i]`, child pointers, and on the way up `parent` three times and the
  `children` of the parent scanned by `xslices.Index`).

What is *not* modelled (explicit outcome `Res.unmodelled`, never reached in the theorems): a `Put`
that has to split a full leaf (`overfill`), and the re-seek of a lost cursor (the generation differs from
the one the cursor saw: impossible while only present keys are `Put`).
-/
namespace Juniper.Model.BTreeAccess
open Juniper.Gen.Tree Juniper.Gen.TreeAccess Juniper.Model.BTree

/-! ## locations, accesses, memory -/

inductive Field where
  | n
  | key (i : Nat)
  | val (i : Nat)
  | child (i : Nat)
  | parent
  deriving DecidableEq, Repr

inductive Loc where
  | root
  | size
  | gen
  | node (id : Nat) (f : Field)
  /-- a location the interpreter of statement lists cannot name (unknown statement): every access to
  it is a write, so two goroutines executing an uninterpreted statement are reported as racing -/
  | other
  deriving DecidableEq, Repr

structure Access where
  loc : Loc
  write : Bool
  deriving DecidableEq, Repr

/-- two accesses conflict: same location, at least one write -/
def conflict (a b : Access) : Bool := decide (a.loc = b.loc) && (a.write || b.write)

/-- the shared heap, one typed component per kind of location; `none` = zero value / nil -/
structure Mem (K V : Type) where
  root : Option Nat
  size : Int
  gen : Int
  n : Nat → Int
  key : Nat → Nat → Option K
  val : Nat → Nat → Option V
  child : Nat → Nat → Option Nat
  /-- the `parent` pointers (read by the cursor moves only; no operation modelled here writes them) -/
  parent : Nat → Option Nat := fun _ => none

variable {K V : Type}

def Mem.empty : Mem K V :=
  { root := none, size := 0, gen := 0, n := fun _ => 0, key := fun _ _ => none, val := fun _ _ => none,
    child := fun _ _ => none }

def Mem.setN (m : Mem K V) (a : Nat) (z : Int) : Mem K V :=
  { m with n := fun b => if b = a then z else m.n b }
def Mem.setKey (m : Mem K V) (a i : Nat) (k : Option K) : Mem K V :=
  { m with key := fun b j => if b = a ∧ j = i then k else m.key b j }
def Mem.setVal (m : Mem K V) (a i : Nat) (v : Option V) : Mem K V :=
  { m with val := fun b j => if b = a ∧ j = i then v else m.val b j }

/-! ## the heap image of a functional tree -/

mutual
/-- store the fields of every node object of the subtree -/
def storeNode : Node K V → Mem K V → Mem K V
  | .mk id kvs kids, m =>
    storeKids kids
      { m with
        n := fun b => if b = id then (kvs.length : Int) else m.n b
        key := fun b j => if b = id then (kvs[j]?).map (·.1) else m.key b j
        val := fun b j => if b = id then (kvs[j]?).map (·.2) else m.val b j
        child := fun b j => if b = id then (kids[j]?).map Node.id else m.child b j
        parent := fun b => if kids.any (fun c => c.id == b) then some id else m.parent b }
def storeKids : List (Node K V) → Mem K V → Mem K V
  | [], m => m
  | c :: cs, m => storeKids cs (storeNode c m)
end

/-- the memory that holds the tree `t` (node identities pairwise distinct) -/
def memOf (t : Tree K V) : Mem K V :=
  storeNode t.root { (Mem.empty : Mem K V) with root := some t.root.id, size := t.size, gen := t.gen }

/-! ## interpreting the generated statement lists -/

/-- micro-operations: each is ONE shared-memory access (plus private bookkeeping) -/
inductive MOp where
  /-- `curr := t.root` -/
  | readRoot
  /-- `t.gen++` = `readGen; writeGen` -/
  | readGen | writeGen
  /-- `t.size++` = `readSize; writeSize` -/
  | readSize | writeSize
  /-- `return curr.values[idx]` -/
  | readVal
  /-- `curr.values[idx] = v` -/
  | writeVal
  /-- `insertOne(x.keys[:int(x.n)+1], idx, k)`: read `x.n`, then the element moves, then `keys[idx] = k` -/
  | planKeys
  | planVals
  | rdKey (j : Nat) | wrKeyT (j : Nat) | wrKeyK (j : Nat)
  | rdVal (j : Nat) | wrValT (j : Nat) | wrValV (j : Nat)
  /-- `x.n++` = `rdN; wrN` -/
  | rdN | wrN
  /-- a statement the interpreter does not know -/
  | other
  deriving DecidableEq, Repr

/-- a simple statement that touches shared memory, as micro-operations -/
def stmtOps (s : String) : List MOp :=
  if s == "curr := t.root" then [.readRoot]
  else if s == "t.gen++" then [.readGen, .writeGen]
  else if s == "t.size++" then [.readSize, .writeSize]
  else if s == "curr.values[idx] = v" then [.writeVal]
  else [.other]

/-- a straight-line statement list -/
def seqOps : List String → List MOp
  | [] => []
  | s :: rest => stmtOps s ++ seqOps rest

/-- how a branch ends -/
inductive Ret where
  | unit | true_ | value
  /-- the branch does not return: control flow we do not model -/
  | fall
  deriving DecidableEq, Repr

/-- a branch body: statements up to and including the first `return` -/
def branchOps : List String → List MOp × Ret
  | [] => ([], .fall)
  | s :: rest =>
    if s == "return" then ([], .unit)
    else if s == "return true" then ([], .true_)
    else if s == "return curr.values[idx]" then ([.readVal], .value)
    else let r := branchOps rest; (stmtOps s ++ r.1, r.2)

/-- `searchNode` has the control skeleton the machine below implements (`test` / `key` / `retn`) -/
def searchShape : Bool :=
  searchNodeStmts == ["for i < int(x.n) {", "c := t.compare(k, x.keys[i])", "if c < 0 {", "return i, false",
    "} else {", "if c == 0 {", "return i, true", "}", "}", "}", "return int(x.n), false"]

/-- prologue (before the loop), overwrite/found branch, epilogue (after the insertion) of an operation -/
structure Plan where
  prologue : List MOp
  found : List MOp
  foundRet : Ret
  epilogue : List MOp
  deriving DecidableEq, Repr

def putLoop : List String :=
  ["for {", "idx, inNode := t.searchNode(k, curr)", "if inNode {"] ++ putFoundStmts ++
    ["}", "if curr.leaf() {", "break", "}", "curr = curr.children[idx]", "}"]

def putInsertion : List String :=
  ["if !curr.full() {", "t.insertIntoLeaf(curr, k, v)", "} else {", "t.overfill(curr, k, v, nil)", "}"]

/-- `Put`: whatever precedes the loop and whatever follows the insertion is interpreted; the loop and
the insertion `if` must be the ones the machine implements -/
def putPlan : Option Plan :=
  let pro := putStmts.takeWhile (fun s => !(s == "for {"))
  let rest := putStmts.drop pro.length
  if searchShape && rest.take putLoop.length == putLoop &&
      (rest.drop putLoop.length).take putInsertion.length == putInsertion then
    some { prologue := seqOps pro, found := (branchOps putFoundStmts).1, foundRet := (branchOps putFoundStmts).2,
           epilogue := seqOps (rest.drop (putLoop.length + putInsertion.length)) }
  else none

def readLoop (foundStmts : List String) : List String :=
  ["for curr != nil {", "idx, inNode := t.searchNode(k, curr)", "if inNode {"] ++ foundStmts ++
    ["}", "curr = curr.children[idx]", "}"]

def readPlan (stmts foundStmts tail : List String) : Option Plan :=
  let pro := stmts.takeWhile (fun s => !(s == "for curr != nil {"))
  let rest := stmts.drop pro.length
  if searchShape && rest == readLoop foundStmts ++ tail then
    some { prologue := seqOps pro, found := (branchOps foundStmts).1, foundRet := (branchOps foundStmts).2, epilogue := [] }
  else none

def getPlan : Option Plan := readPlan getStmts getFoundStmts ["var zero V", "return zero"]
def containsPlan : Option Plan := readPlan containsStmts containsFoundStmts ["return false"]

/-- `insertIntoLeaf` has the skeleton the machine implements (`itest` / `ikey`, then `planKeys`,
`planVals`, `x.n++`) -/
def insertShape : Bool :=
  insertIntoLeafStmts == ["idx := 0", "for idx < int(x.n) {", "if t.compare(k, x.keys[idx]) < 0 {", "break", "}",
    "idx++", "}", "insertOne(x.keys[:int(x.n)+1], idx, k)", "insertOne(x.values[:int(x.n)+1], idx, v)", "x.n++"]

/-- the range readers: every function on their path has the statement list the machine `itNext` below
implements (compared literally; a mismatch makes the operation start in `done unmodelled`) -/
def scanShape : Bool :=
  fwdNextStmts == ["var zero KVPair[K, V]", "if iter.done {", "return zero, false", "}", "if iter.c.lost() {",
    "iter.c.SeekFirstGreaterOrEqual(iter.c.Key())", "}", "if iter.c.curr == nil {", "return zero, false", "}",
    "k := iter.c.Key()", "if iter.inRange != nil && !iter.inRange(k) {", "iter.done = true", "return zero, false", "}",
    "v := iter.c.valueUnchecked()", "iter.c.Next()", "return KVPair[K, V]{k, v}, true"] &&
  bwdNextStmts == ["var zero KVPair[K, V]", "if iter.done {", "return zero, false", "}", "if iter.c.lost() {",
    "iter.c.SeekLastLessOrEqual(iter.c.Key())", "}", "if iter.c.curr == nil {", "return zero, false", "}",
    "k := iter.c.Key()", "if iter.inRange != nil && !iter.inRange(k) {", "iter.done = true", "return zero, false", "}",
    "v := iter.c.valueUnchecked()", "iter.c.Prev()", "return KVPair[K, V]{k, v}, true"] &&
  lostStmts == ["return c.gen != c.t.gen && c.curr != nil && (c.i >= int(c.curr.n) || c.t.compare(c.k, c.curr.keys[c.i]) != 0)"] &&
  valueUncheckedStmts == ["return c.curr.values[c.i]"] &&
  cursorKeyStmts == ["return c.k"] &&
  cursorNextStmts == ["if c.lost() {", "c.SeekFirstGreater(c.k)", "return", "}", "if c.curr == nil {", "return", "}",
    "if c.curr.leaf() {", "c.i++", "if c.i < int(c.curr.n) {", "c.k = c.curr.keys[c.i]", "return", "}", "} else {",
    "if c.i < int(c.curr.n) {", "c.curr = leftmostLeaf(c.curr.children[c.i+1])", "c.i = 0", "c.k = c.curr.keys[c.i]", "return",
    "}", "}", "for {", "if c.curr.parent == nil {", "c.curr = nil", "return", "}",
    "idx := xslices.Index(c.curr.parent.children[:], c.curr)", "c.curr = c.curr.parent", "c.i = idx",
    "if c.i < int(c.curr.n) {", "c.k = c.curr.keys[c.i]", "break", "}", "}"] &&
  cursorPrevStmts == ["if c.lost() {", "c.SeekLastLess(c.k)", "return", "}", "if c.curr == nil {", "return", "}",
    "if c.curr.leaf() {", "c.i--", "if c.i >= 0 {", "c.k = c.curr.keys[c.i]", "return", "}", "} else {",
    "if c.i >= 0 {", "c.curr = rightmostLeaf(c.curr.children[c.i])", "c.i = int(c.curr.n) - 1", "c.k = c.curr.keys[c.i]", "return",
    "}", "}", "for {", "if c.curr.parent == nil {", "c.curr = nil", "return", "}",
    "idx := xslices.Index(c.curr.parent.children[:], c.curr)", "c.curr = c.curr.parent", "c.i = idx - 1",
    "if c.i >= 0 {", "c.k = c.curr.keys[c.i]", "break", "}", "}"] &&
  seekStmts == ["c.curr, c.i, _ = c.find(k)", "if c.curr == nil {", "return false", "}", "c.k = c.curr.keys[c.i]",
    "c.gen = c.t.gen", "return true"] &&
  findStmts == ["if c.t.root.n == 0 {", "return nil, 0, false", "}", "curr := c.t.root", "for {",
    "idx, inNode := c.t.searchNode(k, curr)", "if inNode {", "return curr, idx, true", "}", "if curr.leaf() {",
    "if idx == int(curr.n) {", "idx--", "}", "return curr, idx, false", "}", "curr = curr.children[idx]", "}"] &&
  seekFirstStmts == ["if c.t.root.n == 0 {", "c.curr = nil", "return", "}", "c.curr = leftmostLeaf(c.t.root)", "c.i = 0",
    "c.k = c.curr.keys[c.i]", "c.gen = c.t.gen"] &&
  seekLastStmts == ["if c.t.root.n == 0 {", "c.curr = nil", "return", "}", "c.curr = rightmostLeaf(c.t.root)",
    "c.i = int(c.curr.n) - 1", "c.k = c.curr.keys[c.i]", "c.gen = c.t.gen"] &&
  seekGEStmts == ["if !c.seek(k) {", "return", "}", "if c.t.compare(k, c.k) > 0 {", "c.Next()", "}"] &&
  seekGTStmts == ["if !c.seek(k) {", "return", "}", "if c.t.compare(k, c.k) >= 0 {", "c.Next()", "}"] &&
  seekLEStmts == ["if !c.seek(k) {", "return", "}", "if c.t.compare(k, c.k) < 0 {", "c.Prev()", "}"] &&
  seekLTStmts == ["if !c.seek(k) {", "return", "}", "if c.t.compare(k, c.k) <= 0 {", "c.Prev()", "}"] &&
  leftmostLeafStmts == ["curr := x", "for {", "if curr.leaf() {", "return curr", "}", "curr = curr.children[0]", "}"] &&
  rightmostLeafStmts == ["curr := x", "for {", "if curr.leaf() {", "return curr", "}", "curr = curr.children[int(curr.n)]", "}"] &&
  leafStmts == ["return x.children[0] == nil"] &&
  cursorCtorStmts == ["c := cursor[K, V]{t: t}", "return c"] &&
  indexStmts == ["return slices.Index(s, x)"] &&
  searchShape && iterCtorsFresh && iterStopBeforeValue

/-! ## operations and private state -/

inductive Op (K V : Type) where
  | get (k : K)
  | contains (k : K)
  | put (k : K) (v : V)
  /-- a range reader: `Range` (`fwd`) / `RangeReverse` — the cursor seek `sk` with key `skey` (the first
  `switch`), the in-range predicate `compare(k, key) op 0` or none (the second `switch`) — followed by
  up to `limit` calls of `Next` (the reader may abandon the iterator early; it stops at the first
  `false`). `Iterate` is `Range(Unbounded, Unbounded)` = `scan true .first _ none`. -/
  | scan (fwd : Bool) (sk : SeekKind) (skey : K) (stop : Option (CmpOp × K)) (limit : Nat)

/-- the key a search operation looks for (for a range reader: the seek key) -/
def Op.key : Op K V → K
  | .get k => k
  | .contains k => k
  | .put k _ => k
  | .scan _ _ skey _ _ => skey

/-- `Range(lo, hi)` (`rev = false`) / `RangeReverse(lo, hi)` as a reader operation, through the two regenerated
`switch` tables (as `Model.BTree.mkIter`); `none` = the code panics ("unknown bound") -/
def scanOf (rev : Bool) (lo hi : Bound K) (limit : Nat) : Option (Op K V) :=
  let seekTbl := if rev then rrangeSeek else rangeSeek
  let stopTbl := if rev then rrangeStop else rangeStop
  match (pickSide seekTbl.1 lo hi).kind with
  | none => none
  | some bk =>
    match seekTbl.2.find? (fun r => r.1 == bk) with
    | none => none
    | some (_, sk, arg) =>
      let key := match arg with
        | some s => (pickSide s lo hi).key
        | none => lo.key
      match (pickSide stopTbl.1 lo hi).kind with
      | none => none
      | some bk2 =>
        match stopTbl.2.find? (fun r => r.1 == bk2) with
        | none => none
        | some (_, .all fwd) => some (.scan fwd sk key none limit)
        | some (_, .while fwd op s) => some (.scan fwd sk key (some (op, (pickSide s lo hi).key)) limit)

def Op.isPut : Op K V → Bool
  | .put _ _ => true
  | _ => false

/-- what an operation returns -/
inductive Res (V : Type) where
  | val (v : Option V)
  | bool (b : Bool)
  | unit
  /-- a range reader is through: the values it was handed, in order -/
  | vals (l : List (Option V))
  /-- nil dereference / index out of range in the Go code -/
  | crash
  /-- left the modelled fragment -/
  | unmodelled
  deriving DecidableEq, Repr

/-- locals of the Go function -/
structure Regs (K V : Type) where
  curr : Option Nat
  idx : Nat
  ti : Int
  tk : Option K
  tv : Option V
  deriving Repr

def Regs.init : Regs K V := { curr := none, idx := 0, ti := 0, tk := none, tv := none }

inductive Mode where
  | seek | step | iter
  deriving DecidableEq, Repr

/-- the private fields of a range reader: the cursor (`curr`, `i`, `k`, `gen`), how many `Next` calls the
reader still makes, and what it has been handed so far -/
structure ItSt (K V : Type) where
  curr : Option Nat
  i : Int
  k : Option K
  cgen : Int
  /-- where the reader is: inside `seek`/`SeekFirst`/`SeekLast` (before `c.gen = c.t.gen`), inside the one
  `c.Next()`/`c.Prev()` a `Seek*` may end with, or iterating -/
  mode : Mode
  left : Nat
  out : List (K × Option V)
  deriving Repr

def ItSt.init (limit : Nat) : ItSt K V :=
  { curr := none, i := 0, k := none, cgen := 0, mode := .seek, left := limit, out := [] }

/-- program points of a range reader; each is ONE shared-memory read -/
inductive Ph where
  /-- `c.t.root.n == 0` (of `find` / `SeekFirst` / `SeekLast`): `c.t.root` -/
  | sRoot1
  /-- … `.n` -/
  | sRootN (r : Nat)
  /-- `curr := c.t.root` / `leftmostLeaf(c.t.root)` / `rightmostLeaf(c.t.root)`: `c.t.root` again -/
  | sRoot2
  /-- `find`: `searchNode`'s loop test, comparison, `return int(x.n), false` -/
  | ftest (x i : Nat) | fkey (x i : Nat) | fretn (x : Nat)
  /-- `find`: `curr.leaf()`; `idx == int(curr.n)`; `curr = curr.children[idx]` -/
  | fleaf (x idx : Nat) | fn (x idx : Nat) | fchild (x idx : Nat)
  /-- `c.k = c.curr.keys[c.i]` with `c.curr = x`, `c.i = i` -/
  | rdK (x : Nat) (i : Int)
  /-- `c.gen = c.t.gen` -/
  | sgen
  /-- `leftmostLeaf`: `curr.leaf()`; `curr = curr.children[0]` -/
  | dl (x : Nat) | dl2 (x : Nat)
  /-- `rightmostLeaf`: `curr.leaf()`; `int(curr.n)`; `curr = curr.children[…]` -/
  | dr (x : Nat) | drn (x : Nat) | drc (x : Nat) (n : Int)
  /-- `c.i = int(c.curr.n) - 1` -/
  | lastN (x : Nat)
  /-- `cursor.Next` / `Prev`: `lost()` reads `gen` -/
  | mGen
  /-- `c.curr.leaf()` -/
  | mLeaf (x : Nat)
  /-- leaf, forward: `c.i < int(c.curr.n)` after `c.i++` -/
  | mN (x : Nat) (i : Int)
  /-- inner node, forward: `c.i < int(c.curr.n)` -/
  | mIN (x : Nat)
  /-- `c.curr.children[j]` (forward `c.i+1`, backward `c.i`) -/
  | mCh (x : Nat) (j : Int)
  /-- the climb: `c.curr.parent == nil`; `c.curr.parent` (argument of `Index`); `children[j]` of the parent
  compared with `c.curr`; `c.curr = c.curr.parent`; forward `c.i < int(c.curr.n)` -/
  | cPar (x : Nat) | cPar2 (x : Nat) | cIdx (x p j : Nat) | cPar3 (x : Nat) (idx : Int) | cN (p : Nat) (i : Int)
  /-- iterator `Next`: `lost()` reads `gen` -/
  | nGen
  /-- iterator `Next`: `valueUnchecked()` -/
  | nVal
  /-- the reader is through -/
  | fin
  deriving DecidableEq, Repr

inductive PC (K V : Type) where
  /-- executing a straight-line list of micro-operations; afterwards (`cont`) enter the descent at
  `curr`, or return `r` -/
  | run (ops : List MOp) (cont : Bool) (rg : Regs K V) (r : Res V)
  /-- `searchNode`: loop test `i < int(x.n)` -/
  | test (x i : Nat)
  /-- `searchNode`: `c := compare(k, x.keys[i])` and the two `if`s -/
  | key (x i : Nat)
  /-- `searchNode`: `return int(x.n), false` -/
  | retn (x : Nat)
  /-- `Put`: `if curr.leaf()` -/
  | leaf (x idx : Nat)
  /-- `curr = curr.children[idx]` -/
  | child (x idx : Nat)
  /-- `Put` at a leaf: `if !curr.full()` -/
  | full (x : Nat)
  /-- `insertIntoLeaf`: loop test -/
  | itest (x j : Nat)
  /-- `insertIntoLeaf`: comparison -/
  | ikey (x j : Nat)
  /-- a range reader at program point `ph` with the cursor / iterator fields `st` -/
  | it (ph : Ph) (st : ItSt K V)
  | done (r : Res V)
  deriving Repr

def PC.isDone : PC K V → Bool
  | .done _ => true
  | .it .fin _ => true
  | _ => false

def planOf : Op K V → Option Plan
  | .get _ => getPlan
  | .contains _ => containsPlan
  | .put _ _ => putPlan
  | .scan _ _ _ _ _ => none

/-- what the loop does when `curr` is nil -/
def nilRes : Op K V → Res V
  | .get _ => .val none
  | .contains _ => .bool false
  | _ => .crash

/-- enter the descent loop at `curr` -/
def enter (op : Op K V) : Option Nat → PC K V
  | some x => .test x 0
  | none => .done (nilRes op)

/-- continue with a list of micro-operations (states with an empty list are never created) -/
def mk (op : Op K V) (ops : List MOp) (cont : Bool) (rg : Regs K V) (r : Res V) : PC K V :=
  match ops with
  | [] => if cont then enter op rg.curr else .done r
  | _ :: _ => .run ops cont rg r

def retRes : Ret → Res V
  | .unit => .unit
  | .true_ => .bool true
  | .value => .val none
  | .fall => .unmodelled

/-- the first state of an operation -/
def start (op : Op K V) : PC K V :=
  match op with
  | .scan _ _ _ _ limit => if scanShape then .it .sRoot1 (ItSt.init limit) else .done .unmodelled
  | _ =>
    match planOf op with
    | none => .done .unmodelled
    | some p => mk op p.prologue true Regs.init .unit

/-- `searchNode` returned `(idx, true)` -/
def foundAt (op : Op K V) (x idx : Nat) : PC K V :=
  match planOf op with
  | none => .done .unmodelled
  | some p =>
    match p.foundRet with
    | .fall => .done .unmodelled
    | r => mk op p.found false { (Regs.init : Regs K V) with curr := some x, idx := idx } (retRes r)

/-- `searchNode` returned `(idx, false)` -/
def notFoundAt (op : Op K V) (x idx : Nat) : PC K V :=
  if op.isPut then .leaf x idx else .child x idx

/-- element moves of `copy(a[idx+1:], a[idx:])` on `a = arr[:n+1]` (memmove: from the top down) -/
def moveOps (rd wr : Nat → MOp) (n idx : Nat) : List MOp :=
  ((List.range (n - idx)).reverse).flatMap fun d => [rd (idx + d), wr (idx + d + 1)]

/-- what remains of `Put` once `insertIntoLeaf` has found `idx` -/
def insertOps (epilogue : List MOp) : List MOp := [.planKeys, .planVals, .rdN, .wrN] ++ epilogue

def afterInsertIdx (op : Op K V) (x j : Nat) : PC K V :=
  match planOf op with
  | none => .done .unmodelled
  | some p => mk op (insertOps p.epilogue) false { (Regs.init : Regs K V) with curr := some x, idx := j } .unit

/-! ## the one access a goroutine performs next, and its effect -/

def rd (l : Loc) : Option Access := some ⟨l, false⟩
def wr (l : Loc) : Option Access := some ⟨l, true⟩

def mopAccess (rg : Regs K V) : MOp → Option Access
  | .readRoot => rd .root
  | .readGen => rd .gen
  | .writeGen => wr .gen
  | .readSize => rd .size
  | .writeSize => wr .size
  | .other => wr .other
  | o =>
    match rg.curr with
    | none => none
    | some x =>
      match o with
      | .readVal => rd (.node x (.val rg.idx))
      | .writeVal => wr (.node x (.val rg.idx))
      | .planKeys => rd (.node x .n)
      | .planVals => rd (.node x .n)
      | .rdKey j => rd (.node x (.key j))
      | .wrKeyT j => wr (.node x (.key j))
      | .wrKeyK j => wr (.node x (.key j))
      | .rdVal j => rd (.node x (.val j))
      | .wrValT j => wr (.node x (.val j))
      | .wrValV j => wr (.node x (.val j))
      | .rdN => rd (.node x .n)
      | .wrN => wr (.node x .n)
      | _ => none

/-- the read a range reader performs at program point `ph` -/
def itAccess (ph : Ph) (st : ItSt K V) : Option Access :=
  match ph with
  | .sRoot1 => rd .root
  | .sRootN r => rd (.node r .n)
  | .sRoot2 => rd .root
  | .ftest x _ => rd (.node x .n)
  | .fkey x i => rd (.node x (.key i))
  | .fretn x => rd (.node x .n)
  | .fleaf x _ => rd (.node x (.child 0))
  | .fn x _ => rd (.node x .n)
  | .fchild x idx => rd (.node x (.child idx))
  | .rdK x i => rd (.node x (.key i.toNat))
  | .sgen => rd .gen
  | .dl x => rd (.node x (.child 0))
  | .dl2 x => rd (.node x (.child 0))
  | .dr x => rd (.node x (.child 0))
  | .drn x => rd (.node x .n)
  | .drc x n => rd (.node x (.child n.toNat))
  | .lastN x => rd (.node x .n)
  | .mGen => rd .gen
  | .mLeaf x => rd (.node x (.child 0))
  | .mN x _ => rd (.node x .n)
  | .mIN x => rd (.node x .n)
  | .mCh x j => rd (.node x (.child j.toNat))
  | .cPar x => rd (.node x .parent)
  | .cPar2 x => rd (.node x .parent)
  | .cIdx _ p j => rd (.node p (.child j))
  | .cPar3 x _ => rd (.node x .parent)
  | .cN p _ => rd (.node p .n)
  | .nGen => rd .gen
  | .nVal =>
    match st.curr with
    | some x => rd (.node x (.val st.i.toNat))
    | none => none
  | .fin => none

/-- the next shared access of a goroutine: a function of its private state alone -/
def accessOf : PC K V → Option Access
  | .run (o :: _) _ rg _ => mopAccess rg o
  | .run [] _ _ _ => none
  | .test x _ => rd (.node x .n)
  | .key x i => rd (.node x (.key i))
  | .retn x => rd (.node x .n)
  | .leaf x _ => rd (.node x (.child 0))
  | .child x idx => rd (.node x (.child idx))
  | .full x => rd (.node x .n)
  | .itest x _ => rd (.node x .n)
  | .ikey x j => rd (.node x (.key j))
  | .it ph st => itAccess ph st
  | .done _ => none

/-- effect of one micro-operation: new memory, new locals, new result, micro-operations to prepend;
`none` = nil dereference -/
def mopExec (op : Op K V) (m : Mem K V) (rg : Regs K V) (r : Res V) (o : MOp) :
    Option (Mem K V × Regs K V × Res V × List MOp) :=
  match o with
  | .readRoot => some (m, { rg with curr := m.root }, r, [])
  | .readGen => some (m, { rg with ti := m.gen }, r, [])
  | .writeGen => some ({ m with gen := rg.ti + 1 }, rg, r, [])
  | .readSize => some (m, { rg with ti := m.size }, r, [])
  | .writeSize => some ({ m with size := rg.ti + 1 }, rg, r, [])
  | .other => some (m, rg, r, [])
  | o =>
    match rg.curr with
    | none => none
    | some x =>
      match o with
      | .readVal => some (m, rg, .val (m.val x rg.idx), [])
      | .writeVal =>
        match op with
        | .put _ v => some (m.setVal x rg.idx (some v), rg, r, [])
        | _ => none
      | .planKeys => some (m, rg, r, moveOps .rdKey .wrKeyT (m.n x).toNat rg.idx ++ [.wrKeyK rg.idx])
      | .planVals => some (m, rg, r, moveOps .rdVal .wrValT (m.n x).toNat rg.idx ++ [.wrValV rg.idx])
      | .rdKey j => some (m, { rg with tk := m.key x j }, r, [])
      | .wrKeyT j => some (m.setKey x j rg.tk, rg, r, [])
      | .wrKeyK j => some (m.setKey x j (some op.key), rg, r, [])
      | .rdVal j => some (m, { rg with tv := m.val x j }, r, [])
      | .wrValT j => some (m.setVal x j rg.tv, rg, r, [])
      | .wrValV j =>
        match op with
        | .put _ v => some (m.setVal x j (some v), rg, r, [])
        | _ => none
      | .rdN => some (m, { rg with ti := m.n x }, r, [])
      | .wrN => some (m.setN x (rg.ti + 1), rg, r, [])
      | _ => none

/-! ## the range reader -/

/-- which way the cursor moves: the `c.Next()` / `c.Prev()` a `Seek*` ends with, then the iterator's direction -/
def moveFwd (op : Op K V) (st : ItSt K V) : Bool :=
  match op with
  | .scan fwd sk _ _ _ =>
    match st.mode with
    | .step => (match sk with | .ge => true | .gt => true | .first => true | _ => false)
    | _ => fwd
  | _ => true

/-- the in-range predicate of the iterator on a key (`true` if there is none) -/
def inRangeOf (cmp : K → K → Int) (op : Op K V) (k : K) : Bool :=
  match op with
  | .scan _ _ _ (some (o, key)) _ => evalOp o (cmp k key)
  | _ => true

def hasPred : Op K V → Bool
  | .scan _ _ _ stop _ => stop.isSome
  | _ => false

def opFwd : Op K V → Bool
  | .scan fwd _ _ _ _ => fwd
  | _ => true

/-- the reader's loop: it calls `Next` again unless it has had its `limit` -/
def iterTop (st : ItSt K V) : PC K V :=
  if st.left = 0 then .it .fin st else .it .nGen { st with mode := .iter }

/-- one read of a range reader at program point `ph`, the value read deciding where it goes -/
def itNext (cmp : K → K → Int) (op : Op K V) (m : Mem K V) (ph : Ph) (st : ItSt K V) : PC K V :=
  let fwd := moveFwd op st
  match ph with
  | .sRoot1 =>
    match m.root with
    | some r => .it (.sRootN r) st
    | none => .done .crash
  | .sRootN _r =>
    -- `findEmpty` / `seekFirstEmpty` / `seekLastEmpty`: the three regenerated `root.n == 0` tests
    let n := m.n _r
    let empty := match op with
      | .scan _ .first _ _ _ => seekFirstEmpty n
      | .scan _ .last _ _ _ => seekLastEmpty n
      | _ => findEmpty n
    if empty then iterTop { st with curr := none } else .it .sRoot2 st
  | .sRoot2 =>
    match m.root with
    | none => .done .crash
    | some r =>
      match op with
      | .scan _ .first _ _ _ => .it (.dl r) st
      | .scan _ .last _ _ _ => .it (.dr r) st
      | _ => .it (.ftest r 0) st
  | .ftest x i => if (i : Int) < m.n x then .it (.fkey x i) st else .it (.fretn x) st
  | .fkey x i =>
    match m.key x i with
    | none => .done .crash
    | some k' =>
      let c := cmp op.key k'
      if searchLess c then .it (.fleaf x i) st
      else if searchEq c then .it (.rdK x i) st
      else .it (.ftest x (i + 1)) st
  | .fretn x => .it (.fleaf x (m.n x).toNat) st
  | .fleaf x idx =>
    match m.child x 0 with
    | none => .it (.fn x idx) st
    | some _ => .it (.fchild x idx) st
  | .fn x idx =>
    let idx' : Int := if findBacksUp idx (m.n x) && findBackUpDec then (idx : Int) - 1 else idx
    .it (.rdK x idx') st
  | .fchild x idx =>
    match m.child x idx with
    | some c => .it (.ftest c 0) st
    | none => .done .crash
  | .rdK x i =>
    if i < 0 then .done .crash else
    match m.key x i.toNat with
    | none => .done .crash
    | some k' =>
      let st' := { st with curr := some x, i := i, k := some k' }
      match st.mode with
      | .seek => .it .sgen st'
      | _ => iterTop st'
  | .sgen =>
    match op with
    | .scan _ sk skey _ _ =>
      let sets := match sk with
        | .first => seekFirstSetsGen
        | .last => seekLastSetsGen
        | _ => seekSetsGen
      let st' := { st with cgen := if sets then m.gen else st.cgen }
      let step : Bool := match sk, st.k with
        | .ge, some k => seekFirstGreaterOrEqualStep (cmp skey k)
        | .gt, some k => seekFirstGreaterStep (cmp skey k)
        | .le, some k => seekLastLessOrEqualStep (cmp skey k)
        | .lt, some k => seekLastLessStep (cmp skey k)
        | _, _ => false
      if step && seekStepCalls then .it .mGen { st' with mode := .step } else iterTop st'
    | _ => .done .crash
  | .dl x =>
    match m.child x 0 with
    | none => .it (.rdK x 0) st
    | some _ => .it (.dl2 x) st
  | .dl2 x =>
    match m.child x 0 with
    | some c => .it (.dl c) st
    | none => .done .crash
  | .dr x =>
    match m.child x 0 with
    | none => .it (.lastN x) st
    | some _ => .it (.drn x) st
  | .drn x => .it (.drc x (m.n x)) st
  | .drc x n =>
    match m.child x n.toNat with
    | some c => .it (.dr c) st
    | none => .done .crash
  | .lastN x =>
    .it (.rdK x (match st.mode with | .seek => seekLastIdx (m.n x) | _ => prevLeafLast (m.n x))) st
  | .mGen =>
    match st.curr with
    | none => iterTop st
    | some x => if st.cgen = m.gen then .it (.mLeaf x) st else .done .unmodelled
  | .mLeaf x =>
    match m.child x 0 with
    | none =>
      if fwd then .it (.mN x (st.i + 1)) st
      else if prevLeafStay (st.i - 1) then .it (.rdK x (st.i - 1)) st else .it (.cPar x) st
    | some _ =>
      if fwd then .it (.mIN x) st
      else if prevInnerDescend st.i then .it (.mCh x (prevChildIdx st.i)) st else .it (.cPar x) st
  | .mN x i => if nextLeafStay i (m.n x) then .it (.rdK x i) st else .it (.cPar x) st
  | .mIN x => if nextInnerDescend st.i (m.n x) then .it (.mCh x (nextChildIdx st.i)) st else .it (.cPar x) st
  | .mCh x j =>
    match m.child x j.toNat with
    | none => .done .crash
    | some c => if fwd then .it (.dl c) st else .it (.dr c) st
  | .cPar x =>
    match m.parent x with
    | none => iterTop { st with curr := none }
    | some _ => .it (.cPar2 x) st
  | .cPar2 x =>
    match m.parent x with
    | none => .done .crash
    | some p => .it (.cIdx x p 0) st
  | .cIdx x p j =>
    if m.child p j = some x then .it (.cPar3 x j) st
    else if ((j : Int) + 1 < childrenLen) then .it (.cIdx x p (j + 1)) st
    else .it (.cPar3 x (-1)) st
  | .cPar3 x idx =>
    match m.parent x with
    | none => .done .crash
    | some p =>
      if fwd then .it (.cN p (nextClimbIdx idx)) st
      else if prevClimbStop (prevClimbIdx idx) then .it (.rdK p (prevClimbIdx idx)) st else .it (.cPar p) st
  | .cN p i => if nextClimbStop i (m.n p) then .it (.rdK p i) st else .it (.cPar p) st
  | .nGen =>
    match st.curr with
    | none => .it .fin st
    | some _ =>
      if st.cgen = m.gen then
        match st.k with
        | none => .done .crash
        | some k => if iterStops (opFwd op) (hasPred op) (inRangeOf cmp op k) then .it .fin st else .it .nVal st
      else .done .unmodelled
  | .nVal =>
    match st.curr, st.k with
    | some x, some k =>
      .it .mGen { st with out := st.out ++ [(k, m.val x st.i.toNat)], left := st.left - 1 }
    | _, _ => .done .crash
  | .fin => .it .fin st

/-- the goroutine performs `accessOf pc` on the memory `m` -/
def next (cmp : K → K → Int) (op : Op K V) (m : Mem K V) : PC K V → Mem K V × PC K V
  | .run [] cont rg r => (m, mk op [] cont rg r)
  | .run (o :: ops) cont rg r =>
    match mopExec op m rg r o with
    | none => (m, .done .crash)
    | some (m', rg', r', pre) => (m', mk op (pre ++ ops) cont rg' r')
  | .test x i => (m, if (i : Int) < m.n x then .key x i else .retn x)
  | .key x i =>
    match m.key x i with
    | none => (m, .done .crash)
    | some k' =>
      let c := cmp op.key k'
      (m, if searchLess c then notFoundAt op x i
          else if searchEq c then foundAt op x i
          else .test x (i + 1))
  | .retn x => (m, notFoundAt op x (m.n x).toNat)
  | .leaf x idx =>
    match m.child x 0 with
    | some _ => (m, .child x idx)
    | none => (m, if insertShape then .full x else .done .unmodelled)
  | .child x idx =>
    match m.child x idx with
    | some c => (m, .test c 0)
    | none => (m, .done (nilRes op))
  | .full x => (m, if putInsertsDirect (full (m.n x)) then .itest x 0 else .done .unmodelled)
  | .itest x j => (m, if (j : Int) < m.n x then .ikey x j else afterInsertIdx op x j)
  | .ikey x j =>
    match m.key x j with
    | none => (m, .done .crash)
    | some k' => (m, if insertLess (cmp op.key k') then afterInsertIdx op x j else .itest x (j + 1))
  | .it ph st => (m, itNext cmp op m ph st)
  | .done r => (m, .done r)

/-! ## interleaving semantics -/

/-- shared memory + one program counter per goroutine (the operations are fixed, `ops[i]` is what
goroutine `i` executes) -/
structure Config (K V : Type) where
  mem : Mem K V
  pcs : List (PC K V)

def initial (m : Mem K V) (ops : List (Op K V)) : Config K V := { mem := m, pcs := ops.map start }

/-- goroutine `i` performs its next access; `none` if it has returned (or does not exist) -/
def stepAt (cmp : K → K → Int) (ops : List (Op K V)) (c : Config K V) (i : Nat) : Option (Config K V) :=
  match ops[i]?, c.pcs[i]? with
  | some op, some pc =>
    if pc.isDone then none
    else let r := next cmp op c.mem pc; some { mem := r.1, pcs := c.pcs.set i r.2 }
  | _, _ => none

inductive Reach (cmp : K → K → Int) (ops : List (Op K V)) (c0 : Config K V) : Config K V → Prop where
  | refl : Reach cmp ops c0 c0
  | step {c c' : Config K V} {i : Nat} : Reach cmp ops c0 c → stepAt cmp ops c i = some c' → Reach cmp ops c0 c'

/-- no goroutine can move: every operation has returned -/
def Terminal (cmp : K → K → Int) (ops : List (Op K V)) (c : Config K V) : Prop :=
  ∀ i, stepAt cmp ops c i = none

/-- **data race**: two different goroutines whose next accesses conflict.

*Why "both enabled in one configuration" is all there is* (audit C01R-F7; the first-race argument, written down).
The Go memory model calls two conflicting accesses of different goroutines a data race when neither happens before
the other. The operations modelled here contain no synchronisation, so happens-before between goroutines is empty
during the concurrent phase: ANY two conflicting accesses `a` (goroutine `i`, step `p` of some run) and `b`
(goroutine `j ≠ i`, step `q > p`) are a race in that sense, however far apart. Claim: then some reachable
configuration satisfies `Race`, so `¬ Race` on every reachable configuration (`concurrent_puts_race_free`) excludes all
of them. Proof: among such pairs of the run take one with `q` minimal and, for that `q`, `p` maximal. Run the same
schedule up to (not including) step `p`, then the steps between `p` and `q` *of the goroutines other than `i`*, in
their order. Each of these steps (goroutine `k`, originally step `r`, `p < r < q`) does what it did in the original
run: `k`'s private state is the same (induction on `r`; before `p` the runs coincide), and the location it accesses
holds the same value — the two memories differ at most in locations that `i` wrote in steps `[p, r)`, and if `k`'s
access touched one of those it would conflict with a write of `i` at an earlier step: a pair with second component
`r < q`, contradicting the minimality of `q`. So the shortened run is a run; at its end goroutine `j` is about to
perform `b` (its private state is that of step `q`) and goroutine `i` is still about to perform `a` (it has not moved
since step `p`): both enabled, conflicting — `Race`. The argument uses exactly two properties of `next`/`accessOf`,
both by construction of `next` (each clause reads or writes the one field `accessOf` names, `mopExec`/`itNext` included)
and observed on the real code by `c01acc` (comparator arguments, value slots read, raw slots written per call):
the successor of a private state depends on the memory only at the location `accessOf` names, and the memory changes
only there, and only if the access is a write. The argument is machine-checked for every system of that shape
(`Proofs/FirstRace.lean`: `no_conflicting_accesses_of_race_free`, re-exported as
`Props.C01Race.race_free_configurations_exclude_all_data_races`); what is not a Lean theorem is the instantiation — the
locality lemma for all clauses of `next`. -/
def Race (c : Config K V) : Prop :=
  ∃ (i j : Nat) (a b : Access), i ≠ j ∧ (c.pcs[i]?).bind accessOf = some a ∧ (c.pcs[j]?).bind accessOf = some b ∧ conflict a b = true

/-- executable race check -/
def hasRace (c : Config K V) : Bool :=
  (List.range c.pcs.length).any fun i => (List.range c.pcs.length).any fun j =>
    !(i == j) &&
      match (c.pcs[i]?).bind accessOf, (c.pcs[j]?).bind accessOf with
      | some a, some b => conflict a b
      | _, _ => false

/-- run a schedule (list of goroutine indices) -/
def runSched (cmp : K → K → Int) (ops : List (Op K V)) : Config K V → List Nat → Option (Config K V)
  | c, [] => some c
  | c, i :: is =>
    match stepAt cmp ops c i with
    | none => none
    | some c' => runSched cmp ops c' is

/-- one goroutine alone, to completion: its access sequence, the final memory and its result -/
def solo (cmp : K → K → Int) (op : Op K V) : Nat → Mem K V → PC K V → List Access × Mem K V × PC K V
  | 0, m, pc => ([], m, pc)
  | fuel + 1, m, pc =>
    if pc.isDone then ([], m, pc)
    else
      let r := next cmp op m pc
      let s := solo cmp op fuel r.1 r.2
      ((accessOf pc).toList ++ s.1, s.2.1, s.2.2)

end Juniper.Model.BTreeAccess
