import Juniper.Model.BTree
import Juniper.Generated.TreeAccess
set_option linter.unusedVariables false
/-!
# Memory-access model of `btree.Get` / `Contains` / `Put` / an iterator step (C01, concurrent clause)

`Model/BTree.lean` is a functional model: an operation maps a tree to a tree, so it cannot exhibit a
data race. This file refines the three operations that the last sentence of C01 talks about
("Puts from several goroutines to distinct keys that are already present, concurrent with reads of
other keys, are free of data races and all take effect") to **sequences of atomic shared-memory
accesses**, and gives them an **interleaving semantics**.

* Shared memory (`Mem`): the header fields of `btree` (`root`, `size`, `gen`) and, per node object
  (identified by the same `id` as in `Model/BTree.lean`), the field `n` and the slots `keys[i]`,
  `values[i]`, `children[i]`. A location is `Loc.root | size | gen | node id field`.
* A goroutine executes one operation (`Op`). Its private state is a program counter `PC` that also
  holds the locals of the Go function (`curr`, the loop index of `searchNode`, `idx`, temporaries).
  `accessOf pc` is the *one* shared access the goroutine performs next (it depends on the private
  state only); `next` performs it on the current memory (the value read decides where the goroutine
  goes). The comparisons are `searchNode`'s generated `searchLess` / `searchEq`; the descent is the one
  of `lookup` / `ins`.
* The statement lists of `Put`, `Get`, `Contains`, `searchNode`, `insertIntoLeaf`,
  `forwardIterator.Next`, `cursor.lost`, `cursor.valueUnchecked` are **generated**
  (`Juniper.Gen.TreeAccess`, re-extracted on every run). The control skeleton the machine implements is
  compared with them literally (`…Shape`); the straight-line parts — what `Put` does *before* its loop,
  what it does in the *overwrite branch* (`for[0]/if[0].body`), and what follows the insertion — are
  **interpreted** (`stmtOps`: `t.gen++` = read `gen`, write `gen`; `curr.values[idx] = v` = write of one
  value slot; …). Moving `t.gen++` to the top of `Put`, or into the overwrite branch, therefore changes
  the access sequence of a present-key `Put` (two such Puts then race on `gen`), and the theorems of
  `Props/C01Race.lean`, which pin the plans by `decide`, stop compiling.
* `Config` = memory + one `PC` per goroutine; `stepAt` = goroutine `i` performs its next access;
  `Reach` = reflexive-transitive closure; `Race` = two different goroutines whose next accesses touch
  the same location, at least one writing (there is no synchronisation in this API, so
  happens-before is program order and "both enabled in one configuration" is exactly "unordered").

What is *not* modelled (explicit outcome `Res.unmodelled`, never reached in the theorems): a `Put`
that has to split a full leaf (`overfill`), the re-seek of a lost iterator, and the cursor move at the
end of an iterator step (it reads `gen`, `n`, keys, child and parent pointers only).
-/
namespace Juniper.Model.BTreeAccess
open Juniper.Gen.Tree Juniper.Gen.TreeAccess Juniper.Model.BTree

/-! ## locations, accesses, memory -/

inductive Field where
  | n
  | key (i : Nat)
  | val (i : Nat)
  | child (i : Nat)
  deriving DecidableEq, Repr

inductive Loc where
  | root
  | size
  | gen
  | node (id : Nat) (f : Field)
  /-- a location the interpreter of statement lists cannot name (unknown statement): every access to
  it is a write, so two goroutines executing an uninterpreted statement are reported as racing -/
  | other
  deriving DecidableEq, Repr

structure Access where
  loc : Loc
  write : Bool
  deriving DecidableEq, Repr

/-- two accesses conflict: same location, at least one write -/
def conflict (a b : Access) : Bool := decide (a.loc = b.loc) && (a.write || b.write)

/-- the shared heap, one typed component per kind of location; `none` = zero value / nil -/
structure Mem (K V : Type) where
  root : Option Nat
  size : Int
  gen : Int
  n : Nat → Int
  key : Nat → Nat → Option K
  val : Nat → Nat → Option V
  child : Nat → Nat → Option Nat

variable {K V : Type}

def Mem.empty : Mem K V :=
  { root := none, size := 0, gen := 0, n := fun _ => 0, key := fun _ _ => none, val := fun _ _ => none,
    child := fun _ _ => none }

def Mem.setN (m : Mem K V) (a : Nat) (z : Int) : Mem K V :=
  { m with n := fun b => if b = a then z else m.n b }
def Mem.setKey (m : Mem K V) (a i : Nat) (k : Option K) : Mem K V :=
  { m with key := fun b j => if b = a ∧ j = i then k else m.key b j }
def Mem.setVal (m : Mem K V) (a i : Nat) (v : Option V) : Mem K V :=
  { m with val := fun b j => if b = a ∧ j = i then v else m.val b j }

/-! ## the heap image of a functional tree -/

mutual
/-- store the fields of every node object of the subtree -/
def storeNode : Node K V → Mem K V → Mem K V
  | .mk id kvs kids, m =>
    storeKids kids
      { m with
        n := fun b => if b = id then (kvs.length : Int) else m.n b
        key := fun b j => if b = id then (kvs[j]?).map (·.1) else m.key b j
        val := fun b j => if b = id then (kvs[j]?).map (·.2) else m.val b j
        child := fun b j => if b = id then (kids[j]?).map Node.id else m.child b j }
def storeKids : List (Node K V) → Mem K V → Mem K V
  | [], m => m
  | c :: cs, m => storeKids cs (storeNode c m)
end

/-- the memory that holds the tree `t` (node identities pairwise distinct) -/
def memOf (t : Tree K V) : Mem K V :=
  storeNode t.root { (Mem.empty : Mem K V) with root := some t.root.id, size := t.size, gen := t.gen }

/-! ## interpreting the generated statement lists -/

/-- micro-operations: each is ONE shared-memory access (plus private bookkeeping) -/
inductive MOp where
  /-- `curr := t.root` -/
  | readRoot
  /-- `t.gen++` = `readGen; writeGen` -/
  | readGen | writeGen
  /-- `t.size++` = `readSize; writeSize` -/
  | readSize | writeSize
  /-- `return curr.values[idx]` -/
  | readVal
  /-- `curr.values[idx] = v` -/
  | writeVal
  /-- `insertOne(x.keys[:int(x.n)+1], idx, k)`: read `x.n`, then the element moves, then `keys[idx] = k` -/
  | planKeys
  | planVals
  | rdKey (j : Nat) | wrKeyT (j : Nat) | wrKeyK (j : Nat)
  | rdVal (j : Nat) | wrValT (j : Nat) | wrValV (j : Nat)
  /-- `x.n++` = `rdN; wrN` -/
  | rdN | wrN
  /-- a statement the interpreter does not know -/
  | other
  deriving DecidableEq, Repr

/-- a simple statement that touches shared memory, as micro-operations -/
def stmtOps (s : String) : List MOp :=
  if s == "curr := t.root" then [.readRoot]
  else if s == "t.gen++" then [.readGen, .writeGen]
  else if s == "t.size++" then [.readSize, .writeSize]
  else if s == "curr.values[idx] = v" then [.writeVal]
  else [.other]

/-- a straight-line statement list -/
def seqOps : List String → List MOp
  | [] => []
  | s :: rest => stmtOps s ++ seqOps rest

/-- how a branch ends -/
inductive Ret where
  | unit | true_ | value
  /-- the branch does not return: control flow we do not model -/
  | fall
  deriving DecidableEq, Repr

/-- a branch body: statements up to and including the first `return` -/
def branchOps : List String → List MOp × Ret
  | [] => ([], .fall)
  | s :: rest =>
    if s == "return" then ([], .unit)
    else if s == "return true" then ([], .true_)
    else if s == "return curr.values[idx]" then ([.readVal], .value)
    else let r := branchOps rest; (stmtOps s ++ r.1, r.2)

/-- `searchNode` has the control skeleton the machine below implements (`test` / `key` / `retn`) -/
def searchShape : Bool :=
  searchNodeStmts == ["for i < int(x.n) {", "c := t.compare(k, x.keys[i])", "if c < 0 {", "return i, false",
    "} else {", "if c == 0 {", "return i, true", "}", "}", "}", "return int(x.n), false"]

/-- prologue (before the loop), overwrite/found branch, epilogue (after the insertion) of an operation -/
structure Plan where
  prologue : List MOp
  found : List MOp
  foundRet : Ret
  epilogue : List MOp
  deriving DecidableEq, Repr

def putLoop : List String :=
  ["for {", "idx, inNode := t.searchNode(k, curr)", "if inNode {"] ++ putFoundStmts ++
    ["}", "if curr.leaf() {", "break", "}", "curr = curr.children[idx]", "}"]

def putInsertion : List String :=
  ["if !curr.full() {", "t.insertIntoLeaf(curr, k, v)", "} else {", "t.overfill(curr, k, v, nil)", "}"]

/-- `Put`: whatever precedes the loop and whatever follows the insertion is interpreted; the loop and
the insertion `if` must be the ones the machine implements -/
def putPlan : Option Plan :=
  let pro := putStmts.takeWhile (fun s => !(s == "for {"))
  let rest := putStmts.drop pro.length
  if searchShape && rest.take putLoop.length == putLoop &&
      (rest.drop putLoop.length).take putInsertion.length == putInsertion then
    some { prologue := seqOps pro, found := (branchOps putFoundStmts).1, foundRet := (branchOps putFoundStmts).2,
           epilogue := seqOps (rest.drop (putLoop.length + putInsertion.length)) }
  else none

def readLoop (foundStmts : List String) : List String :=
  ["for curr != nil {", "idx, inNode := t.searchNode(k, curr)", "if inNode {"] ++ foundStmts ++
    ["}", "curr = curr.children[idx]", "}"]

def readPlan (stmts foundStmts tail : List String) : Option Plan :=
  let pro := stmts.takeWhile (fun s => !(s == "for curr != nil {"))
  let rest := stmts.drop pro.length
  if searchShape && rest == readLoop foundStmts ++ tail then
    some { prologue := seqOps pro, found := (branchOps foundStmts).1, foundRet := (branchOps foundStmts).2, epilogue := [] }
  else none

def getPlan : Option Plan := readPlan getStmts getFoundStmts ["var zero V", "return zero"]
def containsPlan : Option Plan := readPlan containsStmts containsFoundStmts ["return false"]

/-- `insertIntoLeaf` has the skeleton the machine implements (`itest` / `ikey`, then `planKeys`,
`planVals`, `x.n++`) -/
def insertShape : Bool :=
  insertIntoLeafStmts == ["idx := 0", "for idx < int(x.n) {", "if t.compare(k, x.keys[idx]) < 0 {", "break", "}",
    "idx++", "}", "insertOne(x.keys[:int(x.n)+1], idx, k)", "insertOne(x.values[:int(x.n)+1], idx, v)", "x.n++"]

/-- the iterator step: `lost()` (reads `gen`; only if it differs `curr.n`, then `keys[i]`), then the
value read, then the cursor move -/
def iterShape : Bool :=
  fwdNextStmts == ["if iter.c.lost() {", "iter.c.SeekFirstGreaterOrEqual(iter.c.Key())", "}", "if iter.c.curr == nil {",
    "var zero KVPair[K, V]", "return zero, false", "}", "k := iter.c.Key()", "v := iter.c.valueUnchecked()",
    "iter.c.Next()", "return KVPair[K, V]{k, v}, true"] &&
  lostStmts == ["return c.gen != c.t.gen && c.curr != nil && (c.i >= int(c.curr.n) || c.t.compare(c.k, c.curr.keys[c.i]) != 0)"] &&
  valueUncheckedStmts == ["return c.curr.values[c.i]"]

/-! ## operations and private state -/

inductive Op (K V : Type) where
  | get (k : K)
  | contains (k : K)
  | put (k : K) (v : V)
  /-- one `forwardIterator.Next` of a cursor parked at slot `i` of node `x`, with the cursor's
  generation `cgen` and expected key `ck` -/
  | iter (x i : Nat) (cgen : Int) (ck : K)

def Op.key : Op K V → K
  | .get k => k
  | .contains k => k
  | .put k _ => k
  | .iter _ _ _ ck => ck

def Op.isPut : Op K V → Bool
  | .put _ _ => true
  | _ => false

/-- what an operation returns -/
inductive Res (V : Type) where
  | val (v : Option V)
  | bool (b : Bool)
  | unit
  /-- nil dereference / index out of range in the Go code -/
  | crash
  /-- left the modelled fragment -/
  | unmodelled
  deriving DecidableEq, Repr

/-- locals of the Go function -/
structure Regs (K V : Type) where
  curr : Option Nat
  idx : Nat
  ti : Int
  tk : Option K
  tv : Option V
  deriving Repr

def Regs.init : Regs K V := { curr := none, idx := 0, ti := 0, tk := none, tv := none }

inductive PC (K V : Type) where
  /-- executing a straight-line list of micro-operations; afterwards (`cont`) enter the descent at
  `curr`, or return `r` -/
  | run (ops : List MOp) (cont : Bool) (rg : Regs K V) (r : Res V)
  /-- `searchNode`: loop test `i < int(x.n)` -/
  | test (x i : Nat)
  /-- `searchNode`: `c := compare(k, x.keys[i])` and the two `if`s -/
  | key (x i : Nat)
  /-- `searchNode`: `return int(x.n), false` -/
  | retn (x : Nat)
  /-- `Put`: `if curr.leaf()` -/
  | leaf (x idx : Nat)
  /-- `curr = curr.children[idx]` -/
  | child (x idx : Nat)
  /-- `Put` at a leaf: `if !curr.full()` -/
  | full (x : Nat)
  /-- `insertIntoLeaf`: loop test -/
  | itest (x j : Nat)
  /-- `insertIntoLeaf`: comparison -/
  | ikey (x j : Nat)
  /-- `lost()`: `c.gen != c.t.gen` -/
  | lostGen (x i : Nat)
  /-- `lost()`: `c.i >= int(c.curr.n)` -/
  | lostN (x i : Nat)
  /-- `lost()`: `compare(c.k, c.curr.keys[c.i]) != 0` -/
  | lostKey (x i : Nat)
  /-- `valueUnchecked()` -/
  | itVal (x i : Nat)
  | done (r : Res V)
  deriving Repr

def PC.isDone : PC K V → Bool
  | .done _ => true
  | _ => false

def planOf : Op K V → Option Plan
  | .get _ => getPlan
  | .contains _ => containsPlan
  | .put _ _ => putPlan
  | .iter _ _ _ _ => none

/-- what the loop does when `curr` is nil -/
def nilRes : Op K V → Res V
  | .get _ => .val none
  | .contains _ => .bool false
  | _ => .crash

/-- enter the descent loop at `curr` -/
def enter (op : Op K V) : Option Nat → PC K V
  | some x => .test x 0
  | none => .done (nilRes op)

/-- continue with a list of micro-operations (states with an empty list are never created) -/
def mk (op : Op K V) (ops : List MOp) (cont : Bool) (rg : Regs K V) (r : Res V) : PC K V :=
  match ops with
  | [] => if cont then enter op rg.curr else .done r
  | _ :: _ => .run ops cont rg r

def retRes : Ret → Res V
  | .unit => .unit
  | .true_ => .bool true
  | .value => .val none
  | .fall => .unmodelled

/-- the first state of an operation -/
def start (op : Op K V) : PC K V :=
  match op with
  | .iter x i _ _ => if iterShape then .lostGen x i else .done .unmodelled
  | _ =>
    match planOf op with
    | none => .done .unmodelled
    | some p => mk op p.prologue true Regs.init .unit

/-- `searchNode` returned `(idx, true)` -/
def foundAt (op : Op K V) (x idx : Nat) : PC K V :=
  match planOf op with
  | none => .done .unmodelled
  | some p =>
    match p.foundRet with
    | .fall => .done .unmodelled
    | r => mk op p.found false { (Regs.init : Regs K V) with curr := some x, idx := idx } (retRes r)

/-- `searchNode` returned `(idx, false)` -/
def notFoundAt (op : Op K V) (x idx : Nat) : PC K V :=
  if op.isPut then .leaf x idx else .child x idx

/-- element moves of `copy(a[idx+1:], a[idx:])` on `a = arr[:n+1]` (memmove: from the top down) -/
def moveOps (rd wr : Nat → MOp) (n idx : Nat) : List MOp :=
  ((List.range (n - idx)).reverse).flatMap fun d => [rd (idx + d), wr (idx + d + 1)]

/-- what remains of `Put` once `insertIntoLeaf` has found `idx` -/
def insertOps (epilogue : List MOp) : List MOp := [.planKeys, .planVals, .rdN, .wrN] ++ epilogue

def afterInsertIdx (op : Op K V) (x j : Nat) : PC K V :=
  match planOf op with
  | none => .done .unmodelled
  | some p => mk op (insertOps p.epilogue) false { (Regs.init : Regs K V) with curr := some x, idx := j } .unit

/-! ## the one access a goroutine performs next, and its effect -/

def rd (l : Loc) : Option Access := some ⟨l, false⟩
def wr (l : Loc) : Option Access := some ⟨l, true⟩

def mopAccess (rg : Regs K V) : MOp → Option Access
  | .readRoot => rd .root
  | .readGen => rd .gen
  | .writeGen => wr .gen
  | .readSize => rd .size
  | .writeSize => wr .size
  | .other => wr .other
  | o =>
    match rg.curr with
    | none => none
    | some x =>
      match o with
      | .readVal => rd (.node x (.val rg.idx))
      | .writeVal => wr (.node x (.val rg.idx))
      | .planKeys => rd (.node x .n)
      | .planVals => rd (.node x .n)
      | .rdKey j => rd (.node x (.key j))
      | .wrKeyT j => wr (.node x (.key j))
      | .wrKeyK j => wr (.node x (.key j))
      | .rdVal j => rd (.node x (.val j))
      | .wrValT j => wr (.node x (.val j))
      | .wrValV j => wr (.node x (.val j))
      | .rdN => rd (.node x .n)
      | .wrN => wr (.node x .n)
      | _ => none

/-- the next shared access of a goroutine: a function of its private state alone -/
def accessOf : PC K V → Option Access
  | .run (o :: _) _ rg _ => mopAccess rg o
  | .run [] _ _ _ => none
  | .test x _ => rd (.node x .n)
  | .key x i => rd (.node x (.key i))
  | .retn x => rd (.node x .n)
  | .leaf x _ => rd (.node x (.child 0))
  | .child x idx => rd (.node x (.child idx))
  | .full x => rd (.node x .n)
  | .itest x _ => rd (.node x .n)
  | .ikey x j => rd (.node x (.key j))
  | .lostGen _ _ => rd .gen
  | .lostN x _ => rd (.node x .n)
  | .lostKey x i => rd (.node x (.key i))
  | .itVal x i => rd (.node x (.val i))
  | .done _ => none

/-- effect of one micro-operation: new memory, new locals, new result, micro-operations to prepend;
`none` = nil dereference -/
def mopExec (op : Op K V) (m : Mem K V) (rg : Regs K V) (r : Res V) (o : MOp) :
    Option (Mem K V × Regs K V × Res V × List MOp) :=
  match o with
  | .readRoot => some (m, { rg with curr := m.root }, r, [])
  | .readGen => some (m, { rg with ti := m.gen }, r, [])
  | .writeGen => some ({ m with gen := rg.ti + 1 }, rg, r, [])
  | .readSize => some (m, { rg with ti := m.size }, r, [])
  | .writeSize => some ({ m with size := rg.ti + 1 }, rg, r, [])
  | .other => some (m, rg, r, [])
  | o =>
    match rg.curr with
    | none => none
    | some x =>
      match o with
      | .readVal => some (m, rg, .val (m.val x rg.idx), [])
      | .writeVal =>
        match op with
        | .put _ v => some (m.setVal x rg.idx (some v), rg, r, [])
        | _ => none
      | .planKeys => some (m, rg, r, moveOps .rdKey .wrKeyT (m.n x).toNat rg.idx ++ [.wrKeyK rg.idx])
      | .planVals => some (m, rg, r, moveOps .rdVal .wrValT (m.n x).toNat rg.idx ++ [.wrValV rg.idx])
      | .rdKey j => some (m, { rg with tk := m.key x j }, r, [])
      | .wrKeyT j => some (m.setKey x j rg.tk, rg, r, [])
      | .wrKeyK j => some (m.setKey x j (some op.key), rg, r, [])
      | .rdVal j => some (m, { rg with tv := m.val x j }, r, [])
      | .wrValT j => some (m.setVal x j rg.tv, rg, r, [])
      | .wrValV j =>
        match op with
        | .put _ v => some (m.setVal x j (some v), rg, r, [])
        | _ => none
      | .rdN => some (m, { rg with ti := m.n x }, r, [])
      | .wrN => some (m.setN x (rg.ti + 1), rg, r, [])
      | _ => none

/-- the goroutine performs `accessOf pc` on the memory `m` -/
def next (cmp : K → K → Int) (op : Op K V) (m : Mem K V) : PC K V → Mem K V × PC K V
  | .run [] cont rg r => (m, mk op [] cont rg r)
  | .run (o :: ops) cont rg r =>
    match mopExec op m rg r o with
    | none => (m, .done .crash)
    | some (m', rg', r', pre) => (m', mk op (pre ++ ops) cont rg' r')
  | .test x i => (m, if (i : Int) < m.n x then .key x i else .retn x)
  | .key x i =>
    match m.key x i with
    | none => (m, .done .crash)
    | some k' =>
      let c := cmp op.key k'
      (m, if searchLess c then notFoundAt op x i
          else if searchEq c then foundAt op x i
          else .test x (i + 1))
  | .retn x => (m, notFoundAt op x (m.n x).toNat)
  | .leaf x idx =>
    match m.child x 0 with
    | some _ => (m, .child x idx)
    | none => (m, if insertShape then .full x else .done .unmodelled)
  | .child x idx =>
    match m.child x idx with
    | some c => (m, .test c 0)
    | none => (m, .done (nilRes op))
  | .full x => (m, if putInsertsDirect (full (m.n x)) then .itest x 0 else .done .unmodelled)
  | .itest x j => (m, if (j : Int) < m.n x then .ikey x j else afterInsertIdx op x j)
  | .ikey x j =>
    match m.key x j with
    | none => (m, .done .crash)
    | some k' => (m, if insertLess (cmp op.key k') then afterInsertIdx op x j else .itest x (j + 1))
  | .lostGen x i =>
    match op with
    | .iter _ _ cgen _ => (m, if cgen = m.gen then .itVal x i else .lostN x i)
    | _ => (m, .done .crash)
  | .lostN x i => (m, if (i : Int) ≥ m.n x then .done .unmodelled else .lostKey x i)
  | .lostKey x i =>
    match m.key x i with
    | none => (m, .done .crash)
    | some k' => (m, if cmp op.key k' = 0 then .itVal x i else .done .unmodelled)
  | .itVal x i => (m, .done (.val (m.val x i)))
  | .done r => (m, .done r)

/-! ## interleaving semantics -/

/-- shared memory + one program counter per goroutine (the operations are fixed, `ops[i]` is what
goroutine `i` executes) -/
structure Config (K V : Type) where
  mem : Mem K V
  pcs : List (PC K V)

def initial (m : Mem K V) (ops : List (Op K V)) : Config K V := { mem := m, pcs := ops.map start }

/-- goroutine `i` performs its next access; `none` if it has returned (or does not exist) -/
def stepAt (cmp : K → K → Int) (ops : List (Op K V)) (c : Config K V) (i : Nat) : Option (Config K V) :=
  match ops[i]?, c.pcs[i]? with
  | some op, some pc =>
    if pc.isDone then none
    else let r := next cmp op c.mem pc; some { mem := r.1, pcs := c.pcs.set i r.2 }
  | _, _ => none

inductive Reach (cmp : K → K → Int) (ops : List (Op K V)) (c0 : Config K V) : Config K V → Prop where
  | refl : Reach cmp ops c0 c0
  | step {c c' : Config K V} {i : Nat} : Reach cmp ops c0 c → stepAt cmp ops c i = some c' → Reach cmp ops c0 c'

/-- no goroutine can move: every operation has returned -/
def Terminal (cmp : K → K → Int) (ops : List (Op K V)) (c : Config K V) : Prop :=
  ∀ i, stepAt cmp ops c i = none

/-- **data race**: two different goroutines whose next accesses conflict -/
def Race (c : Config K V) : Prop :=
  ∃ (i j : Nat) (a b : Access), i ≠ j ∧ (c.pcs[i]?).bind accessOf = some a ∧ (c.pcs[j]?).bind accessOf = some b ∧ conflict a b = true

/-- executable race check -/
def hasRace (c : Config K V) : Bool :=
  (List.range c.pcs.length).any fun i => (List.range c.pcs.length).any fun j =>
    !(i == j) &&
      match (c.pcs[i]?).bind accessOf, (c.pcs[j]?).bind accessOf with
      | some a, some b => conflict a b
      | _, _ => false

/-- run a schedule (list of goroutine indices) -/
def runSched (cmp : K → K → Int) (ops : List (Op K V)) : Config K V → List Nat → Option (Config K V)
  | c, [] => some c
  | c, i :: is =>
    match stepAt cmp ops c i with
    | none => none
    | some c' => runSched cmp ops c' is

/-- one goroutine alone, to completion: its access sequence, the final memory and its result -/
def solo (cmp : K → K → Int) (op : Op K V) : Nat → Mem K V → PC K V → List Access × Mem K V × PC K V
  | 0, m, pc => ([], m, pc)
  | fuel + 1, m, pc =>
    if pc.isDone then ([], m, pc)
    else
      let r := next cmp op m pc
      let s := solo cmp op fuel r.1 r.2
      ((accessOf pc).toList ++ s.1, s.2.1, s.2.2)

end Juniper.Model.BTreeAccess
