import Juniper.Generated.Tree
set_option linter.unusedVariables false
/-!
# Model of `container/tree` (C01, C02, C03): the B-tree behind `tree.Map` / `tree.Set`

Executable, core-only. A *labelled functional tree*: `Node.mk id kvs kids` where `id` is the identity
of the Go node object (split: the left half keeps the id, the right half is fresh; merge: the left
node keeps its id, the right one is retired; rotations keep ids; a new root is fresh; a collapsed
root is retired), `kvs` is the live prefix `keys[:n]`/`values[:n]` and `kids` the live children
(`[]` for a leaf, which is the Go test `children[0] == nil`).

Every threshold, comparison operator, index expression and presence-of-statement used below is the
*generated* definition re-extracted from `btree.go` on every run (`Juniper.Gen.Tree`); the
hand-written part is the control structure, read top-down where the Go code works bottom-up through
parent pointers, and the list surgery (always in *append style*: `take i ++ x :: drop j`). The
correspondence check compares this model with the real code at shape level (node identities, keys,
values, child lists, size, gen) after every mutating operation.

The comparator is Go's `func(K, K) int`; only its sign is ever used (through the generated
predicates). Situations in which the Go code would dereference a nil pointer (only possible in
ill-formed trees) are the explicit outcome `crash`/`none`, never totalised away.
-/
namespace Juniper.Model.BTree
open Juniper.Gen.Tree

inductive Node (K V : Type) where
  | mk (id : Nat) (kvs : List (K × V)) (kids : List (Node K V))

variable {K V : Type}

namespace Node
def id : Node K V → Nat | mk i _ _ => i
def kvs : Node K V → List (K × V) | mk _ l _ => l
def kids : Node K V → List (Node K V) | mk _ _ c => c
/-- the Go field `n` -/
def n (x : Node K V) : Int := x.kvs.length
/-- `x.leaf()`: `children[0] == nil` -/
def isLeaf (x : Node K V) : Bool := x.kids.isEmpty
end Node

structure Tree (K V : Type) where
  root : Node K V
  size : Int
  gen : Nat
  nextId : Nat

/-- `newBtree`: an empty root node. -/
def Tree.empty : Tree K V := { root := .mk 0 [] [], size := 0, gen := 0, nextId := 1 }

def bump (b : Bool) (g : Nat) : Nat := if b then g + 1 else g

/-! ## list surgery (append style) -/

def insertAt {α : Type} (l : List α) (i : Nat) (x : α) : List α := l.take i ++ x :: l.drop i
def replaceAt {α : Type} (l : List α) (i : Nat) (x : α) : List α := l.take i ++ x :: l.drop (i + 1)
def removeAt {α : Type} (l : List α) (i : Nat) : List α := l.take i ++ l.drop (i + 1)

/-! ## searching inside one node -/

/-- `searchNode`: `(idx, inNode)`. -/
def searchNode (cmp : K → K → Int) (k : K) : List (K × V) → Nat × Bool
  | [] => (0, false)
  | (k', _) :: rest =>
    let c := cmp k k'
    if searchLess c then (0, false)
    else if searchEq c then (0, true)
    else let r := searchNode cmp k rest; (r.1 + 1, r.2)

/-- first index whose key satisfies `p (cmp k key)` (the loops of `insertIntoLeaf` and of the
amalgam's `extraIdx`), `length` if none. -/
def lowerIdx (p : Int → Bool) (cmp : K → K → Int) (k : K) : List (K × V) → Nat
  | [] => 0
  | (k', _) :: rest => if p (cmp k k') then 0 else lowerIdx p cmp k rest + 1

def setVal (kvs : List (K × V)) (i : Nat) (v : V) : List (K × V) :=
  match kvs.drop i with
  | (k, _) :: rest => kvs.take i ++ (k, v) :: rest
  | [] => kvs

/-! ## Put -/

inductive InsRes (K V : Type) where
  /-- an equivalent key was found: only its value slot was written -/
  | found (x : Node K V)
  /-- inserted below without splitting this node -/
  | one (x : Node K V)
  /-- this node was split: left half (same identity), separator, right half (fresh identity) -/
  | split (l : Node K V) (sep : K × V) (r : Node K V)
  /-- the Go code would dereference a nil child (ill-formed tree) -/
  | crash

/-- first `i` in `[i₀, i₀ + fuel)` with `p i` -/
def firstIdx (p : Nat → Bool) : Nat → Nat → Option Nat
  | 0, _ => none
  | fuel + 1, i => if p i then some i else firstIdx p fuel (i + 1)

/-- the amalgam position at which `amalgam1.Child` hands out the extra child (`afterK`), given
`extraIdx = e`: the first `i ≤ e + 1` that satisfies the generated test `i == a.extraIdx+1`. `none`:
the extra child is never handed out. -/
def extraChildPos (e : Nat) : Option Nat := firstIdx (fun i => amalgamExtraChildIdx i e) (e + 2) 0

/-- one round of `overfill`'s loop on the full node `(id, kvs, kids)`: build the amalgam with the
extra entry `kv` and its right child `afterK`, cut it at `medianIdx`. -/
def overfillNode (cmp : K → K → Int) (id : Nat) (kvs : List (K × V)) (kids : List (Node K V))
    (kv : K × V) (afterK : Option (Node K V)) (fresh : Nat) : Node K V × (K × V) × Node K V :=
  let e := lowerIdx amalgamLess cmp kv.1 kvs
  let all := insertAt kvs e kv
  let allKids := match afterK with
    | none => kids
    | some r =>
      match extraChildPos e with
      | some p => insertAt kids p r
      | none => kids
  let sep := all.getD medianIdx.toNat kv
  let left := Node.mk id (all.take leftN.toNat) (allKids.take (leftN.toNat + 1))
  let right := Node.mk fresh ((all.drop (rightFirstIdx 0).toNat).take rightN.toNat)
    ((allKids.drop (rightFirstChildIdx 0).toNat).take (rightN.toNat + 1))
  (left, sep, right)

/-- `Put` below one node, read top-down; the second component threads the next fresh identity. -/
def ins (cmp : K → K → Int) (k : K) (v : V) (x : Node K V) (fresh : Nat) : InsRes K V × Nat :=
  match x with
  | .mk id kvs kids =>
    match searchNode cmp k kvs with
    | (i, true) => (.found (.mk id (setVal kvs i v) kids), fresh)
    | (i, false) =>
      if kids.isEmpty then
        if putInsertsDirect (full kvs.length) then
          (.one (.mk id (insertAt kvs (lowerIdx insertLess cmp k kvs) (k, v)) []), fresh)
        else
          let r := overfillNode cmp id kvs [] (k, v) none fresh
          (.split r.1 r.2.1 r.2.2, fresh + 1)
      else
        match h : kids[i]? with
        | none => (.crash, fresh)
        | some c =>
          match ins cmp k v c fresh with
          | (.crash, f) => (.crash, f)
          | (.found c', f) => (.found (.mk id kvs (replaceAt kids i c')), f)
          | (.one c', f) => (.one (.mk id kvs (replaceAt kids i c')), f)
          | (.split l sep r, f) =>
            let kids1 := replaceAt kids i l
            if overfillParentHasRoom (full kvs.length) then
              (.one (.mk id (insertAt kvs (parentSepIdx i).toNat sep)
                (insertAt kids1 (parentRightIdx i).toNat r)), f)
            else
              let s := overfillNode cmp id kvs kids1 sep (some r) f
              (.split s.1 s.2.1 s.2.2, f + 1)
termination_by sizeOf x
decreasing_by
  have := List.sizeOf_lt_of_mem (List.mem_of_getElem? h)
  simp only [Node.mk.sizeOf_spec]
  omega

/-- `btree.Put`; `none` = nil dereference (ill-formed tree only). -/
def put (cmp : K → K → Int) (t : Tree K V) (k : K) (v : V) : Option (Tree K V) :=
  match ins cmp k v t.root t.nextId with
  | (.crash, _) => none
  | (.found r, _) => some { t with root := r }
  | (.one r, f) =>
    some { root := r, size := if putBumpsSize then t.size + 1 else t.size, gen := bump putBumpsGen t.gen, nextId := f }
  | (.split l sep r, f) =>
    some { root := .mk f [sep] [l, r], size := if putBumpsSize then t.size + 1 else t.size,
           gen := bump putBumpsGen t.gen, nextId := f + 1 }

/-! ## Get / Contains / First / Last -/

/-- `Get` / `Contains`: the entry found, if any (`none` = zero value / `false`). -/
def lookup (cmp : K → K → Int) (k : K) (x : Node K V) : Option (K × V) :=
  match x with
  | .mk _ kvs kids =>
    match searchNode cmp k kvs with
    | (i, true) => kvs[i]?
    | (i, false) =>
      match h : kids[i]? with
      | none => none
      | some c => lookup cmp k c
termination_by sizeOf x
decreasing_by
  have := List.sizeOf_lt_of_mem (List.mem_of_getElem? h)
  simp only [Node.mk.sizeOf_spec]
  omega

def get (cmp : K → K → Int) (t : Tree K V) (k : K) : Option V := (lookup cmp k t.root).map (·.2)
def contains (cmp : K → K → Int) (t : Tree K V) (k : K) : Bool := (lookup cmp k t.root).isSome
def len (t : Tree K V) : Int := t.size

def leftmostLeaf (x : Node K V) : Node K V :=
  match x with
  | .mk id kvs kids =>
    match h : kids[0]? with
    | none => .mk id kvs kids
    | some c => leftmostLeaf c
termination_by sizeOf x
decreasing_by
  have := List.sizeOf_lt_of_mem (List.mem_of_getElem? h)
  simp only [Node.mk.sizeOf_spec]
  omega

/-- follows `children[n]`; stops at a leaf (or, in an ill-formed tree, where that child is nil). -/
def rightmostLeaf (x : Node K V) : Node K V :=
  match x with
  | .mk id kvs kids =>
    match h : kids[kvs.length]? with
    | none => .mk id kvs kids
    | some c => rightmostLeaf c
termination_by sizeOf x
decreasing_by
  have := List.sizeOf_lt_of_mem (List.mem_of_getElem? h)
  simp only [Node.mk.sizeOf_spec]
  omega

/-- `First`; `none` = the zero values. -/
def first (t : Tree K V) : Option (K × V) :=
  if firstEmpty t.root.n then none else (leftmostLeaf t.root).kvs.head?

def last (t : Tree K V) : Option (K × V) :=
  if lastEmpty t.root.n then none else (rightmostLeaf t.root).kvs.getLast?

/-! ## Delete -/

/-- `rotateLeft(kids[a], kids[a+1])`: the right sibling gives its first entry up to the separator,
the old separator (and the right sibling's first child) go to the end of the left node. -/
def rotateLeftAt (kvs : List (K × V)) (kids : List (Node K V)) (a : Nat) :
    Option (List (K × V) × List (Node K V)) :=
  let s := (rotateLeftSepIdx ((a : Int) + 1)).toNat
  match kids.drop a, kvs.drop s with
  | (.mk li lkvs lkids) :: (.mk ri (rk :: rkvs) rkids) :: kidsAfter, sep :: kvsAfter =>
    some (kvs.take s ++ rk :: kvsAfter,
          kids.take a ++ .mk li (lkvs ++ [sep]) (lkids ++ rkids.take 1) :: .mk ri rkvs (rkids.drop 1) :: kidsAfter)
  | _, _ => none

/-- `rotateRight(kids[a], kids[a+1])`: the left sibling gives its last entry up to the separator,
the old separator (and the left sibling's last child) go to the front of the right node. -/
def rotateRightAt (kvs : List (K × V)) (kids : List (Node K V)) (a : Nat) :
    Option (List (K × V) × List (Node K V)) :=
  let s := (rotateRightSepIdx (a : Int)).toNat
  match kids.drop a, kvs.drop s with
  | (.mk li lkvs lkids) :: (.mk ri rkvs rkids) :: kidsAfter, sep :: kvsAfter =>
    match lkvs.getLast? with
    | none => none
    | some lk =>
      let m := lkvs.length - 1
      some (kvs.take s ++ lk :: kvsAfter,
            kids.take a ++ .mk li lkvs.dropLast (lkids.take (m + 1)) ::
              .mk ri (sep :: rkvs) ((lkids.drop (m + 1)).take 1 ++ rkids) :: kidsAfter)
  | _, _ => none

/-- `mergeTwo(kids[a], kids[a+1])`: separator and right node are appended to the left node, which
keeps its identity; the right node is retired. -/
def mergeAt (kvs : List (K × V)) (kids : List (Node K V)) (a : Nat) :
    Option (List (K × V) × List (Node K V)) :=
  match kids.drop a, kvs.drop a with
  | (.mk li lkvs lkids) :: (.mk _ rkvs rkids) :: kidsAfter, sep :: kvsAfter =>
    some (kvs.take a ++ kvsAfter,
          kids.take a ++ .mk li (lkvs ++ sep :: rkvs) (lkids ++ rkids) :: kidsAfter)
  | _, _ => none

/-- position among the parent's children of a node variable of `steal` / `merge`, `x` being child `j` -/
def argIdx (j : Nat) : NodeArg → Nat
  | .x => j
  | .left => j - 1
  | .right => j + 1

/-- execute the call `t.rotateLeft(a, b)` / `t.rotateRight(a, b)` / `t.mergeTwo(a, b)` that the generated
fact says `steal` / `merge` make for the underfull child `j`. All three helpers assume that `a` is the
immediate left sibling of `b` (they locate the separator by `xslices.Index(parent.children, ·)` of one
of the two); a call on any other pair of nodes, or a statement list of another shape (`none`), cannot
be followed by this model: `none`. The third component is `some a` when children `a`, `a+1` were merged. -/
def repairCall (call : Option (Callee × NodeArg × NodeArg)) (kvs : List (K × V)) (kids : List (Node K V)) (j : Nat) :
    Option (List (K × V) × List (Node K V) × Option Nat) :=
  match call with
  | none => none
  | some (f, a, b) =>
    let ia := argIdx j a
    if argIdx j b = ia + 1 then
      match f with
      | .rotateLeft => (rotateLeftAt kvs kids ia).map fun r => (r.1, r.2, none)
      | .rotateRight => (rotateRightAt kvs kids ia).map fun r => (r.1, r.2, none)
      | .mergeTwo => (mergeAt kvs kids ia).map fun r => (r.1, r.2, some ia)
    else none

/-- Child `j` of the node `(kvs, kids)` is underfull: `steal` (right sibling first, then left), else
`merge` (into the left sibling if it exists and has `n <= minKVs`, else with the right one).
Result: new `kvs`, `kids`, and `some a` if children `a`,`a+1` were merged into child `a`.
`none`: nil dereference in the Go code. -/
def fixChild (kvs : List (K × V)) (kids : List (Node K V)) (j : Nat) :
    Option (List (K × V) × List (Node K V) × Option Nat) :=
  let pn : Int := kvs.length
  let left? : Option (Node K V) := if hasLeftSibling j then kids[(leftSiblingIdx j).toNat]? else none
  let right? : Option (Node K V) := if hasRightSibling j pn then kids[(rightSiblingIdx j).toNat]? else none
  let ln : Int := match left? with | some l => l.n | none => 0
  let rn : Int := match right? with | some r => r.n | none => 0
  if stealRight right?.isSome rn then repairCall stealRightCall kvs kids j
  else if stealLeft left?.isSome ln then repairCall stealLeftCall kvs kids j
  else if mergeIntoLeft left?.isSome ln then repairCall mergeLeftCall kvs kids j
  else
    match right? with
    | none => none
    | some _ => repairCall mergeRightCall kvs kids j

inductive DelRes (K V : Type) where
  /-- the key is not in the subtree: nothing changes -/
  | absent
  /-- nil dereference in the Go code (ill-formed tree only) -/
  | crash
  /-- the new subtree and whether its root is now underfull (its parent must steal or merge) -/
  | done (x : Node K V) (under : Bool)

/-- what happens to the node `(id, kvs, kids)` after its child `j` became underfull: `fixChild`, then
`mergeTwo`'s epilogue (root: collapse if empty; otherwise cascade if `n < minKVs`). -/
def finish (rootId id : Nat) (kvs : List (K × V)) (kids : List (Node K V)) (j : Nat) : DelRes K V :=
  match fixChild kvs kids j with
  | none => .crash
  | some (kvs', kids', none) => .done (.mk id kvs' kids') false
  | some (kvs', kids', some a) =>
    if mergeRootCheck id rootId then
      if mergeRootEmpty kvs'.length then
        if mergeCollapseSetsRoot then
          match kids'[a]? with
          | some l => .done l false
          | none => .crash
        else .done (.mk id kvs' kids') false
      else .done (.mk id kvs' kids') false
    else .done (.mk id kvs' kids') (mergeCascades kvs'.length false)

/-- `removeRightmost` on the subtree `x` (never the root) together with the repair
(`steal`/`merge` cascade) that stays inside the subtree. -/
def removeMax (rootId : Nat) (x : Node K V) : Option ((K × V) × Node K V × Bool) :=
  match x with
  | .mk id kvs kids =>
    if kids.isEmpty then
      match kvs.getLast? with
      | none => none
      | some kv =>
        let kvs' := kvs.dropLast
        some (kv, .mk id kvs' [],
          (!(deleteInnerDone (!(removeRightmostUnder kvs'.length)) false)) && deleteMerges id rootId)
    else
      match h : kids[kvs.length]? with
      | none => none
      | some c =>
        match removeMax rootId c with
        | none => none
        | some (kv, c', under) =>
          let kids1 := replaceAt kids kvs.length c'
          if !under then some (kv, .mk id kvs kids1, false)
          else
            match finish rootId id kvs kids1 kvs.length with
            | .done x' u => some (kv, x', u)
            | _ => none
termination_by sizeOf x
decreasing_by
  have := List.sizeOf_lt_of_mem (List.mem_of_getElem? h)
  simp only [Node.mk.sizeOf_spec]
  omega

/-- `Delete` below one node, read top-down. -/
def del (cmp : K → K → Int) (k : K) (rootId : Nat) (x : Node K V) : DelRes K V :=
  match x with
  | .mk id kvs kids =>
    match searchNode cmp k kvs with
    | (i, true) =>
      if kids.isEmpty then
        let kvs' := removeAt kvs i
        .done (.mk id kvs' []) ((!(deleteLeafDone kvs'.length false)) && deleteMerges id rootId)
      else
        match kids[i]? with
        | none => .crash
        | some c =>
          match removeMax rootId c with
          | none => .crash
          | some (kv, c', under) =>
            let kvs1 := replaceAt kvs i kv
            let kids1 := replaceAt kids i c'
            if !under then .done (.mk id kvs1 kids1) false
            else finish rootId id kvs1 kids1 i
    | (i, false) =>
      if kids.isEmpty then .absent
      else
        match h : kids[i]? with
        | none => .crash
        | some c =>
          match del cmp k rootId c with
          | .absent => .absent
          | .crash => .crash
          | .done c' under =>
            let kids1 := replaceAt kids i c'
            if !under then .done (.mk id kvs kids1) false
            else finish rootId id kvs kids1 i
termination_by sizeOf x
decreasing_by
  have := List.sizeOf_lt_of_mem (List.mem_of_getElem? h)
  simp only [Node.mk.sizeOf_spec]
  omega

/-- `btree.Delete`; `none` = nil dereference (ill-formed tree only). -/
def delete (cmp : K → K → Int) (t : Tree K V) (k : K) : Option (Tree K V) :=
  match del cmp k t.root.id t.root with
  | .absent =>
    -- `if curr.leaf() { return }` before `t.size--; t.gen++`; without that `return` the loop goes on
    -- into `curr.children[idx]` of a leaf: nil dereference
    if deleteMissReturnsFirst then some t else none
  | .crash => none
  | .done r _ =>
    some { root := r, size := if deleteDecSize then t.size - 1 else t.size,
           gen := bump deleteBumpsGen t.gen, nextId := t.nextId }

/-! ## Cursor -/

/-- parked position: node identity, index in the node, the key expected there -/
structure Pos (K : Type) where
  id : Nat
  i : Nat
  k : K

/-- `cursor`: `pos = none` is `curr == nil` (ran off the edge / empty tree). -/
structure Cursor (K : Type) where
  pos : Option (Pos K)
  gen : Nat

mutual
/-- the node with identity `id` below `x` and the frames `(ancestor, index of the child taken)` from
`x` down to it (outermost first). Parent pointers and `xslices.Index(parent.children, curr)` of the
Go code are *derived* from the tree here. -/
def pathTo (id : Nat) : Node K V → Option (List (Node K V × Nat) × Node K V)
  | .mk xid kvs kids =>
    if xid = id then some ([], .mk xid kvs kids)
    else
      match pathIn id kids 0 with
      | some (j, fr, y) => some ((.mk xid kvs kids, j) :: fr, y)
      | none => none
def pathIn (id : Nat) : List (Node K V) → Nat → Option (Nat × List (Node K V × Nat) × Node K V)
  | [], _ => none
  | c :: cs, j =>
    match pathTo id c with
    | some (fr, y) => some (j, fr, y)
    | none => pathIn id cs (j + 1)
end

def findNode (id : Nat) (x : Node K V) : Option (Node K V) := (pathTo id x).map (·.2)

def posAt (x : Node K V) (i : Nat) : Option (Pos K) := (x.kvs[i]?).map fun kv => ⟨x.id, i, kv.1⟩

/-- `n` of a node object that is no longer in the tree: it was unlinked by `mergeTwo`, which sets its `n` to 0
(`Gen.mergeZeroesRight`; a collapsed root has `n = 0` anyway). Were that statement missing the dead node would
keep its old contents: modelled as "still holds the cursor's key at the cursor's index". -/
def retiredN (i : Nat) : Int := if mergeZeroesRight then 0 else (i : Int) + 1

/-- `cursor.lost()` of a cursor with `curr != nil`. -/
def lostAt (cmp : K → K → Int) (t : Tree K V) (c : Cursor K) : Bool :=
  match c.pos with
  | none => lost c.gen t.gen false 0 0 0
  | some p =>
    match findNode p.id t.root with
    | none => lost c.gen t.gen true p.i (retiredN p.i) 0
    | some x =>
      lost c.gen t.gen true p.i x.n (match x.kvs[p.i]? with | some kv => cmp p.k kv.1 | none => 0)

/-- `cursor.lost()` of a cursor with `curr == nil` **as the Go code evaluates it**: the expression must not
consult `c.curr.n` / `c.curr.keys[c.i]` (a nil dereference). The regenerated expression `lost` is evaluated
with `hasCurr = false` for different would-be values of `n` and of the comparison: if its outcome depends on
them, the code reads through the nil pointer — the guard `c.curr != nil &&` is what prevents that. -/
def lostDerefsNil (cgen tgen : Int) : Bool :=
  !(lost cgen tgen false 0 0 0 == lost cgen tgen false 0 1 0 &&
    lost cgen tgen false 0 0 0 == lost cgen tgen false 0 1 1 &&
    lost cgen tgen false 0 0 0 == lost cgen tgen false 0 0 1)

def climbNext : List (Node K V × Nat) → Option (Pos K)
  | [] => none
  | (p, idx) :: rest =>
    let i := nextClimbIdx idx
    if nextClimbStop i p.n then posAt p i.toNat else climbNext rest

def climbPrev : List (Node K V × Nat) → Option (Pos K)
  | [] => none
  | (p, idx) :: rest =>
    let i := prevClimbIdx idx
    if prevClimbStop i then posAt p i.toNat else climbPrev rest

/-- `cursor.Next` after the `lost()` / `curr == nil` checks. -/
def nextCore (t : Tree K V) (p : Pos K) : Option (Pos K) :=
  match pathTo p.id t.root with
  | none => none
  | some (frames, x) =>
    if x.isLeaf then
      let i : Int := p.i + 1
      if nextLeafStay i x.n then posAt x i.toNat else climbNext frames.reverse
    else if nextInnerDescend p.i x.n then
      match x.kids[(nextChildIdx p.i).toNat]? with
      | none => none
      | some c => posAt (leftmostLeaf c) 0
    else climbNext frames.reverse

/-- `cursor.Prev` after the `lost()` / `curr == nil` checks. -/
def prevCore (t : Tree K V) (p : Pos K) : Option (Pos K) :=
  match pathTo p.id t.root with
  | none => none
  | some (frames, x) =>
    if x.isLeaf then
      let i : Int := p.i - 1
      if prevLeafStay i then posAt x i.toNat else climbPrev frames.reverse
    else if prevInnerDescend p.i then
      match x.kids[(prevChildIdx p.i).toNat]? with
      | none => none
      | some c => let l := rightmostLeaf c; posAt l (prevLeafLast l.n).toNat
    else climbPrev frames.reverse

/-- `cursor.find` below a node. -/
def findIn (cmp : K → K → Int) (k : K) (x : Node K V) : Option (Pos K × Bool) :=
  match x with
  | .mk id kvs kids =>
    match searchNode cmp k kvs with
    | (i, true) => (posAt (.mk id kvs kids) i).map fun p => (p, true)
    | (i, false) =>
      if kids.isEmpty then
        let i' : Int := if findBacksUp i kvs.length && findBackUpDec then (i : Int) - 1 else i
        (posAt (.mk id kvs kids) i'.toNat).map fun p => (p, false)
      else
        match h : kids[i]? with
        | none => none
        | some c => findIn cmp k c
termination_by sizeOf x
decreasing_by
  have := List.sizeOf_lt_of_mem (List.mem_of_getElem? h)
  simp only [Node.mk.sizeOf_spec]
  omega

def find (cmp : K → K → Int) (t : Tree K V) (k : K) : Option (Pos K × Bool) :=
  if findEmpty t.root.n then none else findIn cmp k t.root

/-- `cursor.seek`: `none` = the tree is empty (cursor invalid). -/
def seek (cmp : K → K → Int) (t : Tree K V) (c : Cursor K) (k : K) : Cursor K × Bool :=
  match find cmp t k with
  | none => ({ c with pos := none }, false)
  | some (p, _) => ({ pos := some p, gen := if seekSetsGen then t.gen else c.gen }, true)

/-- the `c.Next()` at the end of a `Seek*`: the cursor was just re-seeked, so `lost()` is false (the
generated condition is still evaluated; were it true the Go code would recurse). -/
def stepFwd (cmp : K → K → Int) (t : Tree K V) (c : Cursor K) : Cursor K :=
  match c.pos with
  | none => c
  | some p => if lostAt cmp t c then c else { c with pos := nextCore t p }

def stepBwd (cmp : K → K → Int) (t : Tree K V) (c : Cursor K) : Cursor K :=
  match c.pos with
  | none => c
  | some p => if lostAt cmp t c then c else { c with pos := prevCore t p }

def seekWith (step : Int → Bool) (fwd : Bool) (cmp : K → K → Int) (t : Tree K V) (c : Cursor K) (k : K) : Cursor K :=
  match seek cmp t c k with
  | (c', false) => c'
  | (c', true) =>
    match c'.pos with
    | none => c'
    | some p => if step (cmp k p.k) && seekStepCalls then (if fwd then stepFwd cmp t c' else stepBwd cmp t c') else c'

def seekFirstGreaterOrEqual (cmp : K → K → Int) := seekWith (K := K) (V := V) seekFirstGreaterOrEqualStep true cmp
def seekFirstGreater (cmp : K → K → Int) := seekWith (K := K) (V := V) seekFirstGreaterStep true cmp
def seekLastLessOrEqual (cmp : K → K → Int) := seekWith (K := K) (V := V) seekLastLessOrEqualStep false cmp
def seekLastLess (cmp : K → K → Int) := seekWith (K := K) (V := V) seekLastLessStep false cmp

def seekFirst (t : Tree K V) (c : Cursor K) : Cursor K :=
  if seekFirstEmpty t.root.n then { c with pos := none }
  else { pos := posAt (leftmostLeaf t.root) 0, gen := if seekFirstSetsGen then t.gen else c.gen }

def seekLast (t : Tree K V) (c : Cursor K) : Cursor K :=
  if seekLastEmpty t.root.n then { c with pos := none }
  else
    let l := rightmostLeaf t.root
    { pos := posAt l (seekLastIdx l.n).toNat, gen := if seekLastSetsGen then t.gen else c.gen }

/-- `cursor.Next` -/
def cursorNext (cmp : K → K → Int) (t : Tree K V) (c : Cursor K) : Cursor K :=
  match c.pos with
  | none => c
  | some p =>
    if lostAt cmp t c && cursorLostReseeks then seekFirstGreater cmp t c p.k
    else { c with pos := nextCore t p }

/-- `cursor.Prev` -/
def cursorPrev (cmp : K → K → Int) (t : Tree K V) (c : Cursor K) : Cursor K :=
  match c.pos with
  | none => c
  | some p =>
    if lostAt cmp t c && cursorLostReseeks then seekLastLess cmp t c p.k
    else { c with pos := prevCore t p }

/-! ## Iterators: `forwardIterator` / `backwardIterator` with their in-range predicate -/

def evalOp : CmpOp → Int → Bool
  | .lt, c => decide (c < 0)
  | .le, c => decide (c ≤ 0)
  | .gt, c => decide (c > 0)
  | .ge, c => decide (c ≥ 0)

structure Iter (K : Type) where
  c : Cursor K
  fwd : Bool
  /-- the in-range predicate `compare(k, key) op 0` installed by `ForwardWhile` / `BackwardWhile`;
  `none` = `Forward()` / `Backward()` (`inRange == nil`) -/
  stop : Option (CmpOp × K)
  /-- the field `done`: the predicate has failed once -/
  done : Bool

/-- `valueUnchecked`: `c.curr.values[c.i]` -/
def valueAt (t : Tree K V) (p : Pos K) : Option V :=
  match findNode p.id t.root with
  | none => none
  | some x => (x.kvs[p.i]?).map (·.2)

/-- the re-seek at the top of `forwardIterator.Next` / `backwardIterator.Next`:
`if iter.c.lost() { iter.c.SeekFirstGreaterOrEqual(iter.c.Key()) }` (backward: `SeekLastLessOrEqual`) -/
def iterReseek (cmp : K → K → Int) (t : Tree K V) (fwd : Bool) (c : Cursor K) : Cursor K :=
  match c.pos with
  | none => c
  | some p =>
    if lostAt cmp t c && iterReseeks then
      (if fwd then seekFirstGreaterOrEqual cmp t c p.k else seekLastLessOrEqual cmp t c p.k)
    else c

/-- `forwardIterator.Next` / `backwardIterator.Next` of an iterator without predicate (`Forward()` /
`Backward()`), as one function of the cursor. (Reference formulation: the bounded iterators used to be this
wrapped in `iterator.While`; `Proofs/TreeWhile.lean` shows that formulation equivalent to `iterNext`.) -/
def rawNext (cmp : K → K → Int) (t : Tree K V) (fwd : Bool) (c : Cursor K) : Cursor K × Option (K × Option V) :=
  let c1 :=
    match c.pos with
    | none => c
    | some p =>
      if lostAt cmp t c then
        (if fwd then seekFirstGreaterOrEqual cmp t c p.k else seekLastLessOrEqual cmp t c p.k)
      else c
  match c1.pos with
  | none => (c1, none)
  | some p =>
    let v := valueAt t p
    let c2 := if fwd then cursorNext cmp t c1 else cursorPrev cmp t c1
    (c2, some (p.k, v))

/-- `if iter.done` -/
def iterChecksDone (fwd done : Bool) : Bool := if fwd then fwdChecksDone done else bwdChecksDone done
/-- `if iter.inRange != nil && !iter.inRange(k)` -/
def iterStops (fwd hasPred inRange : Bool) : Bool := if fwd then fwdStops hasPred inRange else bwdStops hasPred inRange
/-- the two early exits return `zero, false` and the cut-off sets `iter.done = true` -/
def iterCutoffSticky (fwd : Bool) : Bool := if fwd then fwdCutoffSticky else bwdCutoffSticky

/-- `Next` of the iterator returned by `Range` / `RangeReverse` (`forwardIterator.Next` /
`backwardIterator.Next`): the sticky cut-off, the re-seek of a lost cursor, the end of the tree, the key,
**the in-range test on the key, and only then the value read** and the cursor move. -/
def iterNext (cmp : K → K → Int) (t : Tree K V) (it : Iter K) : Iter K × Option (K × Option V) :=
  if iterChecksDone it.fwd it.done then (it, none)
  else
    let c1 := iterReseek cmp t it.fwd it.c
    match c1.pos with
    | none => ({ it with c := c1 }, none)
    | some p =>
      let inRange := match it.stop with
        | some (op, key) => evalOp op (cmp p.k key)
        | none => true
      if iterStops it.fwd it.stop.isSome inRange then
        ({ it with c := c1, done := iterCutoffSticky it.fwd || it.done }, none)
      else
        let c2 := if it.fwd then cursorNext cmp t c1 else cursorPrev cmp t c1
        -- `v := iter.c.valueUnchecked()` precedes `iter.c.Next()` (else the value of the *next* entry would be read)
        let v := if iterReadsThenSteps then valueAt t p else c2.pos.bind (valueAt t)
        ({ it with c := c2 }, some (p.k, v))

/-- **`Next` panics** (nil dereference): past the `done` check the first thing `Next` does is `iter.c.lost()`;
on an iterator that has run off the edge (`curr == nil`: exhausted, or created on an empty range) that call
must not look through `curr`. -/
def iterNextPanics (t : Tree K V) (it : Iter K) : Bool :=
  !iterChecksDone it.fwd it.done && it.c.pos.isNone && lostDerefsNil it.c.gen t.gen

/-- a `tree.Bound`: `kind = none` is the zero `Bound{}` (the code panics "unknown bound") -/
structure Bound (K : Type) where
  kind : Option BoundKind
  key : K

def pickSide (s : Side) (lo hi : Bound K) : Bound K := match s with | .lower => lo | .upper => hi

def doSeek (cmp : K → K → Int) (t : Tree K V) (sk : SeekKind) (key : K) : Cursor K :=
  let c0 : Cursor K := { pos := none, gen := 0 }
  match sk with
  | .first => seekFirst t c0
  | .last => seekLast t c0
  | .ge => seekFirstGreaterOrEqual cmp t c0 key
  | .gt => seekFirstGreater cmp t c0 key
  | .le => seekLastLessOrEqual cmp t c0 key
  | .lt => seekLastLess cmp t c0 key

/-- `Range`/`RangeReverse` driven by the two generated `switch` tables; `none` = panic. -/
def mkIter (cmp : K → K → Int) (t : Tree K V)
    (seekTbl : Side × List (BoundKind × SeekKind × Option Side))
    (stopTbl : Side × List (BoundKind × StopKind)) (lo hi : Bound K) : Option (Iter K) :=
  match (pickSide seekTbl.1 lo hi).kind with
  | none => none
  | some bk =>
    match seekTbl.2.find? (fun r => r.1 == bk) with
    | none => none
    | some (_, sk, arg) =>
      let key := match arg with
        | some s => (pickSide s lo hi).key
        | none => lo.key
      let c := doSeek cmp t sk key
      match (pickSide stopTbl.1 lo hi).kind with
      | none => none
      | some bk2 =>
        match stopTbl.2.find? (fun r => r.1 == bk2) with
        | none => none
        | some (_, .all fwd) => some { c := c, fwd := fwd, stop := none, done := !iterCtorsFresh }
        | some (_, .while fwd op s) =>
          some { c := c, fwd := fwd, stop := some (op, (pickSide s lo hi).key), done := !iterCtorsFresh }

def range (cmp : K → K → Int) (t : Tree K V) (lo hi : Bound K) : Option (Iter K) :=
  mkIter cmp t rangeSeek rangeStop lo hi

def rangeReverse (cmp : K → K → Int) (t : Tree K V) (lo hi : Bound K) : Option (Iter K) :=
  mkIter cmp t rrangeSeek rrangeStop lo hi

/-- drain an iterator on an unchanging tree (fuel bounds the number of `Next` calls). -/
def drain (cmp : K → K → Int) (t : Tree K V) : Nat → Iter K → List (K × Option V)
  | 0, _ => []
  | fuel + 1, it =>
    match iterNext cmp t it with
    | (_, none) => []
    | (it', some kv) => kv :: drain cmp t fuel it'

/-! ## `xsort.LessCompare` -/

def lessCmp (less : K → K → Bool) : K → K → Int := fun a b => lessCompare (less a b) (less b a)

end Juniper.Model.BTree
