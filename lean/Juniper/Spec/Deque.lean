/-!
# Spec: the ideal double-ended sequence (C04, C15)

A plain `List α`; front = head. Operations return the new list and what the caller sees. `Out.val`
carries an `Option` because the model reports raw slots (`none` = Go's zero value); the spec only
ever produces `some`.
-/
namespace Juniper.Spec.Deque

/-- The twelve operations of C04. `iterate` stands for "make an iterator and drain it at once". -/
inductive Op (α : Type) where
  | pushFront (x : α)
  | pushBack (x : α)
  | popFront
  | popBack
  | front
  | back
  | item (i : Int)
  | set (i : Int) (x : α)
  | len
  | grow (n : Int)
  | shrink (n : Int)
  | iterate
  deriving DecidableEq, Repr

/-- What a call returns: nothing, a value, an integer, a drained iterator, or a panic. -/
inductive Out (α : Type) where
  | unit
  | val (v : Option α)
  | int (n : Int)
  | list (l : List (Option α))
  | panic
  deriving DecidableEq, Repr

variable {α : Type}

/-- The guard under which the ideal sequence refuses the call (the documented panics). -/
def panics (l : List α) : Op α → Bool
  | .popFront | .popBack | .front | .back => l.isEmpty
  | .item i | .set i _ => decide (i < 0) || decide ((l.length : Int) ≤ i)
  | .shrink n => decide (n < 0)
  | _ => false

/-- One call on the ideal sequence. -/
def step (l : List α) (o : Op α) : List α × Out α :=
  if panics l o then (l, .panic) else
  match o with
  | .pushFront x => (x :: l, .unit)
  | .pushBack x => (l ++ [x], .unit)
  | .popFront => (l.tail, .val l.head?)
  | .popBack => (l.dropLast, .val l.getLast?)
  | .front => (l, .val l.head?)
  | .back => (l, .val l.getLast?)
  | .item i => (l, .val l[i.toNat]?)
  | .set i x => (l.set i.toNat x, .unit)
  | .len => (l, .int l.length)
  | .grow _ => (l, .unit)
  | .shrink _ => (l, .unit)
  | .iterate => (l, .list (l.map some))

/-- A history from a given sequence: final contents and everything returned. -/
def run (l : List α) : List (Op α) → List α × List (Out α)
  | [] => (l, [])
  | o :: os => ((run (step l o).1 os).1, (step l o).2 :: (run (step l o).1 os).2)

/-! ## Iterators (C15) -/

/-- One observation of an iterator: an item, "exhausted", or a panic. -/
inductive Obs (α : Type) where
  | item (v : Option α)
  | done
  | panic
  deriving DecidableEq, Repr

/-- `SnapshotOrPanic s obs`: the observations `obs` made through an iterator whose not yet yielded
part of the snapshot is `s` never show wrong data — every item is the next element of the snapshot,
"exhausted" is reported only when the whole snapshot has been yielded (and then stays), and the
only other possibility is a panic (after which the iterator keeps panicking). -/
def SnapshotOrPanic : List α → List (Obs α) → Prop
  | _, [] => True
  | s, .item v :: r => ∃ x s', s = x :: s' ∧ v = some x ∧ SnapshotOrPanic s' r
  | s, .done :: r => s = [] ∧ SnapshotOrPanic [] r
  | _, .panic :: r => ∀ o ∈ r, o = .panic

end Juniper.Spec.Deque
