import Juniper.Model.XList
/-!
# The ideal sequence of handles (C06 specification)

A list of distinct node ids and the ten operations on it. `fresh` is the identity of the node a
creating operation hands out.
-/
namespace Juniper.Spec.XList
open Juniper.Model.XList (Op)

/-- insert `n` just before the handle `m` -/
def insBefore : List Nat → Nat → Nat → List Nat
  | [], _, _ => []
  | a :: t, m, n => if a = m then n :: a :: t else a :: insBefore t m n

/-- insert `n` just after the handle `m` -/
def insAfter : List Nat → Nat → Nat → List Nat
  | [], _, _ => []
  | a :: t, m, n => if a = m then a :: n :: t else a :: insAfter t m n

/-- One operation on the ideal sequence. -/
def step (l : List Nat) (fresh : Nat) : Op → List Nat
  | .pushFront _ => fresh :: l
  | .pushBack _ => l ++ [fresh]
  | .insertBefore _ m => insBefore l m fresh
  | .insertAfter _ m => insAfter l m fresh
  | .remove n => l.erase n
  | .moveBefore n m => if n = m then l else insBefore (l.erase n) m n
  | .moveAfter n m => if n = m then l else insAfter (l.erase n) m n
  | .moveToFront n => n :: l.erase n
  | .moveToBack n => l.erase n ++ [n]
  | .clear => []

/-- The operation only uses handles of nodes currently in the list. -/
def Op.wellFormed (l : List Nat) : Op → Prop
  | .insertBefore _ m | .insertAfter _ m => m ∈ l
  | .remove n | .moveToFront n | .moveToBack n => n ∈ l
  | .moveBefore n m | .moveAfter n m => n ∈ l ∧ m ∈ l
  | _ => True

/-- successor of `x` in the sequence -/
def nextIn : List Nat → Nat → Option Nat
  | a :: b :: t, x => if x = a then some b else nextIn (b :: t) x
  | _, _ => none

/-- predecessor of `x` in the sequence -/
def prevIn : List Nat → Nat → Option Nat
  | a :: b :: t, x => if x = b then some a else prevIn (b :: t) x
  | _, _ => none

end Juniper.Spec.XList
