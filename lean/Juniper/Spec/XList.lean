import Juniper.Model.XList
/-!
# The ideal sequence of handles (C06 specification)

A list of distinct node ids and the ten operations on it. `fresh` is the identity of the node a
creating operation hands out.
-/
namespace Juniper.Spec.XList
open Juniper.Model.XList

/-- insert `n` just before the handle `m` -/
def insBefore : List Nat → Nat → Nat → List Nat
  | [], _, _ => []
  | a :: t, m, n => if a = m then n :: a :: t else a :: insBefore t m n

/-- insert `n` just after the handle `m` -/
def insAfter : List Nat → Nat → Nat → List Nat
  | [], _, _ => []
  | a :: t, m, n => if a = m then a :: n :: t else a :: insAfter t m n

/-- One operation on the ideal sequence. -/
def step (l : List Nat) (fresh : Nat) : Op → List Nat
  | .pushFront _ => fresh :: l
  | .pushBack _ => l ++ [fresh]
  | .insertBefore _ m => insBefore l m fresh
  | .insertAfter _ m => insAfter l m fresh
  | .remove n => l.erase n
  | .moveBefore n m => if n = m then l else insBefore (l.erase n) m n
  | .moveAfter n m => if n = m then l else insAfter (l.erase n) m n
  | .moveToFront n => n :: l.erase n
  | .moveToBack n => l.erase n ++ [n]
  | .clear => []

/-- The operation only uses handles of nodes currently in the list. -/
def Op.wellFormed (l : List Nat) : Op → Prop
  | .insertBefore _ m | .insertAfter _ m => m ∈ l
  | .remove n | .moveToFront n | .moveToBack n => n ∈ l
  | .moveBefore n m | .moveAfter n m => n ∈ l ∧ m ∈ l
  | _ => True

/-- successor of `x` in the sequence -/
def nextIn : List Nat → Nat → Option Nat
  | a :: b :: t, x => if x = a then some b else nextIn (b :: t) x
  | _, _ => none

/-- predecessor of `x` in the sequence -/
def prevIn : List Nat → Nat → Option Nat
  | a :: b :: t, x => if x = b then some a else prevIn (b :: t) x
  | _, _ => none

/-! ## The representation relation, clause by clause as in the property text -/

/-- Following `step` from `s` visits exactly the nodes of `l`, in order, and then reaches nil. -/
def Visits (step : Nat → Option Nat) : Option Nat → List Nat → Prop
  | s, [] => s = none
  | s, x :: xs => s = some x ∧ Visits step (step x) xs

/-- The heap `h` (the real list: what `Front`, `Back`, `Len`, `Next`, `Prev`, `Value` return)
represents the ideal sequence of handles `l`. -/
structure Rep (l : List Nat) (h : Heap) : Prop where
  /-- handles are distinct -/
  nodup : l.Nodup
  /-- walking from `Front()` via `Next()` visits exactly `l` -/
  forward : Visits (nextOf h) (frontOf h) l
  /-- walking from `Back()` via `Prev()` visits exactly `l` reversed -/
  backward : Visits (prevOf h) (backOf h) l.reverse
  /-- the first node has no `Prev()` -/
  firstNoPrev : ∀ x, l.head? = some x → prevOf h x = none
  /-- the last node has no `Next()` -/
  lastNoNext : ∀ x, l.getLast? = some x → nextOf h x = none
  /-- `Len()` is the length -/
  len : lenOf h = l.length
  /-- every handle in the list is an allocated node -/
  live : ∀ x ∈ l, (valueOf h x).isSome
  /-- identities are creation indices: handles in the list are older than the next allocation … -/
  bound : ∀ x ∈ l, x < h.nextId
  /-- … and nothing is allocated at or beyond it (a new node is a new object) -/
  fresh : ∀ x, h.nextId ≤ x → valueOf h x = none

def Op.creates : Op → Bool
  | .pushFront _ | .pushBack _ | .insertBefore _ _ | .insertAfter _ _ => true
  | _ => false

/-- the identity the next creating operation will hand out, after `o` -/
def nextFresh (fresh : Nat) (o : Op) : Nat := if Op.creates o then fresh + 1 else fresh

/-- Run a history on the ideal sequence. -/
def runSpec (l : List Nat) (fresh : Nat) : List Op → List Nat
  | [] => l
  | o :: os => runSpec (step l fresh o) (nextFresh fresh o) os

/-- Every operation of the history uses handles of nodes that are in the list at that moment. -/
def HistWF (l : List Nat) (fresh : Nat) : List Op → Prop
  | [] => True
  | o :: os => Op.wellFormed l o ∧ HistWF (step l fresh o) (nextFresh fresh o) os

/-- Run a history on the model, remembering whether any operation panicked. -/
def runP (h : Heap) : List Op → Heap × Bool
  | [] => (h, false)
  | o :: os =>
    let r := apply h o
    let t := runP r.h os
    (t.1, r.panicked || t.2)

/-- The handles given to `Remove` in a history. -/
def removedIn : List Op → List Nat
  | [] => []
  | .remove n :: os => n :: removedIn os
  | _ :: os => removedIn os

/-- the value a creating operation is given -/
def Op.createdValue : Op → Option Int
  | .pushFront v | .pushBack v | .insertBefore v _ | .insertAfter v _ => some v
  | _ => none

/-- the nodes created during a history: (identity handed out, value given), `fresh` being the
identity the first creating operation hands out -/
def createdIn (fresh : Nat) : List Op → List (Nat × Int)
  | [] => []
  | o :: os =>
    match Op.createdValue o with
    | some v => (fresh, v) :: createdIn (nextFresh fresh o) os
    | none => createdIn (nextFresh fresh o) os

end Juniper.Spec.XList
