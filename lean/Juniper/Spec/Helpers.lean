/-!
# Specification vocabulary for the pure helpers (C19)

Small, readable definitions that the property theorems of `Props/C19.lean` are stated with.
Core-only, independent of the models.
-/
namespace Juniper.Spec.Helpers

variable {α : Type}

/-- Keep the first instance of every item, preserving order (`xslices.Unique`). -/
def firstOccs [DecidableEq α] : List α → List α
  | [] => []
  | x :: xs => x :: (firstOccs xs).filter (fun y => decide (y ≠ x))

/-- does the item `p.1` with predecessor `p.2` (`none` for the first item) start a new run? `eq` is
applied as `eq current previous`. -/
def startsRun (eq : α → α → Bool) (p : α × Option α) : Bool :=
  match p.2 with
  | none => true
  | some q => !eq p.1 q

/-- The first item of every contiguous run (`xslices.Compact*`): an item is kept iff it is the first
one or is not `eq` to its predecessor. -/
def firstOfRuns (eq : α → α → Bool) (l : List α) : List α :=
  ((l.zip (none :: l.map some)).filter (startsRun eq)).map Prod.fst

/-- `a` and `b` are equivalent under `less`: neither is less than the other -/
def Equiv (less : α → α → Bool) (a b : α) : Bool := !less a b && !less b a

/-- `less` is a strict weak order — the rules of `sort.Interface.Less`: irreflexive, transitive,
and incomparability is transitive (stated as negative transitivity). -/
structure StrictWeak (less : α → α → Bool) : Prop where
  irrefl : ∀ a, less a a = false
  trans : ∀ a b c, less a b = true → less b c = true → less a c = true
  negTrans : ∀ a b c, less a b = false → less b c = false → less a c = false

/-- sorted according to `less`: no later element is less than an earlier one -/
def SortedBy (less : α → α → Bool) (l : List α) : Prop := l.Pairwise (fun a b => less b a = false)

/-- every two neighbours of `l` are related -/
def AdjAll (R : α → α → Prop) (l : List α) : Prop :=
  ∀ i (h : i + 1 < l.length), R (l[i]'(Nat.lt_of_succ_lt h)) (l[i + 1]'h)

/-- What `Merge` and `MinK` need from `internal/heap` (proved for the real heap under C05):
`pop lt h` fails exactly on the empty bag, otherwise removes one element `m` such that, when `lt` is
a strict weak order, nothing left is less than `m`. -/
structure PopSpec {ε : Type} (pop : (ε → ε → Bool) → List ε → Option (ε × List ε)) : Prop where
  none_iff : ∀ lt l, pop lt l = none ↔ l = []
  perm : ∀ lt l m r, pop lt l = some (m, r) → l.Perm (m :: r)
  min : ∀ lt, StrictWeak lt → ∀ l m r, pop lt l = some (m, r) → ∀ x ∈ r, lt x m = false

/-- The sampler's contract (doc comment of `sampler.Next`), for a reservoir of size `k` over `n`
input positions: the first `k` decisions are `(i, i)`; afterwards `next ≥ k`, and `replace` is a
reservoir index unless the decision is the stopping one (`next ≥ n`); `next` strictly increases. -/
def SamplerContract (k n : Int) (ds : List (Int × Int)) : Prop :=
  (∀ i (h : i < ds.length), (i : Int) < k → ds[i] = ((i : Int), (i : Int))) ∧
  (∀ i (h : i < ds.length), k ≤ (i : Int) → k ≤ ds[i].1 ∧ ((0 ≤ ds[i].2 ∧ ds[i].2 < k) ∨ n ≤ ds[i].1)) ∧
  (∀ i (h : i + 1 < ds.length), (ds[i]'(Nat.lt_of_succ_lt h)).1 < (ds[i + 1]'h).1)

end Juniper.Spec.Helpers
