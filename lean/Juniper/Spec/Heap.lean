/-!
# Specification vocabulary for C05 (heap / priority queue)

The ideal objects are a multiset (`List` up to `List.Perm`) with minimum extraction and a finite map
key → priority. `less` is the user's ordering; the theorems assume it is a strict weak order.
-/
namespace Juniper.Spec.Heap

variable {α : Type}

/-- The documented contract of `xsort.Less`: a strict weak order (irreflexive, transitive, and
incomparability is transitive). -/
structure StrictWeak (less : α → α → Bool) : Prop where
  irrefl : ∀ a, less a a = false
  trans : ∀ a b c, less a b = true → less b c = true → less a c = true
  incomp_trans : ∀ a b c, less a b = false → less b a = false → less b c = false → less c b = false →
    less a c = false

/-- `x` is a minimum of `l`: it is held and no held item is less than it. -/
def IsMin (less : α → α → Bool) (x : α) (l : List α) : Prop :=
  x ∈ l ∧ ∀ y ∈ l, less y x = false

/-- The array is a binary min-heap: no element is less than its parent (`parent i = (i-1)/2`). -/
def HeapInv (less : α → α → Bool) (a : List α) : Prop :=
  ∀ i x y, 0 < i → a[i]? = some x → a[(i - 1) / 2]? = some y → less x y = false

/-- Non-decreasing: no later element is less than an earlier one. -/
def Sorted (less : α → α → Bool) (l : List α) : Prop :=
  l.Pairwise (fun x y => less y x = false)

end Juniper.Spec.Heap
