/-!
# Sequence functions that the iterator / stream / xslices combinators are documented to compute
(the *Spec* side of C07–C09; plain `List` functions, readable in minutes).
-/
namespace Juniper.Spec.Seq
universe u
variable {α β : Type u}

/-- Non-overlapping chunks of size `n` (the last one may be shorter); `pend` is the chunk being filled. -/
def chunkGo (n : Nat) : List α → List α → List (List α)
  | pend, [] => if pend.length > 0 then [pend] else []
  | pend, a :: l =>
    if (pend ++ [a]).length = n then (pend ++ [a]) :: chunkGo n [] l else chunkGo n (pend ++ [a]) l

def chunk (n : Nat) (l : List α) : List (List α) := chunkGo n [] l

/-- `chunk` by `take`/`drop`, with explicit fuel (any fuel ≥ length works). -/
def chunkTD (n : Nat) : Nat → List α → List (List α)
  | 0, _ => []
  | _, [] => []
  | fuel + 1, a :: l => (a :: l).take n :: chunkTD n fuel ((a :: l).drop n)

/-- Elide adjacent duplicates, comparing each item with the last one that was kept. -/
def compactGo (eq : α → α → Bool) : Option α → List α → List α
  | _, [] => []
  | none, a :: l => a :: compactGo eq (some a) l
  | some p, a :: l => if eq p a then compactGo eq (some p) l else a :: compactGo eq (some a) l

def compact (eq : α → α → Bool) (l : List α) : List α := compactGo eq none l

/-- Elide adjacent duplicates, comparing each item with its predecessor (`slices.CompactFunc`:
the callback receives `(current, previous)`). -/
def compactAdj (eq : α → α → Bool) : List α → List α
  | [] => []
  | [a] => [a]
  | a :: b :: l => if eq b a then (match compactAdj eq (b :: l) with | [] => [a] | _ :: t => a :: t)
                   else a :: compactAdj eq (b :: l)

/-- Greedy grouping into runs, comparing each item with its predecessor (`last`). -/
def runsGo (same : α → α → Bool) : List α → α → List α → List (List α)
  | cur, _, [] => [cur]
  | cur, last, b :: l => if same last b then runsGo same (cur ++ [b]) b l else cur :: runsGo same [b] b l

def runs (same : α → α → Bool) : List α → List (List α)
  | [] => []
  | a :: l => runsGo same [a] a l

/-- Greedy grouping into runs, comparing each item with the *first* item of the run
(what `iterator.Runs` / `stream.Runs` do). -/
def runsFirstGo (same : α → α → Bool) : List α → α → List α → List (List α)
  | cur, _, [] => [cur]
  | cur, first, b :: l =>
    if same first b then runsFirstGo same (cur ++ [b]) first l else cur :: runsFirstGo same [b] b l

def runsFirst (same : α → α → Bool) : List α → List (List α)
  | [] => []
  | a :: l => runsFirstGo same [a] a l

/-- The last `n` items. -/
def lastN (n : Nat) (l : List α) : List α := l.drop (l.length - n)

/-- `same` is an equivalence relation (the theorems about `Runs`/`Compact` assume it; the doc of
`Runs` only demands reflexivity and transitivity, see D15). -/
structure Equiv (same : α → α → Bool) : Prop where
  refl : ∀ a, same a a = true
  symm : ∀ a b, same a b = true → same b a = true
  trans : ∀ a b c, same a b = true → same b c = true → same a c = true

end Juniper.Spec.Seq
