import Juniper.Driver.Basic
import Juniper.Driver.C04
import Juniper.Driver.C19
import Juniper.Driver.C10
import Juniper.Driver.C10Chan
import Juniper.Driver.C12
import Juniper.Driver.C05
import Juniper.Driver.C06
import Juniper.Driver.C11
import Juniper.Driver.C16
import Juniper.Driver.C18
import Juniper.Driver.C17
import Juniper.Driver.C20
import Juniper.Driver.Tree
import Juniper.Driver.C07
import Juniper.Driver.C13
import Juniper.Driver.C14
import Juniper.Driver.C03Slots
import Juniper.Driver.TreeAccess
/-! `driver <model>`: runs one executable model behind the line protocol. Core-only (no Mathlib).
Registration: one `import` line above and one `[("name", handler)],` line below per model
(this file is merged with git's union driver, so keep one entry per line). -/
open Juniper.Driver

def handlers : List (String × Handler) := List.flatten [
  [("deque", Juniper.Driver.C04.handler)],
  [("helpers", Juniper.Driver.C19.handler)],
  [("pipe", Juniper.Driver.C10.handler)],
  [("chanstream", Juniper.Driver.C10Chan.handler)],
  [("merge", Juniper.Driver.C12.mergeHandler), ("replicate", Juniper.Driver.C12.replHandler), ("smerge", Juniper.Driver.C12.smergeHandler)],
  [("heap", Juniper.Driver.C05.handler)],
  [("xlist", Juniper.Driver.C06.handler)],
  [("batch", Juniper.Driver.C11.handler)],
  [("cond", Juniper.Driver.C16.handler)],
  [("tmap", Juniper.Driver.C18.mapHandler), ("watch", Juniper.Driver.C18.watchHandler), ("future", Juniper.Driver.C18.futHandler), ("lazy", Juniper.Driver.C18.lazyHandler)],
  [("group", Juniper.Driver.C17.handler)],
  [("xtime", Juniper.Driver.C20.handler)],
  [("tree", Juniper.Driver.Tree.handler)],
  [("comb", Juniper.Driver.C07.handler)],
  [("pardo", Juniper.Driver.C13.handler)],
  [("parstream", Juniper.Driver.C14.S.handler)],
  [("pariter", Juniper.Driver.C14.I.handler)],
  [("treeslots", Juniper.Driver.C03Slots.handler)],
  [("treeacc", Juniper.Driver.TreeAccess.handler)],
  []]

def main (args : List String) : IO UInt32 := do
  match args with
  | [name] =>
    match handlers.lookup name with
    | some h => run h; return 0
    | none => IO.eprintln s!"unknown model {name}"; return 2
  | _ => IO.eprintln "usage: driver <model>"; return 2
