import Juniper.Driver.Basic
import Juniper.Driver.C04
import Juniper.Driver.Tree
import Juniper.Driver.C03Slots
/-! `driver <model>`: runs one executable model behind the line protocol. Core-only (no Mathlib).
Registration: one `import` line above and one `[("name", handler)],` line below per model
(this file is merged with git's union driver, so keep one entry per line). -/
open Juniper.Driver

def handlers : List (String × Handler) := List.flatten [
  [("deque", Juniper.Driver.C04.handler)],
  [("tree", Juniper.Driver.Tree.handler)],
  [("treeslots", Juniper.Driver.C03Slots.handler)],
  []]

def main (args : List String) : IO UInt32 := do
  match args with
  | [name] =>
    match handlers.lookup name with
    | some h => run h; return 0
    | none => IO.eprintln s!"unknown model {name}"; return 2
  | _ => IO.eprintln "usage: driver <model>"; return 2
