-- Root of the `Juniper` library: every property file (and through them models and proofs).
import Juniper.Props.C04
import Juniper.Props.C13
import Juniper.Props.C14
