-- Root of the `Juniper` library: every property file (and through them models and proofs).
import Juniper.Props.C04
import Juniper.Props.C01
import Juniper.Props.C02
import Juniper.Props.C03
import Juniper.Props.C03Slots
