-- Root of the `Juniper` library: every property file (and through them models and proofs).
import Juniper.Props.C04
import Juniper.Props.C15Deque
import Juniper.Props.C19
import Juniper.Props.C10
import Juniper.Props.C10Chan
import Juniper.Props.C12
import Juniper.Props.C05
import Juniper.Props.C15Heap
import Juniper.Props.C06
import Juniper.Props.C11
import Juniper.Props.C16
import Juniper.Props.C18
import Juniper.Props.C20
import Juniper.Props.C17
import Juniper.Props.C01
import Juniper.Props.C02
import Juniper.Props.C03
