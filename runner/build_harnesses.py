#!/usr/bin/env python3
"""Builds every harness binary named in checks/*.json (used by bin/setup)."""
import glob, json, os, subprocess, sys
VERIF = os.path.dirname(os.path.dirname(os.path.abspath(__file__)))
env = dict(os.environ, GOFLAGS="-mod=mod", GOPROXY="off", GOSUMDB="off", GOTOOLCHAIN="local")
seen = set()
rc = 0
for f in sorted(glob.glob(os.path.join(VERIF, "checks", "C*.json"))):
    cfg = json.load(open(f))
    for h in cfg.get("harness", []):
        if h["name"] in seen:
            continue
        seen.add(h["name"])
        out = os.path.join(VERIF, "build", "bin", h["name"])
        gobin = h.get("go", "go")
        race = ["-race"] if h.get("race") else []
        if h.get("kind") == "test":
            cmd = [gobin, "test", "-c", "-tags", "verif"] + race + ["-o", out, h["pkg"]]
        else:
            cmd = [gobin, "build", "-tags", "verif"] + race + ["-o", out, h["pkg"]]
        p = subprocess.run(cmd, cwd=os.path.join(VERIF, h.get("module", "harness")), env=env)
        if p.returncode != 0:
            print("build failed:", h["name"], file=sys.stderr)
            rc = 1
sys.exit(rc)
