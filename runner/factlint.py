#!/usr/bin/env python3
"""factlint.py [Cxx ...]      static hygiene of the fact tie (audit findings X-2 and C10-C20 #11)

For every property (all of checks/*.json when none is named) prints

  unconsumed facts    every `def` of the property's generated modules (Pin* excluded) whose name occurs in
                      no file under lean/Juniper/{Model,Spec,Proofs,Props,Driver} (comments and string
                      literals stripped): such a fact may flip without any proof noticing;
  auto-param binders  every `(h : ... := by ...)` binder on a theorem of the `lean_props` modules: it
                      elaborates to `autoParam P _ -> ...`, the tactic runs only where the theorem is
                      *used*, so the recorded theorem is an implication, not an obligation
                      (static scan of the sources; `--semantic` adds `#check @thm` through Lean and looks
                      for `autoParam` in the elaborated type, which also sees `variable` binders).

runner/check.py calls `lint(cfg)` in the Lean phase, puts both lists into the evidence
(`unconsumed_facts`, `autoparam_binders`) and, with `"strict_facts": true` in checks/Cxx.json,
reports every entry as a broken tie. Stdlib only.
"""
import glob
import json
import os
import re
import subprocess
import sys

VERIF = os.path.dirname(os.path.dirname(os.path.abspath(__file__)))
LEAN = os.path.join(VERIF, "lean")
CONSUMER_DIRS = ["Model", "Spec", "Proofs", "Props", "Driver"]

_MARK = re.compile(r'/-|-/|--|"|\n')


def strip(src):
    """Lean source without comments (nested block comments, line comments) and without the contents of
    string literals. Jumps from marker to marker, so it is fast on big files."""
    out = []
    i, n, depth = 0, len(src), 0
    while i < n:
        m = _MARK.search(src, i)
        if not m:
            if not depth:
                out.append(src[i:])
            break
        j, tok = m.start(), m.group(0)
        if not depth:
            out.append(src[i:j])
        if tok == "/-":
            depth += 1
            i = j + 2
        elif tok == "-/":
            if depth:
                depth -= 1
            else:
                out.append(tok)
            i = j + 2
        elif tok == "\n":
            out.append("\n")
            i = j + 1
        elif depth:
            i = m.end()
        elif tok == "--":
            k = src.find("\n", j)
            i = n if k < 0 else k
        else:  # string literal
            k = j + 1
            while k < n and src[k] != '"':
                k += 2 if src[k] == "\\" else 1
            out.append('""')
            i = k + 1
    return "".join(out)


_WORD = re.compile(r"[A-Za-z_][A-Za-z0-9_'!?]*")
_cache = {}


def consumer_words():
    """set of identifier components that occur in the hand-written Lean files"""
    if "words" in _cache:
        return _cache["words"]
    words = set()
    for d in CONSUMER_DIRS:
        for p in glob.glob(os.path.join(LEAN, "Juniper", d, "**", "*.lean"), recursive=True):
            if os.path.basename(p).startswith("Pin") and d == "Props":
                continue
            words.update(_WORD.findall(strip(open(p, encoding="utf8").read())))
    _cache["words"] = words
    return words


_DEF = re.compile(r"^\s*(?:@\[[^\]]*\]\s*)?def\s+([^\s:({\[]+)", re.M)


def unconsumed(generated):
    out = []
    words = consumer_words()
    for mod in generated:
        if mod.startswith("Pin"):
            continue
        p = os.path.join(LEAN, "Juniper", "Generated", mod + ".lean")
        if not os.path.exists(p):
            continue
        for name in _DEF.findall(strip(open(p, encoding="utf8").read())):
            if name.split(".")[-1] not in words:
                out.append("%s.%s" % (mod, name))
    return out


_THM = re.compile(r"^\s*(?:@\[[^\]]*\]\s*)?(?:private\s+|protected\s+)?(?:theorem|lemma)\s+([^\s:({\[]+)", re.M)
_OPEN, _CLOSE = "([{⟨", ")]}⟩"


def module_path(mod):
    return os.path.join(LEAN, *mod.split(".")) + ".lean"


def autoparams_static(mod):
    """[(theorem, binder text)] for binders `( ... := by ...)` in theorem headers of one module"""
    p = module_path(mod)
    if not os.path.exists(p):
        return []
    src = strip(open(p, encoding="utf8").read())
    out = []
    for m in _THM.finditer(src):
        i, depth, start = m.end(), 0, None
        n = len(src)
        while i < n:
            ch = src[i]
            if ch in _OPEN:
                if depth == 0:
                    start = i
                depth += 1
            elif ch in _CLOSE:
                depth -= 1
                if depth == 0 and start is not None:
                    b = src[start:i + 1]
                    if b.startswith("(") and re.search(r":=\s*by\b", b):
                        out.append((m.group(1), " ".join(b.split())))
                    start = None
            elif depth == 0 and src.startswith(":=", i):
                break
            elif depth == 0 and re.match(r"\n\s*(theorem|lemma|def|example|end|namespace)\b", src[i:i + 40]):
                break
            i += 1
    return out


def autoparams_semantic(mods, theorems, workdir):
    """theorem names whose elaborated type mentions autoParam (through `#check @thm`)"""
    os.makedirs(workdir, exist_ok=True)
    f = os.path.join(workdir, "AutoParam.lean")
    with open(f, "w") as fh:
        for m in mods:
            fh.write("import %s\n" % m)
        fh.write("set_option pp.proofs true\n")
        for t in theorems:
            fh.write('#print "##CHECK %s"\n#check @%s\n' % (t, t))
    try:
        p = subprocess.run(["lake", "env", "lean", f], cwd=LEAN, stdout=subprocess.PIPE, stderr=subprocess.STDOUT,
                           text=True, errors="replace", timeout=1200)
    except subprocess.TimeoutExpired:
        return None
    hits = []
    for chunk in p.stdout.split("##CHECK ")[1:]:
        name, _, body = chunk.partition("\n")
        if "autoParam" in body:
            hits.append(name.strip())
    return hits


def lint(cfg, theorems_by_mod=None):
    """the two lists for one checks/Cxx.json (static part only)"""
    props = [m for m in cfg.get("lean_props", []) if ".Props.Pin" not in m]
    auto = []
    for m in props:
        for th, b in autoparams_static(m):
            auto.append("%s: %s %s" % (m.split(".")[-1], th, b))
    return {"unconsumed_facts": unconsumed(cfg.get("generated", [])), "autoparam_binders": auto}


def main():
    args = [a for a in sys.argv[1:] if not a.startswith("--")]
    semantic = "--semantic" in sys.argv
    ids = args or sorted(os.path.basename(p)[:-5] for p in glob.glob(os.path.join(VERIF, "checks", "C*.json")))
    sys.path.insert(0, os.path.dirname(os.path.abspath(__file__)))
    all_unc, all_auto = {}, {}
    for pid in ids:
        cfg = json.load(open(os.path.join(VERIF, "checks", pid + ".json")))
        r = lint(cfg)
        sem = []
        if semantic:
            import check as chk
            props = [m for m in cfg.get("lean_props", []) if ".Props.Pin" not in m]
            ths = [t for m in props for t in chk.theorems_in(m)]
            got = autoparams_semantic(props, ths, os.path.join(VERIF, "build", "lint"))
            have = " ".join(r["autoparam_binders"])
            sem = [t for t in (got or []) if t.split(".")[-1] not in have]
            if got is None:
                sem = ["<lean timed out>"]
        print("== %s  generated=%s" % (pid, ",".join(g for g in cfg.get("generated", []) if not g.startswith("Pin"))))
        print("   unconsumed facts (%d): %s" % (len(r["unconsumed_facts"]), " ".join(r["unconsumed_facts"]) or "-"))
        print("   auto-param binders (%d):" % (len(r["autoparam_binders"]) + len(sem)) + ("" if r["autoparam_binders"] or sem else " -"))
        for b in r["autoparam_binders"]:
            print("     " + b)
        for t in sem:
            print("     (elaborated type only) " + t)
        for u in r["unconsumed_facts"]:
            all_unc.setdefault(u, []).append(pid)
        for b in r["autoparam_binders"]:
            all_auto.setdefault(b, []).append(pid)
    print("\n== summary: %d distinct unconsumed facts, %d distinct auto-param binders" % (len(all_unc), len(all_auto)))
    by_mod = {}
    for u in sorted(all_unc):
        by_mod.setdefault(u.split(".")[0], []).append(u.split(".", 1)[1])
    for m in sorted(by_mod):
        print("   Gen.%s (%d): %s" % (m, len(by_mod[m]), " ".join(by_mod[m])))
    for b in sorted(all_auto):
        print("   %s   [%s]" % (b, ",".join(all_auto[b])))
    return 0


if __name__ == "__main__":
    sys.exit(main())
