#!/usr/bin/env python3
"""check.py <Cxx> quick|thorough   |   check.py <Cxx> --replay <file>

One run of one property check (see DESIGN.md §2):
  1. gofacts regenerates lean/Juniper/Generated/*.lean from $VERIF_REPO (default /repo)
  2. lake build of the property's theorems (+ axiom audit, forbidden-token grep; thorough: leanchecker)
     and of the model driver
  3. the Go harness is rebuilt against the tree (-tags verif) and run: correspondence model<->code,
     property monitors, shrinking
  4. failures are matched against known_findings.jsonl; VIOLATION / KNOWN-FINDING lines; evidence.
Stdlib only.
"""
import fcntl
import hashlib
import json
import os
import re
import shutil
import subprocess
import sys
import time

sys.path.insert(0, os.path.dirname(os.path.abspath(__file__)))
import factlint  # noqa: E402  (static hygiene of the fact tie: unconsumed facts, auto-param binders)

VERIF = os.path.dirname(os.path.dirname(os.path.abspath(__file__)))
REPO = os.environ.get("VERIF_REPO", "/repo")
BUILD = os.path.join(VERIF, "build")
LEAN = os.path.join(VERIF, "lean")
ALLOWED_AXIOMS = {"propext", "Classical.choice", "Quot.sound"}
FORBIDDEN = [r"\bsorry\b", r"\badmit\b", r"^\s*axiom\s", r"\bnative_decide\b", r"\bbv_decide\b",
             r"implemented_by", r"\bunsafe\s", r"maxHeartbeats\s+0\b", r"\bofReduceBool\b"]

GOENV = dict(os.environ, GOFLAGS="-mod=mod", GOPROXY="off", GOSUMDB="off", GOTOOLCHAIN="local",
             GONOSUMDB="*", GONOSUMCHECK="1", GOFLAGS_EXTRA="")


def sh(cmd, cwd=None, env=None, timeout=None, inp=None):
    """run, return (rc, combined output). The command gets a process group of its own, and whatever is left
    of that group when the command has ended (or has been killed at the timeout) is killed as well: a model
    driver orphaned by a harness that crashed or hung must not survive into the next run."""
    import signal
    p = subprocess.Popen(cmd, cwd=cwd, env=env, stdin=subprocess.PIPE if inp is not None else subprocess.DEVNULL,
                         stdout=subprocess.PIPE, stderr=subprocess.STDOUT, text=True, errors="replace",
                         start_new_session=True)
    try:
        try:
            out, _ = p.communicate(inp, timeout=timeout)
            return p.returncode, out
        except subprocess.TimeoutExpired:
            try:
                os.killpg(p.pid, signal.SIGKILL)
            except OSError:
                pass
            out, _ = p.communicate()
            return 124, (out or "") + "\n[timeout after %ss]" % timeout
    finally:
        try:
            os.killpg(p.pid, signal.SIGKILL)
        except OSError:
            pass


def strip_comments(src):
    """remove Lean comments (nested block comments and line comments); keeps string literals intact enough"""
    out = []
    i, n, depth = 0, len(src), 0
    while i < n:
        if src.startswith("/-", i):
            depth += 1
            i += 2
            continue
        if depth and src.startswith("-/", i):
            depth -= 1
            i += 2
            continue
        if depth:
            if src[i] == "\n":
                out.append("\n")
            i += 1
            continue
        if src.startswith("--", i):
            while i < n and src[i] != "\n":
                i += 1
            continue
        out.append(src[i])
        i += 1
    return "".join(out)


def module_path(mod):
    return os.path.join(LEAN, *mod.split(".")) + ".lean"


def transitive_imports(mods):
    """Juniper.* modules reachable from mods (files that exist)"""
    seen, todo = [], list(mods)
    while todo:
        m = todo.pop()
        if m in seen:
            continue
        p = module_path(m)
        if not os.path.exists(p):
            continue
        seen.append(m)
        for line in open(p, encoding="utf8"):
            mm = re.match(r"\s*(?:public\s+)?import\s+(Juniper[\w.]*)", line)
            if mm:
                todo.append(mm.group(1))
    return seen


DECL_RE = re.compile(r"^\s*(?:@\[[^\]]*\]\s*)?(?:private\s+|protected\s+)?(theorem|lemma)\s+([^\s:({\[]+)", re.M)


def theorems_in(mod):
    p = module_path(mod)
    if not os.path.exists(p):
        return []
    src = strip_comments(open(p, encoding="utf8").read())
    ns = []
    out = []
    for line in src.split("\n"):
        m = re.match(r"\s*namespace\s+(\S+)", line)
        if m:
            ns.append(m.group(1))
            continue
        m = re.match(r"\s*end\s+(\S+)", line)
        if m and ns and ns[-1] == m.group(1):
            ns.pop()
            continue
        m = DECL_RE.match(line)
        if m:
            out.append((".".join(ns + [m.group(2)]) if ns else m.group(2)))
    return out


def enclosing_theorem(path, lineno):
    try:
        lines = open(path, encoding="utf8").read().split("\n")
    except OSError:
        return None
    for i in range(min(lineno, len(lines)) - 1, -1, -1):
        m = re.match(r"\s*(?:@\[[^\]]*\]\s*)?(?:private\s+|protected\s+)?(theorem|lemma|def|example|instance|abbrev)\s*([^\s:({\[]*)", lines[i])
        if m:
            return "%s %s" % (m.group(1), m.group(2) or "(anonymous)")
    return None


class Run:
    def __init__(self, prop, tier, replay=None):
        self.prop, self.tier, self.replay = prop, tier, replay
        self.cfg = json.load(open(os.path.join(VERIF, "checks", prop + ".json")))
        self.seed = int(os.environ.get("VERIF_SEED", "1") or "1")
        self.t0 = time.time()
        self.ties = []  # broken ties: dicts {tie, what}
        self.notes = {}
        self.rundir = os.path.join(BUILD, "run", prop + ("-thorough" if tier == "thorough" else ""))
        os.makedirs(self.rundir, exist_ok=True)
        os.makedirs(os.path.join(BUILD, "bin"), exist_ok=True)
        self.driver = None
        self.obligations = 0
        self.discharged = 0
        self.axioms = {}
        self.checker_cmds = []
        # hooks for runner/apicov.py (coverage-instrumented harness builds); empty in a normal check
        self.build_flags = []
        self.bin_suffix = ""
        self.extra_env = {}
        self.extra_test_args = []

    def log(self, name, text):
        with open(os.path.join(self.rundir, name), "w") as f:
            f.write(text)

    # ---------------------------------------------------------------- step 1+2: facts and proofs
    def lean_phase(self):
        cfg = self.cfg
        lock = open(os.path.join(BUILD, "lean.lock"), "w")
        fcntl.flock(lock, fcntl.LOCK_EX)
        try:
            gf = os.path.join(BUILD, "bin", "gofacts")
            rc, out = sh(["go", "build", "-o", gf, "."], cwd=os.path.join(VERIF, "tools", "gofacts"), env=GOENV)
            if rc != 0:
                self.ties.append({"tie": "gofacts", "what": "gofacts does not build: " + out[-400:]})
                return
            facts_json = os.path.join(self.rundir, "facts.json")
            rc, out = sh([gf, "-repo", REPO, "-out", os.path.join(LEAN, "Juniper", "Generated"), "-json", facts_json])
            self.log("gofacts.log", out)
            facts = {}
            if rc != 0:
                self.ties.append({"tie": "gofacts", "what": "gofacts failed: " + out[-400:]})
            else:
                facts = json.load(open(facts_json))
            fps = {}
            for mod in cfg.get("generated", []):
                r = facts.get(mod)
                if r is None:
                    if rc == 0:
                        self.ties.append({"tie": "gofacts", "what": "no generated module " + mod})
                    continue
                for e in r.get("errors") or []:
                    self.ties.append({"tie": "generated-fact", "what": "Juniper.Gen.%s: %s" % (mod, e)})
                fps.update(r.get("fingerprints") or {})
            self.notes["fact_fingerprints"] = fps
            self.notes["fact_fingerprint"] = hashlib.sha256(json.dumps(fps, sort_keys=True).encode()).hexdigest()[:16]

            props = cfg.get("lean_props", [])
            mods = transitive_imports(props)
            proof_mods = [m for m in mods if ".Props." in m or ".Proofs." in m]
            names = []
            for m in proof_mods:
                names += theorems_in(m)
            self.obligations = len(names)
            self.notes["property_theorems"] = [t for m in props for t in theorems_in(m)]

            # forbidden tokens
            for m in mods:
                if ".Generated." in m:
                    continue
                src = strip_comments(open(module_path(m), encoding="utf8").read())
                for pat in FORBIDDEN:
                    mm = re.search(pat, src, re.M)
                    if mm:
                        self.ties.append({"tie": "proof-hygiene", "what": "%s contains forbidden token %r" % (m, mm.group(0).strip())})

            # static hygiene of the fact tie (runner/factlint.py): generated definitions nothing consumes,
            # and `(h : fact = true := by decide)` binders (autoParam: not an obligation). Always in the
            # evidence; broken ties once the property opts in with "strict_facts": true.
            try:
                lint = factlint.lint(cfg)
            except Exception as e:  # a lint bug must never hide a real result
                lint = {"unconsumed_facts": [], "autoparam_binders": [], "error": repr(e)}
            self.notes["factlint"] = lint
            if cfg.get("strict_facts"):
                for u in lint["unconsumed_facts"]:
                    self.ties.append({"tie": "fact-hygiene", "what": "generated fact Juniper.Gen.%s is consumed by no model, proof or property file: it can change without any theorem noticing" % u})
                for b in lint["autoparam_binders"]:
                    self.ties.append({"tie": "fact-hygiene", "what": "auto-param binder (an assumption, not an obligation; discharge the fact inside the proof or through a proved tie lemma): " + b})
                if lint.get("error"):
                    self.ties.append({"tie": "fact-hygiene", "what": "factlint failed: " + lint["error"]})

            cmd = ["lake", "build"] + props
            self.checker_cmds.append("cd lean && " + " ".join(cmd))
            rc, out = sh(cmd, cwd=LEAN, timeout=3000)
            self.log("lake_props.log", out)
            failed = set()
            if rc != 0:
                for mm in re.finditer(r"^error: (\S+?\.lean):(\d+):(\d+): (.*)$", out, re.M):
                    path = os.path.join(LEAN, mm.group(1)) if not os.path.isabs(mm.group(1)) else mm.group(1)
                    th = enclosing_theorem(path, int(mm.group(2))) or "?"
                    failed.add("%s:%s (%s)" % (mm.group(1), mm.group(2), th))
                    self.ties.append({"tie": "proof", "what": "%s:%s in %s no longer checks: %s" % (mm.group(1), mm.group(2), th, mm.group(4)[:300])})
                if not failed:
                    self.ties.append({"tie": "proof", "what": "lake build %s failed: %s" % (" ".join(props), out[-600:])})
            self.discharged = max(0, self.obligations - max(len(failed), 1 if rc != 0 else 0))

            # axiom audit of the property theorems (+ `#check @thm`: an elaborated type that mentions
            # autoParam is an auto-param binder the static scan may have missed, e.g. through `variable`)
            if rc == 0 and self.notes["property_theorems"]:
                audit = os.path.join(self.rundir, "Audit.lean")
                with open(audit, "w") as f:
                    for p in props:
                        f.write("import %s\n" % p)
                    for t in self.notes["property_theorems"]:
                        f.write("#print axioms %s\n" % t)
                    for t in self.notes["property_theorems"]:
                        if ".Props.Pin" not in t:
                            f.write('#print "##CHECK %s"\n#check @%s\n' % (t, t))
                    f.write('#print "##END"\n')
                cmd = ["lake", "env", "lean", audit]
                self.checker_cmds.append("cd lean && lake env lean <Audit.lean: #print axioms of every property theorem>")
                rc2, out2 = sh(cmd, cwd=LEAN, timeout=1200)
                self.log("audit.log", out2)
                out2, _, checks_out = out2.partition("##CHECK ")
                have = " ".join(self.notes["factlint"]["autoparam_binders"])
                for chunk in checks_out.split("##CHECK "):
                    name, _, body = chunk.partition("\n")
                    if "autoParam" in body.split("##END")[0] and name.strip().split(".")[-1] not in have:
                        b = "%s (autoParam in the elaborated type)" % name.strip()
                        self.notes["factlint"]["autoparam_binders"].append(b)
                        if cfg.get("strict_facts"):
                            self.ties.append({"tie": "fact-hygiene", "what": "auto-param binder (an assumption, not an obligation): " + b})
                if rc2 != 0:
                    self.ties.append({"tie": "axiom-audit", "what": "audit failed: " + out2[-400:]})
                for mm in re.finditer(r"'([^']+)' depends on axioms: \[([^\]]*)\]", out2.replace("\n", " ")):
                    axs = [a.strip() for a in mm.group(2).split(",") if a.strip()]
                    self.axioms[mm.group(1)] = axs
                    bad = [a for a in axs if a not in ALLOWED_AXIOMS]
                    if bad:
                        self.ties.append({"tie": "axiom-audit", "what": "%s depends on %s" % (mm.group(1), bad)})
                for mm in re.finditer(r"'([^']+)' does not depend on any axioms", out2):
                    self.axioms[mm.group(1)] = []
                missing = [t for t in self.notes["property_theorems"] if t not in self.axioms]
                if missing and rc2 == 0:
                    self.ties.append({"tie": "axiom-audit", "what": "no axiom report for %s" % missing[:5]})

            if self.tier == "thorough" and rc == 0:
                cmd = ["lake", "env", "leanchecker"] + props
                self.checker_cmds.append("cd lean && " + " ".join(cmd))
                rc3, out3 = sh(cmd, cwd=LEAN, timeout=3000)
                self.log("leanchecker.log", out3)
                self.notes["leanchecker"] = "ok" if rc3 == 0 else "failed"
                if rc3 != 0:
                    self.ties.append({"tie": "leanchecker", "what": out3[-400:]})

            # model driver(s): one executable per model, so that a model that no longer compiles
            # against the regenerated facts only affects the checks that use it
            models = cfg.get("models")
            if models:
                ok_all = True
                for mname in models:
                    tgt = "driver_" + mname.replace("-", "_")
                    rc, out = sh(["lake", "build", tgt], cwd=LEAN, timeout=3000)
                    self.log("lake_%s.log" % tgt, out)
                    exe = os.path.join(LEAN, ".lake", "build", "bin", tgt)
                    if rc != 0 or not os.path.exists(exe):
                        ok_all = False
                        self.ties.append({"tie": "model", "what": "the executable model %s does not build against the regenerated facts: %s" % (mname, out[-400:])})
                    else:
                        dst = os.path.join(self.rundir, "driver_" + mname)
                        if os.path.exists(dst):
                            os.unlink(dst)   # a driver left running by an earlier run keeps its old file; no "text file busy"
                        shutil.copy2(exe, dst)
                if ok_all:
                    # dispatcher so that both `driver <model>` and `driver_<model>` work
                    self.driver = os.path.join(self.rundir, "driver")
                    with open(self.driver, "w") as f:
                        f.write('#!/bin/sh\nexec "$0_$1"\n')
                    os.chmod(self.driver, 0o755)
            else:
                rc, out = sh(["lake", "build", "driver"], cwd=LEAN, timeout=3000)
                self.log("lake_driver.log", out)
                exe = os.path.join(LEAN, ".lake", "build", "bin", "driver")
                if rc != 0 or not os.path.exists(exe):
                    self.ties.append({"tie": "model", "what": "the executable model does not build against the regenerated facts: " + out[-400:]})
                else:
                    self.driver = os.path.join(self.rundir, "driver")
                    if os.path.exists(self.driver):
                        os.unlink(self.driver)
                    shutil.copy2(exe, self.driver)
        finally:
            fcntl.flock(lock, fcntl.LOCK_UN)
            lock.close()

    # ---------------------------------------------------------------- step 3: harness
    def modfile(self, moddir):
        """go.mod copy whose replace points at REPO (so that checks can be pointed at a scratch tree)"""
        src = os.path.join(VERIF, moddir, "go.mod")
        if REPO == "/repo":
            return None
        tag = hashlib.sha256(REPO.encode()).hexdigest()[:8]
        dst = os.path.join(BUILD, "%s-%s.mod" % (moddir.replace("/", "_"), tag))
        txt = open(src).read().replace("=> /repo", "=> " + REPO).replace("=> ../harness", "=> " + os.path.join(VERIF, "harness"))
        open(dst, "w").write(txt)
        s = os.path.join(VERIF, moddir, "go.sum")
        if os.path.exists(s):
            shutil.copy2(s, dst[:-4] + ".sum")
        return dst

    def build_harness(self, h):
        moddir = h.get("module", "harness")
        gobin = h.get("go", "go")
        out = os.path.join(BUILD, "bin", h["name"] + self.bin_suffix + ("" if REPO == "/repo" else "-" + hashlib.sha256(REPO.encode()).hexdigest()[:8]))
        mf = self.modfile(moddir)
        extra = ["-modfile=" + mf] if mf else []
        tags = "verif" + (",race" if False else "")
        if h.get("kind") == "test":
            cmd = [gobin, "test", "-c", "-tags", tags] + extra + self.build_flags + (["-race"] if h.get("race") else []) + ["-o", out, h["pkg"]]
        else:
            cmd = [gobin, "build", "-tags", tags] + extra + self.build_flags + (["-race"] if h.get("race") else []) + ["-o", out, h["pkg"]]
        rc, o = sh(cmd, cwd=os.path.join(VERIF, moddir), env=GOENV, timeout=900)
        self.log("build_%s.log" % h["name"], o)
        if rc != 0:
            self.ties.append({"tie": "harness-build", "what": "%s does not build against the tree: %s" % (h["name"], o[-600:])})
            return None
        return out

    def run_harness(self, h, exe, deep=False, replay=None):
        outp = os.path.join(self.rundir, h["name"] + ".result.json")
        if os.path.exists(outp):
            os.remove(outp)
        tier = self.tier
        budget = h.get("%s_budget_ms" % tier, self.cfg.get("%s_budget_ms" % tier, 8000 if tier == "quick" else 120000))
        if deep:
            budget = h.get("thorough_budget_ms", self.cfg.get("thorough_budget_ms", 120000))
        budget = int(os.environ.get("VERIF_BUDGET_MS", budget))
        env = dict(GOENV, VERIF_SEED=str(self.seed), VERIF_TIER=tier, VERIF_DRIVER=self.driver or "",
                   VERIF_OUT=outp, VERIF_CORPUS=os.path.join(VERIF, "corpus", self.prop),
                   VERIF_BUDGET_MS=str(budget), VERIF_DEEP="1" if deep else "", VERIF_REPO=REPO,
                   VERIF_REPLAY=replay or "")
        env.update(self.extra_env)
        if h.get("kind") == "test":
            cmd = [exe, "-test.run", h.get("run", "TestVerif"), "-test.timeout", "0", "-test.count", "1"] + self.extra_test_args
        else:
            cmd = [exe]
        timeout = budget / 1000.0 * h.get("timeout_factor", 6) + (300 if self.tier == "quick" and not deep else 600)  # generous: slowness on a loaded machine must not become an alarm
        rc, out = sh(cmd, cwd=os.path.join(VERIF, h.get("module", "harness")), env=env, timeout=timeout)
        self.log("run_%s.log" % h["name"], out)
        if replay:
            return rc, out, None
        res = None
        if os.path.exists(outp):
            try:
                res = json.load(open(outp))
            except ValueError:
                res = None
        return rc, out, res

    # ---------------------------------------------------------------- known findings
    def known(self):
        out = []
        p = os.path.join(VERIF, "known_findings.jsonl")
        if os.path.exists(p):
            for line in open(p):
                line = line.strip()
                if line and not line.startswith("#"):
                    out.append(json.loads(line))
        return out

    @staticmethod
    def matches(entry, f):
        if entry.get("status") != "open" or entry.get("property") != f.get("_prop"):
            return False
        if entry.get("kind") != f.get("kind"):
            return False
        params = f.get("params") or {}
        for k, v in (entry.get("match") or {}).items():
            if k.endswith("_ge"):
                if not (isinstance(params.get(k[:-3]), (int, float)) and params[k[:-3]] >= v):
                    return False
            elif k.endswith("_le"):
                if not (isinstance(params.get(k[:-3]), (int, float)) and params[k[:-3]] <= v):
                    return False
            elif k.endswith("_in"):
                if params.get(k[:-3]) not in v:
                    return False
            elif params.get(k) != v:
                return False
        return True

    # ---------------------------------------------------------------- main
    def main(self):
        if self.replay:
            return self.do_replay()
        self.lean_phase()
        merged = {"evaluations": 0, "distinct_nontrivial": 0, "rule": [], "samples": [], "traces": 0,
                  "distribution": {}, "failures": [], "exhaustive": None, "extra": {}}
        exes = []
        for h in self.cfg.get("harness", []):
            exe = self.build_harness(h)
            if exe:
                exes.append((h, exe))

        def run_all(deep):
            for h, exe in exes:
                if h.get("thorough_only") and self.tier != "thorough" and not deep:
                    continue
                rc, out, res = self.run_harness(h, exe, deep=deep)
                if res is None:
                    self.ties.append({"tie": "harness-run", "what": "%s ended with status %s without a result: %s" % (h["name"], rc, out[-1500:])})
                    continue
                if rc != 0:
                    self.ties.append({"tie": "harness-run", "what": "%s exited with status %s: %s" % (h["name"], rc, out[-800:])})
                merged["evaluations"] += res.get("evaluations", 0)
                merged["distinct_nontrivial"] += res.get("distinct_nontrivial", 0)
                if res.get("rule") and res["rule"] not in merged["rule"]:
                    merged["rule"].append(res["rule"])
                merged["samples"] += (res.get("samples") or [])[:3]
                merged["traces"] += res.get("traces_validated_against_impl", 0)
                for k, v in (res.get("distribution") or {}).items():
                    merged["distribution"][h["name"] + "." + k] = merged["distribution"].get(h["name"] + "." + k, 0) + v
                merged["extra"].update(res.get("extra") or {})
                if "exhaustive" in res and res.get("exhaustive") is not None:
                    merged["exhaustive"] = bool(res["exhaustive"]) if merged["exhaustive"] is None else (merged["exhaustive"] and bool(res["exhaustive"]))
                if res.get("model_missing") and self.driver:
                    self.ties.append({"tie": "model", "what": "model driver unusable in %s: %s" % (h["name"], res["model_missing"])})
                for f in res.get("failures") or []:
                    kind = f.get("kind") or ""
                    if h.get("only_kinds") and not any(kind.startswith(p) for p in h["only_kinds"]):
                        continue
                    if any(kind.startswith(p) for p in h.get("skip_kinds", [])):
                        continue
                    f["_prop"] = self.prop
                    f["_harness"] = h["name"]
                    merged["failures"].append(f)

        run_all(False)
        monitor_fail = [f for f in merged["failures"] if f.get("source") == "monitor"]
        corr_fail = [f for f in merged["failures"] if f.get("source") != "monitor"]
        for f in corr_fail:
            self.ties.append({"tie": "correspondence", "what": "%s: %s" % (f.get("kind"), f.get("what")), "case": f.get("case")})
        if self.ties and not monitor_fail and self.tier == "quick" and exes:
            # a tie broke and no failing input yet: search with the full budget
            self.notes["escalated_search"] = True
            n_before = len(merged["failures"])
            run_all(True)
            monitor_fail = [f for f in merged["failures"] if f.get("source") == "monitor"]
            for f in merged["failures"][n_before:]:
                if f.get("source") != "monitor":
                    self.ties.append({"tie": "correspondence", "what": "%s: %s" % (f.get("kind"), f.get("what")), "case": f.get("case")})

        known = self.known()
        violations = []
        printed_known = set()
        os.makedirs(os.path.join(VERIF, "replays"), exist_ok=True)
        seen_v = set()
        for f in monitor_fail[:]:
            if len(violations) >= 3:
                break
            hit = next((e for e in known if self.matches(e, f)), None)
            if hit:
                key = hit.get("kind") + json.dumps(hit.get("match") or {}, sort_keys=True)
                if key not in printed_known:
                    printed_known.add(key)
                    print("KNOWN-FINDING: property=%s %s" % (self.prop, hit.get("what", hit.get("kind"))))
                continue
            vk = f.get("kind", "") + json.dumps(f.get("params") or {}, sort_keys=True)
            if vk in seen_v:
                continue
            seen_v.add(vk)
            body = {"property": self.prop, "source": "monitor", "kind": f.get("kind"), "params": f.get("params"),
                    "what": f.get("what"), "case": f.get("case"), "harness": f.get("_harness"), "seed": self.seed,
                    "broken_ties": self.ties,
                    "how_to_replay": "bin/check %s --replay <this file>" % self.prop}
            h = hashlib.sha256(json.dumps(body, sort_keys=True, default=str).encode()).hexdigest()[:12]
            path = os.path.join(VERIF, "replays", "%s-%s.json" % (self.prop, h))
            json.dump(body, open(path, "w"), indent=1, default=str)
            violations.append(path)
            print("VIOLATION property=%s replay=%s" % (self.prop, path))
        if self.ties and not violations:
            # no concrete failing input beyond known findings: the property is no longer shown to hold
            only_known = bool(monitor_fail)  # every monitor failure was a known finding
            body = {"property": self.prop, "source": "broken-tie", "what": "the proof obligations / correspondence listed below no longer check; "
                    "no failing input was found by the monitors within the search budget" + (" (beyond the listed known findings)" if only_known else ""),
                    "broken_ties": self.ties, "seed": self.seed}
            h = hashlib.sha256(json.dumps(body, sort_keys=True, default=str).encode()).hexdigest()[:12]
            path = os.path.join(VERIF, "replays", "%s-tie-%s.json" % (self.prop, h))
            json.dump(body, open(path, "w"), indent=1, default=str)
            violations.append(path)
            print("VIOLATION property=%s replay=%s no-failing-input-found" % (self.prop, path))

        self.write_evidence(merged, violations)
        return 1 if violations else 0

    def write_evidence(self, merged, violations):
        cfg = self.cfg
        cov = {
            "obligations": self.obligations,
            "discharged": self.discharged,
            "checker_cmd": " ; ".join(self.checker_cmds) or "cd lean && lake build " + " ".join(cfg.get("lean_props", [])),
            "trusted_base": cfg.get("trusted_base", []),
            "evaluations": merged["evaluations"],
            "distinct_nontrivial": merged["distinct_nontrivial"],
            "rule": " || ".join(merged["rule"]),
            "samples": merged["samples"][:6] or [{"property_theorems": self.notes.get("property_theorems", [])[:5]}],
            "traces_validated_against_impl": merged["traces"],
            "distribution": merged["distribution"],
            "property_theorems": self.notes.get("property_theorems", []),
            "axioms": self.axioms,
            "generated_fact_fingerprint": self.notes.get("fact_fingerprint"),
            "generated_fact_fingerprints": self.notes.get("fact_fingerprints"),
            "broken_ties": self.ties,
            "unconsumed_facts": (self.notes.get("factlint") or {}).get("unconsumed_facts", []),
            "autoparam_binders": (self.notes.get("factlint") or {}).get("autoparam_binders", []),
            "strict_facts": bool(cfg.get("strict_facts")),
            "escalated_search": bool(self.notes.get("escalated_search")),
            "leanchecker": self.notes.get("leanchecker", "not run (quick tier)"),
            "repo": REPO,
        }
        if merged["exhaustive"] is not None:
            cov["exhaustive"] = merged["exhaustive"]
        cov.update(merged.get("extra") or {})
        ev = {
            "property_id": self.prop,
            "tier": self.tier,
            "seed": self.seed,
            "level": cfg.get("level", "proof"),
            "coverage": cov,
            "assumptions": cfg.get("assumptions", []),
            "wall_s": round(time.time() - self.t0, 2),
            "violations": len(violations),
        }
        # evidence/ describes runs against /repo itself; runs pointed at another tree (seeded changes,
        # pre-fix trees) leave theirs in the run directory
        evdir = os.path.join(VERIF, "evidence") if REPO == "/repo" else self.rundir
        os.makedirs(evdir, exist_ok=True)
        tmp = os.path.join(evdir, self.prop + ".json.tmp")
        json.dump(ev, open(tmp, "w"), indent=1, default=str)
        os.replace(tmp, os.path.join(evdir, self.prop + ".json"))

    def do_replay(self):
        body = json.load(open(self.replay))
        if body.get("source") == "broken-tie":
            print("replay: no failing input was found; the broken ties were:")
            for t in body.get("broken_ties", []):
                print(" -", t.get("tie"), ":", t.get("what"))
            self.tier = "quick"
            return self.main_without_replay()
        self.lean_phase()
        rc_all = 0
        for h in self.cfg.get("harness", []):
            if body.get("harness") and h["name"] != body["harness"]:
                continue
            exe = self.build_harness(h)
            if not exe:
                print("harness does not build")
                return 2
            rc, out, _ = self.run_harness(h, exe, replay=os.path.abspath(self.replay))
            sys.stdout.write(out)
            rc_all = rc_all or rc
        return 1 if rc_all else 0

    def main_without_replay(self):
        self.replay = None
        return self.main()


def main():
    if len(sys.argv) < 3:
        print(__doc__)
        return 2
    prop = sys.argv[1]
    if sys.argv[2] == "--replay":
        return Run(prop, "quick", replay=sys.argv[3]).main()
    tier = sys.argv[2]
    os.environ["VERIF_TIER"] = tier
    return Run(prop, tier).main()


if __name__ == "__main__":
    sys.exit(main())
