#!/usr/bin/env python3
"""pinstatus.py            which pins differ between the tree ($VERIF_REPO, default /repo) and lean/Juniper/Pinned?

Runs gofacts into a scratch directory (nothing under lean/ is touched) and compares, definition by
definition, Juniper.Gen.Pin<M> with the committed Juniper.Pinned.<M>: `changed` (the tie theorem
pin_<...>_ok will fail), `gone` (pinned, no longer extracted), `new` (extracted, not pinned yet: no
theorem covers it until the next re-pin). Exit 1 when anything is changed or gone.
Re-pinning (`bin/repin`) is a deliberate act after reviewing the models, see notes/pins.md.
"""
import glob
import os
import re
import subprocess
import sys
import tempfile

VERIF = os.path.dirname(os.path.dirname(os.path.abspath(__file__)))
REPO = os.environ.get("VERIF_REPO", "/repo")


def defs(path):
    out = {}
    if not os.path.exists(path):
        return out
    src = open(path, encoding="utf8").read()
    for m in re.finditer(r"^def (pin_\S+) : List String := (.*?)(?=^/-- |^end )", src, re.M | re.S):
        out[m.group(1)] = m.group(2).strip()
    return out


def main():
    gf = os.path.join(VERIF, "build", "bin", "gofacts")
    env = dict(os.environ, GOFLAGS="-mod=mod", GOPROXY="off", GOSUMDB="off", GOTOOLCHAIN="local")
    os.makedirs(os.path.dirname(gf), exist_ok=True)
    subprocess.run(["go", "build", "-o", gf, "."], cwd=os.path.join(VERIF, "tools", "gofacts"), env=env, check=True)
    bad = 0
    with tempfile.TemporaryDirectory() as d:
        subprocess.run([gf, "-repo", REPO, "-out", d, "-json", os.path.join(d, "facts.json")],
                       stdout=subprocess.DEVNULL, stderr=subprocess.DEVNULL)
        for p in sorted(glob.glob(os.path.join(VERIF, "lean", "Juniper", "Pinned", "*.lean"))):
            m = os.path.basename(p)[:-5]
            pinned, gen = defs(p), defs(os.path.join(d, "Pin" + m + ".lean"))
            changed = sorted(k for k in pinned if k in gen and gen[k] != pinned[k])
            gone = sorted(k for k in pinned if k not in gen)
            new = sorted(k for k in gen if k not in pinned)
            if changed or gone or new:
                print("Pin%s: changed: %s | gone: %s | new (unpinned): %s" % (
                    m, " ".join(changed) or "-", " ".join(gone) or "-", " ".join(new) or "-"))
            bad += len(changed) + len(gone)
    print("pins of %s vs lean/Juniper/Pinned: %s" % (REPO, "all equal" if not bad else "%d differ" % bad))
    return 1 if bad else 0


if __name__ == "__main__":
    sys.exit(main())
