#!/usr/bin/env python3
"""apicov.py <Cxx> [--thorough-only-too]      API coverage of a property's harnesses (audit finding X-4)

Builds the property's harness binaries with `-cover -coverpkg=./...,github.com/bradenaw/juniper/...`
(`go test -c -cover ...` for kind:test entries), runs each once at the quick budget (after the usual
Lean phase, so that the model driver is there and the correspondence part runs as in a check), and
prints the exported functions and methods declared in the property's anchor files
(properties.jsonl -> anchors.files) in which no statement was executed. A `*` marks the names that the
property text mentions (function name, or a receiver type that starts with a mentioned name):
those are the real gaps -- a harness generator that never produces a named API function is a hole in
tie 2 that no proof sees. Writes build/apicov/<Cxx>.json. Stdlib only; not part of a check.
"""
import json
import os
import re
import shutil
import subprocess
import sys

sys.path.insert(0, os.path.dirname(os.path.abspath(__file__)))
import check as chk  # noqa: E402

MODPATH = "github.com/bradenaw/juniper"


def profile_blocks(path):
    """{file relative to the module: [(startline, endline, count)]}"""
    out = {}
    if not os.path.exists(path):
        return out
    for line in open(path):
        m = re.match(r"(\S+?):(\d+)\.\d+,(\d+)\.\d+ (\d+) (\d+)$", line.strip())
        if not m or not m.group(1).startswith(MODPATH + "/"):
            continue
        out.setdefault(m.group(1)[len(MODPATH) + 1:], []).append((int(m.group(2)), int(m.group(3)), int(m.group(5))))
    return out


def main():
    args = [a for a in sys.argv[1:] if not a.startswith("--")]
    if not args:
        print(__doc__)
        return 2
    prop = args[0]
    with_thorough = "--thorough-only-too" in sys.argv
    pj = next(json.loads(l) for l in open(os.path.join(chk.VERIF, "properties.jsonl")) if json.loads(l)["id"] == prop)
    files = pj["anchors"]["files"]
    text = pj.get("title", "") + " " + pj.get("statement", "")
    named = set(re.findall(r"[A-Za-z][A-Za-z0-9]*", text))

    gf = os.path.join(chk.BUILD, "bin", "gofacts")
    rc, out = chk.sh(["go", "build", "-o", gf, "."], cwd=os.path.join(chk.VERIF, "tools", "gofacts"), env=chk.GOENV)
    if rc != 0:
        print("gofacts does not build:", out[-400:])
        return 2
    p = subprocess.run([gf, "-repo", chk.REPO, "-out", "-", "-apifuncs", ",".join(files)], stdout=subprocess.PIPE, text=True)
    funcs = json.loads(p.stdout)

    run = chk.Run(prop, "quick")
    # ./... as well: a binary whose main package is not instrumented writes no coverage data at all
    run.build_flags = ["-cover", "-coverpkg=./...,%s/..." % MODPATH]
    run.bin_suffix = "-cover"
    run.lean_phase()
    covroot = os.path.join(chk.BUILD, "apicov", prop)
    shutil.rmtree(covroot, ignore_errors=True)
    os.makedirs(covroot)
    blocks = {}
    ran = []
    for h in run.cfg.get("harness", []):
        if h.get("thorough_only") and not with_thorough:
            continue
        exe = run.build_harness(h)
        if not exe:
            print("harness %s does not build with -cover: see %s" % (h["name"], os.path.join(run.rundir, "build_%s.log" % h["name"])))
            continue
        d = os.path.join(covroot, h["name"])
        os.makedirs(d)
        prof = os.path.join(d, "profile.txt")
        if h.get("kind") == "test":
            run.extra_env = {}
            run.extra_test_args = ["-test.coverprofile", prof]
        else:
            run.extra_env = {"GOCOVERDIR": d}
            run.extra_test_args = []
        rc, out, res = run.run_harness(h, exe)
        if h.get("kind") != "test":
            chk.sh([h.get("go", "go"), "tool", "covdata", "textfmt", "-i=" + d, "-o=" + prof], env=chk.GOENV)
        ran.append({"harness": h["name"], "rc": rc, "evaluations": (res or {}).get("evaluations"),
                    "failures": len((res or {}).get("failures") or [])})
        for f, bl in profile_blocks(prof).items():
            blocks.setdefault(f, []).extend(bl)

    rows, never, skipped = [], [], []
    for fn in funcs:
        if fn.get("skipped"):
            skipped.append("%s (%s)" % (fn["file"], fn["skipped"]))
            continue
        bl = [b for b in blocks.get(fn["file"], []) if fn["start"] <= b[0] <= fn["end"]]
        hit = any(b[2] > 0 for b in bl)
        base = fn["name"].split(".")[-1]
        recv = fn["name"].split(".")[0] if "." in fn["name"] else ""
        mentioned = base in named and not recv or (
            recv and any(len(w) >= 3 and w[0].isupper() and recv.lower().startswith(w.lower()) for w in named)) or (
            recv and recv in named and base in named)
        rows.append({"file": fn["file"], "name": fn["name"], "executed": hit, "blocks": len(bl), "named_in_text": bool(mentioned)})
        if not hit and bl:
            never.append(("*" if mentioned else "") + fn["name"] + "@" + os.path.basename(fn["file"]))
    total = len([r for r in rows if r["blocks"]])
    print("== %s  harnesses: %s" % (prop, ", ".join("%s(rc=%s, %s cases)" % (r["harness"], r["rc"], r["evaluations"]) for r in ran)))
    print("   anchor files: %s" % ", ".join(files) + ("   [skipped: %s]" % "; ".join(skipped) if skipped else ""))
    print("   exported functions/methods with statements: %d, never executed: %d (named in the property text: %d)" % (
        total, len(never), len([n for n in never if n.startswith("*")])))
    print("   never executed, named in the property text: " + (" ".join(n[1:] for n in never if n.startswith("*")) or "-"))
    print("   never executed, other: " + (" ".join(n for n in never if not n.startswith("*")) or "-"))
    json.dump({"property": prop, "repo": chk.REPO, "harnesses": ran, "anchor_files": files, "functions": rows,
               "never_executed": never}, open(os.path.join(chk.BUILD, "apicov", prop + ".json"), "w"), indent=1)
    return 0


if __name__ == "__main__":
    sys.exit(main())
