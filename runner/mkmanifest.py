#!/usr/bin/env python3
"""Assembles MANIFEST.json from checks/C*.json (one file per property; nobody edits MANIFEST.json by hand)."""
import glob, json, os, subprocess
VERIF = os.path.dirname(os.path.dirname(os.path.abspath(__file__)))
props = [json.loads(l) for l in open(os.path.join(VERIF, "properties.jsonl")) if l.strip()]
cfgs = {}
for f in sorted(glob.glob(os.path.join(VERIF, "checks", "C*.json"))):
    c = json.load(open(f))
    cfgs[c["property"]] = c
hooks = []
try:
    out = subprocess.run(["git", "-C", "/repo", "log", "--format=%h %s"], capture_output=True, text=True).stdout
    hooks = [l.split()[0] for l in out.splitlines() if l.split(" ", 1)[1].startswith("verif hook")]
except Exception:
    pass
checks, na = [], []
for p in props:
    pid = p["id"]
    c = cfgs.get(pid)
    if c and c.get("claimed", True):
        m = c.get("manifest", {})
        checks.append({
            "property_id": pid,
            "quick_cmd": "bin/check %s quick" % pid,
            "thorough_cmd": "bin/check %s thorough" % pid,
            "evidence_file": "evidence/%s.json" % pid,
            "replay_cmd_template": "bin/check %s --replay {path}" % pid,
            "engine": "lean-proof+gofacts+correspondence",
            "level_claimed": {"category": c.get("level", "proof"), "text": m.get("level_text", ""), "design_ref": m.get("design_ref", "DESIGN.md §6 " + pid)},
            "level_note": m.get("level_note", ""),
            "technique": m.get("technique", "Lean 4 machine-checked proof over an executable model + regenerated facts + correspondence check"),
        })
    else:
        na.append({"property_id": pid, "reason": (c or {}).get("not_applicable_reason", "check not built yet in this session (not claimed)")})
man = {
    "version": 1,
    "setup_cmd": "bin/setup",
    "hooks": {"guard": "verif", "enable": "go build -tags verif (hook code lives only in new files */verif_export.go carrying //go:build verif)",
              "baseline_off_cmd": "cd /repo && go test -vet=off -count=1 -timeout 25m ./...",
              "source_commits": hooks, "add_only": True},
    "engines": [{"name": "lean-proof+gofacts+correspondence", "path": "bin/check", "serves_properties": [c["property_id"] for c in checks],
                 "kind_free_text": "Lean 4 theorems over executable models (lean/); models tied to /repo on every run by regenerated facts (tools/gofacts) and by a differential correspondence harness (harness/, harness-sched/); Go property monitors search for the failing input"}],
    "checks": checks,
    "not_applicable": na,
    "notes": "See DESIGN.md. Every check regenerates facts from /repo, rebuilds proofs and harness, and rewrites its evidence file.",
}
json.dump(man, open(os.path.join(VERIF, "MANIFEST.json"), "w"), indent=1)
print("MANIFEST.json: %d checks, %d not claimed" % (len(checks), len(na)))
