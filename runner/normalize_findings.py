#!/usr/bin/env python3
"""Rewrites the `commit` field of fixed entries in known_findings.jsonl to '<hash on /repo main> <subject>' and
(re)builds the `record` line 'fixed: property=<id> <commit> <what failed>'."""
import json, os, re, subprocess
V = os.path.dirname(os.path.dirname(os.path.abspath(__file__)))
log = subprocess.run(["git", "-C", "/repo", "log", "--format=%h %s", "main"], capture_output=True, text=True).stdout.splitlines()
subj = {l.split(" ", 1)[1]: l.split(" ", 1)[0] for l in log}
out = []
for l in open(os.path.join(V, "known_findings.jsonl")):
    l = l.strip()
    if not l:
        continue
    d = json.loads(l)
    if d.get("status") == "fixed":
        c = d.get("commit", "")
        s = re.sub(r"^[0-9a-f]{7,}\s+", "", c)
        h = subj.get(s)
        if not h:
            for k, v in subj.items():
                if k.startswith(s[:50]) or s.startswith(k[:50]):
                    h, s = v, k
                    break
        if not h:
            print("NO COMMIT ON MAIN FOR:", c)
            h = "?"
        d["commit"] = h + " " + s
        w = re.sub(r"^fixed: property=C\d+\s+([0-9a-f]{7,}\s+)?", "", d.get("what", ""))
        d["what"] = w
        d["record"] = "fixed: property=%s %s %s" % (d["property"], h, w)
    out.append(json.dumps(d, ensure_ascii=False))
open(os.path.join(V, "known_findings.jsonl"), "w").write("\n".join(out) + "\n")
for o in out:
    d = json.loads(o)
    print(d["status"], d["property"], d.get("commit", d.get("kind"))[:90])
