package c17

import "time"

// directedJitter: the deterministic pass over (interval, jitter) shapes (every quick run).
//
// `Periodic` / `PeriodicOrTrigger` are documented as "calls f once per interval +/- jitter" and take any two
// durations: nothing restricts jitter to be below the interval. A drawn delay that is not positive makes the
// timer fire at once. So jitter > interval, jitter == interval and interval == 0 with a positive jitter are
// inside the documented domain, and the clause "periodic functions keep being invoked until the group is
// stopped" is judged for them exactly as for the other shapes: by the existing `periodic-stalled` monitor (a
// periodic function that is idle at a quiescent point is run again before a further interval + jitter of
// virtual time has passed - every delay the documentation allows is at most interval + jitter). Negative
// intervals / jitters are not generated (no reading of the documentation gives them a meaning).
//
// ns-scale cases go through the Lean LTS as well (its `armTimer` takes every offset in [-jitter, jitter], a
// due time in the past fires at once); ms-scale cases are monitor-only, like the random ms scenarios.
func directedJitter() []directedCase {
	type ij struct{ iv, j int64 }
	ns := []ij{{1, 3}, {2, 5}, {1, 2}, {3, 4}, {0, 1}, {0, 3}, {2, 2}, {3, 3}, {0, 0}, {4, 1}}
	ms := int64(time.Millisecond)
	big := []ij{{10 * ms, 30 * ms}, {ms, 2 * ms}, {0, 20 * ms}, {20 * ms, 20 * ms}, {5 * ms, 5*ms + 1}, {1, ms}, {50 * ms, 200 * ms}}
	wait := Step{Op: "wait"}
	var out []directedCase
	seed := int64(9000)
	mk := func(kind string, p ij, noModel bool) {
		// three periods with the run released each time, then (pot) an explicit trigger and two more periods,
		// then the stop and the release of whatever still runs
		period := p.iv + p.j
		if period == 0 {
			period = 1
		}
		st := []Step{{Op: "reg", K: kind, A: p.iv, B: p.j}, wait}
		for i := 0; i < 3; i++ {
			st = append(st, Step{Op: "adv", A: period}, wait, Step{Op: "fret", I: 0}, wait)
		}
		if kind == "pot" {
			st = append(st, Step{Op: "trig", I: 0}, wait, Step{Op: "fret", I: 0}, wait)
			for i := 0; i < 2; i++ {
				st = append(st, Step{Op: "adv", A: period}, wait, Step{Op: "fret", I: 0}, wait)
			}
		}
		// a second periodic function next to the first
		st = append(st, Step{Op: "reg", K: "per", A: p.iv, B: p.j}, wait, Step{Op: "adv", A: 2 * period}, wait,
			Step{Op: "fret", I: 0}, Step{Op: "fret", I: 1}, wait, Step{Op: "adv", A: period}, wait,
			Step{Op: "saw"}, wait, Step{Op: "fret", I: 0}, Step{Op: "fret", I: 1}, wait, Step{Op: "fret", I: 0}, Step{Op: "fret", I: 1}, wait)
		seed++
		out = append(out, directedCase{c: Case{Steps: st, Seed: seed, NoModel: noModel}, reps: 2})
	}
	for _, kind := range []string{"per", "pot"} {
		for _, p := range ns {
			mk(kind, p, false)
		}
		for _, p := range big {
			mk(kind, p, true)
		}
	}
	return out
}
