// C17: xsync.Group — StopAndWait is a barrier; triggers are never lost or overlapped; periodic
// functions keep running.
//
// Scenarios are scripts of environment actions executed inside a testing/synctest bubble (virtual
// time): registrations (Do / Trigger / Periodic / PeriodicOrTrigger), trigger calls, letting a
// running f return, clock advances, Stop / StopAndWait / parent-context cancellation. Actions marked
// "race" run in their own goroutine without waiting for the previous ones to settle, so spawns race
// stops. After every "wait" (= synctest.Wait) the observables are recorded: runs of f begun per
// registration, which Stop/StopAndWait calls have returned.
//
//   - monitors (source "monitor") encode the clauses of the property text on the real code;
//   - correspondence (source "correspondence"): the quiescent trace is checked for inclusion in the
//     Lean LTS by the state-set engine of `driver group`.
//
// Real-threads stress phase (outside any bubble, see stressBarrier): synctest schedules the bubble's
// goroutines deterministically enough that a registration racing a stop never lands *between two
// adjacent statements* of spawn. The stress phase runs rounds of "several goroutines loop on g.Do(f)
// while another calls StopAndWait" on a fresh group with GOMAXPROCS >= 4 and checks the barrier clause
// with happens-before-sound flags only (no sleeps, no timeouts in any assertion).
//
//go:debug randseednop=0
package c17

import (
	"context"
	"encoding/json"
	"fmt"
	"math/rand"
	"os"
	"runtime"
	"strings"
	"sync"
	"sync/atomic"
	"testing"
	"testing/synctest"
	"time"

	"github.com/bradenaw/juniper/xsync"
	"verifharness/vlib"
)

// Step of a scenario:
//
//	reg K A B [race]   register: K = do|trig|per|pot, A = interval, B = jitter (ns)
//	trig I             call the trigger function of registration I
//	fret I             let the running f of registration I return (no-op when none is blocked)
//	adv A              the scripting goroutine sleeps A ns (no settling)
//	pcancel            cancel the parent context
//	stop [race]        Group.Stop
//	saw                Group.StopAndWait (always in its own goroutine)
//	wait               synctest.Wait, then record the observables
//
// The context handed to NewGroup is context.WithCancel(Background) unless the case carries a Parent
// (see there): a deadline / timeout context created inside the bubble, whose deadline passes in virtual
// time — before NewGroup, during an "adv" step, or never.
type Step struct {
	Op   string `json:"op"`
	K    string `json:"k,omitempty"`
	I    int    `json:"i,omitempty"`
	A    int64  `json:"a,omitempty"`
	B    int64  `json:"b,omitempty"`
	Race bool   `json:"race,omitempty"`
}

// Parent describes the context handed to NewGroup when it is not the plain cancel context. The context is
// created as the first action inside the bubble (virtual instant 0):
//
//	D        the deadline, ns after instant 0: context.WithDeadline(Background, t0+D). D <= 0: the deadline has
//	         already passed when the context is created (WithDeadline then returns an ended context)
//	Timeout  context.WithTimeout(Background, D) instead (D > 0)
//	Pre      the scripting goroutine sleeps Pre ns between creating the context and calling NewGroup
//	         (Pre >= D > 0: the deadline passes, by its timer, before the group exists)
//	Child    NewGroup gets context.WithCancel(<that context>): a child of the deadline context
//
// A deadline that passes ends the parent with DeadlineExceeded; the step "pcancel" calls the cancel
// function of the context handed to NewGroup (Canceled when it comes first). Absent (nil) in every case
// written before the field existed: those read and replay unchanged.
type Parent struct {
	D       int64 `json:"d"`
	Timeout bool  `json:"timeout,omitempty"`
	Pre     int64 `json:"pre,omitempty"`
	Child   bool  `json:"child,omitempty"`
}

type Case struct {
	Steps   []Step  `json:"steps,omitempty"`
	Seed    int64   `json:"seed"`
	NoModel bool    `json:"no_model,omitempty"`
	Parent  *Parent `json:"parent,omitempty"`
	// real-threads stress case (no steps): configuration and the round in which the barrier broke
	Stress *StressCfg `json:"stress,omitempty"`
	Round  int        `json:"round,omitempty"`
	// sequential real-threads scenario "stop, late registrations, second stop" (latereg_test.go)
	Late *LateCfg `json:"late,omitempty"`
}

// StressCfg: one configuration of the real-threads barrier stress.
//
//	Doers      goroutines that loop on a registration call while the stop runs
//	Kind       what they register: do | trig | per | pot | mix (trig/per/pot registrations also call their
//	           trigger function / use a 1ns interval so that f would run if the goroutine were spawned)
//	Pre        registrations made (and running) before the race starts
//	SpinF      Gosched calls inside f (keeps f "running" for a moment, no sleeping)
//	StopSpin   Gosched calls of the stopping goroutine before it calls StopAndWait
//	Stoppers   goroutines that call StopAndWait concurrently (>= 1)
//	PlainStop  an extra goroutine calling Stop concurrently
type StressCfg struct {
	Doers     int    `json:"doers"`
	Kind      string `json:"kind"`
	Pre       int    `json:"pre,omitempty"`
	SpinF     int    `json:"spin_f,omitempty"`
	StopSpin  int    `json:"stop_spin,omitempty"`
	Stoppers  int    `json:"stoppers,omitempty"`
	PlainStop bool   `json:"plain_stop,omitempty"`
	// the carousel form (stress_multi_test.go): Groups live groups at once, Doers goroutines permanently in
	// Do (0 = one per P), Stoppers goroutines replacing and stopping groups, GOMAXPROCS Gmp (0 = 4 x cores)
	Carousel bool `json:"carousel,omitempty"`
	Groups   int  `json:"groups,omitempty"`
	Gmp      int  `json:"gmp,omitempty"`
	// ExpiredParent: the group's parent is a context.WithDeadline whose deadline had already passed when it
	// was created (the group's context reports DeadlineExceeded from the start and for ever; on a correct
	// Group nothing is ever started). ExpiredEvery n > 0 (carousel): every n-th fresh group is such a group.
	ExpiredParent bool `json:"expired_parent,omitempty"`
	ExpiredEvery  int  `json:"expired_every,omitempty"`
}

// expiredParent returns a context that ended by deadline (not by cancel) before anybody saw it.
func expiredParent() (context.Context, context.CancelFunc) {
	return context.WithDeadline(context.Background(), time.Now().Add(-time.Second))
}

func (c Case) String() string {
	b, _ := json.Marshal(c)
	return string(b)
}

// parentShape names the shape of a Parent for the distribution counters.
func parentShape(p *Parent) string {
	s := "deadline"
	switch {
	case p.D <= 0:
		s += "-passed-at-creation"
	case p.Pre >= p.D:
		s += "-passes-before-newgroup"
	case p.D >= int64(time.Hour):
		s += "-far"
	default:
		s += "-in-scenario"
	}
	if p.Timeout && p.D > 0 {
		s += ".timeout"
	}
	if p.Child {
		s += ".child"
	}
	return s
}

// simplerParents lists, simplest first, the parent shapes the shrinker tries in place of p: no special
// parent at all, the deadline already passed at creation, then p with one feature dropped.
func simplerParents(p Parent) []*Parent {
	var out []*Parent
	add := func(q *Parent) {
		if q != nil && *q == p {
			return
		}
		for _, o := range out {
			if (o == nil) != (q == nil) {
				continue
			}
			if o == nil || *o == *q {
				return
			}
		}
		out = append(out, q)
	}
	add(nil)
	add(&Parent{D: -1})
	add(&Parent{D: -1, Child: p.Child})
	q := p
	q.Child = false
	add(&q)
	q = p
	q.Timeout = false
	add(&q)
	if p.Pre > 0 && p.D > 0 { // the same instant of expiry relative to NewGroup, without the sleep before it
		q = p
		q.D, q.Pre = p.D-p.Pre, 0
		add(&q)
	}
	return out
}

type fail struct {
	kind   string
	params map[string]interface{}
	what   string
}

type reg struct {
	kind       string
	interval   int64
	jitter     int64
	begun      atomic.Int64
	ended      atomic.Int64
	active     atomic.Int64
	lastBegin  atomic.Int64 // sequence number of the latest run start
	gate       chan struct{}
	trigger    func()
	registered atomic.Bool // the registration call has returned
	// monitor bookkeeping (scripting goroutine only)
	whileRunning bool  // registered before any stop / cancel was issued
	lastCallSeq  int64 // sequence number taken before the latest trigger call (0 = none)
	idleSince    int64 // virtual instant of the first quiescent point since which it is idle, -1 = n/a
	begunAtIdle  int64
}

type run struct {
	deadlock string
	lines    []string
	fail     *fail
	runs     int64
	raced    bool
	stopped  bool
	barriers int
	expired  bool   // the deadline of the parent context passed during the scenario (or before NewGroup)
	lateRegs int    // registrations made after a StopAndWait had returned
	bookkeep string // the harness's own idea of the parent context disagrees with the context (a harness bug)
	panicked string // a call into the library panicked (first one): "<call>: <value>"
}

// runScenario fills *r as it goes, so that what the monitors recorded survives a bubble that cannot be
// left (synctest.Test then panics in the caller, see eval).
func runScenario(t *testing.T, c Case, r *run) {
	synctest.Test(t, func(t *testing.T) {
		rand.Seed(c.Seed)
		start := time.Now()
		now := func() int64 { return int64(time.Since(start)) }
		// --- the parent context
		var cancels []context.CancelFunc
		defer func() {
			for _, cf := range cancels {
				cf()
			}
		}()
		var parent context.Context
		var pcancel context.CancelFunc
		hasDL := c.Parent != nil
		var dl int64 // the deadline, ns after `start`
		if hasDL {
			dl = c.Parent.D
			if c.Parent.Timeout && dl > 0 {
				parent, pcancel = context.WithTimeout(context.Background(), time.Duration(dl))
			} else {
				parent, pcancel = context.WithDeadline(context.Background(), start.Add(time.Duration(dl)))
			}
			cancels = append(cancels, pcancel)
			if c.Parent.Child {
				parent, pcancel = context.WithCancel(parent)
				cancels = append(cancels, pcancel)
			}
		} else {
			parent, pcancel = context.WithCancel(context.Background())
			cancels = append(cancels, pcancel)
		}

		var mu sync.Mutex // protects r.fail
		var expired atomic.Bool
		params := func(kind string) map[string]interface{} {
			p := map[string]interface{}{"kind": kind}
			if hasDL {
				if expired.Load() {
					p["parent"] = "deadline-passed"
				} else {
					p["parent"] = "deadline-pending"
				}
			}
			return p
		}
		setFail := func(kind string, p map[string]interface{}, what string) {
			mu.Lock()
			if r.fail == nil {
				r.fail = &fail{kind, p, what}
			}
			mu.Unlock()
		}
		var seq atomic.Int64    // global order of trigger calls and run starts
		var barrier atomic.Bool // some StopAndWait has returned
		var regs []*reg
		var sawDone []*atomic.Bool
		var stopDone []*atomic.Bool // all Stop/StopAndWait calls, in script order
		stopIssued := false         // Stop / StopAndWait / parent cancel / parent deadline: the group no longer "runs"
		pcancelled := false         // "pcancel" came before the deadline: the deadline no longer matters
		// noteExpiry: the scripting goroutine has slept past the deadline and everything the expiry does (the
		// context package's AfterFunc goroutine cancelling the parent and, synchronously, the group's context)
		// has happened. To the model the expiry is the environment event it already has: the parent context
		// ends ("pcancel"); to the monitors the group no longer "runs" — exactly as for a cancelled parent.
		noteExpiry := func() {
			expired.Store(true)
			r.expired = true
			stopIssued = true
			r.lines = append(r.lines, "pcancel")
			if parent.Err() == nil && r.bookkeep == "" {
				r.bookkeep = fmt.Sprintf("at %dns the harness takes the deadline (%dns) for passed, but parent.Err() is nil", now(), dl)
			}
		}
		if hasDL {
			if c.Parent.Pre > 0 {
				time.Sleep(time.Duration(c.Parent.Pre))
				synctest.Wait() // the deadline's AfterFunc goroutine, should it be due at this very instant
			}
			if now() >= dl {
				noteExpiry()
			} else if parent.Err() != nil {
				r.bookkeep = fmt.Sprintf("at %dns, before the deadline (%dns), parent.Err() is %v", now(), dl, parent.Err())
			}
		}
		// every call into the library goes through lib: a panic (say the WaitGroup's "reused before previous
		// Wait has returned") inside a goroutine of the bubble would otherwise kill the test binary and with it
		// every verdict of the run. After a panic the script is abandoned (a panic inside spawn leaves the
		// read lock held; further calls could block for good).
		var panicked atomic.Bool
		lib := func(call string, f func()) bool {
			if p, v := vlib.Try(f); p {
				mu.Lock()
				if r.panicked == "" {
					r.panicked = fmt.Sprintf("%s: %v", call, v)
				}
				mu.Unlock()
				panicked.Store(true)
				return false
			}
			return true
		}
		var g *xsync.Group
		if !lib("NewGroup", func() { g = xsync.NewGroup(parent) }) {
			return
		}

		mkF := func(rg *reg, idx int) func(ctx context.Context) {
			return func(ctx context.Context) {
				if barrier.Load() {
					setFail("barrier-run-started-after-stopandwait", params(rg.kind),
						fmt.Sprintf("a run of the %s function #%d began after StopAndWait had returned", rg.kind, idx))
				}
				if n := rg.active.Add(1); n > 1 {
					setFail("runs-overlap", params(rg.kind),
						fmt.Sprintf("%d runs of the %s function #%d are in progress at once", n, rg.kind, idx))
				}
				rg.begun.Add(1)
				rg.lastBegin.Store(seq.Add(1))
				<-rg.gate
				rg.ended.Add(1)
				rg.active.Add(-1)
			}
		}

		observe := func() {
			synctest.Wait()
			var rs, ws []string
			for _, rg := range regs {
				rs = append(rs, fmt.Sprint(rg.begun.Load()))
			}
			for _, d := range stopDone {
				if d.Load() {
					ws = append(ws, "1")
				} else {
					ws = append(ws, "0")
				}
			}
			r.lines = append(r.lines, "settle "+strings.Join(rs, ",")+"|"+strings.Join(ws, ","))
			// --- monitors at a quiescent point
			tnow := now()
			for i, rg := range regs {
				if !rg.whileRunning || stopIssued || !rg.registered.Load() {
					rg.idleSince = -1
					continue
				}
				// trigger not lost: a call not yet followed by the beginning of a run, and nothing running
				if (rg.kind == "trig" || rg.kind == "pot") && rg.lastCallSeq > 0 &&
					rg.lastBegin.Load() < rg.lastCallSeq && rg.active.Load() == 0 {
					setFail("trigger-lost", params(rg.kind),
						fmt.Sprintf("the trigger function of %s #%d was called, the group is running, everything has settled, and no run of f began after the call", rg.kind, i))
				}
				// periodic keeps running: idle for a whole interval + jitter
				if rg.kind == "per" || rg.kind == "pot" {
					if rg.active.Load() == 0 {
						if rg.idleSince < 0 || rg.begun.Load() != rg.begunAtIdle {
							rg.idleSince, rg.begunAtIdle = tnow, rg.begun.Load()
						} else if tnow-rg.idleSince >= rg.interval+rg.jitter {
							setFail("periodic-stalled", params(rg.kind),
								fmt.Sprintf("%s #%d (interval %dns, jitter %dns) has been idle from %dns to %dns without a run, the group is running", rg.kind, i, rg.interval, rg.jitter, rg.idleSince, tnow))
						}
					} else {
						rg.idleSince = -1
					}
				}
			}
		}

		settled := true
		for _, st := range c.Steps {
			if panicked.Load() {
				break
			}
			switch st.Op {
			case "reg":
				rg := &reg{kind: st.K, interval: st.A, jitter: st.B, gate: make(chan struct{}), idleSince: -1, whileRunning: !stopIssued}
				idx := len(regs)
				regs = append(regs, rg)
				f := mkF(rg, idx)
				if barrier.Load() {
					r.lateRegs++
				}
				call := func() {
					ok := true
					switch st.K {
					case "do":
						ok = lib("Do", func() { g.Do(f) })
					case "trig":
						ok = lib("Trigger", func() { rg.trigger = g.Trigger(f) })
					case "per":
						ok = lib("Periodic", func() { g.Periodic(time.Duration(st.A), time.Duration(st.B), f) })
					case "pot":
						ok = lib("PeriodicOrTrigger", func() { rg.trigger = g.PeriodicOrTrigger(time.Duration(st.A), time.Duration(st.B), f) })
					}
					if ok {
						rg.registered.Store(true)
					}
				}
				r.lines = append(r.lines, fmt.Sprintf("reg %s %d %d", st.K, st.A, st.B))
				if st.Race {
					r.raced = true
					go call()
					settled = false
				} else {
					call()
				}
			case "trig":
				if st.I >= len(regs) || !regs[st.I].registered.Load() || regs[st.I].trigger == nil {
					continue
				}
				rg := regs[st.I]
				rg.lastCallSeq = seq.Add(1)
				lib("trigger function", rg.trigger)
				r.lines = append(r.lines, fmt.Sprintf("trig %d", st.I))
			case "fret":
				if st.I >= len(regs) {
					continue
				}
				select {
				case regs[st.I].gate <- struct{}{}:
					r.lines = append(r.lines, fmt.Sprintf("fret %d", st.I))
				default:
				}
			case "adv":
				if st.A > 0 {
					t0 := now()
					if hasDL && !pcancelled && !expired.Load() && dl <= t0+st.A {
						// The deadline passes during this sleep. Virtual time does not move on from the deadline's
						// instant before everything has settled again, so when the deadline lies strictly inside the
						// sleep the expiry is complete when the sleep ends. When both fall on the same instant the
						// scripting goroutine may wake before the context package's AfterFunc goroutine has run:
						// wait for it, so that "the parent has ended" is true when the next action is issued.
						d1 := dl - t0
						if d1 < 0 {
							d1 = 0
						}
						time.Sleep(time.Duration(st.A))
						if d1 == st.A {
							synctest.Wait()
						}
						if d1 > 0 {
							r.lines = append(r.lines, fmt.Sprintf("adv %d", d1))
						}
						noteExpiry()
						if st.A-d1 > 0 {
							r.lines = append(r.lines, fmt.Sprintf("adv %d", st.A-d1))
						}
					} else {
						time.Sleep(time.Duration(st.A))
						r.lines = append(r.lines, fmt.Sprintf("adv %d", st.A))
					}
					settled = false
				}
			case "pcancel":
				stopIssued = true
				if !expired.Load() {
					pcancelled = true
				}
				pcancel()
				r.lines = append(r.lines, "pcancel")
			case "stop":
				stopIssued = true
				r.stopped = true
				d := &atomic.Bool{}
				stopDone = append(stopDone, d)
				r.lines = append(r.lines, "stop")
				if st.Race {
					r.raced = true
					go func() {
						if lib("Stop", g.Stop) {
							d.Store(true)
						}
					}()
				} else if lib("Stop", g.Stop) {
					d.Store(true)
				}
			case "saw":
				stopIssued = true
				r.stopped = true
				if !settled {
					r.raced = true
				}
				d := &atomic.Bool{}
				stopDone = append(stopDone, d)
				sawDone = append(sawDone, d)
				r.lines = append(r.lines, "saw")
				go func() {
					if !lib("StopAndWait", g.StopAndWait) {
						return // it did not return: the clause is about calls that do
					}
					// "after StopAndWait returns none of the functions is running"
					barrier.Store(true)
					for i, rg := range regs {
						if n := rg.active.Load(); n > 0 {
							setFail("barrier-function-still-running", params(rg.kind),
								fmt.Sprintf("StopAndWait returned while %d run(s) of the %s function #%d were in progress", n, rg.kind, i))
						}
					}
					d.Store(true)
				}()
			case "wait":
				observe()
				settled = true
			}
		}
		// --- tear down (not part of the trace): stop, release every gate until everything has exited
		r.lines = append(r.lines, "#teardown")
		pcancel()
		fin := &atomic.Bool{}
		go func() {
			if !panicked.Load() && lib("StopAndWait", g.StopAndWait) {
				barrier.Store(true)
			}
			fin.Store(true)
		}()
		for k := 0; k < 10000; k++ {
			synctest.Wait()
			if panicked.Load() && k >= 50 {
				// the script was abandoned: the parent is cancelled (loops leave through Done), the gates have been
				// released; whatever is still blocked (a call waiting for a lock that a panicking call left held)
				// shows up as a bubble that cannot be left = broken correspondence
				break
			}
			all := fin.Load()
			for _, d := range sawDone {
				all = all && d.Load()
			}
			if all {
				break
			}
			for _, rg := range regs {
				select {
				case rg.gate <- struct{}{}:
				default:
				}
			}
		}
		synctest.Wait()
		for _, rg := range regs {
			r.runs += rg.begun.Load()
		}
		for _, d := range sawDone {
			if d.Load() {
				r.barriers++
			}
		}
	})
}

// ---------------------------------------------------------------------------------------------
// generators

func genScenario(r *vlib.Rand, big bool) []Step {
	var steps []Step
	nreg := 0
	kinds := []string{"do", "trig", "per", "pot"}
	var regKinds []string
	addReg := func(race bool) {
		k := kinds[r.Pick(2, 4, 2, 3)]
		var iv, j int64
		if k == "per" || k == "pot" {
			iv = int64(r.Range(2, 6))
			if r.Chance(1, 3) {
				j = 1
			}
			if r.Chance(1, 5) {
				// jitter at or above the interval (inside the documented domain, see directedJitter): delays that are
				// not positive fire at once. The interval stays positive here: with interval 0 every delay of a
				// small jitter is <= 0, the function re-arms without the clock ever advancing, and the model's
				// closure under "fires at this instant" does not end (a run of the check hung in the model
				// driver: seed 106 of a background sweep); interval 0 is exercised by the directed pass only.
				iv = int64(r.Range(1, 3))
				j = iv + int64(r.Range(0, 2))
			}
			if big {
				iv *= int64(time.Millisecond)
				j *= int64(time.Millisecond) / 2
			}
		}
		steps = append(steps, Step{Op: "reg", K: k, A: iv, B: j, Race: race})
		regKinds = append(regKinds, k)
		nreg++
	}
	maxReg := 3
	scale := int64(1)
	if big {
		scale = int64(time.Millisecond)
	}
	addReg(false)
	if r.Bool() {
		addReg(false)
	}
	steps = append(steps, Step{Op: "wait"})
	n := r.Range(4, 14)
	stopped := false
	for i := 0; i < n; i++ {
		switch r.Pick(5, 4, 3, 2, 1, 2, 1, 4) {
		case 0: // trigger (burst)
			k := r.Intn(nreg)
			for b := 0; b < r.Range(1, 3); b++ {
				steps = append(steps, Step{Op: "trig", I: k})
			}
			if r.Bool() {
				steps = append(steps, Step{Op: "wait"})
			}
		case 1: // let a run end, possibly followed at once by a trigger (right after a run)
			k := r.Intn(nreg)
			steps = append(steps, Step{Op: "fret", I: k})
			if r.Chance(1, 3) {
				steps = append(steps, Step{Op: "trig", I: k})
			}
			steps = append(steps, Step{Op: "wait"})
		case 2:
			a := int64(r.Range(1, 7))
			if big {
				a *= int64(time.Millisecond)
			}
			steps = append(steps, Step{Op: "adv", A: a})
			if r.Chance(2, 3) {
				steps = append(steps, Step{Op: "wait"})
			}
		case 3:
			if nreg < maxReg {
				addReg(r.Bool())
				if r.Bool() {
					steps = append(steps, Step{Op: "wait"})
				}
			}
		case 4:
			steps = append(steps, Step{Op: "pcancel"})
			stopped = true
		case 5: // a stop racing registrations
			if nreg < maxReg && r.Bool() {
				addReg(true)
			}
			if r.Bool() {
				steps = append(steps, Step{Op: "saw"})
			} else {
				steps = append(steps, Step{Op: "stop", Race: r.Bool()})
			}
			if nreg < maxReg && r.Bool() {
				addReg(true)
			}
			stopped = true
			steps = append(steps, Step{Op: "wait"})
		case 6:
			steps = append(steps, Step{Op: "wait"})
		case 7: // every running f returns (keeps the periodic functions going), maybe at a timer instant
			if r.Bool() {
				steps = append(steps, Step{Op: "adv", A: int64(r.Range(1, 4)) * scale})
			}
			for k := 0; k < nreg; k++ {
				steps = append(steps, Step{Op: "fret", I: k})
			}
			steps = append(steps, Step{Op: "wait"})
		}
		if stopped && r.Chance(1, 3) {
			break
		}
	}
	// end game: a StopAndWait, runs released one by one, then late registrations and triggers
	steps = append(steps, Step{Op: "saw"}, Step{Op: "wait"})
	for k := 0; k < nreg+1; k++ {
		for i := 0; i < nreg; i++ {
			steps = append(steps, Step{Op: "fret", I: i})
		}
		steps = append(steps, Step{Op: "wait"})
	}
	if nreg < maxReg+1 {
		addReg(r.Bool())
	}
	steps = append(steps, Step{Op: "trig", I: r.Intn(nreg)}, Step{Op: "adv", A: 7}, Step{Op: "wait"})
	return steps
}

// ---------------------------------------------------------------------------------------------
// real-threads stress of the barrier clause (outside synctest)

// stressRound runs one round on a fresh group. It returns a failure (kind, params, what) or nil.
//
// Soundness of the two checks (every report is a true violation, nothing is timed):
//   - `returned` is stored by a stopping goroutine *after* its StopAndWait call has returned; f loads
//     it as its very first action. A load that sees true is ordered after that store (sync/atomic is
//     sequentially consistent), hence after the return of StopAndWait: f *began* after the barrier.
//   - `running` is incremented at the entry of f and decremented at its exit; the stopping goroutine
//     loads it right after StopAndWait returned. A value > 0 means some f has begun and has not
//     finished at an instant after the return. In a correct Group every f registered with the wait
//     group has called wg.Done (after returning) before Wait returns, and none registers afterwards.
//   - the standard library's own detection of the same race ("WaitGroup is reused before previous
//     Wait has returned", "WaitGroup misuse: Add called concurrently with Wait") is recovered and
//     reported as the same kind: wg.Add(1) ran while / after a Wait that had seen the counter at 0.
func stressRound(cfg StressCfg) *fail {
	// the parent context is cancelled when the round is over, so that nothing of an abandoned group (one
	// whose lock is wedged after a recovered panic) keeps spinning
	parent, cancelParent := context.WithCancel(context.Background())
	if cfg.ExpiredParent {
		cancelParent()
		parent, cancelParent = expiredParent()
	}
	defer cancelParent()
	g := xsync.NewGroup(parent)
	var returned atomic.Bool
	var running, begunAfter atomic.Int64
	var panicMsg atomic.Value
	notePanic := func() {
		if p := recover(); p != nil {
			panicMsg.CompareAndSwap(nil, fmt.Sprint(p))
		}
	}
	f := func(ctx context.Context) {
		if returned.Load() {
			begunAfter.Add(1)
		}
		running.Add(1)
		for i := 0; i < cfg.SpinF; i++ {
			runtime.Gosched()
		}
		running.Add(-1)
	}
	var register func(kind string, n int)
	register = func(kind string, n int) {
		switch kind {
		case "do":
			g.Do(f)
		case "trig":
			g.Trigger(f)()
		case "per":
			g.Periodic(time.Nanosecond, 0, f)
		case "pot":
			g.PeriodicOrTrigger(time.Nanosecond, 0, f)()
		default: // mix
			register([]string{"do", "do", "trig", "pot", "per"}[n%5], n)
		}
	}
	for i := 0; i < cfg.Pre; i++ {
		register(cfg.Kind, i)
	}
	var start, doersDone, stopDone sync.WaitGroup
	var stop atomic.Bool
	start.Add(1)
	for d := 0; d < cfg.Doers; d++ {
		doersDone.Add(1)
		go func(d int) {
			defer doersDone.Done()
			defer notePanic()
			start.Wait()
			limit := 64
			if cfg.Kind != "do" {
				limit = 8 // every live trig/per/pot registration is a goroutine with a loop of its own
			}
			for n := 0; n < limit && !stop.Load(); n++ {
				register(cfg.Kind, d+n)
			}
		}(d)
	}
	stillRunning := atomic.Int64{}
	stoppers := cfg.Stoppers
	if stoppers < 1 {
		stoppers = 1
	}
	for k := 0; k < stoppers; k++ {
		stopDone.Add(1)
		go func() {
			defer stopDone.Done()
			defer notePanic()
			start.Wait()
			for i := 0; i < cfg.StopSpin; i++ {
				runtime.Gosched()
			}
			g.StopAndWait()
			// the instant of return
			if n := running.Load(); n > 0 {
				stillRunning.Store(n)
			}
			returned.Store(true)
		}()
	}
	if cfg.PlainStop {
		stopDone.Add(1)
		go func() {
			defer stopDone.Done()
			defer notePanic()
			start.Wait()
			g.Stop()
		}()
	}
	start.Done()
	// A recovered panic inside spawn leaves the group's read lock held, which wedges every later Stop and
	// registration: the waits below are bounded (10 s of real time) only to get out of such a round; a
	// round that does not finish is reported as a broken correspondence unless a violation was recorded.
	hung := !waitBounded(&stopDone, hangBound)
	// the doers keep registering for a moment after the barrier ("none ever starts again")
	for i := 0; i < 8; i++ {
		runtime.Gosched()
	}
	stop.Store(true)
	hung = !waitBounded(&doersDone, hangBound) || hung
	// registrations made strictly after the barrier, from this goroutine
	if !hung {
		func() {
			defer notePanic()
			register(cfg.Kind, 0)
			register("do", 0)
		}()
	}
	// Let goroutines that were (wrongly) spawned after the barrier reach the entry of f. Yielding is only
	// a courtesy to the scheduler: a late f that has not started yet is simply not seen in this round.
	for i := 0; i < 16; i++ {
		runtime.Gosched()
	}
	params := map[string]interface{}{"kind": cfg.Kind, "phase": "real-threads-stress"}
	if cfg.ExpiredParent {
		params["parent"] = "deadline-passed"
	}
	if n := begunAfter.Load(); n > 0 {
		params["evidence"] = "f-began-after-return"
		return &fail{"barrier-run-started-after-stopandwait", params,
			fmt.Sprintf("real threads: %d function(s) registered through %s began running after StopAndWait had returned (the flag is stored after the return and read at the entry of f)", n, cfg.Kind)}
	}
	if m := panicMsg.Load(); m != nil && strings.Contains(m.(string), "WaitGroup") {
		params["evidence"] = "waitgroup-panic"
		return &fail{"barrier-run-started-after-stopandwait", params,
			fmt.Sprintf("real threads: a registration racing StopAndWait reached wg.Add(1) after the Wait had seen the counter at zero; the standard library panicked: %s", m)}
	}
	if n := stillRunning.Load(); n > 0 {
		params["evidence"] = "f-running-at-return"
		return &fail{"barrier-function-still-running", params,
			fmt.Sprintf("real threads: %d run(s) of a function registered through %s were in progress at the instant StopAndWait returned", n, cfg.Kind)}
	}
	if m := panicMsg.Load(); m != nil {
		params["evidence"] = "panic"
		return &fail{"barrier-stress-panic", params, fmt.Sprintf("real threads: a Group call panicked: %s", m)}
	}
	if hung {
		return &fail{"stress-round-hangs", params, "real threads: StopAndWait / a registration did not return within 120 s of real time although every f returns at once"}
	}
	return nil
}

// waitBounded waits for wg, at most d of real time; false = gave up.
func waitBounded(wg *sync.WaitGroup, d time.Duration) bool {
	done := make(chan struct{})
	go func() { wg.Wait(); close(done) }()
	t := time.NewTimer(d)
	defer t.Stop()
	select {
	case <-done:
		return true
	case <-t.C:
		return false
	}
}

func stressConfigs() []StressCfg {
	return []StressCfg{
		{Doers: 4, Kind: "do"},
		{Doers: 8, Kind: "do", StopSpin: 1},
		{Doers: 3, Kind: "do", Pre: 2, SpinF: 2},
		{Doers: 6, Kind: "do", SpinF: 1, StopSpin: 2, Stoppers: 2},
		{Doers: 4, Kind: "mix", Pre: 1, SpinF: 1},
		{Doers: 4, Kind: "pot", StopSpin: 1},
		{Doers: 5, Kind: "do", Pre: 1, PlainStop: true},
		{Doers: 2, Kind: "trig", Pre: 2, SpinF: 3, StopSpin: 3},
		// the parent ended by deadline before NewGroup (fix6): nothing may ever start; the flags stay
		// true-positive-only (a correct Group never calls f here at all)
		{Doers: 3, Kind: "mix", Pre: 1, ExpiredParent: true},
	}
}

// stressBarrier runs rounds of every configuration, round-robin, until maxRounds or the time budget
// (which only limits the search, it never decides an outcome). The first violation of a kind is
// reported with its configuration and round; the phase stops at the first violation.
func stressBarrier(res *vlib.Result, maxRounds int, budget time.Duration) {
	old := runtime.GOMAXPROCS(0)
	if old < 4 {
		runtime.GOMAXPROCS(4)
		defer runtime.GOMAXPROCS(old)
	}
	cfgs := stressConfigs()
	until := time.Now().Add(budget)
	rounds := 0
	for ; rounds < maxRounds; rounds++ {
		if rounds%64 == 0 && time.Now().After(until) {
			break
		}
		cfg := cfgs[rounds%len(cfgs)]
		if f := stressRound(cfg); f != nil {
			res.Count("stress-violation." + f.kind)
			c := cfg
			source := "monitor"
			if f.kind == "stress-round-hangs" {
				source = "correspondence" // not a clause of the text: the model says these calls return
			}
			res.Fail(vlib.Failure{Source: source, Kind: f.kind, Params: f.params, What: f.what,
				Case: Case{Stress: &c, Round: rounds / len(cfgs)}})
			rounds++
			break
		}
	}
	res.CountN("stress-rounds", rounds)
	res.Case(fmt.Sprintf("stress:%d-configurations", len(cfgs)), rounds >= len(cfgs), nil)
}

// ---------------------------------------------------------------------------------------------
// driving

// watchdog: see harness-sched/c20. A scenario that does not finish within 20 s of real time means the
// code under test livelocks inside the bubble.
type watchdog struct {
	mu    sync.Mutex
	cur   *Case
	since time.Time
}

func (w *watchdog) enter(c Case) {
	w.mu.Lock()
	w.cur, w.since = &c, time.Now()
	w.mu.Unlock()
}

func (w *watchdog) leave() {
	w.mu.Lock()
	w.cur = nil
	w.mu.Unlock()
}

func (w *watchdog) watch(res *vlib.Result, out string) {
	for {
		time.Sleep(500 * time.Millisecond)
		w.mu.Lock()
		c, since := w.cur, w.since
		w.mu.Unlock()
		if c != nil && time.Since(since) > 120*time.Second {
			res.Fail(vlib.Failure{Source: "correspondence", Kind: "case-hangs", Params: map[string]interface{}{},
				What: "the scenario did not finish: the code under test livelocks under virtual time (the model terminates on it)", Case: *c})
			res.Write(out)
			fmt.Println("watchdog: scenario hangs:", c.String())
			os.Exit(0)
		}
	}
}

type runner struct {
	wd     *watchdog
	t      *testing.T
	env    vlib.Env
	res    *vlib.Result
	model  *vlib.Model
	mCases []Case
	mLines [][]string
}

func modelLines(lines []string) []string {
	out := []string{"async 0"}
	for _, l := range lines {
		if l == "#teardown" {
			break
		}
		out = append(out, l)
	}
	return out
}

// eval runs one scenario. A bubble that cannot be left (a goroutine of the code under test is blocked
// for good, e.g. a StopAndWait that never returns although every f has returned) surfaces as a panic
// of synctest.Test; it is reported as a broken correspondence (the model's quiescent states all show
// the call returned), not as a crash of the harness.
func (x *runner) eval(c Case) run {
	if x.wd != nil {
		x.wd.enter(c)
		defer x.wd.leave()
	}
	var r run
	p, pv := vlib.Try(func() { runScenario(x.t, c, &r) })
	if p {
		r.deadlock = fmt.Sprint(pv)
	}
	return r
}

func (x *runner) do(c Case, tag string) {
	rr := x.eval(c)
	x.res.Count("case." + tag)
	if rr.deadlock != "" {
		// a broken correspondence; whatever the monitors recorded before the bubble got stuck is still
		// reported below (it used to be dropped together with the run)
		x.res.Count("bubble-deadlock")
		x.res.Fail(vlib.Failure{Source: "correspondence", Kind: "bubble-deadlock", Params: map[string]interface{}{},
			What: "goroutines of the code under test stayed blocked after the scenario had stopped the group and released every f: " + rr.deadlock, Case: c})
	}
	x.res.CountN("runs-of-f", int(rr.runs))
	x.res.CountN("stopandwait-returned", rr.barriers)
	if rr.raced {
		x.res.Count("scenarios-with-races")
	}
	x.res.Case(strings.Join(rr.lines, ";"), rr.runs >= 2 && rr.stopped, map[string]interface{}{"case": c, "trace": rr.lines})
	if rr.panicked != "" {
		// Not a clause of the text (which speaks about calls that return) but no behaviour of the model either
		// (the driver keeps no state with `panicked`): a broken correspondence, reported next to whatever the
		// monitors recorded in the same scenario.
		x.res.Count("library-call-panicked")
		x.res.Fail(vlib.Failure{Source: "correspondence", Kind: "library-call-panicked", Params: map[string]interface{}{},
			What: "a call into xsync.Group panicked inside the scenario: " + rr.panicked, Case: c})
	}
	if rr.bookkeep != "" {
		// not a statement about the library: the harness's bookkeeping of the parent's deadline is off
		x.res.Count("harness-deadline-bookkeeping")
		x.res.Fail(vlib.Failure{Source: "correspondence", Kind: "harness-deadline-bookkeeping", Params: map[string]interface{}{},
			What: "harness bug, not a finding about the library: " + rr.bookkeep, Case: c})
	}
	if c.Parent != nil {
		x.res.Count("parent." + parentShape(c.Parent))
		if rr.expired {
			x.res.Count("parent-deadline-passed")
			if rr.barriers > 0 {
				x.res.Count("parent-deadline-passed+stopandwait-returned")
				if rr.lateRegs > 0 {
					x.res.Count("parent-deadline-passed+registration-after-stopandwait")
				}
			}
		}
	}
	if f := rr.fail; f != nil {
		x.res.Count("monitor-failure." + f.kind)
		small := c
		stillFails := func(cc Case) bool {
			for i := 0; i < 3; i++ {
				if r2 := x.eval(cc); r2.fail != nil && r2.fail.kind == f.kind {
					return true
				}
			}
			return false
		}
		shrinkSteps := func() {
			base := small
			small.Steps = vlib.Shrink(base.Steps, func(s []Step) bool {
				cc := base
				cc.Steps = s
				return stillFails(cc)
			})
		}
		shrinkSteps()
		// the parent context: first try without it (the deadline is part of the case only when the failure
		// needs it), then towards "the deadline had already passed when the context was created"
		if small.Parent != nil {
			for _, cand := range simplerParents(*small.Parent) {
				cc := small
				cc.Parent = cand
				if stillFails(cc) {
					small = cc
					shrinkSteps() // e.g. the "adv" steps that let the deadline pass are no longer needed
					break
				}
			}
		}
		f2 := f
		for i := 0; i < 5; i++ {
			if r2 := x.eval(small); r2.fail != nil && r2.fail.kind == f.kind {
				f2 = r2.fail
				break
			}
		}
		x.res.Fail(vlib.Failure{Source: "monitor", Kind: f2.kind, Params: f2.params, What: f2.what, Case: small})
	}
	if !c.NoModel && x.model != nil && rr.deadlock == "" && rr.panicked == "" {
		x.mCases = append(x.mCases, c)
		x.mLines = append(x.mLines, modelLines(rr.lines))
		if len(x.mCases) >= 50 {
			x.flushModel()
		}
	}
}

func (x *runner) flushModel() {
	if x.model == nil || len(x.mCases) == 0 {
		return
	}
	outs, err := x.model.RunMany(x.mLines)
	if err != nil {
		x.res.ModelMissing = err.Error()
		x.model = nil
		return
	}
	for i, out := range outs {
		x.res.Traces++
		for k, o := range out {
			if strings.HasPrefix(o, "ok") {
				continue
			}
			x.res.Count("correspondence-failure")
			x.res.Fail(vlib.Failure{Source: "correspondence", Kind: "model-rejects-trace",
				Params: map[string]interface{}{"line": x.mLines[i][k]},
				What:   fmt.Sprintf("the Lean LTS does not allow observation %d %q of the real code: %s (trace %v)", k, x.mLines[i][k], o, x.mLines[i]),
				Case:   x.mCases[i]})
			break
		}
	}
	x.mCases, x.mLines = nil, nil
}

func loadCorpus(dir string) []Case {
	var out []Case
	for _, f := range vlib.CorpusFiles(dir, ".scn") {
		for _, l := range vlib.ReadLines(f) {
			var c Case
			if err := json.Unmarshal([]byte(l), &c); err == nil && len(c.Steps) > 0 {
				out = append(out, c)
			}
		}
	}
	return out
}

func TestVerif(t *testing.T) {
	env := vlib.GetEnv()
	if env.Replay != "" {
		var c Case
		if err := vlib.ReplayCase(env.Replay, &c); err != nil {
			t.Fatalf("cannot load replay: %v", err)
		}
		if c.Late != nil {
			replayLate(*c.Late)
			return
		}
		if c.Stress != nil {
			// a stress case names a configuration; whether a given round hits the window depends on the
			// real scheduler, so the replay runs that configuration for many rounds
			old := runtime.GOMAXPROCS(0)
			if old < 4 {
				runtime.GOMAXPROCS(4)
			}
			b, _ := json.Marshal(c.Stress)
			fmt.Printf("replay of stress configuration %s (first seen in round %d)\n", b, c.Round)
			if c.Stress.Carousel {
				for n := 0; n < 10; n++ {
					f, st := stressCarousel(*c.Stress, 1500*time.Millisecond)
					if f != nil {
						fmt.Printf("  FAILS (slice %d, after %d Do calls and %d StopAndWait calls) %s: %s\n", n, st.dos, st.stops, f.kind, f.what)
						os.Exit(1)
					}
				}
				fmt.Printf("  no clause violated in 10 slices of 1.5 s\n")
				_, st := stressCarousel(*c.Stress, 500*time.Millisecond)
				fmt.Printf("  (a further slice of 0.5 s: %d Do calls, %d StopAndWait calls)\n", st.dos, st.stops)
				return
			}
			until := time.Now().Add(15 * time.Second)
			n := 0
			for ; n < 400000 && time.Now().Before(until); n++ {
				if f := stressRound(*c.Stress); f != nil {
					fmt.Printf("  FAILS (round %d) %s: %s\n", n, f.kind, f.what)
					os.Exit(1)
				}
			}
			fmt.Printf("  no clause violated in %d rounds\n", n)
			return
		}
		x := &runner{t: t, env: env, res: vlib.NewResult("C17", "")}
		for i := 0; i < 20; i++ {
			rr := x.eval(c)
			if i == 0 {
				fmt.Printf("replay %s\n  trace: %v\n", c, rr.lines)
			}
			if rr.fail != nil {
				fmt.Printf("  FAILS (repetition %d) %s: %s\n  trace: %v\n", i, rr.fail.kind, rr.fail.what, rr.lines)
				os.Exit(1)
			}
		}
		fmt.Println("  no clause violated in 20 repetitions")
		return
	}
	res := vlib.NewResult("C17", "at least two runs of f began and a Stop/StopAndWait was issued")
	x := &runner{t: t, env: env, res: res, wd: &watchdog{}}
	go x.wd.watch(res, env.Out)
	defer func() {
		x.flushModel()
		if x.model != nil {
			x.model.Close()
		}
		res.Write(env.Out)
	}()
	m, err := vlib.StartModel(env.Driver, "group")
	if err != nil {
		res.ModelMissing = err.Error()
	} else {
		x.model = m
	}
	// Model-vs-Spec search on the Lean side: spawns racing a StopAndWait, every interleaving. With the
	// lock discipline of the unchanged code the LTS has no state "StopAndWait returned but a spawn is past
	// its check" (that is the theorem); if the regenerated facts changed the discipline the search shows the
	// interleaving even when the real scheduler never produces it.
	if x.model != nil {
		for _, lines := range [][]string{
			{"async 0", "reg do 0 0", "saw", "cex"},
			{"async 0", "reg do 0 0", "reg trig 0 0", "saw", "cex"},
			{"async 0", "saw", "reg per 3 0", "stop", "cex"},
		} {
			out, err := x.model.Run(lines)
			if err != nil {
				res.ModelMissing = err.Error()
				x.model = nil
				break
			}
			res.Count("model-vs-spec-searches")
			if last := out[len(out)-1]; strings.HasPrefix(last, "cex") {
				res.Fail(vlib.Failure{Source: "correspondence", Kind: "model-counterexample-barrier",
					Params: map[string]interface{}{"script": strings.Join(lines, "; ")},
					What:   "in the Lean model of the code as it is now, " + last + " (interleaving of: " + strings.Join(lines[1:len(lines)-1], "; ") + ")",
					Case:   lines})
			}
		}
	}
	// sequential real-threads pass (deterministic, every run, first): stop / StopAndWait / parent cancel, late
	// registrations, a second Stop / StopAndWait that has to return (latereg_test.go). When it reports, the run
	// ends here: with a Stop that never returns every later scenario that stops a group twice would hang (in a
	// bubble for real: a goroutine parked on an RWMutex is not durably blocked) until the watchdog ends the run.
	if lateRegistrationPhase(res) {
		return
	}
	// real-threads stress of the barrier clause: a bounded number of rounds, ~1.5 s (quick), more in the
	// thorough tier / escalated search
	if env.Thorough() || env.Deep {
		stressBarrier(res, 400000, 12*time.Second)
		stressCarouselPhase(res, 12*time.Second)
	} else {
		stressBarrier(res, 12000, 600*time.Millisecond)
		stressCarouselPhase(res, 1200*time.Millisecond)
	}
	rnd := vlib.NewRand(env.Seed)
	seed := func() int64 { return int64(rnd.Uint64() >> 1) }
	for _, c := range loadCorpus(env.Corpus) {
		for i := 0; i < 5; i++ {
			x.do(c, "corpus")
		}
	}
	// directed pass (deterministic, every run): parent contexts that end by deadline x order of deadline /
	// Stop / StopAndWait / registration x registration kind x trigger pending (deadline_test.go)
	for _, d := range directedDeadline() {
		for i := 0; i < d.reps; i++ {
			x.do(d.c, "directed-deadline")
		}
	}
	// directed pass (deterministic, every run): jitter above / equal to the interval, interval 0 (jitter_test.go)
	for _, d := range directedJitter() {
		for i := 0; i < d.reps; i++ {
			x.do(d.c, "directed-jitter")
		}
	}
	deadline := env.Deadline()
	limit := 1500
	if env.Thorough() || env.Deep {
		limit = 40000
	}
	// the parent shapes are drawn from a stream of their own, so that the scenarios (steps, seeds) of a given
	// VERIF_SEED are the ones they were before parents existed; one scenario in four gets a deadline parent
	prnd := vlib.NewRand(env.Seed ^ 0x9e3779b97f4a7c15)
	for n := 0; n < limit && time.Now().Before(deadline); n++ {
		var c Case
		tag := "random-ns"
		if rnd.Chance(1, 6) {
			c = Case{Steps: genScenario(rnd.Fork(), true), Seed: seed(), NoModel: true}
			tag = "random-ms"
		} else {
			c = Case{Steps: genScenario(rnd.Fork(), false), Seed: seed()}
		}
		if prnd.Chance(1, 4) {
			scale := int64(1)
			if c.NoModel {
				scale = int64(time.Millisecond)
			}
			c.Parent = genParent(prnd, scale)
			tag += "-deadline-parent"
		}
		x.do(c, tag)
	}
}

// hangBound is the real-time bound after which a real-threads round is given up as hung. It is only a
// backstop against a livelocked or wedged library (reported as a broken correspondence tie, never as a
// property violation) and is deliberately generous: on a heavily loaded machine a healthy round has been
// seen to take longer than 10 s.
const hangBound = 120 * time.Second
