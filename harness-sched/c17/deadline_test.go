// Parent contexts that end by deadline (fix6, seeded change C17-m7).
//
// Until fix6 every scenario handed NewGroup a context.WithCancel(Background): the only way the parent ever
// ended was cancel(), so the group's context only ever reported context.Canceled. A Group that decides
// "stopped?" by `errors.Is(ctx.Err(), context.Canceled)` is indistinguishable from the real one on all of
// them. With a parent that ended by its deadline the group's context reports DeadlineExceeded for ever —
// Stop's cancel does not change that — and such a Group starts functions after StopAndWait has returned.
//
// This file has the random draw of parent shapes and the deterministic directed pass over
// parent shape x order of deadline / Stop / StopAndWait / registration x registration kind x trigger pending.
// Nothing here adds a clause: the monitors are the ones of c17_test.go (the barrier clause is about
// StopAndWait; an expired parent alone promises nothing in the text and is judged by no monitor — the
// conformance against the Lean LTS, where the expiry is the label `parentCancel`, covers it as a tie).
package c17

import (
	"time"

	"verifharness/vlib"
)

const farDeadline = int64(time.Hour)

// genParent draws a parent shape for a random scenario; scale = 1 (ns scenarios, checked against the
// model) or 1ms (monitors only). The scenarios of genScenario last ~10-60 units.
func genParent(r *vlib.Rand, scale int64) *Parent {
	p := &Parent{}
	switch r.Pick(4, 2, 2, 4, 1) {
	case 0: // already passed when the context is created
		p.D = -int64(r.Range(1, 3)) * scale
	case 1: // passes, by its timer, before NewGroup
		p.D = int64(r.Range(1, 4)) * scale
		p.Pre = p.D + int64(r.Range(0, 2))*scale
	case 2: // passes right after NewGroup / during the first steps
		p.D = int64(r.Range(1, 6)) * scale
	case 3: // passes somewhere in the scenario: between registrations, while functions run, around the stop
		p.D = int64(r.Range(5, 40)) * scale
	case 4: // never passes
		p.D = farDeadline
	}
	if p.D > 0 && r.Chance(1, 3) {
		p.Timeout = true
	}
	if r.Chance(1, 4) {
		p.Child = true
	}
	return p
}

// directedDeadline: the deterministic pass (every quick run). Intervals are 2 ns, so "adv 7" passes three
// periods; everything is ns scale and goes through the model as well.
//
// Loop kinds (trig, pot) with a trigger pending at the moment the loop goroutine reaches its select pick
// between g.ctx.Done() and the trigger channel at random: those scenarios register the kind three times
// and are repeated by the caller; the `do` scenarios are deterministic.
type directedCase struct {
	c    Case
	reps int // > 1 for the scenarios whose outcome depends on the random choice of a select
}

func directedDeadline() []directedCase {
	type shape struct {
		p *Parent
		// how the deadline comes to pass: "" = it has passed before NewGroup (or never passes), "early" = an
		// "adv" before any registration, "running" = while a periodic function registered before is running
		// and being released, "cancel" = no deadline, the parent is cancelled
		pass string
	}
	shapes := []shape{
		{&Parent{D: -1}, ""},
		{&Parent{D: 3, Pre: 5}, ""},
		{&Parent{D: 3, Pre: 3, Timeout: true}, ""},
		{&Parent{D: 3}, "early"},
		{&Parent{D: 4, Timeout: true}, "early"}, // "adv 4": the deadline and the end of the sleep coincide
		{&Parent{D: 6}, "running"},
		{&Parent{D: farDeadline}, ""},
		{&Parent{D: -1, Child: true}, ""},
		{&Parent{D: 6, Child: true}, "running"},
		{nil, "cancel"},
	}
	type variant struct {
		kind string
		trig string // "" none, "pending" = called right after the registration call returned, "after" = after settling
	}
	variants := []variant{{"do", ""}, {"per", ""}, {"trig", "pending"}, {"trig", "after"}, {"pot", "pending"}, {"pot", "after"}}
	var out []directedCase
	seed := int64(1)
	for _, sh := range shapes {
		for _, order := range []string{"saw", "stop-saw", "saw-then-deadline", "racing", "around"} {
			if order == "saw-then-deadline" && sh.pass != "early" && sh.pass != "running" {
				continue
			}
			for _, v := range variants {
				var st []Step
				nreg := 0
				add := func(s ...Step) { st = append(st, s...) }
				wait := Step{Op: "wait"}
				register := func(race bool) int {
					var iv int64
					if v.kind == "per" || v.kind == "pot" {
						iv = 2
					}
					add(Step{Op: "reg", K: v.kind, A: iv, Race: race})
					nreg++
					return nreg - 1
				}
				// the deadline passes (or the parent is cancelled)
				passDeadline := func() {
					switch sh.pass {
					case "early":
						add(Step{Op: "adv", A: 4}, wait)
					case "running":
						// a periodic function, registered while the group runs, run twice, the second run still in
						// progress when the deadline (6) passes
						add(Step{Op: "reg", K: "per", A: 2}, wait, Step{Op: "adv", A: 3}, Step{Op: "fret", I: nreg}, wait,
							Step{Op: "adv", A: 4}, wait, Step{Op: "fret", I: nreg}, wait)
						nreg++
					case "cancel":
						add(Step{Op: "pcancel"})
					}
				}
				// registrations of the kind after the barrier, with their trigger calls, then several periods
				late := func(n int, race bool) {
					var is []int
					for k := 0; k < n; k++ {
						i := register(race)
						is = append(is, i)
						if v.trig == "pending" && !race {
							add(Step{Op: "trig", I: i})
						}
					}
					if race {
						add(wait)
					}
					if v.trig == "after" || (v.trig == "pending" && race) {
						if v.trig == "after" && !race {
							add(wait)
						}
						for _, i := range is {
							add(Step{Op: "trig", I: i})
						}
					}
					add(Step{Op: "adv", A: 7}, wait)
					for _, i := range is {
						if v.trig != "" {
							add(Step{Op: "trig", I: i})
						}
						add(Step{Op: "fret", I: i})
					}
					add(Step{Op: "adv", A: 7}, wait)
				}
				n := 1
				if v.trig == "pending" {
					n = 3
				}
				switch order {
				case "saw": // deadline, StopAndWait, registrations
					passDeadline()
					add(Step{Op: "saw"}, wait)
					late(n, false)
				case "stop-saw": // deadline, Stop, a registration, later StopAndWait, registrations
					passDeadline()
					add(Step{Op: "stop"}, wait)
					register(false)
					add(wait, Step{Op: "saw"}, wait)
					late(n, false)
				case "saw-then-deadline": // StopAndWait first (Stop's cancel wins), the deadline passes afterwards
					add(Step{Op: "saw"}, wait)
					passDeadline()
					late(n, false)
				case "racing": // registrations racing the StopAndWait, and racing ones after it
					passDeadline()
					register(true)
					add(Step{Op: "saw"})
					register(true)
					add(wait)
					for i := 0; i < nreg; i++ {
						add(Step{Op: "fret", I: i})
					}
					add(wait)
					late(n, true)
				case "around": // registered before the deadline, triggered, running across it; then as "saw"
					i := register(false)
					add(wait)
					if v.trig != "" {
						add(Step{Op: "trig", I: i}, wait)
					}
					passDeadline()
					add(Step{Op: "fret", I: i}, wait, Step{Op: "saw"}, wait, Step{Op: "fret", I: i}, wait)
					if v.trig != "" {
						add(Step{Op: "trig", I: i})
					}
					late(n, false)
					// a second StopAndWait must not change anything either
					add(Step{Op: "saw"}, wait)
					late(1, false)
				}
				reps := 1
				if v.trig == "pending" {
					reps = 3
				}
				out = append(out, directedCase{Case{Steps: st, Seed: seed, Parent: sh.p}, reps})
				seed++
			}
		}
	}
	return out
}
