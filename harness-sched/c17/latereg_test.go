// C17: stop -> late registration -> second Stop / StopAndWait, sequentially, on real threads.
//
// Every call of the scenario is made by one goroutine, one after the other, and has returned before the
// next one is made; only the last call (the second Stop / StopAndWait) runs in a goroutine of its own so
// that the scenario can go on if it does not return. No bubble: a goroutine parked on a sync.RWMutex is
// not durably blocked for testing/synctest, so synctest.Wait would never return with such a goroutine
// inside the bubble and the bubble could not be left.
//
// Verdict `stopandwait-never-returns` (true positive only, no assumption about time): runtime.Stack shows
// the goroutine of the last call parked inside sync.(*RWMutex).Lock, called from xsync.(*Group).Stop, at
// two looks, while no f is running and no other call into the group is in progress. Nothing can release it
// from there: the write lock waits for readers or for another writer, and the only code that takes g.m is
// spawn (inside Do / Periodic / Trigger / PeriodicOrTrigger) and Stop, all of whose calls have returned.
// On a Group whose calls leave the lock free when they return this state cannot be seen: Lock on a free
// RWMutex does not park. The clock only spaces the looks and bounds the search (a call that has neither
// returned nor been seen parked after 10 s is counted as inconclusive, not reported). The stuck goroutine
// cannot be released and is left behind; the phase stops at its first report.
package c17

import (
	"context"
	"fmt"
	"os"
	"runtime"
	"strings"
	"sync/atomic"
	"time"

	"github.com/bradenaw/juniper/xsync"
	"verifharness/vlib"
)

// LateCfg: Pre registrations made while the group runs, First ends the group (stop | saw | pcancel),
// Late registrations made after that, Second (stop | saw) is the call that has to return.
type LateCfg struct {
	Pre    []string `json:"pre,omitempty"`
	First  string   `json:"first"`
	Late   []string `json:"late"`
	Second string   `json:"second"`
}

func lateConfigs() []LateCfg {
	var out []LateCfg
	for _, first := range []string{"saw", "stop", "pcancel"} {
		for _, second := range []string{"saw", "stop"} {
			for _, late := range [][]string{{"do"}, {"trig"}, {"per"}, {"pot"}, {"do", "pot", "per", "trig"}, {}} {
				out = append(out, LateCfg{First: first, Late: late, Second: second})
				out = append(out, LateCfg{Pre: []string{"do", "trig", "per", "pot"}, First: first, Late: late, Second: second})
			}
		}
	}
	return out
}

func goroutineID() string {
	buf := make([]byte, 64)
	buf = buf[:runtime.Stack(buf, false)]
	f := strings.Fields(string(buf)) // "goroutine N [running]:"
	if len(f) >= 2 {
		return f[1]
	}
	return ""
}

// parkedInGroupLock: the goroutine's block of an all-goroutines dump shows it parked (neither running nor
// runnable) in sync.(*RWMutex).Lock below xsync.(*Group).Stop.
func parkedInGroupLock(id string) (bool, string) {
	buf := make([]byte, 1<<20)
	buf = buf[:runtime.Stack(buf, true)]
	for _, blk := range strings.Split(string(buf), "\n\n") {
		if !strings.HasPrefix(blk, "goroutine "+id+" [") {
			continue
		}
		head := blk[:strings.Index(blk, "\n")]
		if strings.Contains(head, "[running") || strings.Contains(head, "[runnable") {
			return false, head
		}
		return strings.Contains(blk, "sync.(*RWMutex).Lock") && strings.Contains(blk, "xsync.(*Group).Stop"), head
	}
	return false, ""
}

// lateRound runs one configuration. inconclusive: the last call neither returned nor was seen parked.
func lateRound(cfg LateCfg) (f *fail, inconclusive bool) {
	parent, cancelParent := context.WithCancel(context.Background())
	defer cancelParent()
	g := xsync.NewGroup(parent)
	var running atomic.Int64
	fn := func(ctx context.Context) {
		running.Add(1)
		running.Add(-1)
	}
	var panicMsg string
	register := func(kind string) {
		defer func() {
			if p := recover(); p != nil && panicMsg == "" {
				panicMsg = fmt.Sprint(p)
			}
		}()
		switch kind {
		case "do":
			g.Do(fn)
		case "trig":
			g.Trigger(fn)()
		case "per":
			g.Periodic(time.Hour, 0, fn)
		case "pot":
			g.PeriodicOrTrigger(time.Hour, time.Minute, fn)()
		}
	}
	// the calls before the last one: sequential, in a goroutine of their own so that a library in which one of
	// *them* does not return (not what this pass looks for; the scenarios in the bubble and the stress phases
	// judge those) leaves the pass inconclusive instead of hanging the run
	prefix := make(chan struct{})
	go func() {
		defer close(prefix)
		for _, k := range cfg.Pre {
			register(k)
		}
		switch cfg.First {
		case "saw":
			g.StopAndWait()
		case "stop":
			g.Stop()
		case "pcancel":
			cancelParent()
		}
		for _, k := range cfg.Late {
			register(k)
		}
	}()
	select {
	case <-prefix:
	case <-time.After(5 * time.Second):
		return nil, true
	}
	if panicMsg != "" {
		return nil, true // a panicking registration is the business of the scenarios in the bubble
	}
	var done atomic.Bool
	idc := make(chan string, 1)
	name := "StopAndWait"
	go func() {
		idc <- goroutineID()
		defer func() { recover() }()
		if cfg.Second == "saw" {
			g.StopAndWait()
		} else {
			g.Stop()
		}
		done.Store(true)
	}()
	if cfg.Second != "saw" {
		name = "Stop"
	}
	id := <-idc
	begin := time.Now()
	for pause := 200 * time.Microsecond; time.Since(begin) < 10*time.Second; {
		if done.Load() {
			return nil, false
		}
		time.Sleep(pause)
		if pause < 50*time.Millisecond {
			pause *= 2
		}
		if p1, h1 := parkedInGroupLock(id); p1 && !done.Load() && running.Load() == 0 {
			time.Sleep(2 * time.Millisecond)
			if p2, _ := parkedInGroupLock(id); p2 && !done.Load() && running.Load() == 0 {
				return &fail{kind: "stopandwait-never-returns", params: map[string]interface{}{"first": cfg.First, "second": cfg.Second, "phase": "real-threads-late-registration"},
					what: fmt.Sprintf("%s; then %v registered (each call returned); then %s: its goroutine is parked in sync.(*RWMutex).Lock inside Group.Stop (%s) although no f is running and no other call into the group is in progress — nothing is left that could release it, the call never returns",
						cfg.First, cfg.Late, name, strings.TrimSuffix(strings.TrimPrefix(h1, "goroutine "+id+" "), ":"))}, false
			}
		}
	}
	return nil, !done.Load()
}

// lateRegistrationPhase: every configuration once (72 sequential rounds, a few ms), every run; true = it reported.
func lateRegistrationPhase(res *vlib.Result) (reported bool) {
	for _, cfg := range lateConfigs() {
		f, inc := lateRound(cfg)
		res.Count("late-registration-rounds")
		if inc {
			res.Count("late-registration-inconclusive")
			if f == nil {
				return false // some call does not return in time: the other phases judge that; no further rounds (each would wait again)
			}
		}
		if f != nil {
			c := cfg
			res.Count("stress-violation." + f.kind)
			res.Fail(vlib.Failure{Source: "monitor", Kind: f.kind, Params: f.params, What: f.what, Case: Case{Late: &c}})
			return true
		}
	}
	res.Case("late-registration:all-configurations", true, nil)
	return false
}

func replayLate(cfg LateCfg) {
	fmt.Printf("replay of the sequential real-threads scenario %+v\n", cfg)
	for i := 0; i < 20; i++ {
		f, inc := lateRound(cfg)
		if f != nil {
			fmt.Printf("  FAILS (repetition %d) %s: %s\n", i, f.kind, f.what)
			os.Exit(1)
		}
		if inc {
			fmt.Printf("  repetition %d inconclusive (the last call neither returned nor was seen parked)\n", i)
		}
	}
	fmt.Println("  no clause violated in 20 repetitions")
}
