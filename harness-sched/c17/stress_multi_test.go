// Real-threads stress of the barrier clause, second form ("carousel"): many groups at once.
//
// Why the first form (stressRound: one fresh group per round) is not enough. The race the lock of
// xsync.Group excludes is: spawn has read `g.ctx.Err() == nil`, then a whole `cancel(); wg.Wait()` runs
// (the counter is 0, Wait returns), then spawn executes `g.wg.Add(1)` and starts f. In spawn the two
// statements are adjacent: with a lock that does not lock (audit C17 F1: `m rwm` with empty methods) the
// window is two atomic operations wide (since Go 1.23 `cancelCtx.Err` is an atomic load). A goroutine
// sits in that window only if it is *descheduled* there — by the operating system (more runnable threads
// than cores) or by the Go runtime's asynchronous preemption. One group per round gives one cancellation
// per ~100 µs of set-up; 8 000 rounds per quick run met the window 0 times in 20 runs.
//
// The carousel keeps the doers permanently inside `Do` and makes cancellations cheap and continuous:
//
//   - `slots` hold live groups. Every doer loops: load a slot, `g.Do(f)` on its group. Nothing else: the
//     fraction of a doer's time spent in the window is (window)/(cost of Do) ≈ 1 %.
//   - every stopper loops: replace a slot by a fresh group (doers move on to it), `StopAndWait` the old
//     one, store `returned` on it. A doer that was descheduled inside the window of the *old* group is
//     still there when its thread runs again — milliseconds later, long after StopAndWait has returned
//     — and then starts f, which sees `returned`.
//   - GOMAXPROCS is raised (32 / 64) for the phase, above the number of cores, so the OS time-slices the
//     threads; there are fewer doers than Ps (8), so that stoppers and the short-lived f goroutines find a
//     free P at once and tens of thousands of StopAndWait calls per second happen.
//
// Every verdict is a true positive for the same reason as in stressRound: `returned` is stored after
// StopAndWait has returned and loaded at the entry of f (sequentially consistent atomics), `running`
// is loaded at the instant of return; no sleep or timeout takes part in a verdict. On a correct Group a
// doer descheduled between the check and `wg.Add(1)` holds the read lock, and `Stop` waits for it.
package c17

import (
	"context"
	"fmt"
	"runtime"
	"strings"
	"sync"
	"sync/atomic"
	"time"

	"github.com/bradenaw/juniper/xsync"
	"verifharness/vlib"
)

type carouselSlot struct {
	g        *xsync.Group
	cancel   context.CancelFunc
	returned atomic.Bool
	running  atomic.Int64
	expired  bool // the parent had ended by deadline before NewGroup
}

type carouselStats struct {
	dos, stops int64
}

func newCarouselSlot(expired bool) *carouselSlot {
	parent, cancel := context.WithCancel(context.Background())
	if expired {
		cancel()
		parent, cancel = expiredParent()
	}
	return &carouselSlot{g: xsync.NewGroup(parent), cancel: cancel, expired: expired}
}

// stressCarousel runs the carousel for the given time (or until the first violation). It returns a
// failure or nil, and what was done.
func stressCarousel(cfg StressCfg, budget time.Duration) (*fail, carouselStats) {
	old := runtime.GOMAXPROCS(0)
	gmp := cfg.Gmp
	if gmp <= 0 {
		gmp = 4 * runtime.NumCPU()
		if gmp < 16 {
			gmp = 16
		}
	}
	runtime.GOMAXPROCS(gmp)
	defer runtime.GOMAXPROCS(old)
	nslots := cfg.Groups
	if nslots <= 0 {
		nslots = 4
	}
	doers := cfg.Doers
	if doers <= 0 {
		doers = gmp / 4
	}
	stoppers := cfg.Stoppers
	if stoppers <= 0 {
		stoppers = 2
	}
	slots := make([]atomic.Pointer[carouselSlot], nslots)
	for i := range slots {
		slots[i].Store(newCarouselSlot(false))
	}
	var stop atomic.Bool
	var begunAfter, stillRunning, begunAfterExpired atomic.Int64
	var panicMsg atomic.Value
	var nDo, nStop atomic.Int64
	notePanic := func() {
		if p := recover(); p != nil {
			panicMsg.CompareAndSwap(nil, fmt.Sprint(p))
			stop.Store(true)
		}
	}
	var wg sync.WaitGroup
	for d := 0; d < doers; d++ {
		wg.Add(1)
		go func(d int) {
			defer wg.Done()
			defer notePanic()
			n := int64(0)
			for i := d; !stop.Load(); i++ {
				sl := slots[i%nslots].Load()
				sl.g.Do(func(ctx context.Context) {
					if sl.returned.Load() {
						begunAfter.Add(1)
						if sl.expired {
							begunAfterExpired.Add(1)
						}
						stop.Store(true)
					}
					sl.running.Add(1)
					sl.running.Add(-1)
				})
				n++
			}
			nDo.Add(n)
		}(d)
	}
	for s := 0; s < stoppers; s++ {
		wg.Add(1)
		go func(s int) {
			defer wg.Done()
			defer notePanic()
			n := int64(0)
			for i := s; !stop.Load(); i += stoppers {
				fresh := newCarouselSlot(cfg.ExpiredEvery > 0 && (i/stoppers)%cfg.ExpiredEvery == cfg.ExpiredEvery-1)
				sl := slots[i%nslots].Swap(fresh)
				// doers that loaded `sl` before the swap are calling Do on it now
				if cfg.PlainStop && i%3 == 0 {
					sl.g.Stop()
				}
				sl.g.StopAndWait()
				if r := sl.running.Load(); r > 0 {
					stillRunning.Store(r)
					stop.Store(true)
				}
				sl.returned.Store(true)
				sl.cancel()
				n++
			}
			nStop.Add(n)
		}(s)
	}
	// the clock only bounds the search
	deadline := time.Now().Add(budget)
	for !stop.Load() && time.Now().Before(deadline) {
		time.Sleep(2 * time.Millisecond)
	}
	stop.Store(true)
	hung := !waitBounded(&wg, hangBound)
	// late starters of the last groups: give goroutines that were (wrongly) spawned a chance to reach f
	for i := 0; i < 64; i++ {
		runtime.Gosched()
	}
	st := carouselStats{dos: nDo.Load(), stops: nStop.Load()}
	params := map[string]interface{}{"kind": "do", "phase": "real-threads-carousel"}
	if n := begunAfter.Load(); n > 0 {
		params["evidence"] = "f-began-after-return"
		if begunAfterExpired.Load() == n {
			params["parent"] = "deadline-passed"
		}
		return &fail{"barrier-run-started-after-stopandwait", params,
			fmt.Sprintf("real threads (carousel of %d groups, %d doers, %d stoppers, GOMAXPROCS %d): %d function(s) registered through Do began running after the StopAndWait of their group had returned (the flag is stored after the return and read at the entry of f)", nslots, doers, stoppers, gmp, n)}, st
	}
	if m := panicMsg.Load(); m != nil && strings.Contains(m.(string), "WaitGroup") {
		params["evidence"] = "waitgroup-panic"
		return &fail{"barrier-run-started-after-stopandwait", params,
			fmt.Sprintf("real threads (carousel): a Do racing StopAndWait reached wg.Add(1) after the Wait had seen the counter at zero; the standard library panicked: %s", m)}, st
	}
	if n := stillRunning.Load(); n > 0 {
		params["evidence"] = "f-running-at-return"
		return &fail{"barrier-function-still-running", params,
			fmt.Sprintf("real threads (carousel): %d run(s) of a function registered through Do were in progress at the instant StopAndWait returned", n)}, st
	}
	if m := panicMsg.Load(); m != nil {
		params["evidence"] = "panic"
		return &fail{"barrier-stress-panic", params, fmt.Sprintf("real threads (carousel): a Group call panicked: %s", m)}, st
	}
	if hung {
		return &fail{"stress-round-hangs", params, "real threads (carousel): a Do / StopAndWait call did not return within 120 s of real time although every f returns at once"}, st
	}
	return nil, st
}

func carouselConfigs() []StressCfg {
	return []StressCfg{
		// measured on the no-op-lock mutant (16 cores, load 10-17): fewer doers than Ps, so that the stoppers
		// and the short-lived f goroutines find a free P at once (with one doer per P the stoppers starved:
		// 70 StopAndWait calls per second, no hit in 15 s); 20 000-60 000 StopAndWait calls per second here
		{Carousel: true, Kind: "do", Groups: 8, Doers: 8, Stoppers: 8, Gmp: 32},
		// every 8th fresh group of this configuration has a parent that ended by deadline before NewGroup (fix6)
		{Carousel: true, Kind: "do", Groups: 4, Doers: 8, Stoppers: 4, Gmp: 64, PlainStop: true, ExpiredEvery: 8},
	}
}

// stressCarouselPhase splits the budget over the configurations; stops at the first violation.
func stressCarouselPhase(res *vlib.Result, budget time.Duration) {
	cfgs := carouselConfigs()
	for k, cfg := range cfgs {
		f, st := stressCarousel(cfg, budget/time.Duration(len(cfgs)))
		res.CountN("carousel-do-calls", int(st.dos))
		res.CountN("carousel-stopandwait-calls", int(st.stops))
		if f != nil {
			res.Count("stress-violation." + f.kind)
			c := cfg
			source := "monitor"
			if f.kind == "stress-round-hangs" {
				source = "correspondence"
			}
			res.Fail(vlib.Failure{Source: source, Kind: f.kind, Params: f.params, What: f.what, Case: Case{Stress: &c, Round: k}})
			break
		}
	}
	res.Case(fmt.Sprintf("stress-carousel:%d-configurations", len(cfgs)), true, nil)
}
