module verifsched

go 1.26

require (
	github.com/bradenaw/juniper v0.0.0
	verifharness v0.0.0
)

require golang.org/x/sync v0.0.0-20210220032951-036812b2e83c // indirect

replace github.com/bradenaw/juniper => /repo

replace verifharness => ../harness
