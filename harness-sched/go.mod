module verifsched

go 1.26

require (
	github.com/bradenaw/juniper v0.0.0
	verifharness v0.0.0
)

replace github.com/bradenaw/juniper => /repo

replace verifharness => ../harness
