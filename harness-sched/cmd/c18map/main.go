// C18 (typed map part): xsync.Map returns for every operation and every key state exactly what
// sync.Map returns, reporting absent values as the zero value rather than panicking.
//
// Monitor: the same op sequence runs on xsync.Map[K,V] and on a real sync.Map (values converted to
// interface{} exactly as the wrapper does); every result of the wrapper must be the sync.Map result
// read back into V (nil = zero value). Correspondence: the wrapper against the Lean model
// (`driver tmap`: sync.Map by its documented behaviour + the assertion forms gofacts finds in the
// source). Type parameters: V in {int, error, any}, K in {int, any}, including stored nil interface
// values and the nil interface key.
//
// Range's stop protocol: `rangestop n` drives Range with a callback whose i-th invocation (from 1)
// answers i < n, i.e. it stops the iteration at its max(n,1)-th invocation; sync.Map's iteration
// order is unspecified, so what is compared is order-independent: the NUMBER of invocations (the
// real sync.Map driven by the same stop rule; the model), and that the visited pairs are distinct
// entries of the map.
package main

import (
	"errors"
	"fmt"
	"math"
	"os"
	"sort"
	"strconv"
	"strings"
	"sync"
	"time"

	"github.com/bradenaw/juniper/xsync"
	"verifharness/vlib"
)

type Op struct {
	Name string `json:"op"`
	K    string `json:"k,omitempty"`
	V    string `json:"v,omitempty"`
	O    string `json:"o,omitempty"`
}

func (o Op) Line() string {
	switch o.Name {
	case "load", "delete", "loadanddelete":
		return o.Name + " " + o.K
	case "store", "loadorstore", "swap":
		return o.Name + " " + o.K + " " + o.V
	case "cas":
		return "cas " + o.K + " " + o.O + " " + o.V
	case "cad":
		return "cad " + o.K + " " + o.O
	case "rangestop":
		return "rangestop " + o.K
	}
	return o.Name
}

func parseLine(l string) Op {
	f := strings.Fields(l)
	o := Op{}
	if len(f) == 0 {
		return o
	}
	o.Name = f[0]
	switch o.Name {
	case "load", "delete", "loadanddelete", "rangestop":
		if len(f) > 1 {
			o.K = f[1]
		}
	case "store", "loadorstore", "swap":
		if len(f) > 2 {
			o.K, o.V = f[1], f[2]
		}
	case "cas":
		if len(f) > 3 {
			o.K, o.O, o.V = f[1], f[2], f[3]
		}
	case "cad":
		if len(f) > 2 {
			o.K, o.O = f[1], f[2]
		}
	}
	return o
}

type Case struct {
	Types string   `json:"types"` // "<K>/<V>": int/int int/error int/any any/int any/any
	Ops   []string `json:"ops"`
}

type conv[T any] struct {
	parse func(string) T
	show  func(T) string
}

var errTable = []error{errors.New("e0"), errors.New("e1"), errors.New("e2"), errors.New("e3"), errors.New("e4"), errors.New("e5")}

var convInt = conv[int]{
	parse: func(s string) int { v, _ := strconv.Atoi(s); return v },
	show:  strconv.Itoa,
}
var convErr = conv[error]{
	parse: func(s string) error {
		if s == "nil" {
			return nil
		}
		v, _ := strconv.Atoi(s)
		return errTable[((v%len(errTable))+len(errTable))%len(errTable)]
	},
	show: func(e error) string {
		if e == nil {
			return "nil"
		}
		for i, x := range errTable {
			if x == e {
				return strconv.Itoa(i)
			}
		}
		return "?"
	},
}
var convAny = conv[any]{
	parse: func(s string) any {
		if s == "nil" {
			return nil
		}
		v, _ := strconv.Atoi(s)
		return v
	},
	show: func(x any) string {
		if x == nil {
			return "nil"
		}
		if v, ok := x.(int); ok {
			return strconv.Itoa(v)
		}
		return "?"
	},
}

// Value types sync.Map never looks into (monitor only; the Lean model's values are integers with
// decidable equality and does not define them): V an uncomparable type ([]int), V = any holding
// uncomparable dynamic values (maps, slices, funcs) next to ints and nil, and V = float64 with values
// that are equal but distinct (+0 / -0) or unequal to themselves (NaN), shown by their bits. Tokens name
// fixed objects, so the wrapper run and the sync.Map run store the very same values.
var convStr = conv[string]{
	parse: func(s string) string { return "k" + s },
	show:  func(s string) string { return strings.TrimPrefix(s, "k") },
}
var sliceTable = [][]int{{0, 0}, {1, 1}, {2, 2}}
var convSlice = conv[[]int]{
	parse: func(s string) []int {
		switch s {
		case "nil":
			return nil
		case "e":
			return []int{}
		}
		v, _ := strconv.Atoi(s)
		return sliceTable[((v%3)+3)%3]
	},
	show: func(x []int) string {
		switch {
		case x == nil:
			return "nil"
		case len(x) == 0:
			return "e"
		}
		return strconv.Itoa(x[0])
	},
}
var mapTable = []map[string]int{{"id": 0}, {"id": 1}, {"id": 2}}
var funcTable = []func() int{func() int { return 0 }, func() int { return 1 }}
var convAnyU = conv[any]{
	parse: func(s string) any {
		if s == "nil" {
			return nil
		}
		if len(s) >= 2 {
			i := int(s[1]-'0') % 2
			switch s[0] {
			case 'm':
				return mapTable[int(s[1]-'0')%3]
			case 's':
				return sliceTable[i]
			case 'f':
				return funcTable[i]
			}
		}
		v, _ := strconv.Atoi(s)
		return v
	},
	show: func(x any) string {
		switch v := x.(type) {
		case nil:
			return "nil"
		case int:
			return strconv.Itoa(v)
		case map[string]int:
			return "m" + strconv.Itoa(v["id"])
		case []int:
			if len(v) > 0 {
				return "s" + strconv.Itoa(v[0])
			}
		case func() int:
			return "f" + strconv.Itoa(v())
		}
		return "?"
	},
}
var floatTokens = map[string]float64{"0": 0, "n0": math.Copysign(0, -1), "1": 1, "n1": -1, "nan": math.NaN(), "inf": math.Inf(1)}
var convFloat = conv[float64]{
	parse: func(s string) float64 { return floatTokens[s] },
	show:  func(f float64) string { return fmt.Sprintf("%#016x", math.Float64bits(f)) },
}

// monitorOnly lists the instantiations above with the value tokens their generators draw from.
var monitorOnly = map[string][]string{
	"string/slice": {"nil", "e", "0", "1", "2"},
	"int/anyu":     {"nil", "0", "1", "m0", "m1", "m2", "s0", "s1", "f0", "f1"},
	"string/float": {"0", "n0", "1", "n1", "nan", "inf"},
}
var monitorOnlyCombos = []string{"string/slice", "int/anyu", "string/float"}

// comparableToken: may the token be the `old` argument of CompareAndSwap / CompareAndDelete? sync.Map
// itself panics when it compares two values of one uncomparable dynamic type (documented: "the old value
// must be of a comparable type"), and the runtime panic is raised inside its node lock; such calls are
// outside what either map defines and are not generated.
func comparableToken(types, tok string) bool {
	switch types {
	case "string/slice":
		return false
	case "int/anyu":
		return tok == "nil" || (tok[0] != 'm' && tok[0] != 's' && tok[0] != 'f')
	}
	return true
}

func showPairs(p []string) string {
	if len(p) == 0 {
		return "empty"
	}
	sort.Slice(p, func(i, j int) bool {
		ki, kj := strings.SplitN(p[i], ":", 2)[0], strings.SplitN(p[j], ":", 2)[0]
		if ki == "nil" || kj == "nil" {
			return ki == "nil" && kj != "nil"
		}
		a, _ := strconv.Atoi(ki)
		b, _ := strconv.Atoi(kj)
		return a < b
	})
	return strings.Join(p, ",")
}

// runTyped executes the ops on the wrapper.
func runTyped[K comparable, V any](ops []Op, ck conv[K], cv conv[V]) []string {
	var m xsync.Map[K, V]
	out := make([]string, 0, len(ops))
	for _, o := range ops {
		var r string
		p, _ := vlib.Try(func() {
			switch o.Name {
			case "load":
				v, ok := m.Load(ck.parse(o.K))
				r = cv.show(v) + " " + strconv.FormatBool(ok)
			case "store":
				m.Store(ck.parse(o.K), cv.parse(o.V))
				r = "ok"
			case "delete":
				m.Delete(ck.parse(o.K))
				r = "ok"
			case "loadanddelete":
				v, ok := m.LoadAndDelete(ck.parse(o.K))
				r = cv.show(v) + " " + strconv.FormatBool(ok)
			case "loadorstore":
				v, ok := m.LoadOrStore(ck.parse(o.K), cv.parse(o.V))
				r = cv.show(v) + " " + strconv.FormatBool(ok)
			case "swap":
				v, ok := m.Swap(ck.parse(o.K), cv.parse(o.V))
				r = cv.show(v) + " " + strconv.FormatBool(ok)
			case "cas":
				r = strconv.FormatBool(m.CompareAndSwap(ck.parse(o.K), cv.parse(o.O), cv.parse(o.V)))
			case "cad":
				r = strconv.FormatBool(m.CompareAndDelete(ck.parse(o.K), cv.parse(o.O)))
			case "range":
				var ps []string
				m.Range(func(k K, v V) bool {
					ps = append(ps, ck.show(k)+":"+cv.show(v))
					return true
				})
				r = showPairs(ps)
			case "rangestop":
				n, _ := strconv.Atoi(o.K)
				calls := 0
				var ks []K
				var vs []V
				m.Range(func(k K, v V) bool {
					calls++
					ks, vs = append(ks, k), append(vs, v)
					return calls < n
				})
				r = "calls=" + strconv.Itoa(calls)
				// the visited pairs are distinct entries of the map
				seen := map[string]bool{}
				for i := range ks {
					cur, ok := m.Load(ks[i])
					if seen[ck.show(ks[i])] || !ok || cv.show(cur) != cv.show(vs[i]) {
						r += " visited-not-an-entry:" + ck.show(ks[i]) + ":" + cv.show(vs[i])
						break
					}
					seen[ck.show(ks[i])] = true
				}
			default:
				r = "bad-op"
			}
		})
		if p {
			r = "panic"
		}
		out = append(out, r)
	}
	return out
}

// runSync executes the ops on a real sync.Map and reads the results back into K and V the way the
// property says (nil = zero value).
func runSync[K comparable, V any](ops []Op, ck conv[K], cv conv[V]) []string {
	var m sync.Map
	back := func(x any) string {
		if x == nil {
			var zero V
			return cv.show(zero)
		}
		return cv.show(x.(V))
	}
	backK := func(x any) string {
		if x == nil {
			var zero K
			return ck.show(zero)
		}
		return ck.show(x.(K))
	}
	out := make([]string, 0, len(ops))
	for _, o := range ops {
		var r string
		p, _ := vlib.Try(func() {
			switch o.Name {
			case "load":
				v, ok := m.Load(ck.parse(o.K))
				r = back(v) + " " + strconv.FormatBool(ok)
			case "store":
				m.Store(ck.parse(o.K), cv.parse(o.V))
				r = "ok"
			case "delete":
				m.Delete(ck.parse(o.K))
				r = "ok"
			case "loadanddelete":
				v, ok := m.LoadAndDelete(ck.parse(o.K))
				r = back(v) + " " + strconv.FormatBool(ok)
			case "loadorstore":
				v, ok := m.LoadOrStore(ck.parse(o.K), cv.parse(o.V))
				r = back(v) + " " + strconv.FormatBool(ok)
			case "swap":
				v, ok := m.Swap(ck.parse(o.K), cv.parse(o.V))
				r = back(v) + " " + strconv.FormatBool(ok)
			case "cas":
				r = strconv.FormatBool(m.CompareAndSwap(ck.parse(o.K), cv.parse(o.O), cv.parse(o.V)))
			case "cad":
				r = strconv.FormatBool(m.CompareAndDelete(ck.parse(o.K), cv.parse(o.O)))
			case "range":
				var ps []string
				m.Range(func(k, v any) bool {
					ps = append(ps, backK(k)+":"+back(v))
					return true
				})
				r = showPairs(ps)
			case "rangestop":
				n, _ := strconv.Atoi(o.K)
				calls := 0
				m.Range(func(k, v any) bool {
					calls++
					return calls < n
				})
				r = "calls=" + strconv.Itoa(calls)
			default:
				r = "bad-op"
			}
		})
		if p {
			r = "panic"
		}
		out = append(out, r)
	}
	return out
}

var typeCombos = []string{"int/int", "int/error", "int/any", "any/int", "any/any"}

func run(types string, ops []Op) (typed, ref []string) {
	switch types {
	case "int/int":
		return runTyped(ops, convInt, convInt), runSync(ops, convInt, convInt)
	case "int/error":
		return runTyped(ops, convInt, convErr), runSync(ops, convInt, convErr)
	case "int/any":
		return runTyped(ops, convInt, convAny), runSync(ops, convInt, convAny)
	case "any/int":
		return runTyped(ops, convAny, convInt), runSync(ops, convAny, convInt)
	case "any/any":
		return runTyped(ops, convAny, convAny), runSync(ops, convAny, convAny)
	case "string/slice":
		return runTyped(ops, convStr, convSlice), runSync(ops, convStr, convSlice)
	case "int/anyu":
		return runTyped(ops, convInt, convAnyU), runSync(ops, convInt, convAnyU)
	case "string/float":
		return runTyped(ops, convStr, convFloat), runSync(ops, convStr, convFloat)
	}
	return nil, nil
}

func modelLines(types string, ops []Op) []string {
	kv := strings.Split(types, "/")
	kind := func(t string) string {
		if t == "int" {
			return "c"
		}
		return "i"
	}
	out := []string{"new " + kind(kv[1]) + " " + kind(kv[0])}
	for _, o := range ops {
		out = append(out, o.Line())
	}
	return out
}

// keyState classifies the state of the key of op idx just before it: absent, present, present-nil.
func keyState(types string, ops []Op, idx int) string {
	cur := map[string]string{}
	for i := 0; i < idx; i++ {
		o := ops[i]
		switch o.Name {
		case "store", "swap":
			cur[o.K] = o.V
		case "loadorstore":
			if _, ok := cur[o.K]; !ok {
				cur[o.K] = o.V
			}
		case "delete", "loadanddelete":
			delete(cur, o.K)
		case "cas":
			if v, ok := cur[o.K]; ok && v == o.O {
				cur[o.K] = o.V
			}
		case "cad":
			if v, ok := cur[o.K]; ok && v == o.O {
				delete(cur, o.K)
			}
		}
	}
	o := ops[idx]
	if o.Name == "range" || o.Name == "rangestop" {
		for _, v := range cur {
			if v == "nil" {
				return "present-nil"
			}
		}
		if len(cur) == 0 {
			return "absent"
		}
		return "present"
	}
	v, ok := cur[o.K]
	switch {
	case !ok:
		return "absent"
	case v == "nil":
		return "present-nil"
	}
	return "present"
}

func monitor(types string, ops []Op) (kind, what string, params map[string]interface{}) {
	typed, ref := run(types, ops)
	i := vlib.FirstDiff(typed, ref)
	if i < 0 {
		return "", "", nil
	}
	k := "typedmap-differs-"
	if typed[i] == "panic" {
		k = "typedmap-panic-"
	}
	kv := strings.Split(types, "/")
	return k + ops[i].Name,
		fmt.Sprintf("xsync.Map[%s,%s]: op %d %q returned %s, sync.Map gives %s", kv[0], kv[1], i, ops[i].Line(), typed[i], ref[i]),
		map[string]interface{}{"k": kv[0], "v": kv[1], "key": keyState(types, ops, i)}
}

// modelDiff: first op on which implementation and model disagree. With a PANICKING assertion form
// (pre-fix trees, mutants) whether a Range that stops early reaches the entry that panics depends on
// sync.Map's unspecified iteration order, so a `rangestop` line on which either side panics is not
// compared (the full `range` and the monitors cover the panic itself).
func modelDiff(ops []Op, typed, model []string) int {
	t := append([]string(nil), typed...)
	mo := append([]string(nil), model...)
	for i := range ops {
		if ops[i].Name == "rangestop" && i < len(t) && i < len(mo) && (t[i] == "panic" || mo[i] == "panic") {
			t[i], mo[i] = "-", "-"
		}
	}
	return vlib.FirstDiff(t, mo)
}

func opLines(ops []Op) []string {
	out := make([]string, len(ops))
	for i, o := range ops {
		out[i] = o.Line()
	}
	return out
}

func check(types string, ops []Op, m *vlib.Model, res *vlib.Result) {
	if k, what, params := monitor(types, ops); k != "" {
		small := vlib.Shrink(ops, func(c []Op) bool { kk, _, _ := monitor(types, c); return kk == k })
		kk, what2, params2 := monitor(types, small)
		if kk == k {
			what, params = what2, params2
		} else {
			small = ops
		}
		res.Fail(vlib.Failure{Source: "monitor", Kind: k, Params: params, What: what, Case: Case{Types: types, Ops: opLines(small)}})
	}
	if m == nil || monitorOnly[types] != nil {
		return
	}
	typed, _ := run(types, ops)
	mo, err := m.Run(modelLines(types, ops))
	if err != nil {
		res.ModelMissing = err.Error()
		return
	}
	res.Traces++
	if i := modelDiff(ops, typed, mo[1:]); i >= 0 {
		differs := func(c []Op) bool {
			t, _ := run(types, c)
			o, err := m.Run(modelLines(types, c))
			return err == nil && modelDiff(c, t, o[1:]) >= 0
		}
		small := vlib.Shrink(ops, differs)
		t, _ := run(types, small)
		o, _ := m.Run(modelLines(types, small))
		j := modelDiff(small, t, o[1:])
		what := fmt.Sprintf("%s op %d %q: impl %q, model %q", types, j, at(opLines(small), j), at(t, j), at(o[1:], j))
		res.Fail(vlib.Failure{Source: "correspondence", Kind: "tmap-model-differs", What: what, Case: Case{Types: types, Ops: opLines(small)}})
	}
}

func at(a []string, i int) string {
	if i >= 0 && i < len(a) {
		return a[i]
	}
	return "<none>"
}

func genCase(r *vlib.Rand, res *vlib.Result) (string, []Op) {
	types := typeCombos[r.Intn(len(typeCombos))]
	kv := strings.Split(types, "/")
	mode := r.Intn(4)
	res.Count(fmt.Sprintf("mode-%d", mode))
	res.Count("types-" + types)
	key := func() string {
		if kv[0] == "any" && r.Chance(1, 4) {
			return "nil"
		}
		return strconv.Itoa(r.Range(1, 3))
	}
	val := func() string {
		nilOdds := 4
		if mode == 2 {
			nilOdds = 2
		}
		if kv[1] != "int" && r.Chance(1, nilOdds) {
			return "nil"
		}
		return strconv.Itoa(r.Range(0, 2))
	}
	n := r.Range(1, 14)
	var ops []Op
	if mode == 1 { // mostly present keys
		for i := 1; i <= 3; i++ {
			ops = append(ops, Op{Name: "store", K: strconv.Itoa(i), V: val()})
		}
	}
	for len(ops) < n {
		w := []int{6, 4, 2, 4, 4, 5, 3, 3, 3, 3}
		if mode == 3 { // absent-key heavy: deletes dominate stores
			w = []int{6, 1, 5, 5, 2, 5, 3, 3, 3, 2}
		}
		switch r.Pick(w...) {
		case 0:
			ops = append(ops, Op{Name: "load", K: key()})
		case 1:
			ops = append(ops, Op{Name: "store", K: key(), V: val()})
		case 2:
			ops = append(ops, Op{Name: "delete", K: key()})
		case 3:
			ops = append(ops, Op{Name: "loadanddelete", K: key()})
		case 4:
			ops = append(ops, Op{Name: "loadorstore", K: key(), V: val()})
		case 5:
			ops = append(ops, Op{Name: "swap", K: key(), V: val()})
		case 6:
			ops = append(ops, Op{Name: "cas", K: key(), O: val(), V: val()})
		case 7:
			ops = append(ops, Op{Name: "cad", K: key(), O: val()})
		case 8:
			ops = append(ops, Op{Name: "range"})
		case 9:
			ops = append(ops, Op{Name: "rangestop", K: strconv.Itoa(r.Range(0, 4))})
		}
	}
	return types, ops
}

// genCaseU: random sequences for the monitor-only instantiations; stores on present keys dominate.
func genCaseU(r *vlib.Rand, res *vlib.Result) (string, []Op) {
	types := monitorOnlyCombos[r.Intn(len(monitorOnlyCombos))]
	toks := monitorOnly[types]
	res.Count("types-" + types)
	key := func() string { return strconv.Itoa(r.Range(1, 2)) }
	val := func() string { return toks[r.Intn(len(toks))] }
	old := func() (string, bool) {
		for i := 0; i < 8; i++ {
			if t := val(); comparableToken(types, t) {
				return t, true
			}
		}
		return "", false
	}
	n := r.Range(2, 12)
	var ops []Op
	for len(ops) < n {
		switch r.Pick(4, 8, 1, 2, 4, 4, 2, 2, 2, 1) {
		case 0:
			ops = append(ops, Op{Name: "load", K: key()})
		case 1:
			ops = append(ops, Op{Name: "store", K: key(), V: val()})
		case 2:
			ops = append(ops, Op{Name: "delete", K: key()})
		case 3:
			ops = append(ops, Op{Name: "loadanddelete", K: key()})
		case 4:
			ops = append(ops, Op{Name: "loadorstore", K: key(), V: val()})
		case 5:
			ops = append(ops, Op{Name: "swap", K: key(), V: val()})
		case 6:
			if o, ok := old(); ok {
				ops = append(ops, Op{Name: "cas", K: key(), O: o, V: val()})
			}
		case 7:
			if o, ok := old(); ok {
				ops = append(ops, Op{Name: "cad", K: key(), O: o})
			}
		case 8:
			ops = append(ops, Op{Name: "range"})
		case 9:
			ops = append(ops, Op{Name: "rangestop", K: strconv.Itoa(r.Range(0, 3))})
		}
	}
	return types, ops
}

// overwriteCases (every run): for each monitor-only instantiation and every ordered pair (v1, v2) of its
// value tokens, each writing operation puts v2 over a key that holds v1, and every reading operation then
// reports what the key holds: Store / Swap / LoadOrStore on a present key, and CompareAndSwap where the
// old value is comparable.
func overwriteCases() (out []struct {
	types string
	ops   []Op
}) {
	add := func(types string, ops ...Op) {
		out = append(out, struct {
			types string
			ops   []Op
		}{types, ops})
	}
	for _, types := range monitorOnlyCombos {
		for _, v1 := range monitorOnly[types] {
			for _, v2 := range monitorOnly[types] {
				for _, first := range []string{"store", "loadorstore", "swap"} {
					add(types, Op{Name: first, K: "1", V: v1}, Op{Name: "store", K: "1", V: v2}, Op{Name: "load", K: "1"},
						Op{Name: "range"}, Op{Name: "swap", K: "1", V: v1}, Op{Name: "loadorstore", K: "1", V: v2},
						Op{Name: "store", K: "2", V: v2}, Op{Name: "store", K: "2", V: v1}, Op{Name: "range"},
						Op{Name: "loadanddelete", K: "1"}, Op{Name: "loadanddelete", K: "2"}, Op{Name: "load", K: "1"})
				}
				if comparableToken(types, v1) {
					add(types, Op{Name: "store", K: "1", V: v1}, Op{Name: "cas", K: "1", O: v1, V: v2}, Op{Name: "load", K: "1"},
						Op{Name: "store", K: "1", V: v1}, Op{Name: "swap", K: "1", V: v2}, Op{Name: "cad", K: "1", O: v1}, Op{Name: "load", K: "1"})
				}
			}
		}
	}
	return out
}

// stopCases: Range's stop protocol systematically — for every type combination, maps of every size
// 0..4 (with and without stored nil interface values, with the nil key where K is an interface) and
// a callback that stops at EVERY position: rangestop n for n = 0..size+1 (0 and 1: false at the
// first invocation; size: false at the last; size+1: never false).
func stopCases() (out []struct {
	types string
	ops   []Op
}) {
	for _, types := range typeCombos {
		kv := strings.Split(types, "/")
		for size := 0; size <= 4; size++ {
			for _, nils := range []bool{false, true} {
				if nils && kv[1] == "int" && kv[0] == "int" {
					continue
				}
				var ops []Op
				for i := 1; i <= size; i++ {
					k, v := strconv.Itoa(i), strconv.Itoa(i)
					if nils && kv[1] != "int" && i%2 == 0 {
						v = "nil"
					}
					if nils && kv[0] == "any" && i == 1 {
						k = "nil"
					}
					ops = append(ops, Op{Name: "store", K: k, V: v})
				}
				for n := 0; n <= size+1; n++ {
					ops = append(ops, Op{Name: "rangestop", K: strconv.Itoa(n)})
				}
				ops = append(ops, Op{Name: "range"})
				out = append(out, struct {
					types string
					ops   []Op
				}{types, ops})
			}
		}
	}
	return out
}

func nontrivial(types string, ops []Op) bool {
	seen := map[string]bool{}
	for i := range ops {
		seen[keyState(types, ops, i)] = true
	}
	return len(ops) >= 3 && seen["absent"] && (seen["present"] || seen["present-nil"])
}

// exhaustive enumerates every op sequence of the given length over a reduced alphabet.
func exhaustive(m *vlib.Model, res *vlib.Result, length int, deadline time.Time) bool {
	complete := true
	for _, types := range typeCombos {
		kv := strings.Split(types, "/")
		keys := []string{"1", "2"}
		vals := []string{"1"}
		if kv[1] != "int" {
			vals = append(vals, "nil")
		} else {
			vals = append(vals, "0")
		}
		if kv[0] == "any" {
			keys = []string{"1", "nil"}
		}
		var alpha []Op
		for _, k := range keys {
			alpha = append(alpha, Op{Name: "load", K: k}, Op{Name: "delete", K: k}, Op{Name: "loadanddelete", K: k})
			for _, v := range vals {
				alpha = append(alpha, Op{Name: "store", K: k, V: v}, Op{Name: "loadorstore", K: k, V: v}, Op{Name: "swap", K: k, V: v}, Op{Name: "cad", K: k, O: v})
				for _, o := range vals {
					alpha = append(alpha, Op{Name: "cas", K: k, O: o, V: v})
				}
			}
		}
		alpha = append(alpha, Op{Name: "range"}, Op{Name: "rangestop", K: "1"}, Op{Name: "rangestop", K: "2"}, Op{Name: "rangestop", K: "3"})
		idx := make([]int, length)
		for {
			if time.Now().After(deadline) {
				return false
			}
			ops := make([]Op, length)
			for i, j := range idx {
				ops[i] = alpha[j]
			}
			check(types, ops, m, res)
			res.Evaluations++
			res.Count("exhaustive")
			p := length - 1
			for p >= 0 {
				idx[p]++
				if idx[p] < len(alpha) {
					break
				}
				idx[p] = 0
				p--
			}
			if p < 0 {
				break
			}
		}
	}
	return complete
}

func main() {
	env := vlib.GetEnv()
	res := vlib.NewResult("C18", "typed map: random op sequences (Load, Store, Delete, LoadAndDelete, LoadOrStore, Swap, CompareAndSwap, CompareAndDelete, Range, Range with a callback that stops at its n-th invocation) over 3 keys "+
		"for (K,V) in {int,any} x {int,error,any} incl. stored nil interface values and the nil key, 4 modes (mixed, present-heavy, nil-heavy, absent-heavy); "+
		"plus, systematically, maps of every size 0..4 with a Range callback stopping at every position 0..size+1 (count of invocations compared with sync.Map and the model; visited pairs must be distinct entries); "+
		"a case is non-trivial if it has >= 3 ops and applies operations to an absent and to a present key (systematic Range cases: >= 4 ops); distinct = different (types, op sequence). "+
		"monitor only (no model): Map[string,[]int], Map[int,any] holding maps / slices / funcs / ints / nil, Map[string,float64] with +0, -0, NaN shown by their bits - every ordered pair of values through Store / Swap / LoadOrStore / CompareAndSwap on a present key in every run, and one random case in four; "+
		"thorough adds every sequence of length 3 over a reduced alphabet for all five type combinations")
	m, err := vlib.StartModel(env.Driver, "tmap")
	if err != nil {
		res.ModelMissing = err.Error()
		m = nil
	}
	defer m.Close()

	if env.Replay != "" {
		var c Case
		if err := vlib.ReplayCase(env.Replay, &c); err != nil {
			fmt.Println("cannot read replay:", err)
			os.Exit(2)
		}
		var ops []Op
		for _, l := range c.Ops {
			ops = append(ops, parseLine(l))
		}
		typed, ref := run(c.Types, ops)
		for i := range ops {
			fmt.Printf("  %-24s xsync.Map: %-12s sync.Map: %s\n", ops[i].Line(), typed[i], ref[i])
		}
		k, what, _ := monitor(c.Types, ops)
		fmt.Printf("monitor: %s %s\n", k, what)
		if monitorOnly[c.Types] != nil {
			fmt.Println("correspondence: this instantiation is outside the model (monitor only)")
		} else if m != nil {
			if mo, err := m.Run(modelLines(c.Types, ops)); err == nil {
				if i := modelDiff(ops, typed, mo[1:]); i >= 0 {
					fmt.Printf("correspondence: op %d impl %q model %q\n", i, at(typed, i), at(mo[1:], i))
				} else {
					fmt.Println("correspondence: model and implementation agree")
				}
			}
		}
		if k != "" {
			os.Exit(1)
		}
		return
	}

	for _, f := range vlib.CorpusFiles(env.Corpus, ".ops") {
		ls := vlib.ReadLines(f)
		if len(ls) < 2 || !strings.HasPrefix(ls[0], "types ") {
			continue
		}
		types := strings.TrimSpace(strings.TrimPrefix(ls[0], "types "))
		var ops []Op
		for _, l := range ls[1:] {
			ops = append(ops, parseLine(l))
		}
		res.Count("corpus")
		res.Case(types+"|"+strings.Join(opLines(ops), ";"), nontrivial(types, ops), nil)
		check(types, ops, m, res)
	}
	for _, sc := range stopCases() {
		res.Count("range-stop-systematic")
		res.Case(sc.types+"|"+strings.Join(opLines(sc.ops), ";"), len(sc.ops) >= 4, nil)
		check(sc.types, sc.ops, m, res)
	}
	for _, oc := range overwriteCases() {
		res.Count("overwrite-systematic")
		res.Case(oc.types+"|"+strings.Join(opLines(oc.ops), ";"), true, nil)
		check(oc.types, oc.ops, m, res)
	}
	r := vlib.NewRand(env.Seed)
	deadline := time.Now().Add(time.Duration(env.BudgetMs) * time.Millisecond / 2)
	maxCases := 4000
	if env.Thorough() || env.Deep {
		maxCases = 100000
	}
	for i := 0; i < maxCases && time.Now().Before(deadline); i++ {
		var types string
		var ops []Op
		if i%4 == 3 {
			types, ops = genCaseU(r.Fork(), res)
		} else {
			types, ops = genCase(r.Fork(), res)
		}
		res.CountN("ops", len(ops))
		res.Case(types+"|"+strings.Join(opLines(ops), ";"), nontrivial(types, ops), map[string]interface{}{"types": types, "ops": opLines(ops)})
		check(types, ops, m, res)
	}
	if env.Thorough() {
		res.Exhaustive = exhaustive(m, res, 3, time.Now().Add(time.Duration(env.BudgetMs)*time.Millisecond/2))
	}
	res.Write(env.Out)
}
