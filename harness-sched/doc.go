// Module verifsched holds the testing/synctest scenarios (Go 1.26) for goroutine-backed code.
package verifsched
