package c10

// stream.Chan (chanStream): the caller's channel read as a Stream. Same method as for Pipe: scenario
// scripts under testing/synctest, quiescent traces fed to the Lean LTS (`driver chanstream`), and
// monitors for the C08 clause "a Next that fails on an expired context costs nothing" (kinds c08-chan-*).

import (
	"context"
	"fmt"
	"strconv"
	"strings"
	"testing"
	"testing/synctest"

	"github.com/bradenaw/juniper/stream"
	"verifharness/vlib"
)

type CScenario struct {
	Cap  int      `json:"cap"`
	Acts []Action `json:"acts"` // ops: put v | close | next c | cancelnext
}

func cActString(a Action) string {
	switch a.Op {
	case "put":
		return fmt.Sprintf("put %d", a.V)
	case "next":
		if a.C {
			return "next 1"
		}
		return "next 0"
	}
	return a.Op
}

func (s CScenario) Lines() []string {
	out := []string{fmt.Sprintf("chan %d", s.Cap)}
	for _, a := range s.Acts {
		out = append(out, cActString(a))
	}
	return out
}

func parseCScenario(lines []string) (CScenario, bool) {
	var s CScenario
	if len(lines) == 0 {
		return s, false
	}
	f := strings.Fields(lines[0])
	if len(f) != 2 || f[0] != "chan" {
		return s, false
	}
	s.Cap, _ = strconv.Atoi(f[1])
	for _, l := range lines[1:] {
		g := strings.Fields(l)
		if len(g) == 0 {
			continue
		}
		a := Action{Op: g[0]}
		if len(g) > 1 {
			v, _ := strconv.Atoi(g[1])
			if a.Op == "put" {
				a.V = v
			} else {
				a.C = v == 1
			}
		}
		s.Acts = append(s.Acts, a)
	}
	return s, true
}

func cTraceLines(tr Trace) []string {
	out := make([]string, len(tr))
	for i, s := range tr {
		out[i] = "act " + cActString(s.Act) + " | " + strings.Join(s.Done, " ")
	}
	return out
}

// runChanOnce: puts are non-blocking sends by the environment (dropped when the channel does not
// accept them), so no goroutine but Next's is ever pending.
func runChanOnce(t *testing.T, sc CScenario) (tr Trace) {
	synctest.Test(t, func(t *testing.T) {
		ch := make(chan int, sc.Cap)
		st := stream.Chan[int](ch)
		var pnext *call
		closed := false
		collect := func() []string {
			synctest.Wait()
			if pnext != nil {
				if ok, r := pnext.result(); ok {
					pnext = nil
					return []string{"n=" + r}
				}
			}
			return nil
		}
		for _, a := range sc.Acts {
			switch a.Op {
			case "put":
				if closed {
					continue
				}
				sent := false
				select {
				case ch <- a.V:
					sent = true
				default:
				}
				if !sent {
					continue
				}
			case "close":
				if closed {
					continue
				}
				closed = true
				close(ch)
			case "next":
				if pnext != nil {
					continue
				}
				ctx, cancel := context.WithCancel(context.Background())
				if a.C {
					cancel()
				}
				c := &call{cancel: cancel}
				pnext = c
				go func() {
					res := "panic"
					defer func() { recover(); c.finish(res) }()
					item, err := st.Next(ctx)
					switch {
					case err == nil:
						res = "v" + strconv.Itoa(item)
					case item != 0:
						res = "other(item with " + errName(err, ctx, nil) + ")"
					default:
						res = errName(err, ctx, nil)
					}
				}()
			case "cancelnext":
				if pnext == nil {
					continue
				}
				pnext.cancel()
			default:
				continue
			}
			tr = append(tr, Step{Act: a, Done: collect()})
		}
		if pnext != nil {
			pnext.cancel()
			collect()
		}
		if pnext != nil && !closed {
			close(ch)
			collect()
		}
		st.Close()
	})
	return tr
}

func monitorChan(sc CScenario, tr Trace) []Finding {
	var out []Finding
	add := func(at int, kind, format string, args ...interface{}) {
		out = append(out, Finding{Kind: kind, At: at, What: fmt.Sprintf("step %d (%s): ", at, cTraceLines(tr)[at]) + fmt.Sprintf(format, args...)})
	}
	var puts, delivered []int
	closed, pending, canceled := false, false, false
	for k, s := range tr {
		switch s.Act.Op {
		case "put":
			puts = append(puts, s.Act.V)
		case "close":
			closed = true
		case "next":
			pending, canceled = true, s.Act.C
		case "cancelnext":
			canceled = true
		}
		for _, d := range s.Done {
			res := strings.TrimPrefix(d, "n=")
			pending, canceled = false, false
			switch {
			case strings.HasPrefix(res, "v"):
				v, _ := strconv.Atoi(res[1:])
				if len(delivered) >= len(puts) || puts[len(delivered)] != v {
					add(k, "c08-chan-order-or-loss", "Next returned %d; the channel accepted %v and %v had been delivered", v, puts, delivered)
				}
				delivered = append(delivered, v)
			case res == "end":
				if len(delivered) < len(puts) {
					add(k, "c08-chan-end-before-data", "Next reported the end with %v accepted by the channel and only %v delivered", puts, delivered)
				}
			}
		}
		if pending && (closed || canceled || len(delivered) < len(puts)) {
			add(k, "c08-chan-next-stuck", "Next has not returned at quiescence although the channel is closed / holds a value / its context expired")
		}
	}
	return out
}

func genCScenario(r *vlib.Rand) CScenario {
	caps := []int{0, 1, 3}
	sc := CScenario{Cap: caps[r.Intn(3)]}
	n := r.Range(3, 12)
	v := 0
	for k := 0; k < n; k++ {
		switch r.Pick(5, 5, 2, 1) {
		case 0:
			v++
			sc.Acts = append(sc.Acts, Action{Op: "put", V: v})
		case 1:
			sc.Acts = append(sc.Acts, Action{Op: "next", C: r.Chance(1, 5)})
		case 2:
			sc.Acts = append(sc.Acts, Action{Op: "cancelnext"})
		case 3:
			sc.Acts = append(sc.Acts, Action{Op: "close"})
		}
	}
	if r.Bool() {
		sc.Acts = append(sc.Acts, Action{Op: "close"}, Action{Op: "next"}, Action{Op: "next"})
	}
	return sc
}

// checkChan runs one chanStream scenario: monitors + conformance against `driver chanstream`.
func (c *checker) checkChan(sc CScenario, cm *vlib.Model) *vlib.Model {
	tr := runChanOnce(c.t, sc) // no select race: Next has at most one ready arm unless its context is expired
	traces := []Trace{tr}
	if tr2 := runChanOnce(c.t, sc); tr2.Key() != tr.Key() {
		traces = append(traces, tr2)
	}
	c.res.Count("chan-scenarios")
	nv := 0
	for _, s := range tr {
		for _, d := range s.Done {
			if strings.HasPrefix(d, "n=v") {
				nv++
			}
		}
	}
	c.res.Case(strings.Join(sc.Lines(), ";"), len(tr) >= 4 && nv >= 1, nil)
	for _, t := range traces {
		for _, f := range monitorChan(sc, t) {
			if !c.lim.Admit("monitor", f.Kind) {
				continue
			}
			small := sc
			small.Acts = vlib.Shrink(sc.Acts, func(as []Action) bool {
				s2 := CScenario{Cap: sc.Cap, Acts: as}
				for i := 0; i < 10; i++ {
					for _, g := range monitorChan(s2, runChanOnce(c.t, s2)) {
						if g.Kind == f.Kind {
							return true
						}
					}
				}
				return false
			})
			c.res.Fail(vlib.Failure{Source: "monitor", Kind: f.Kind, Params: map[string]interface{}{"cap": sc.Cap}, What: f.What,
				Case: Case{Scenario: small.Lines(), Trace: cTraceLines(t), Kind: f.Kind}})
		}
		if cm == nil {
			continue
		}
		lines := append([]string{fmt.Sprintf("cfg %d", sc.Cap)}, cTraceLines(t)...)
		out, err := cm.Run(lines)
		if err != nil {
			c.res.ModelMissing = err.Error()
			return nil
		}
		c.res.Traces++
		for j, o := range out {
			if !strings.HasPrefix(o, "ok") {
				c.res.Fail(vlib.Failure{Source: "correspondence", Kind: "chan-model-refuses-trace", Params: map[string]interface{}{"cap": sc.Cap},
					What: fmt.Sprintf("the Lean LTS of stream.Chan allows no schedule for observed line %d %q: %s", j, lines[j], o),
					Case: Case{Scenario: sc.Lines(), Trace: lines[1:]}})
				break
			}
		}
	}
	return cm
}
