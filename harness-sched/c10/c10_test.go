// C10 (and the Pipe clauses of C08): stream.Pipe under every schedule.
//
// A scenario is a script of environment actions (start Send/TrySend v from sender goroutine i,
// start Next, expire the context of a pending call, sender Close(nil|err), receiver Close). It runs
// inside a testing/synctest bubble; after every action synctest.Wait() returns once every goroutine
// is durably blocked, and the harness records which pending calls returned with what. The observed
// quiescent trace goes
//   - to the Lean LTS (`driver pipe`, state-set conformance): a trace the model cannot produce is a
//     `correspondence` failure (broken tie);
//   - to the Go monitors below, which encode the clauses of the property text against plain logs
//     (`monitor` failures = violations of the property by the implementation).
//
// Which ready select arm the runtime picks differs from run to run, so every scenario is repeated
// and all distinct traces are checked; a replay re-runs the recorded scenario until the recorded
// failure kind shows again.
package c10

import (
	"context"
	"errors"
	"fmt"
	"os"
	"sort"
	"strconv"
	"strings"
	"sync"
	"testing"
	"testing/synctest"
	"time"

	"github.com/bradenaw/juniper/stream"
	"verifharness/vlib"
)

// ---------------------------------------------------------------------------------------------
// scenarios

type Action struct {
	Op string `json:"op"`          // send try next cancel cancelnext sclose rclose
	I  int    `json:"i,omitempty"` // sender goroutine
	V  int    `json:"v,omitempty"` // value
	C  bool   `json:"c,omitempty"` // send/try/next: the context is already expired; sclose: close with an error
	K  int    `json:"k,omitempty"` // sclose with an error: which one (index into closeKinds; 0 = the harness's own error value)
	// send/try/next: the context can never expire (Done() == nil: context.Background(), context.TODO(), a
	// WithValue / WithoutCancel chain on top of them); written `2` where an expired context is written `1`.
	// To the Lean LTS it is a live context that nobody expires; a `cancel` aimed at such a call is dropped.
	NX bool `json:"nx,omitempty"`
}

type ctxKey struct{}

// neverCtx: the contexts of package context whose Done() is nil.
func neverCtx(v int) context.Context {
	switch ((v % 4) + 4) % 4 {
	case 1:
		return context.TODO()
	case 2:
		return context.WithValue(context.Background(), ctxKey{}, v)
	case 3:
		parent, cancel := context.WithCancel(context.Background())
		cancel()
		return context.WithoutCancel(parent)
	}
	return context.Background()
}

// closeKinds: the error the sender is closed with. All of them are the *sender's* error: nobody has
// cancelled the context of any Send/Next call because of them.
var closeKinds = []string{"", "canceled", "wrapcanceled", "deadline", "wrapdeadline"}

func closeError(k int) error {
	switch k {
	case 1:
		return context.Canceled
	case 2:
		return fmt.Errorf("sender: upstream read: %w", context.Canceled)
	case 3:
		return context.DeadlineExceeded
	case 4:
		return fmt.Errorf("sender: upstream read: %w", context.DeadlineExceeded)
	}
	return errE
}

// ModelString is the action as the Lean LTS knows it (the LTS does not distinguish close errors).
func (a Action) ModelString() string {
	a.K = 0
	a.NX = false
	return a.String()
}

func (a Action) String() string {
	b := "0"
	if a.C {
		b = "1"
	} else if a.NX && (a.Op == "send" || a.Op == "try" || a.Op == "next") {
		b = "2"
	}
	switch a.Op {
	case "send", "try":
		return fmt.Sprintf("%s %d %d %s", a.Op, a.I, a.V, b)
	case "sclose":
		if a.C && a.K > 0 && a.K < len(closeKinds) {
			return "sclose 1 " + closeKinds[a.K]
		}
		return a.Op + " " + b
	case "next":
		return a.Op + " " + b
	case "cancel":
		return fmt.Sprintf("cancel %d", a.I)
	}
	return a.Op
}

func parseAction(l string) (Action, bool) {
	f := strings.Fields(l)
	if len(f) == 0 {
		return Action{}, false
	}
	at := func(i int) int {
		if i < len(f) {
			v, _ := strconv.Atoi(f[i])
			return v
		}
		return 0
	}
	switch f[0] {
	case "send", "try":
		return Action{Op: f[0], I: at(1), V: at(2), C: at(3) == 1, NX: at(3) == 2}, true
	case "sclose":
		a := Action{Op: f[0], C: at(1) == 1}
		if len(f) > 2 && a.C {
			for k, n := range closeKinds {
				if k > 0 && n == f[2] {
					a.K = k
				}
			}
			if a.K == 0 {
				return Action{}, false
			}
		}
		return a, true
	case "next":
		return Action{Op: f[0], C: at(1) == 1, NX: at(1) == 2}, true
	case "cancel":
		return Action{Op: f[0], I: at(1)}, true
	case "cancelnext", "rclose":
		return Action{Op: f[0]}, true
	}
	return Action{}, false
}

type Scenario struct {
	N    int      `json:"senders"`
	B    int      `json:"buffer"`
	Acts []Action `json:"acts"`
}

func (s Scenario) Lines() []string {
	out := []string{fmt.Sprintf("cfg %d %d", s.N, s.B)}
	for _, a := range s.Acts {
		out = append(out, a.String())
	}
	return out
}

func parseScenario(lines []string) (Scenario, bool) {
	var s Scenario
	if len(lines) == 0 {
		return s, false
	}
	f := strings.Fields(lines[0])
	if len(f) != 3 || f[0] != "cfg" {
		return s, false
	}
	s.N, _ = strconv.Atoi(f[1])
	s.B, _ = strconv.Atoi(f[2])
	for _, l := range lines[1:] {
		if a, ok := parseAction(l); ok {
			s.Acts = append(s.Acts, a)
		}
	}
	return s, true
}

// Step is one observed step: the action and the calls that had returned at the next quiescent point.
type Step struct {
	Act  Action   `json:"act"`
	Done []string `json:"done"` // sorted "s<i>=res" / "n=res"
}

func (s Step) Line() string { return "act " + s.Act.String() + " | " + strings.Join(s.Done, " ") }

// ModelLine is the step as fed to the Lean LTS.
func (s Step) ModelLine() string {
	return "act " + s.Act.ModelString() + " | " + strings.Join(s.Done, " ")
}

type Trace []Step

func (t Trace) Key() string {
	var b strings.Builder
	for _, s := range t {
		b.WriteString(s.Line())
		b.WriteByte('\n')
	}
	return b.String()
}

// ---------------------------------------------------------------------------------------------
// running a scenario on the real code

var errE = errors.New("E")

type call struct {
	mu     sync.Mutex
	done   bool
	res    string
	cancel context.CancelFunc
	v      int
	try    bool
	never  bool // the call's context cannot expire: `cancel` is not an action on it
}

func (c *call) finish(res string) {
	c.mu.Lock()
	c.done, c.res = true, res
	c.mu.Unlock()
}

func (c *call) result() (bool, string) {
	c.mu.Lock()
	defer c.mu.Unlock()
	return c.done, c.res
}

// closeErrBox holds the error the sender was closed with (set before Close is called).
type closeErrBox struct {
	mu  sync.Mutex
	err error
}

func (b *closeErrBox) set(err error) { b.mu.Lock(); b.err = err; b.mu.Unlock() }
func (b *closeErrBox) get() error    { b.mu.Lock(); defer b.mu.Unlock(); return b.err }

// errName classifies what a call returned. ctx is the call's own context, closeErr the error the
// sender was closed with (nil if none). "err" = that very error (identity); "ctx" = the call's own
// context error. A sender closed with context.Canceled itself and a call whose own context has
// expired give the same value: then both arms of the call's select were ready, and it is reported as
// "ctx".
func errName(err error, ctx context.Context, closeErr error) string {
	switch {
	case err == nil:
		return "nil"
	case err == stream.ErrClosedPipe:
		return "closed"
	case err == stream.End:
		return "end"
	case err == context.Canceled && ctx.Err() != nil:
		return "ctx"
	case closeErr != nil && err == closeErr:
		return "err"
	case err == context.Canceled:
		return "ctx"
	}
	return "other(" + err.Error() + ")"
}

// runOnce executes the scenario once. Actions that are not legal at their point (a second call on
// a busy goroutine, Next after the receiver's Close or while a Next is pending, a second Close,
// cancelling nothing) are dropped; the trace contains the actions that were executed.
// stuck lists the calls still pending after the final clean-up (harness-level diagnostics).
func runOnce(t *testing.T, sc Scenario) (tr Trace, stuck []string) {
	synctest.Test(t, func(t *testing.T) {
		sender, recv := stream.Pipe[int](sc.B)
		var cerr closeErrBox
		pend := make([]*call, sc.N)
		var pnext *call
		sclosed, rclosed := false, false

		collect := func() []string {
			synctest.Wait()
			var done []string
			for i, c := range pend {
				if c == nil {
					continue
				}
				if ok, r := c.result(); ok {
					done = append(done, fmt.Sprintf("s%d=%s", i, r))
					pend[i] = nil
				}
			}
			if pnext != nil {
				if ok, r := pnext.result(); ok {
					done = append(done, "n="+r)
					pnext = nil
				}
			}
			sort.Strings(done)
			return done
		}
		newCtx := func(expired bool, never ...int) (context.Context, context.CancelFunc) {
			if !expired && len(never) > 0 {
				return neverCtx(never[0]), func() {}
			}
			ctx, cancel := context.WithCancel(context.Background())
			if expired {
				cancel()
			}
			return ctx, cancel
		}

		for _, a := range sc.Acts {
			switch a.Op {
			case "send", "try":
				if a.I < 0 || a.I >= sc.N || pend[a.I] != nil {
					continue
				}
				ctx, cancel := newCtx(a.C)
				if a.NX && !a.C {
					ctx, cancel = newCtx(false, a.V)
				}
				c := &call{cancel: cancel, v: a.V, try: a.Op == "try", never: a.NX && !a.C}
				pend[a.I] = c
				v := a.V
				if a.Op == "send" {
					go func() {
						res := "panic"
						defer func() { recover(); c.finish(res) }()
						res = errName(sender.Send(ctx, v), ctx, cerr.get())
					}()
				} else {
					go func() {
						res := "panic"
						defer func() { recover(); c.finish(res) }()
						ok, err := sender.TrySend(ctx, v)
						switch {
						case err == nil && ok:
							res = "true"
						case err == nil:
							res = "false"
						case ok:
							res = "other(true," + errName(err, ctx, cerr.get()) + ")"
						default:
							res = errName(err, ctx, cerr.get())
						}
					}()
				}
			case "next":
				if pnext != nil || rclosed {
					continue
				}
				ctx, cancel := newCtx(a.C)
				if a.NX && !a.C {
					ctx, cancel = newCtx(false, len(tr))
				}
				c := &call{cancel: cancel, never: a.NX && !a.C}
				pnext = c
				go func() {
					res := "panic"
					defer func() { recover(); c.finish(res) }()
					item, err := recv.Next(ctx)
					switch {
					case err == nil:
						res = "v" + strconv.Itoa(item)
					case item != 0:
						res = "other(item with " + errName(err, ctx, cerr.get()) + ")"
					default:
						res = errName(err, ctx, cerr.get())
					}
				}()
			case "cancel":
				if a.I < 0 || a.I >= sc.N || pend[a.I] == nil || pend[a.I].never {
					continue
				}
				pend[a.I].cancel()
			case "cancelnext":
				if pnext == nil || pnext.never {
					continue
				}
				pnext.cancel()
			case "sclose":
				if sclosed {
					continue
				}
				sclosed = true
				if a.C {
					e := closeError(a.K)
					cerr.set(e)
					sender.Close(e)
				} else {
					sender.Close(nil)
				}
			case "rclose":
				if rclosed || pnext != nil {
					continue
				}
				rclosed = true
				recv.Close()
			default:
				continue
			}
			tr = append(tr, Step{Act: a, Done: collect()})
		}

		// clean-up: nothing may stay blocked when the bubble ends
		for _, c := range pend {
			if c != nil {
				c.cancel()
			}
		}
		if pnext != nil {
			pnext.cancel()
		}
		collect()
		if !sclosed {
			sender.Close(nil)
			collect()
		}
		if pnext == nil && !rclosed {
			recv.Close()
			collect()
		}
		for round := 0; round < sc.B+sc.N+2; round++ { // last resort: drain
			busy := pnext != nil
			for _, c := range pend {
				busy = busy || c != nil
			}
			if !busy {
				break
			}
			if pnext == nil {
				ctx, cancel := newCtx(false)
				c := &call{cancel: cancel}
				pnext = c
				go func() {
					defer func() { recover(); c.finish("cleanup") }()
					recv.Next(ctx)
				}()
			}
			collect()
		}
		for i, c := range pend {
			if c != nil {
				stuck = append(stuck, fmt.Sprintf("s%d", i))
			}
		}
		if pnext != nil {
			stuck = append(stuck, "n")
		}
	})
	return tr, stuck
}

// ---------------------------------------------------------------------------------------------
// monitors: the clauses of the property text, on the observed trace

type Finding struct {
	Kind string
	What string
	At   int
}

type pendingSend struct {
	v        int
	try      bool
	canceled bool
}

// monitor returns every clause violated by the trace. Nothing here consults the model.
func monitor(sc Scenario, tr Trace) []Finding {
	var out []Finding
	add := func(at int, kind, format string, args ...interface{}) {
		out = append(out, Finding{Kind: kind, What: fmt.Sprintf("step %d (%s): ", at, tr[at].Line()) + fmt.Sprintf(format, args...), At: at})
	}
	sentBy := map[int]int{}   // value -> sender
	sentPos := map[int]int{}  // value -> position in its sender's call sequence
	nsent := make([]int, sc.N)
	pend := make([]*pendingSend, sc.N)
	var ackedBC []int // values whose Send returned nil / TrySend returned true strictly before the sender's Close
	ctxFailedSend := map[int]bool{}
	delivered := map[int]bool{}
	lastPos := make([]int, sc.N)
	for i := range lastPos {
		lastPos[i] = -1
	}
	sclosed, sclosedErr, rclosed := false, false, false
	nextPending, nextCanceled := false, false
	ctxNextFailed := false
	// stickiness: a report made while no Send / TrySend was in flight, and no *Send* started since.
	// "once no Send is in flight the end or error, once reported, keeps being reported": the period after a
	// Send that is started later is left open (a Send started after the sender's Close on a buffered pipe has
	// its data arm and its senderDone arm both ready and may still enqueue - DESIGN 8a). A TrySend is not a
	// Send: it is over when it returns, the text names it separately ("TrySend never blocks"), and one that is
	// started after the report (hence after the sender's Close has returned: Next reports only through the
	// senderDone arm) does not re-open anything - whatever it returns, the end keeps being reported
	// (fix8b, seeded/C10-m10; until then a `try` reset the report like a `send`).
	quietReport := ""
	triedAfterReport := map[int]bool{} // values offered by a TrySend called while quietReport was standing
	for k, st := range tr {
		a := st.Act
		sendInFlightBefore := a.Op == "send" || a.Op == "try"
		for _, p := range pend {
			if p != nil {
				sendInFlightBefore = true
			}
		}
		switch a.Op {
		case "send", "try":
			pend[a.I] = &pendingSend{v: a.V, try: a.Op == "try", canceled: a.C}
			sentBy[a.V] = a.I
			sentPos[a.V] = nsent[a.I]
			nsent[a.I]++
			if a.Op == "send" {
				quietReport = ""
			} else if quietReport != "" {
				triedAfterReport[a.V] = true
			}
		case "next":
			nextPending, nextCanceled = true, a.C
		case "cancel":
			if pend[a.I] != nil {
				pend[a.I].canceled = true
			}
		case "cancelnext":
			nextCanceled = true
		case "sclose":
			sclosed, sclosedErr = true, a.C
		case "rclose":
			rclosed = true
		}
		// completions of senders first (a value handed over in this step is acknowledged and delivered in it)
		for _, d := range st.Done {
			if !strings.HasPrefix(d, "s") {
				continue
			}
			eq := strings.Index(d, "=")
			i, _ := strconv.Atoi(d[1:eq])
			res := d[eq+1:]
			p := pend[i]
			pend[i] = nil
			if p == nil {
				continue
			}
			switch {
			case (res == "nil" && !p.try) || (res == "true" && p.try):
				// acknowledged; "before the sender was closed" = observed at a quiescent point that
				// precedes the Close action (after Close(nil), Send may also return *senderErr = nil
				// without having sent anything)
				if !sclosed {
					ackedBC = append(ackedBC, p.v)
				}
			case res == "ctx":
				ctxFailedSend[p.v] = true
			}
		}
		for _, d := range st.Done {
			if !strings.HasPrefix(d, "n=") {
				continue
			}
			res := d[2:]
			nextPending, nextCanceled = false, false
			switch {
			case strings.HasPrefix(res, "v"):
				v, _ := strconv.Atoi(res[1:])
				i, ok := sentBy[v]
				if !ok {
					add(k, "pipe-unsent-value", "Next returned %d which no Send was called with", v)
					break
				}
				if delivered[v] {
					add(k, "pipe-duplicate", "Next returned %d a second time", v)
					if ctxNextFailed {
						add(k, "c08-pipe-ctx-next-costs", "after a Next that failed on an expired context, %d was delivered twice", v)
					}
				}
				delivered[v] = true
				if sentPos[v] < lastPos[i] {
					add(k, "pipe-order", "sender %d's value %d (its call #%d) was delivered after its call #%d", i, v, sentPos[v], lastPos[i])
					if ctxNextFailed {
						add(k, "c08-pipe-ctx-next-costs", "after a Next that failed on an expired context, sender %d's values arrive out of order", i)
					}
				}
				if sentPos[v] > lastPos[i] {
					lastPos[i] = sentPos[v]
				}
				if ctxFailedSend[v] {
					add(k, "c08-pipe-ctx-send-delivered", "value %d was delivered although its Send failed with the context's error", v)
				}
				if quietReport != "" {
					how := ""
					if triedAfterReport[v] {
						how = fmt.Sprintf(" (%d was offered by a TrySend of sender %d that was called after the report)", v, i)
					}
					add(k, "pipe-end-not-sticky", "Next returned %d after %q had been reported with no Send in flight and none started since%s", v, quietReport, how)
				}
			case res == "end" || res == "err":
				if sclosed && sclosedErr && res == "end" {
					add(k, "c08-pipe-error-not-reported", "sender closed with E but Next reported the normal end")
				}
				var lost []int
				for _, v := range ackedBC {
					if !delivered[v] {
						lost = append(lost, v)
					}
				}
				if len(lost) > 0 {
					add(k, "pipe-lost-before-end", "Next reported %s but %v, acknowledged to their senders before the sender's Close, were never delivered", res, lost)
					if res == "err" {
						add(k, "c08-pipe-error-before-data", "the close error surfaced before the data sent ahead of it: %v never delivered", lost)
					}
					if ctxNextFailed {
						add(k, "c08-pipe-ctx-next-costs", "after a Next that failed on an expired context, %v were lost", lost)
					}
				}
				if quietReport != "" && quietReport != res {
					add(k, "pipe-end-not-sticky", "Next reported %s after %q had been reported with no Send in flight and none started since", res, quietReport)
				}
				if !sendInFlightBefore {
					quietReport = res
				}
			case res == "ctx":
				ctxNextFailed = true
			default:
				if sclosed && sclosedErr {
					add(k, "c08-pipe-error-not-reported", "sender closed with E but Next returned %s", res)
				}
			}
		}
		// no call blocks forever: at quiescence, a pending call whose return condition holds is stuck
		nSendPending := 0
		for i, p := range pend {
			if p == nil {
				continue
			}
			if p.try {
				add(k, "trysend-blocked", "TrySend of sender %d has not returned at quiescence", i)
				continue
			}
			nSendPending++
			why := ""
			switch {
			case rclosed:
				why = "the receiver is closed"
			case sclosed:
				why = "the sender is closed"
			case p.canceled:
				why = "its context has expired"
			}
			if why != "" {
				add(k, "send-stuck", "Send of sender %d has not returned at quiescence although %s", i, why)
			}
		}
		if nextPending {
			why := ""
			switch {
			case sclosed:
				why = "the sender is closed"
			case nextCanceled:
				why = "its context has expired"
			case nSendPending > 0:
				why = "a Send is blocked offering a value"
			default:
				for _, v := range ackedBC {
					if !delivered[v] {
						why = fmt.Sprintf("%d was acknowledged to its sender and not yet delivered", v)
						break
					}
				}
			}
			if why != "" {
				add(k, "next-stuck", "Next has not returned at quiescence although %s", why)
			}
		}
	}
	return out
}

// ---------------------------------------------------------------------------------------------
// generators

// sclose: the sender's Close; with an error it is the harness's own error value or one of the
// context-flavoured ones (closeKinds).
func sclose(r *vlib.Rand, withErr bool) Action {
	a := Action{Op: "sclose", C: withErr}
	if withErr {
		a.K = []int{0, 0, 0, 1, 2, 3, 4, 1, 2}[r.Intn(9)]
	}
	return a
}

func genScenario(r *vlib.Rand, res *vlib.Result) Scenario {
	bs := []int{0, 1, 2, 5}
	sc := Scenario{N: r.Range(1, 3), B: bs[r.Intn(len(bs))]}
	nv := make([]int, sc.N)
	val := func(i int) int { nv[i]++; return (i+1)*100 + nv[i] }
	send := func(i int, c bool) Action { return Action{Op: "send", I: i, V: val(i), C: c} }
	try := func(i int, c bool) Action { return Action{Op: "try", I: i, V: val(i), C: c} }
	mode := r.Pick(30, 20, 12, 12, 10, 8, 8, 8)
	res.Count(fmt.Sprintf("mode-%d", mode))
	switch mode {
	case 0: // random mix
		n := r.Range(3, 12)
		for k := 0; k < n; k++ {
			switch r.Pick(30, 10, 30, 8, 6, 7, 4, 5) {
			case 0:
				sc.Acts = append(sc.Acts, send(r.Intn(sc.N), r.Chance(1, 12)))
			case 1:
				sc.Acts = append(sc.Acts, try(r.Intn(sc.N), r.Chance(1, 12)))
			case 2:
				sc.Acts = append(sc.Acts, Action{Op: "next", C: r.Chance(1, 12)})
			case 3:
				sc.Acts = append(sc.Acts, Action{Op: "cancel", I: r.Intn(sc.N)})
			case 4:
				sc.Acts = append(sc.Acts, Action{Op: "cancelnext"})
			case 5:
				sc.Acts = append(sc.Acts, sclose(r, r.Bool()))
			case 6:
				sc.Acts = append(sc.Acts, Action{Op: "rclose"})
			case 7:
				sc.Acts = append(sc.Acts, Action{Op: "next"}, Action{Op: "next"})
			}
		}
	case 1: // fill (part of) the buffer, close, read to the end and beyond
		if sc.B == 0 {
			sc.B = bs[1+r.Intn(3)]
		}
		k := r.Range(1, sc.B)
		for j := 0; j < k; j++ {
			if r.Chance(1, 4) {
				sc.Acts = append(sc.Acts, try(r.Intn(sc.N), false))
			} else {
				sc.Acts = append(sc.Acts, send(r.Intn(sc.N), false))
			}
		}
		if r.Chance(1, 3) {
			sc.Acts = append(sc.Acts, Action{Op: "next"})
		}
		sc.Acts = append(sc.Acts, sclose(r, r.Bool()))
		for j := 0; j < k+2; j++ {
			sc.Acts = append(sc.Acts, Action{Op: "next"})
		}
	case 2: // rendez-vous: blocked senders, receiver arrives, some give up
		sc.B = 0
		for i := 0; i < sc.N; i++ {
			sc.Acts = append(sc.Acts, send(i, false))
		}
		n := r.Range(2, 8)
		for k := 0; k < n; k++ {
			switch r.Pick(5, 2, 3, 1, 1) {
			case 0:
				sc.Acts = append(sc.Acts, Action{Op: "next"})
			case 1:
				sc.Acts = append(sc.Acts, Action{Op: "cancel", I: r.Intn(sc.N)})
			case 2:
				sc.Acts = append(sc.Acts, send(r.Intn(sc.N), false))
			case 3:
				sc.Acts = append(sc.Acts, try(r.Intn(sc.N), false))
			case 4:
				sc.Acts = append(sc.Acts, sclose(r, r.Bool()))
			}
		}
	case 3: // context expiry at every point, retries with a live context afterwards
		n := r.Range(3, 10)
		for k := 0; k < n; k++ {
			switch r.Pick(4, 4, 3, 3, 1) {
			case 0:
				sc.Acts = append(sc.Acts, send(r.Intn(sc.N), r.Chance(1, 4)))
			case 1:
				sc.Acts = append(sc.Acts, Action{Op: "next", C: r.Chance(1, 3)})
			case 2:
				sc.Acts = append(sc.Acts, Action{Op: "cancelnext"}, Action{Op: "next"})
			case 3:
				i := r.Intn(sc.N)
				sc.Acts = append(sc.Acts, Action{Op: "cancel", I: i}, send(i, false))
			case 4:
				sc.Acts = append(sc.Acts, sclose(r, r.Bool()))
			}
		}
		sc.Acts = append(sc.Acts, sclose(r, r.Bool()), Action{Op: "next"}, Action{Op: "next"}, Action{Op: "next"})
	case 4: // close races: senders blocked on a full buffer / waiting receiver, then Close(err)
		for j := 0; j < sc.B+r.Range(1, sc.N); j++ {
			sc.Acts = append(sc.Acts, send(j%sc.N, false))
		}
		if r.Bool() {
			sc.Acts = append(sc.Acts, Action{Op: "next"})
		}
		sc.Acts = append(sc.Acts, sclose(r, r.Chance(2, 3)))
		for j := 0; j < sc.B+3; j++ {
			sc.Acts = append(sc.Acts, Action{Op: "next"})
		}
	case 5: // malformed stream: calls after either Close, pre-expired contexts, TrySend on a full buffer
		for j := 0; j < sc.B+1; j++ {
			sc.Acts = append(sc.Acts, try(r.Intn(sc.N), r.Chance(1, 5)))
		}
		if r.Bool() {
			sc.Acts = append(sc.Acts, Action{Op: "rclose"})
		} else {
			sc.Acts = append(sc.Acts, sclose(r, r.Bool()))
		}
		n := r.Range(2, 7)
		for k := 0; k < n; k++ {
			switch r.Pick(3, 3, 3, 1, 1) {
			case 0:
				sc.Acts = append(sc.Acts, send(r.Intn(sc.N), r.Chance(1, 3)))
			case 1:
				sc.Acts = append(sc.Acts, try(r.Intn(sc.N), r.Chance(1, 3)))
			case 2:
				sc.Acts = append(sc.Acts, Action{Op: "next", C: r.Chance(1, 3)})
			case 3:
				sc.Acts = append(sc.Acts, Action{Op: "rclose"})
			case 4:
				sc.Acts = append(sc.Acts, sclose(r, r.Bool()))
			}
		}
	case 7: // after the end: some values, Close(nil | err), read until the end was reported, then TrySend (room
		// in the buffer or not, live or expired context) and Next again, several times
		sc.B = bs[r.Intn(len(bs))]
		k := 0
		if sc.B > 0 {
			k = r.Intn(sc.B + 1)
		}
		for j := 0; j < k; j++ {
			if r.Bool() {
				sc.Acts = append(sc.Acts, try(r.Intn(sc.N), false))
			} else {
				sc.Acts = append(sc.Acts, send(r.Intn(sc.N), false))
			}
		}
		sc.Acts = append(sc.Acts, sclose(r, r.Chance(1, 3)))
		for j := 0; j < k+1; j++ {
			sc.Acts = append(sc.Acts, Action{Op: "next"})
		}
		for j := r.Range(1, 3); j > 0; j-- {
			sc.Acts = append(sc.Acts, try(r.Intn(sc.N), r.Chance(1, 8)))
			if r.Chance(1, 4) {
				sc.Acts = append(sc.Acts, try(r.Intn(sc.N), false))
			}
			sc.Acts = append(sc.Acts, Action{Op: "next", C: r.Chance(1, 10)})
			if r.Chance(1, 3) {
				sc.Acts = append(sc.Acts, Action{Op: "next"})
			}
		}
	case 6: // receiver walks away while senders are blocked
		for j := 0; j < sc.B+sc.N; j++ {
			sc.Acts = append(sc.Acts, send(j%sc.N, false))
		}
		if r.Bool() {
			sc.Acts = append(sc.Acts, Action{Op: "next"})
		}
		sc.Acts = append(sc.Acts, Action{Op: "rclose"})
		for i := 0; i < sc.N; i++ {
			if r.Bool() {
				sc.Acts = append(sc.Acts, send(i, false))
			} else {
				sc.Acts = append(sc.Acts, try(i, false))
			}
		}
		if r.Bool() {
			sc.Acts = append(sc.Acts, sclose(r, r.Bool()))
		}
	}
	// one scenario in four: the calls that are given a live context get one that can never expire
	// (all of them, or each with probability 1/2)
	if r.Chance(1, 4) {
		res.Count("never-expiring-contexts")
		all := r.Bool()
		for i := range sc.Acts {
			a := &sc.Acts[i]
			if (a.Op == "send" || a.Op == "try" || a.Op == "next") && !a.C && (all || r.Bool()) {
				a.NX = true
			}
		}
	}
	return sc
}

// directedNeverExpiring: Send / TrySend / Next calls whose context can never expire (Background, TODO,
// WithValue, WithoutCancel), parked on a full buffer or on an unbuffered pipe without a reader, then each
// way the text names for such a call to return: the receiver closes, the sender closes (nil / error), a
// value becomes available / is taken; and the same calls started after the Close.
func directedNeverExpiring() []Scenario {
	var out []Scenario
	for _, b := range []int{0, 1, 2} {
		for _, extra := range []int{1, 2} {
			for _, end := range []string{"rclose", "sclose", "sclose-err", "next"} {
				for _, first := range []bool{false, true} {
					sc := Scenario{N: 2, B: b}
					v := 100
					var sends []Action
					for j := 0; j < b; j++ { // fills the buffer
						v++
						sends = append(sends, Action{Op: "send", I: 0, V: v, NX: true})
					}
					for j := 0; j < extra; j++ { // parked
						v++
						sends = append(sends, Action{Op: "send", I: j, V: v, NX: true})
					}
					var fin Action
					switch end {
					case "rclose":
						fin = Action{Op: "rclose"}
					case "sclose":
						fin = Action{Op: "sclose"}
					case "sclose-err":
						fin = Action{Op: "sclose", C: true}
					case "next":
						fin = Action{Op: "next", NX: true}
					}
					if first {
						sc.Acts = append(append(sc.Acts, fin), sends...)
					} else {
						sc.Acts = append(append(sc.Acts, sends...), fin)
					}
					sc.Acts = append(sc.Acts, Action{Op: "try", I: 1, V: 901, NX: true}, Action{Op: "next", NX: true}, Action{Op: "next", NX: true})
					out = append(out, sc)
				}
			}
		}
	}
	return out
}

// directedTryAfterEnd: `send x k; sclose; next x (k+1)` - the last Next reports the end (or the close
// error) with nothing in flight - then TrySend (once or twice, by the same or by another sender) and two
// more Next calls.
func directedTryAfterEnd() []Scenario {
	var out []Scenario
	for _, b := range []int{0, 1, 2, 8} {
		for _, withErr := range []bool{false, true} {
			for k := 0; k <= 2 && k <= b; k++ {
				for tries := 1; tries <= 2; tries++ {
					sc := Scenario{N: 2, B: b}
					for j := 0; j < k; j++ {
						sc.Acts = append(sc.Acts, Action{Op: "send", I: 0, V: 101 + j})
					}
					sc.Acts = append(sc.Acts, Action{Op: "sclose", C: withErr})
					for j := 0; j < k+1; j++ {
						sc.Acts = append(sc.Acts, Action{Op: "next"})
					}
					for j := 0; j < tries; j++ {
						sc.Acts = append(sc.Acts, Action{Op: "try", I: j, V: 901 + j})
					}
					sc.Acts = append(sc.Acts, Action{Op: "next"}, Action{Op: "next"})
					out = append(out, sc)
				}
			}
		}
	}
	return out
}

func nontrivial(tr Trace) bool {
	vals, ctl := 0, 0
	for _, s := range tr {
		for _, d := range s.Done {
			if strings.HasPrefix(d, "n=v") {
				vals++
			}
		}
		switch s.Act.Op {
		case "sclose", "rclose", "cancel", "cancelnext":
			ctl++
		}
	}
	return len(tr) >= 4 && vals >= 1 && ctl >= 1
}

// ---------------------------------------------------------------------------------------------
// checking one scenario

type Case struct {
	Scenario []string `json:"scenario"`
	Trace    []string `json:"trace,omitempty"`
	Kind     string   `json:"kind,omitempty"`
}

type checker struct {
	t       *testing.T
	res     *vlib.Result
	m       *vlib.Model
	repeats int
	// lim: at most 2 shrunk reports per kind and 14 per kind-prefix class (own kinds / c08-), so that
	// the own kinds can never use up the room of the c08- kinds or vice versa
	lim *vlib.ClassLimiter
}

func traceLines(tr Trace) []string {
	out := make([]string, len(tr))
	for i, s := range tr {
		out[i] = s.Line()
	}
	return out
}

func modelLines(tr Trace) []string {
	out := make([]string, len(tr))
	for i, s := range tr {
		out[i] = s.ModelLine()
	}
	return out
}

// failsWith reports whether some run of sc (out of tries) violates a clause of the given kind.
func (c *checker) failsWith(sc Scenario, kind string, tries int) (Trace, Finding, bool) {
	for i := 0; i < tries; i++ {
		tr, _ := runOnce(c.t, sc)
		for _, f := range monitor(sc, tr) {
			if f.Kind == kind {
				return tr, f, true
			}
		}
	}
	return nil, Finding{}, false
}

func params(sc Scenario, tr Trace) map[string]interface{} {
	p := map[string]interface{}{"buffer": sc.B, "senders": sc.N}
	for _, s := range tr {
		if s.Act.Op == "sclose" {
			p["close_err"] = s.Act.C
			if s.Act.K > 0 {
				p["close_err_kind"] = closeKinds[s.Act.K]
			}
		}
	}
	return p
}

func (c *checker) conform(sc Scenario, traces []Trace) {
	if c.m == nil || len(traces) == 0 {
		return
	}
	var cases [][]string
	for _, tr := range traces {
		cases = append(cases, append([]string{fmt.Sprintf("cfg %d %d", sc.N, sc.B)}, modelLines(tr)...))
	}
	outs, err := c.m.RunMany(cases)
	if err != nil {
		c.res.ModelMissing = err.Error()
		c.m = nil
		return
	}
	for k, out := range outs {
		c.res.Traces++
		for j, o := range out {
			if strings.HasPrefix(o, "ok") {
				continue
			}
			c.res.Fail(vlib.Failure{Source: "correspondence", Kind: "pipe-model-refuses-trace",
				Params: map[string]interface{}{"buffer": sc.B, "senders": sc.N},
				What:   fmt.Sprintf("the Lean LTS allows no schedule for observed line %d %q: %s", j, cases[k][j], o),
				Case:   Case{Scenario: sc.Lines(), Trace: traceLines(traces[k])}})
			break
		}
	}
}

func (c *checker) check(sc Scenario) {
	seen := map[string]bool{}
	var traces []Trace
	nt := false
	for i := 0; i < c.repeats; i++ {
		tr, stuck := runOnce(c.t, sc)
		if len(stuck) > 0 {
			c.res.Count("calls-stuck-after-cleanup")
		}
		k := tr.Key()
		if seen[k] {
			continue
		}
		seen[k] = true
		traces = append(traces, tr)
		nt = nt || nontrivial(tr)
		for _, f := range monitor(sc, tr) {
			c.report(sc, tr, f)
		}
	}
	c.res.CountN("distinct-traces", len(traces))
	if len(traces) > 1 {
		c.res.Count("scenarios-with-a-real-race")
	}
	if len(traces) > 0 {
		c.res.CountN("steps", len(traces[0]))
		c.res.Count(fmt.Sprintf("buffer-%d", sc.B))
		c.res.Count(fmt.Sprintf("senders-%d", sc.N))
		for _, s := range traces[0] {
			c.res.Count("act-" + s.Act.Op)
			if s.Act.Op == "sclose" && s.Act.C {
				c.res.Count("close-error-" + map[bool]string{true: closeKinds[s.Act.K], false: "own"}[s.Act.K > 0])
			}
			for _, d := range s.Done {
				c.res.Count("result-" + strings.TrimRight(d[strings.Index(d, "=")+1:], "0123456789"))
			}
		}
	}
	var sample interface{}
	if len(traces) > 0 {
		sample = traceLines(traces[0])
	}
	c.res.Case(strings.Join(sc.Lines(), ";"), nt, sample)
	c.conform(sc, traces)
}

func (c *checker) report(sc Scenario, tr Trace, f Finding) {
	key := f.Kind + fmt.Sprint(params(sc, tr))
	if c.res.Extra["reported-"+key] != nil {
		return
	}
	c.res.Extra["reported-"+key] = true
	if !c.lim.Admit("monitor", f.Kind) {
		return
	}
	small := sc
	small.Acts = vlib.Shrink(sc.Acts, func(as []Action) bool {
		_, _, ok := c.failsWith(Scenario{N: sc.N, B: sc.B, Acts: as}, f.Kind, 40)
		return ok
	})
	str, sf, ok := c.failsWith(small, f.Kind, 200)
	if !ok {
		small, str, sf = sc, tr, f
	}
	c.res.Fail(vlib.Failure{Source: "monitor", Kind: f.Kind, Params: params(small, str), What: sf.What,
		Case: Case{Scenario: small.Lines(), Trace: traceLines(str), Kind: f.Kind}})
}

// staticallyDropped: the last action of the script is illegal whatever the schedule.
func staticallyDropped(sc Scenario) bool {
	sclosed, rclosed, nexts, sends := false, false, 0, make([]int, sc.N)
	for k, a := range sc.Acts {
		last := k == len(sc.Acts)-1
		switch a.Op {
		case "send", "try":
			sends[a.I]++
		case "next":
			if rclosed {
				return last
			}
			nexts++
		case "cancel":
			if sends[a.I] == 0 {
				return last
			}
		case "cancelnext":
			if nexts == 0 {
				return last
			}
		case "sclose":
			if sclosed {
				return last
			}
			sclosed = true
		case "rclose":
			if rclosed {
				return last
			}
			rclosed = true
		}
	}
	return false
}

// exhaustive enumerates every script of at most maxLen actions over the action alphabet of n
// senders (values are assigned in call order) and checks each with the given repeats.
func (c *checker) exhaustive(n, b, maxLen int, deadline time.Time) bool {
	// the error of `sclose 1`: the harness's own value on unbuffered pipes, context.Canceled itself on
	// the buffered one-sender space, an error wrapping it on the buffered two-sender space
	closeKind := 0
	if b > 0 {
		closeKind = n
	}
	type tmpl struct {
		op   string
		i    int
		flag bool
	}
	var alpha []tmpl
	for i := 0; i < n; i++ {
		alpha = append(alpha, tmpl{"send", i, false}, tmpl{"try", i, false}, tmpl{"cancel", i, false})
	}
	alpha = append(alpha, tmpl{"send", 0, true}, tmpl{"next", 0, false}, tmpl{"next", 0, true}, tmpl{"cancelnext", 0, false},
		tmpl{"sclose", 0, false}, tmpl{"sclose", 0, true}, tmpl{"rclose", 0, false})
	idx := make([]int, 0, maxLen)
	complete := true
	var rec func() bool
	rec = func() bool {
		if len(idx) > 0 {
			if time.Now().After(deadline) {
				complete = false
				return false
			}
			sc := Scenario{N: n, B: b}
			nv := make([]int, n)
			for _, k := range idx {
				t := alpha[k]
				a := Action{Op: t.op, I: t.i, C: t.flag}
				if t.op == "sclose" && t.flag {
					a.K = closeKind
				}
				if t.op == "send" || t.op == "try" {
					nv[t.i]++
					a.V = (t.i+1)*100 + nv[t.i]
				}
				sc.Acts = append(sc.Acts, a)
			}
			// scripts with an action that is dropped under every schedule are covered by a shorter script
			if staticallyDropped(sc) {
				return true
			}
			c.res.Count("exhaustive-scripts")
			c.check(sc)
		}
		if len(idx) == maxLen {
			return true
		}
		for k := range alpha {
			idx = append(idx, k)
			ok := rec()
			idx = idx[:len(idx)-1]
			if !ok {
				return false
			}
		}
		return true
	}
	rec()
	return complete
}

// ---------------------------------------------------------------------------------------------

func TestVerif(t *testing.T) {
	env := vlib.GetEnv()
	res := vlib.NewResult("C10", "scenario scripts of environment actions (8 generator modes: random mix, fill-close-drain, rendez-vous, context expiry with retries, "+
		"close races, calls after Close / pre-expired contexts, receiver walks away, TrySend after the end was reported; 1-3 senders, buffer 0/1/2/5) plus the corpus, each repeated so that both outcomes "+
		"of select races show, followed by two real-threads stress phases in child processes (mixed TrySend / Send / drain rounds whose stuck call trips the runtime's deadlock detector; the sender's Close racing up to 3000 parked Sends and a reading receiver) and a real-threads outcome phase (8 small pre/par/post races per seed, e.g. TrySend racing Close(err) with a Next started before, whose observed result tuples must belong to the outcome set the Lean LTS computes for the scenario); a case is non-trivial if its trace has >= 4 executed actions, delivers >= 1 value and contains a Close or a context expiry; "+
		"distinct = different script. thorough adds every script of <= 5 (1 sender, buffer 0 and 1) / <= 4 (2 senders, buffer 0 and 1) actions")
	defer func() { res.Write(env.Out) }()
	m, err := vlib.StartModel(env.Driver, "pipe")
	if err != nil {
		res.ModelMissing = err.Error()
		m = nil
	}
	defer m.Close()
	c := &checker{t: t, res: res, m: m, repeats: 12, lim: vlib.NewClassLimiter(2, 14)}
	if env.Thorough() || env.Deep {
		c.repeats = 30
	}

	if env.Replay != "" {
		var cs Case
		if err := vlib.ReplayCase(env.Replay, &cs); err != nil {
			t.Fatalf("cannot read replay: %v", err)
		}
		if len(cs.Scenario) == 1 && strings.HasPrefix(cs.Scenario[0], "stress outcome ") {
			cfg, _ := parseStressCfg(cs.Scenario[0])
			replayOutcome(env, cfg)
			return
		}
		if len(cs.Scenario) == 1 && strings.HasPrefix(cs.Scenario[0], "stress ") {
			replayStress(cs)
			return
		}
		if csc, ok := parseCScenario(cs.Scenario); ok {
			fmt.Printf("replay: %s\n", strings.Join(cs.Scenario, "; "))
			for i := 0; i < 50; i++ {
				tr := runChanOnce(t, csc)
				for _, f := range monitorChan(csc, tr) {
					if cs.Kind == "" || f.Kind == cs.Kind {
						fmt.Printf("monitor: %s\n  %s\ntrace:\n  %s\n", f.Kind, f.What, strings.Join(cTraceLines(tr), "\n  "))
						os.Exit(1)
					}
				}
			}
			fmt.Println("monitor: no clause violated in 50 runs of the scenario")
			return
		}
		sc, ok := parseScenario(cs.Scenario)
		if !ok {
			t.Fatalf("bad scenario in replay")
		}
		fmt.Printf("replay: %s\n", strings.Join(cs.Scenario, "; "))
		kinds := map[string]int{}
		var first Trace
		var firstF Finding
		const runs = 400
		for i := 0; i < runs; i++ {
			tr, _ := runOnce(t, sc)
			for _, f := range monitor(sc, tr) {
				if kinds[f.Kind] == 0 && (cs.Kind == "" || f.Kind == cs.Kind) && first == nil {
					first, firstF = tr, f
				}
				kinds[f.Kind]++
			}
		}
		if first == nil {
			fmt.Printf("monitor: no clause violated in %d runs of the scenario\n", runs)
			return
		}
		fmt.Printf("monitor: %s\n  %s\n  violated in these numbers of the %d runs: %v\ntrace:\n  %s\n", firstF.Kind, firstF.What, runs, kinds, strings.Join(traceLines(first), "\n  "))
		if m != nil {
			out, err := m.Run(append([]string{fmt.Sprintf("cfg %d %d", sc.N, sc.B)}, modelLines(first)...))
			if err == nil {
				fmt.Printf("model: %s\n", strings.Join(out, " / "))
			}
		}
		os.Exit(1)
	}

	for _, f := range vlib.CorpusFiles(env.Corpus, ".scn") {
		sc, ok := parseScenario(vlib.ReadLines(f))
		if !ok {
			t.Fatalf("bad corpus file %s", f)
		}
		res.Count("corpus")
		save := c.repeats
		c.repeats = 60
		c.check(sc)
		c.repeats = save
	}
	// directed, every run: TrySend after the end / the close error was reported (buffer 0, 1, 2, 8 x
	// Close(nil) / Close(err) x 0..2 values sent before the Close x one or two TrySends), then Next again
	for _, sc := range directedTryAfterEnd() {
		res.Count("directed-try-after-end")
		c.check(sc)
	}
	// directed, every run: calls with a context that can never expire, parked, then every way they may end
	for _, sc := range directedNeverExpiring() {
		res.Count("directed-never-expiring")
		c.check(sc)
	}
	r := vlib.NewRand(env.Seed)
	budget := time.Duration(env.BudgetMs) * time.Millisecond
	deadline := time.Now().Add(budget)
	if env.Thorough() && !raceEnabled {
		deadline = time.Now().Add(budget / 2)
	}
	maxCases := 5000
	if env.Thorough() || env.Deep {
		maxCases = 40000
	}
	cm, err := vlib.StartModel(env.Driver, "chanstream")
	if err != nil {
		cm = nil
	}
	defer cm.Close()
	for _, f := range vlib.CorpusFiles(env.Corpus, ".cscn") {
		csc, ok := parseCScenario(vlib.ReadLines(f))
		if !ok {
			t.Fatalf("bad corpus file %s", f)
		}
		res.Count("corpus")
		cm = c.checkChan(csc, cm)
	}
	for i := 0; i < maxCases && time.Now().Before(deadline); i++ {
		c.check(genScenario(r.Fork(), res))
		if i%8 == 0 { // stream.Chan: one scenario in nine
			cm = c.checkChan(genCScenario(r.Fork()), cm)
		}
	}
	// real threads, outside any bubble: check-then-act races inside one call, Close racing calls in
	// progress (stress_test.go)
	c.stress(env)
	if env.Thorough() && !raceEnabled { // the -race binary runs the random scenarios only
		c.repeats = 6
		end := time.Now().Add(budget / 2)
		ex := c.exhaustive(1, 0, 5, end) && c.exhaustive(1, 1, 5, end) && c.exhaustive(2, 0, 4, end) && c.exhaustive(2, 1, 4, end)
		res.Exhaustive = ex
	}
}
