// Real-threads stress phase of C10 ("no call blocks forever" under real parallelism).
//
// Under testing/synctest the harness issues every action at a quiescent point (synctest.Wait), and the
// goroutines of a bubble do not run in parallel: a check-then-act
// race inside one library call (two TrySend callers both seeing the last free slot of the buffer, one
// of them then sitting in a bare `s.c <- x`) never shows there. This phase runs the same clauses on
// real threads, outside any bubble:
//
//	trysend  N goroutines hammer TrySend on a buffered pipe nobody reads; every call must return
//	         ("TrySend never blocks")
//	send     N goroutines Send into a pipe nobody reads while the main goroutine closes the receiver /
//	         closes the sender / expires every context; from then on the return condition of every
//	         Send holds for good, so every call must return
//	drain    N senders Send their values, a receiver goroutine reads until Next fails; when every Send
//	         has returned nil the sender is closed (nil or an error): Next must deliver every value
//	         (per sender in order, once) and then report, and must return at all
//	outcome  (a phase of its own, third child; outcome_test.go) small pre/par/post scenarios whose result
//	         tuples must be outcomes of the Lean LTS — correspondence, not a monitor
//	closerace  (a phase of its own, second child) the sender's Close racing calls that are in
//	         progress: a few dozen to a few thousand goroutines parked in Send (the runtime's close
//	         has to wake every one of them, which takes it a while), Close(err) / Close(nil) while a
//	         receiver reads to the first report and — once every Send has returned — a few calls
//	         beyond it. See closeRaceRound for the verdicts; each can only be a true positive.
//
// "Has not returned although its condition holds" is detected without any wall-clock timeout: the
// rounds run in a child process (this test binary re-executed with VERIF_C10_STRESS_CHILD set, see
// TestMain) whose main goroutine does nothing but wait on a sync.WaitGroup for the calls of the
// round. If a call is stuck, every goroutine of the child is asleep and the Go runtime aborts it with
// "fatal error: all goroutines are asleep - deadlock!" and a goroutine dump; the parent turns that
// into a `monitor` failure (kind <call>-…-real-threads) whose case is the configuration and the round.
// The only clock in here bounds how many rounds are run; a backstop kill after 120 s of a child that
// neither finishes nor deadlocks is reported as a harness problem, never as a property violation.
package c10

import (
	"bytes"
	"context"
	"errors"
	"fmt"
	"os"
	"os/exec"
	"regexp"
	"runtime"
	"strconv"
	"strings"
	"sync"
	"sync/atomic"
	"testing"
	"time"

	"github.com/bradenaw/juniper/stream"
	"verifharness/vlib"
)

const stressEnv = "VERIF_C10_STRESS_CHILD"

func TestMain(m *testing.M) {
	if spec := os.Getenv(stressEnv); spec != "" {
		stressChild(spec) // does not return
	}
	os.Exit(m.Run())
}

// stressCfg is one round's configuration.
type stressCfg struct {
	Kind  string // trysend | send | drain | closerace | outcome (How = the encoded scenario, outcome_test.go)
	N     int    // goroutines calling TrySend / Send
	B     int    // buffer size
	Calls int    // calls per goroutine
	How   string // send: rclose | sclose | sclose-err | cancel; drain: nil | err | canceled | wrapcanceled; closerace: the same as drain, "-early" appended = the receiver reads from the start
}

func (c stressCfg) String() string {
	return fmt.Sprintf("stress %s %d %d %d %s", c.Kind, c.N, c.B, c.Calls, c.How)
}

func parseStressCfg(l string) (stressCfg, bool) {
	f := strings.Fields(l)
	if len(f) != 6 || f[0] != "stress" {
		return stressCfg{}, false
	}
	n, e1 := strconv.Atoi(f[2])
	b, e2 := strconv.Atoi(f[3])
	k, e3 := strconv.Atoi(f[4])
	if e1 != nil || e2 != nil || e3 != nil || n < 1 || n > 8000 || b < 0 || k < 1 {
		return stressCfg{}, false
	}
	return stressCfg{Kind: f[1], N: n, B: b, Calls: k, How: f[5]}, true
}

// stressCfgOf derives the configuration of round r from the seed (deterministic, so a round can be
// named in a replay).
func stressCfgOf(seed uint64, r int) stressCfg {
	rng := vlib.NewRand(seed*1000003 + uint64(r))
	switch rng.Pick(6, 2, 2) {
	case 0:
		return stressCfg{Kind: "trysend", N: []int{2, 3, 4, 8, 8}[rng.Intn(5)], B: []int{1, 1, 2, 3}[rng.Intn(4)], Calls: rng.Range(1, 2), How: "-"}
	case 1:
		return stressCfg{Kind: "send", N: rng.Range(2, 6), B: rng.Intn(3), Calls: 1,
			How: []string{"rclose", "sclose", "sclose-err", "cancel"}[rng.Intn(4)]}
	}
	return stressCfg{Kind: "drain", N: rng.Range(1, 4), B: []int{0, 1, 2, 5}[rng.Intn(4)], Calls: rng.Range(1, 6),
		How: []string{"nil", "err", "canceled", "wrapcanceled"}[rng.Intn(4)]}
}

// closeRaceCfgOf derives the configuration of round r of the closerace phase from the seed.
func closeRaceCfgOf(seed uint64, r int) stressCfg {
	rng := vlib.NewRand(seed*1000003 + 500009 + uint64(r))
	c := stressCfg{Kind: "closerace", Calls: 1}
	if rng.Chance(3, 5) {
		// the core shape: a few thousand senders parked on an unbuffered pipe that is closed with an
		// error while the receiver starts reading — the widest window between "done" and the error
		c.N = []int{1000, 2000, 3000}[rng.Intn(3)]
		c.How = []string{"err", "err", "canceled", "wrapcanceled"}[rng.Intn(4)]
		if raceEnabled {
			c.N = 1000
		}
		return c
	}
	// the other shapes: fewer senders, buffered pipes, Close(nil), a receiver that reads from the start
	c.N = []int{3000, 1000, 2000, 300, 3000, 1000, 64, 8}[rng.Intn(8)]
	c.B = []int{0, 0, 0, 0, 0, 1, 3, 0}[rng.Intn(8)]
	c.How = []string{"err", "err", "err", "err", "canceled", "wrapcanceled", "nil", "nil"}[rng.Intn(8)]
	if c.N <= 300 && rng.Chance(1, 2) {
		c.Calls = 2
	}
	if rng.Chance(1, 5) {
		c.How += "-early"
	}
	if raceEnabled && c.N > 1000 {
		c.N = 1000 // the race detector allows 8128 live goroutines and is slow
	}
	return c
}

// barrier makes n goroutines start their calls as simultaneously as the machine allows.
type barrier struct {
	left atomic.Int32
	spin bool
}

func newBarrier(n int) *barrier {
	b := &barrier{spin: n <= runtime.GOMAXPROCS(0)-1}
	b.left.Store(int32(n))
	return b
}

func (b *barrier) arrive() {
	b.left.Add(-1)
	for b.left.Load() > 0 {
		if !b.spin {
			runtime.Gosched()
		}
	}
}

// stressRound runs one round in the calling (main) goroutine of the child; it returns one
// "kind|what" per clause violated that does not involve blocking. A stuck call never returns from
// here: the runtime's deadlock detector ends the process.
func stressRound(c stressCfg) []string {
	if c.Kind == "closerace" {
		return closeRaceRound(c)
	}
	if msg := stressRoundOne(c); msg != "" {
		return []string{msg}
	}
	return nil
}

func stressRoundOne(c stressCfg) string {
	switch c.Kind {
	case "trysend":
		sender, _ := stream.Pipe[int](c.B)
		bar := newBarrier(c.N)
		var wg sync.WaitGroup
		for i := 0; i < c.N; i++ {
			wg.Add(1)
			go func(i int) {
				defer wg.Done()
				bar.arrive()
				for k := 0; k < c.Calls; k++ {
					sender.TrySend(context.Background(), i*1000+k)
				}
			}(i)
		}
		wg.Wait() // every TrySend has returned
	case "send":
		sender, recv := stream.Pipe[int](c.B)
		bar := newBarrier(c.N + 1)
		var wg sync.WaitGroup
		cancels := make([]context.CancelFunc, c.N)
		for i := 0; i < c.N; i++ {
			ctx, cancel := context.WithCancel(context.Background())
			cancels[i] = cancel
			wg.Add(1)
			go func(i int) {
				defer wg.Done()
				bar.arrive()
				sender.Send(ctx, i*1000)
			}(i)
		}
		bar.arrive()
		switch c.How { // from here on every Send's return condition holds for good
		case "rclose":
			recv.Close()
		case "sclose":
			sender.Close(nil)
		case "sclose-err":
			sender.Close(errE)
		default:
			for _, cancel := range cancels {
				cancel()
			}
		}
		wg.Wait() // every Send has returned
		for _, cancel := range cancels {
			cancel()
		}
	case "drain":
		sender, recv := stream.Pipe[int](c.B)
		bar := newBarrier(c.N + 1)
		var swg, rwg sync.WaitGroup
		var sendErr atomic.Value
		for i := 0; i < c.N; i++ {
			swg.Add(1)
			go func(i int) {
				defer swg.Done()
				bar.arrive()
				for k := 0; k < c.Calls; k++ {
					if err := sender.Send(context.Background(), i*1000+k); err != nil {
						sendErr.Store(fmt.Sprintf("Send(%d) returned %v although nothing was closed or cancelled", i*1000+k, err))
						return
					}
				}
			}(i)
		}
		var got []int
		var last error
		rwg.Add(1)
		go func() {
			defer rwg.Done()
			bar.arrive()
			for {
				v, err := recv.Next(context.Background())
				if err != nil {
					last = err
					return
				}
				got = append(got, v)
			}
		}()
		swg.Wait() // every Send has returned nil: acknowledged before the Close below
		var cerr error
		switch c.How {
		case "err":
			cerr = errE
		case "canceled":
			cerr = context.Canceled
		case "wrapcanceled":
			cerr = fmt.Errorf("sender: upstream read: %w", context.Canceled)
		}
		sender.Close(cerr)
		rwg.Wait() // Next has reported
		recv.Close()
		if m := sendErr.Load(); m != nil {
			return "" // not a clause of the property (what Send returns is tied by the conformance)
		}
		seen := map[int]bool{}
		lastOf := map[int]int{}
		for _, v := range got {
			if seen[v] {
				return fmt.Sprintf("pipe-duplicate-real-threads|Next returned %d twice", v)
			}
			seen[v] = true
			i, k := v/1000, v%1000
			if i < 0 || i >= c.N || k >= c.Calls {
				return fmt.Sprintf("pipe-unsent-value-real-threads|Next returned %d which no Send was called with", v)
			}
			if p, ok := lastOf[i]; ok && k < p {
				return fmt.Sprintf("pipe-order-real-threads|sender %d's value #%d was delivered after its #%d", i, k, p)
			}
			lastOf[i] = k
		}
		if len(got) != c.N*c.Calls {
			return fmt.Sprintf("pipe-lost-before-end-real-threads|every Send returned nil before the sender's Close, Next reported %v after %d of %d values", last, len(got), c.N*c.Calls)
		}
		if cerr == nil && last != stream.End {
			return fmt.Sprintf("pipe-end-real-threads|sender closed with nil, Next reported %v", last)
		}
		if cerr != nil && last != cerr && !errors.Is(last, cerr) {
			return fmt.Sprintf("c08-pipe-error-not-reported-real-threads|sender closed with %q, Next reported %v", cerr, last)
		}
	}
	return ""
}

// closeRaceRound: the sender's Close racing Sends that are in progress and a receiver that is reading.
//
// N goroutines call Send (Calls values each, value = sender*Calls + k) on a pipe with buffer B; the
// main goroutine waits until all of them have reached their first Send and gives them a moment to
// park inside it (this pause only widens the window, no verdict depends on it), then calls
// Close(cerr). The receiver goroutine starts reading at that moment ("-early": from the start), reads
// to the first report R1 (Next's first non-nil error), waits until every Send has returned — from
// then on no Send is in flight and none is ever started again — and calls Next until it has three
// more reports. Two flags order a Send's return against Close without a clock: each sender loads
// closeCalled (stored by main just before it calls Close) and closeReturned (stored just after Close
// returned) *after* its Send has returned; a flag still false proves that the Send returned before
// Close was called / before Close returned.
//
// Verdicts (none can fire on code that keeps the property, whatever the schedule):
//
//	pipe-duplicate / pipe-unsent-value / pipe-order  (-real-threads) on everything Next returned
//	pipe-lost-before-end-real-threads   a value whose Send returned nil before Close was even called is
//	        not among the values delivered before R1; on an unbuffered pipe closed with an error: a value
//	        whose Send returned nil before Close had returned (a nil from an unbuffered pipe's Send is a
//	        hand-over to a Next call, or — after Close(nil) only — the stored nil error) was never
//	        delivered although the receiver read on to the report and beyond
//	c08-pipe-error-not-reported-real-threads  the sender was closed with cerr != nil (and never with
//	        nil) and R1 is End or another error;  pipe-end-real-threads: closed with nil, R1 is not End
//	pipe-end-not-sticky-real-threads    a report made with no Send in flight and none started since
//	        differs from R1 or from an earlier report of that period, or is followed by a value; on an
//	        unbuffered pipe also: any value follows R1 (there neither side can park after the Close, so
//	        no hand-over is possible; a buffered pipe may still hold values of Sends that raced the Close)
//
// A Send or Next that never returns leaves every goroutine asleep: the runtime's deadlock detector.
func closeRaceRound(c stressCfg) []string {
	how, early := strings.CutSuffix(c.How, "-early")
	var cerr error
	switch how {
	case "err":
		cerr = errE
	case "canceled":
		cerr = context.Canceled
	case "wrapcanceled":
		cerr = fmt.Errorf("sender: upstream read: %w", context.Canceled)
	}
	sender, recv := stream.Pipe[int](c.B)
	total := c.N * c.Calls
	const (
		notReturned = iota
		nilBeforeCloseCalled
		nilBeforeCloseReturned
		nilLater
		closeError
		otherError
	)
	outcome := make([]uint8, total) // slot v is written by the sender of v only
	var closeCalled, closeReturned atomic.Bool
	var atSend atomic.Int32
	var swg, rwg sync.WaitGroup
	bg := context.Background()
	for i := 0; i < c.N; i++ {
		swg.Add(1)
		go func(i int) {
			defer swg.Done()
			atSend.Add(1)
			for k := 0; k < c.Calls; k++ {
				v := i*c.Calls + k
				err := sender.Send(bg, v)
				switch {
				case err == nil && !closeCalled.Load():
					outcome[v] = nilBeforeCloseCalled
				case err == nil && !closeReturned.Load():
					outcome[v] = nilBeforeCloseReturned
				case err == nil:
					outcome[v] = nilLater
				case err == cerr:
					outcome[v] = closeError
				default:
					outcome[v] = otherError
				}
				if err != nil {
					return
				}
			}
		}(i)
	}
	type obs struct {
		v   int
		err error
	}
	var got []int  // delivered before the first report
	var r1 error   // the first report
	var post []obs // what Next returned once no Send was in flight any more
	startRecv := make(chan struct{})
	rwg.Add(1)
	go func() {
		defer rwg.Done()
		<-startRecv
		for {
			v, err := recv.Next(bg)
			if err != nil {
				r1 = err
				break
			}
			got = append(got, v)
		}
		swg.Wait() // every Send has returned; none is ever started again
		for reports := 0; reports < 3 && len(post) < total+3; {
			v, err := recv.Next(bg)
			post = append(post, obs{v, err})
			if err != nil {
				reports++
			}
		}
	}()
	if early {
		close(startRecv)
	}
	spawn := time.Now()
	for atSend.Load() < int32(c.N) {
		runtime.Gosched()
	}
	// let the senders park inside Send — about as long as it took all of them to get going, so that a
	// loaded machine gets more time; only the width of the window depends on it, never a verdict
	park := time.Since(spawn)
	if floor := time.Duration(c.N) * time.Microsecond; park < floor {
		park = floor
	}
	if park > 10*time.Millisecond {
		park = 10 * time.Millisecond
	}
	time.Sleep(park)
	if !early {
		close(startRecv)
	}
	closeCalled.Store(true)
	sender.Close(cerr)
	closeReturned.Store(true)
	rwg.Wait() // Next has reported, every Send has returned, Next has reported three more times
	swg.Wait()
	recv.Close()

	var out []string
	fail := func(kind, format string, a ...interface{}) {
		for _, o := range out {
			if strings.HasPrefix(o, kind+"|") {
				return
			}
		}
		out = append(out, kind+"|"+fmt.Sprintf(format, a...))
	}
	closedWith := "nil"
	if cerr != nil {
		closedWith = fmt.Sprintf("%q", cerr)
	}
	shape := fmt.Sprintf("%d senders x %d Send, buffer %d, Close(%s)", c.N, c.Calls, c.B, closedWith)
	// values: only sent ones, at most once, each sender's in order
	seen := make([]bool, total)
	beforeR1 := make([]bool, total)
	lastOf := map[int]int{}
	all := append([]int{}, got...)
	for _, o := range post {
		if o.err == nil {
			all = append(all, o.v)
		}
	}
	for n, v := range all {
		if v < 0 || v >= total {
			fail("pipe-unsent-value-real-threads", "%s: Next returned %d which no Send was called with", shape, v)
			continue
		}
		if seen[v] {
			fail("pipe-duplicate-real-threads", "%s: Next returned %d twice", shape, v)
		}
		seen[v] = true
		if n < len(got) {
			beforeR1[v] = true
		}
		i, k := v/c.Calls, v%c.Calls
		if p, ok := lastOf[i]; ok && k < p {
			fail("pipe-order-real-threads", "%s: sender %d's value #%d was delivered after its #%d", shape, i, k, p)
		}
		lastOf[i] = k
	}
	// nothing acknowledged before the Close is lost
	for v, oc := range outcome {
		switch {
		case oc == nilBeforeCloseCalled && !beforeR1[v]:
			fail("pipe-lost-before-end-real-threads", "%s: Send(%d) returned nil before Close was called, but Next reported %v after %d values without having delivered it", shape, v, r1, len(got))
		case oc == nilBeforeCloseReturned && c.B == 0 && cerr != nil && !seen[v]:
			fail("pipe-lost-before-end-real-threads", "%s: Send(%d) returned nil before Close(%s) had returned — on an unbuffered pipe that is a hand-over to the receiver — but the value was never delivered, although the receiver read on until Next reported %v (after %d values) and %d calls beyond", shape, v, closedWith, r1, len(got), len(post))
		}
	}
	// the report itself
	if cerr != nil && r1 != cerr {
		fail("c08-pipe-error-not-reported-real-threads", "%s: the sender was closed with %s (never with nil), Next reported %v after %d values", shape, closedWith, r1, len(got))
	}
	if cerr == nil && r1 != stream.End {
		fail("pipe-end-real-threads", "%s: sender closed with nil, Next reported %v", shape, r1)
	}
	// once reported, keeps being reported (no Send in flight, none started since)
	var quiet error
	for n, o := range post {
		switch {
		case o.err == nil && c.B == 0:
			fail("pipe-end-not-sticky-real-threads", "%s: Next reported %v; after every Send had returned (none in flight, none started since) call %d of Next returned the value %d", shape, r1, n+1, o.v)
		case o.err == nil && quiet != nil:
			fail("pipe-end-not-sticky-real-threads", "%s: with no Send in flight and none started since, Next reported %v and then returned the value %d", shape, quiet, o.v)
		case o.err != nil && quiet != nil && o.err != quiet:
			fail("pipe-end-not-sticky-real-threads", "%s: with no Send in flight and none started since, Next reported %v and then %v", shape, quiet, o.err)
		case o.err != nil && quiet == nil && o.err != r1:
			// (whatever the buffer: the reports of one pipe are one stored value — End or the close error)
			fail("pipe-end-not-sticky-real-threads", "%s: Next reported %v after %d values while Sends released by the Close were still returning; once every Send had returned (none in flight, none started since) Next reported %v", shape, r1, len(got), o.err)
		}
		if o.err != nil && quiet == nil {
			quiet = o.err
		}
	}
	return out
}

// stressChild: spec = "<seed> <rounds> <ms> <fixed cfg | - | closerace>". Prints "round <r> <cfg>"
// before every round, one "FAIL kind|what" per non-blocking clause violated in it, "done <rounds>" at
// the end; exit 3 if any round failed, 0 otherwise. "-": the mixed rounds of stressCfgOf; "closerace": the rounds of closeRaceCfgOf.
func stressChild(spec string) {
	f := strings.SplitN(spec, " ", 4)
	if len(f) != 4 {
		fmt.Println("BAD spec")
		os.Exit(4)
	}
	seed, _ := strconv.ParseUint(f[0], 10, 64)
	rounds, _ := strconv.Atoi(f[1])
	ms, _ := strconv.Atoi(f[2])
	fixed, isFixed := parseStressCfg(f[3])
	if runtime.GOMAXPROCS(0) < 4 {
		runtime.GOMAXPROCS(4) // the races need goroutines that really run at the same time
	}
	if f[3] == "outcome" || (isFixed && fixed.Kind == "outcome") {
		outcomeChild(seed, rounds, ms, fixed, isFixed) // does not return
	}
	start := time.Now()
	r, failing := 0, 0
	for ; r < rounds && time.Since(start) < time.Duration(ms)*time.Millisecond; r++ {
		c := fixed
		switch {
		case isFixed:
		case f[3] == "closerace":
			c = closeRaceCfgOf(seed, r)
		default:
			c = stressCfgOf(seed, r)
		}
		fmt.Fprintf(os.Stdout, "round %d %s\n", r, c)
		if msgs := stressRound(c); len(msgs) > 0 {
			for _, msg := range msgs {
				fmt.Fprintf(os.Stdout, "FAIL %s\n", msg)
			}
			failing++
			// A fixed configuration stops at its first violating round. The mixed rounds go on: the
			// kinds one round can show depend on its shape (buffered rounds show only the c08- clause),
			// and a failure of one kind-prefix class must not keep the rounds that show another class
			// from being run.
			if isFixed || failing >= 12 {
				break
			}
		}
	}
	fmt.Fprintf(os.Stdout, "done %d procs %d\n", r, runtime.GOMAXPROCS(0))
	if failing > 0 {
		os.Exit(3)
	}
	os.Exit(0)
}

// ---------------------------------------------------------------------------------------------
// parent side

type stressOutcome struct {
	rounds   int
	procs    int
	lastCfg  stressCfg
	lastR    int
	kind     string // "" = clean; the first finding
	what     string
	finds    []stressFind // the first finding of every kind
	dump     []string
	harness  string // non-empty: the child could not be run / ended in a way that is not a verdict
	stdout   string
	perKind  map[string]int
	duration time.Duration
}

// stressFind: one violated clause, with the configuration and round that showed it.
type stressFind struct {
	kind, what string
	cfg        stressCfg
	round      int
}

func (o *stressOutcome) add(kind, what string) {
	for _, f := range o.finds {
		if f.kind == kind {
			return
		}
	}
	o.finds = append(o.finds, stressFind{kind, what, o.lastCfg, o.lastR})
	if o.kind == "" {
		o.kind, o.what = kind, what
	}
}

var stuckFrame = regexp.MustCompile(`juniper/stream\.\(\*(\w+)\[[^\]]*\]\)\.(\w+)`)

func runStressChild(seed uint64, rounds, ms int, fixed string) stressOutcome {
	o := stressOutcome{perKind: map[string]int{}, lastR: -1}
	self, err := os.Executable()
	if err != nil {
		self = os.Args[0]
	}
	cmd := exec.Command(self, "-test.run=^$")
	cmd.Env = append(os.Environ(), fmt.Sprintf("%s=%d %d %d %s", stressEnv, seed, rounds, ms, fixed))
	var stdout, stderr bytes.Buffer
	cmd.Stdout, cmd.Stderr = &stdout, &stderr
	start := time.Now()
	if err := cmd.Start(); err != nil {
		o.harness = "cannot start the stress child: " + err.Error()
		return o
	}
	backstop := time.AfterFunc(120*time.Second+time.Duration(ms)*time.Millisecond, func() { cmd.Process.Kill() })
	err = cmd.Wait()
	killed := !backstop.Stop()
	o.duration = time.Since(start)
	o.stdout = stdout.String()
	failed := false
	for _, l := range strings.Split(stdout.String(), "\n") {
		switch {
		case strings.HasPrefix(l, "round "):
			f := strings.SplitN(l, " ", 3)
			if len(f) == 3 {
				if c, ok := parseStressCfg(f[2]); ok {
					o.lastR, _ = strconv.Atoi(f[1])
					o.lastCfg = c
					o.perKind[c.Kind]++
					o.rounds++
				}
			}
		case strings.HasPrefix(l, "done "):
			f := strings.Fields(l)
			if len(f) >= 4 {
				o.procs, _ = strconv.Atoi(f[3])
			}
		case strings.HasPrefix(l, "FAIL "):
			failed = true
			p := append(strings.SplitN(strings.TrimPrefix(l, "FAIL "), "|", 2), "")
			what := p[1]
			if o.lastCfg.Kind == "closerace" {
				what = fmt.Sprintf("round %d (%s): %s", o.lastR, o.lastCfg, p[1])
			}
			o.add(p[0], what)
		}
	}
	switch {
	case killed:
		o.harness = fmt.Sprintf("the stress child neither finished nor deadlocked within the backstop (last: round %d %s)", o.lastR, o.lastCfg)
	case err == nil:
	case failed && cmd.ProcessState != nil && cmd.ProcessState.ExitCode() == 3:
		// rounds that violated a non-blocking clause; the child ran on and ended by itself
	case strings.Contains(stderr.String(), "all goroutines are asleep - deadlock!"):
		// which call is stuck: the innermost juniper/stream frame of a blocked goroutine
		call := ""
		for _, g := range strings.Split(stderr.String(), "\n\n") {
			if !strings.HasPrefix(g, "goroutine ") {
				continue
			}
			lines := strings.Split(g, "\n")
			for _, l := range lines {
				if m := stuckFrame.FindStringSubmatch(l); m != nil {
					o.dump = append(o.dump, lines[0]+" "+m[1]+"."+m[2])
					if call == "" {
						call = m[2]
					}
					break
				}
			}
		}
		stuck := "call-stuck-real-threads"
		switch call {
		case "TrySend":
			stuck = "trysend-blocked-real-threads"
		case "Send":
			stuck = "send-stuck-real-threads"
		case "Next":
			stuck = "next-stuck-real-threads"
		}
		cond := map[string]string{
			"trysend":   "TrySend must never block",
			"send":      "the receiver was closed / the sender was closed / every context had expired, so every Send had to return",
			"drain":     "every Send had returned and the sender was closed, so Next had to report",
			"closerace": "the sender was closed, so every Send and every Next had to return",
			"outcome":   "the sender was closed, so every Send, TrySend and Next had to return",
		}[o.lastCfg.Kind]
		o.add(stuck, fmt.Sprintf("round %d (%s): a call never returned — the Go runtime found every goroutine of the process asleep (%s); blocked: %s",
			o.lastR, o.lastCfg, cond, strings.Join(o.dump, "; ")))
	default:
		tail := stderr.String()
		if len(tail) > 600 {
			tail = tail[len(tail)-600:]
		}
		o.harness = fmt.Sprintf("the stress child ended with %v (last: round %d %s): %s", err, o.lastR, o.lastCfg, tail)
	}
	return o
}

// stress runs the real-threads phases and records their verdicts.
func (c *checker) stress(env vlib.Env) {
	ms, rounds := 1500, 4000
	if env.Thorough() || env.Deep {
		ms, rounds = 8000, 40000
	}
	if raceEnabled {
		rounds /= 4
	}
	c.stressPhase(env, "-", rounds, ms, "stress")
	// Close racing Sends in progress: few, heavy rounds (up to 3000 goroutines each)
	ms, rounds = 1200, 600
	if env.Thorough() || env.Deep {
		ms, rounds = 6000, 6000
	}
	c.stressPhase(env, "closerace", rounds, ms, "closerace")
	// result tuples of small races on real threads vs. the outcome sets of the Lean LTS (outcome_test.go)
	c.outcomePhase(env)
}

func (c *checker) stressPhase(env vlib.Env, mode string, rounds, ms int, tag string) {
	o := runStressChild(env.Seed, rounds, ms, mode)
	c.res.CountN(tag+"-rounds", o.rounds)
	for k, n := range o.perKind {
		if k != tag {
			c.res.CountN("stress-"+k, n)
		}
	}
	if o.procs == 1 {
		c.res.Count("stress-single-proc")
	}
	if o.harness != "" && len(o.finds) == 0 {
		c.t.Errorf("real-threads stress phase (%s): %s", tag, o.harness)
		return
	}
	// every kind found is confirmed with its configuration alone (first with the smallest racing shape
	// of it) and reported with that configuration as its case; kinds of different prefix classes (own /
	// c08-) are judged by different checks, so each gets its own failure
	confirmed := map[stressCfg]stressOutcome{}
	confirm := func(cand stressCfg) stressOutcome {
		if o2, ok := confirmed[cand]; ok {
			return o2
		}
		o2 := runStressChild(env.Seed, 60000, 6000, cand.String())
		confirmed[cand] = o2
		return o2
	}
	for n, f := range o.finds {
		if n >= 6 {
			break
		}
		best, bestF := f.cfg, f
		trace := []string{fmt.Sprintf("seed %d round %d", env.Seed, f.round)}
		cands := []stressCfg{f.cfg}
		small := stressCfg{Kind: f.cfg.Kind, N: 2, B: f.cfg.B, Calls: 1, How: f.cfg.How}
		switch small.Kind {
		case "trysend":
			small.B = 1 // two callers, one free slot
		case "closerace":
			small.N = 300 // the window is the time the runtime's close needs to wake the parked senders
		}
		if small != f.cfg && (small.Kind != "closerace" || small.N < f.cfg.N) {
			cands = append([]stressCfg{small}, cands...)
		}
		var dump []string
	search:
		for _, cand := range cands {
			o2 := confirm(cand)
			if o2.harness != "" {
				continue
			}
			for _, f2 := range o2.finds {
				if f2.kind == f.kind {
					best, bestF, dump = cand, f2, o2.dump
					trace = []string{fmt.Sprintf("this configuration alone: violated in round %d", f2.round)}
					break search
				}
			}
		}
		if dump == nil {
			dump = o.dump
		}
		c.res.Fail(vlib.Failure{Source: "monitor", Kind: f.kind,
			Params: map[string]interface{}{"buffer": best.B, "senders": best.N, "real_threads": true},
			What:   bestF.what,
			Case:   Case{Scenario: []string{best.String()}, Trace: append(trace, dump...), Kind: f.kind}})
	}
}

// replayStress re-runs a recorded real-threads case.
func replayStress(cs Case) {
	cfg, _ := parseStressCfg(cs.Scenario[0])
	fmt.Printf("replay: %s (real threads, up to 200000 rounds / 20 s)\n", cfg)
	o := runStressChild(1, 200000, 20000, cfg.String())
	switch {
	case o.harness != "":
		fmt.Println("harness:", o.harness)
		os.Exit(2)
	case o.kind == "":
		fmt.Printf("monitor: no clause violated in %d rounds\n", o.rounds)
	default:
		for _, f := range o.finds {
			fmt.Printf("monitor: %s\n  %s\n", f.kind, f.what)
		}
		os.Exit(1)
	}
}
