// Real-threads stress phase of C10 ("no call blocks forever" under real parallelism).
//
// testing/synctest runs the goroutines of a bubble under a deterministic scheduler: a check-then-act
// race inside one library call (two TrySend callers both seeing the last free slot of the buffer, one
// of them then sitting in a bare `s.c <- x`) never shows there. This phase runs the same clauses on
// real threads, outside any bubble:
//
//	trysend  N goroutines hammer TrySend on a buffered pipe nobody reads; every call must return
//	         ("TrySend never blocks")
//	send     N goroutines Send into a pipe nobody reads while the main goroutine closes the receiver /
//	         closes the sender / expires every context; from then on the return condition of every
//	         Send holds for good, so every call must return
//	drain    N senders Send their values, a receiver goroutine reads until Next fails; when every Send
//	         has returned nil the sender is closed (nil or an error): Next must deliver every value
//	         (per sender in order, once) and then report, and must return at all
//
// "Has not returned although its condition holds" is detected without any wall-clock timeout: the
// rounds run in a child process (this test binary re-executed with VERIF_C10_STRESS_CHILD set, see
// TestMain) whose main goroutine does nothing but wait on a sync.WaitGroup for the calls of the
// round. If a call is stuck, every goroutine of the child is asleep and the Go runtime aborts it with
// "fatal error: all goroutines are asleep - deadlock!" and a goroutine dump; the parent turns that
// into a `monitor` failure (kind <call>-…-real-threads) whose case is the configuration and the round.
// The only clock in here bounds how many rounds are run; a backstop kill after 120 s of a child that
// neither finishes nor deadlocks is reported as a harness problem, never as a property violation.
package c10

import (
	"bytes"
	"context"
	"errors"
	"fmt"
	"os"
	"os/exec"
	"regexp"
	"runtime"
	"strconv"
	"strings"
	"sync"
	"sync/atomic"
	"testing"
	"time"

	"github.com/bradenaw/juniper/stream"
	"verifharness/vlib"
)

const stressEnv = "VERIF_C10_STRESS_CHILD"

func TestMain(m *testing.M) {
	if spec := os.Getenv(stressEnv); spec != "" {
		stressChild(spec) // does not return
	}
	os.Exit(m.Run())
}

// stressCfg is one round's configuration.
type stressCfg struct {
	Kind  string // trysend | send | drain
	N     int    // goroutines calling TrySend / Send
	B     int    // buffer size
	Calls int    // calls per goroutine
	How   string // send: rclose | sclose | sclose-err | cancel; drain: nil | err | canceled | wrapcanceled
}

func (c stressCfg) String() string {
	return fmt.Sprintf("stress %s %d %d %d %s", c.Kind, c.N, c.B, c.Calls, c.How)
}

func parseStressCfg(l string) (stressCfg, bool) {
	f := strings.Fields(l)
	if len(f) != 6 || f[0] != "stress" {
		return stressCfg{}, false
	}
	n, e1 := strconv.Atoi(f[2])
	b, e2 := strconv.Atoi(f[3])
	k, e3 := strconv.Atoi(f[4])
	if e1 != nil || e2 != nil || e3 != nil || n < 1 || n > 64 || b < 0 || k < 1 {
		return stressCfg{}, false
	}
	return stressCfg{Kind: f[1], N: n, B: b, Calls: k, How: f[5]}, true
}

// stressCfgOf derives the configuration of round r from the seed (deterministic, so a round can be
// named in a replay).
func stressCfgOf(seed uint64, r int) stressCfg {
	rng := vlib.NewRand(seed*1000003 + uint64(r))
	switch rng.Pick(6, 2, 2) {
	case 0:
		return stressCfg{Kind: "trysend", N: []int{2, 3, 4, 8, 8}[rng.Intn(5)], B: []int{1, 1, 2, 3}[rng.Intn(4)], Calls: rng.Range(1, 2), How: "-"}
	case 1:
		return stressCfg{Kind: "send", N: rng.Range(2, 6), B: rng.Intn(3), Calls: 1,
			How: []string{"rclose", "sclose", "sclose-err", "cancel"}[rng.Intn(4)]}
	}
	return stressCfg{Kind: "drain", N: rng.Range(1, 4), B: []int{0, 1, 2, 5}[rng.Intn(4)], Calls: rng.Range(1, 6),
		How: []string{"nil", "err", "canceled", "wrapcanceled"}[rng.Intn(4)]}
}

// barrier makes n goroutines start their calls as simultaneously as the machine allows.
type barrier struct {
	left atomic.Int32
	spin bool
}

func newBarrier(n int) *barrier {
	b := &barrier{spin: n <= runtime.GOMAXPROCS(0)-1}
	b.left.Store(int32(n))
	return b
}

func (b *barrier) arrive() {
	b.left.Add(-1)
	for b.left.Load() > 0 {
		if !b.spin {
			runtime.Gosched()
		}
	}
}

// stressRound runs one round in the calling (main) goroutine of the child; it returns a non-empty
// "kind|what" if a clause that does not involve blocking is violated. A stuck call never returns from
// here: the runtime's deadlock detector ends the process.
func stressRound(c stressCfg) string {
	switch c.Kind {
	case "trysend":
		sender, _ := stream.Pipe[int](c.B)
		bar := newBarrier(c.N)
		var wg sync.WaitGroup
		for i := 0; i < c.N; i++ {
			wg.Add(1)
			go func(i int) {
				defer wg.Done()
				bar.arrive()
				for k := 0; k < c.Calls; k++ {
					sender.TrySend(context.Background(), i*1000+k)
				}
			}(i)
		}
		wg.Wait() // every TrySend has returned
	case "send":
		sender, recv := stream.Pipe[int](c.B)
		bar := newBarrier(c.N + 1)
		var wg sync.WaitGroup
		cancels := make([]context.CancelFunc, c.N)
		for i := 0; i < c.N; i++ {
			ctx, cancel := context.WithCancel(context.Background())
			cancels[i] = cancel
			wg.Add(1)
			go func(i int) {
				defer wg.Done()
				bar.arrive()
				sender.Send(ctx, i*1000)
			}(i)
		}
		bar.arrive()
		switch c.How { // from here on every Send's return condition holds for good
		case "rclose":
			recv.Close()
		case "sclose":
			sender.Close(nil)
		case "sclose-err":
			sender.Close(errE)
		default:
			for _, cancel := range cancels {
				cancel()
			}
		}
		wg.Wait() // every Send has returned
		for _, cancel := range cancels {
			cancel()
		}
	case "drain":
		sender, recv := stream.Pipe[int](c.B)
		bar := newBarrier(c.N + 1)
		var swg, rwg sync.WaitGroup
		var sendErr atomic.Value
		for i := 0; i < c.N; i++ {
			swg.Add(1)
			go func(i int) {
				defer swg.Done()
				bar.arrive()
				for k := 0; k < c.Calls; k++ {
					if err := sender.Send(context.Background(), i*1000+k); err != nil {
						sendErr.Store(fmt.Sprintf("Send(%d) returned %v although nothing was closed or cancelled", i*1000+k, err))
						return
					}
				}
			}(i)
		}
		var got []int
		var last error
		rwg.Add(1)
		go func() {
			defer rwg.Done()
			bar.arrive()
			for {
				v, err := recv.Next(context.Background())
				if err != nil {
					last = err
					return
				}
				got = append(got, v)
			}
		}()
		swg.Wait() // every Send has returned nil: acknowledged before the Close below
		var cerr error
		switch c.How {
		case "err":
			cerr = errE
		case "canceled":
			cerr = context.Canceled
		case "wrapcanceled":
			cerr = fmt.Errorf("sender: upstream read: %w", context.Canceled)
		}
		sender.Close(cerr)
		rwg.Wait() // Next has reported
		recv.Close()
		if m := sendErr.Load(); m != nil {
			return "" // not a clause of the property (what Send returns is tied by the conformance)
		}
		seen := map[int]bool{}
		lastOf := map[int]int{}
		for _, v := range got {
			if seen[v] {
				return fmt.Sprintf("pipe-duplicate-real-threads|Next returned %d twice", v)
			}
			seen[v] = true
			i, k := v/1000, v%1000
			if i < 0 || i >= c.N || k >= c.Calls {
				return fmt.Sprintf("pipe-unsent-value-real-threads|Next returned %d which no Send was called with", v)
			}
			if p, ok := lastOf[i]; ok && k < p {
				return fmt.Sprintf("pipe-order-real-threads|sender %d's value #%d was delivered after its #%d", i, k, p)
			}
			lastOf[i] = k
		}
		if len(got) != c.N*c.Calls {
			return fmt.Sprintf("pipe-lost-before-end-real-threads|every Send returned nil before the sender's Close, Next reported %v after %d of %d values", last, len(got), c.N*c.Calls)
		}
		if cerr == nil && last != stream.End {
			return fmt.Sprintf("pipe-end-real-threads|sender closed with nil, Next reported %v", last)
		}
		if cerr != nil && last != cerr && !errors.Is(last, cerr) {
			return fmt.Sprintf("c08-pipe-error-not-reported-real-threads|sender closed with %q, Next reported %v", cerr, last)
		}
	}
	return ""
}

// stressChild: spec = "<seed> <rounds> <ms> <fixed cfg or ->". Prints "round <r> <cfg>" before every
// round, "FAIL kind|what" + exit 3 on a non-blocking violation, "done <rounds>" + exit 0 otherwise.
func stressChild(spec string) {
	f := strings.SplitN(spec, " ", 4)
	if len(f) != 4 {
		fmt.Println("BAD spec")
		os.Exit(4)
	}
	seed, _ := strconv.ParseUint(f[0], 10, 64)
	rounds, _ := strconv.Atoi(f[1])
	ms, _ := strconv.Atoi(f[2])
	fixed, isFixed := parseStressCfg(f[3])
	start := time.Now()
	r := 0
	for ; r < rounds && time.Since(start) < time.Duration(ms)*time.Millisecond; r++ {
		c := fixed
		if !isFixed {
			c = stressCfgOf(seed, r)
		}
		fmt.Fprintf(os.Stdout, "round %d %s\n", r, c)
		if msg := stressRound(c); msg != "" {
			fmt.Fprintf(os.Stdout, "FAIL %s\n", msg)
			os.Exit(3)
		}
	}
	fmt.Fprintf(os.Stdout, "done %d procs %d\n", r, runtime.GOMAXPROCS(0))
	os.Exit(0)
}

// ---------------------------------------------------------------------------------------------
// parent side

type stressOutcome struct {
	rounds   int
	procs    int
	lastCfg  stressCfg
	lastR    int
	kind     string // "" = clean
	what     string
	dump     []string
	harness  string // non-empty: the child could not be run / ended in a way that is not a verdict
	perKind  map[string]int
	duration time.Duration
}

var stuckFrame = regexp.MustCompile(`juniper/stream\.\(\*(\w+)\[[^\]]*\]\)\.(\w+)`)

func runStressChild(seed uint64, rounds, ms int, fixed string) stressOutcome {
	o := stressOutcome{perKind: map[string]int{}, lastR: -1}
	self, err := os.Executable()
	if err != nil {
		self = os.Args[0]
	}
	cmd := exec.Command(self, "-test.run=^$")
	cmd.Env = append(os.Environ(), fmt.Sprintf("%s=%d %d %d %s", stressEnv, seed, rounds, ms, fixed))
	var stdout, stderr bytes.Buffer
	cmd.Stdout, cmd.Stderr = &stdout, &stderr
	start := time.Now()
	if err := cmd.Start(); err != nil {
		o.harness = "cannot start the stress child: " + err.Error()
		return o
	}
	backstop := time.AfterFunc(120*time.Second+time.Duration(ms)*time.Millisecond, func() { cmd.Process.Kill() })
	err = cmd.Wait()
	killed := !backstop.Stop()
	o.duration = time.Since(start)
	fail := ""
	for _, l := range strings.Split(stdout.String(), "\n") {
		switch {
		case strings.HasPrefix(l, "round "):
			f := strings.SplitN(l, " ", 3)
			if len(f) == 3 {
				if c, ok := parseStressCfg(f[2]); ok {
					o.lastR, _ = strconv.Atoi(f[1])
					o.lastCfg = c
					o.perKind[c.Kind]++
					o.rounds++
				}
			}
		case strings.HasPrefix(l, "done "):
			f := strings.Fields(l)
			if len(f) >= 4 {
				o.procs, _ = strconv.Atoi(f[3])
			}
		case strings.HasPrefix(l, "FAIL "):
			fail = strings.TrimPrefix(l, "FAIL ")
		}
	}
	switch {
	case killed:
		o.harness = fmt.Sprintf("the stress child neither finished nor deadlocked within the backstop (last: round %d %s)", o.lastR, o.lastCfg)
	case err == nil:
	case fail != "":
		p := strings.SplitN(fail, "|", 2)
		o.kind = p[0]
		if len(p) > 1 {
			o.what = p[1]
		}
	case strings.Contains(stderr.String(), "all goroutines are asleep - deadlock!"):
		// which call is stuck: the innermost juniper/stream frame of a blocked goroutine
		call := ""
		for _, g := range strings.Split(stderr.String(), "\n\n") {
			if !strings.HasPrefix(g, "goroutine ") {
				continue
			}
			lines := strings.Split(g, "\n")
			for _, l := range lines {
				if m := stuckFrame.FindStringSubmatch(l); m != nil {
					o.dump = append(o.dump, lines[0]+" "+m[1]+"."+m[2])
					if call == "" {
						call = m[2]
					}
					break
				}
			}
		}
		switch call {
		case "TrySend":
			o.kind = "trysend-blocked-real-threads"
		case "Send":
			o.kind = "send-stuck-real-threads"
		case "Next":
			o.kind = "next-stuck-real-threads"
		default:
			o.kind = "call-stuck-real-threads"
		}
		cond := map[string]string{
			"trysend": "TrySend must never block",
			"send":    "the receiver was closed / the sender was closed / every context had expired, so every Send had to return",
			"drain":   "every Send had returned and the sender was closed, so Next had to report",
		}[o.lastCfg.Kind]
		o.what = fmt.Sprintf("round %d (%s): a call never returned — the Go runtime found every goroutine of the process asleep (%s); blocked: %s",
			o.lastR, o.lastCfg, cond, strings.Join(o.dump, "; "))
	default:
		tail := stderr.String()
		if len(tail) > 600 {
			tail = tail[len(tail)-600:]
		}
		o.harness = fmt.Sprintf("the stress child ended with %v (last: round %d %s): %s", err, o.lastR, o.lastCfg, tail)
	}
	return o
}

// stress runs the real-threads phase and records its verdict.
func (c *checker) stress(env vlib.Env) {
	ms, rounds := 1500, 4000
	if env.Thorough() || env.Deep {
		ms, rounds = 8000, 40000
	}
	if raceEnabled {
		rounds /= 4
	}
	o := runStressChild(env.Seed, rounds, ms, "-")
	c.res.CountN("stress-rounds", o.rounds)
	for k, n := range o.perKind {
		c.res.CountN("stress-"+k, n)
	}
	if o.procs == 1 {
		c.res.Count("stress-single-proc")
	}
	if o.harness != "" {
		c.t.Errorf("real-threads stress phase: %s", o.harness)
		return
	}
	if o.kind == "" {
		return
	}
	// confirm with the failing configuration alone (and try the smallest racing shape of it)
	best, bestO := o.lastCfg, o
	trace := []string{fmt.Sprintf("seed %d round %d", env.Seed, o.lastR)}
	cands := []stressCfg{o.lastCfg}
	small := stressCfg{Kind: o.lastCfg.Kind, N: 2, B: o.lastCfg.B, Calls: 1, How: o.lastCfg.How}
	if small.Kind == "trysend" {
		small.B = 1 // two callers, one free slot
	}
	if small != o.lastCfg {
		cands = append([]stressCfg{small}, cands...)
	}
	for _, cand := range cands {
		o2 := runStressChild(env.Seed, 60000, 6000, cand.String())
		if o2.harness == "" && o2.kind == o.kind {
			best, bestO = cand, o2
			trace = []string{fmt.Sprintf("this configuration alone: stuck in round %d", o2.lastR)}
			break
		}
	}
	c.res.Fail(vlib.Failure{Source: "monitor", Kind: bestO.kind,
		Params: map[string]interface{}{"buffer": best.B, "senders": best.N, "real_threads": true},
		What:   bestO.what,
		Case:   Case{Scenario: []string{best.String()}, Trace: append(trace, bestO.dump...), Kind: bestO.kind}})
}

// replayStress re-runs a recorded real-threads case.
func replayStress(cs Case) {
	cfg, _ := parseStressCfg(cs.Scenario[0])
	fmt.Printf("replay: %s (real threads, up to 200000 rounds / 20 s)\n", cfg)
	o := runStressChild(1, 200000, 20000, cfg.String())
	switch {
	case o.harness != "":
		fmt.Println("harness:", o.harness)
		os.Exit(2)
	case o.kind == "":
		fmt.Printf("monitor: no clause violated in %d rounds\n", o.rounds)
	default:
		fmt.Printf("monitor: %s\n  %s\n", o.kind, o.what)
		os.Exit(1)
	}
}
