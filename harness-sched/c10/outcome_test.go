// Real-threads outcome phase of C10: does the Lean LTS contain what real threads do?
//
// The synctest scenarios issue every environment action at a quiescent point (synctest.Wait), so a
// Close that arrives while a TrySend is between its two selects, or a TrySend that meets a Next which
// has been started but has not parked yet, never shows there. This phase runs small scenarios on real
// threads, outside any bubble:
//
//	pre   calls started one after the other before the race (e.g. a Next that will be parked — or
//	      not yet: the pause after the start varies from round to round and decides nothing)
//	par   calls and the sender's Close released together by a spinning barrier
//	post  calls made one at a time after every earlier call has returned (a later Next, a later TrySend)
//
// and records the tuple of results ("n=err s0=false | n=err"). Every scenario contains the sender's
// Close among pre/par, so every call returns on code that keeps the property. The parent asks the Lean
// driver for the **outcome set** of the scenario (`driver pipe`, command `outcomes`: every result tuple
// some schedule of the LTS produces with the par actions in any order and the internal steps of the
// calls interleaved anywhere) and compares: an observed tuple outside the set is behaviour of the real
// code the model calls impossible — a `correspondence` failure `pipe-outcome-not-in-model` (broken
// tie), never a property violation by itself. Nothing here depends on a clock except the number of
// rounds. A call that never returns ends the child through the runtime's deadlock detector, as in the
// other real-threads phases.
package c10

import (
	"context"
	"fmt"
	"os"
	"runtime"
	"sort"
	"strconv"
	"strings"
	"sync"
	"sync/atomic"
	"time"

	"github.com/bradenaw/juniper/stream"
	"verifharness/vlib"
)

// outcomeScenario: the three action lists. Only send / try / next / sclose occur.
type outcomeScenario struct {
	N, B           int
	Pre, Par, Post []Action
}

// encode: the scenario without spaces (it travels as the How field of a stressCfg).
func (s outcomeScenario) encode() string {
	enc := func(as []Action) string {
		var p []string
		for _, a := range as {
			p = append(p, strings.ReplaceAll(a.ModelString(), " ", "_"))
		}
		return strings.Join(p, ",")
	}
	return "pre:" + enc(s.Pre) + ";par:" + enc(s.Par) + ";post:" + enc(s.Post)
}

func (s outcomeScenario) cfg() stressCfg {
	return stressCfg{Kind: "outcome", N: s.N, B: s.B, Calls: 1, How: s.encode()}
}

func decodeOutcomeScenario(c stressCfg) (outcomeScenario, bool) {
	s := outcomeScenario{N: c.N, B: c.B}
	parts := strings.Split(c.How, ";")
	if len(parts) != 3 {
		return s, false
	}
	for k, pfx := range []string{"pre:", "par:", "post:"} {
		if !strings.HasPrefix(parts[k], pfx) {
			return s, false
		}
		body := strings.TrimPrefix(parts[k], pfx)
		var as []Action
		if body != "" {
			for _, t := range strings.Split(body, ",") {
				a, ok := parseAction(strings.ReplaceAll(t, "_", " "))
				if !ok || (a.Op != "send" && a.Op != "try" && a.Op != "next" && a.Op != "sclose") || a.I < 0 || a.I >= c.N {
					return s, false
				}
				as = append(as, a)
			}
		}
		switch k {
		case 0:
			s.Pre = as
		case 1:
			s.Par = as
		default:
			s.Post = as
		}
	}
	return s, true
}

// modelLine is the query for the Lean driver.
func (s outcomeScenario) modelLine() string {
	j := func(as []Action) string {
		var p []string
		for _, a := range as {
			p = append(p, a.ModelString())
		}
		return strings.Join(p, " ; ")
	}
	return strings.Join(strings.Fields(fmt.Sprintf("outcomes %d %d pre %s par %s post %s", s.N, s.B, j(s.Pre), j(s.Par), j(s.Post))), " ")
}

// outcomeScenariosOf derives the scenarios of a run from the seed. The first one is always the shape of
// audit finding C10 F1: unbuffered pipe, a Next already started, then TrySend racing Close(err).
func outcomeScenariosOf(seed uint64) []outcomeScenario {
	rng := vlib.NewRand(seed*1000003 + 700001)
	out := []outcomeScenario{{N: 1, B: 0,
		Pre:  []Action{{Op: "next"}},
		Par:  []Action{{Op: "try", I: 0, V: 5}, {Op: "sclose", C: true}},
		Post: []Action{{Op: "next"}}}}
	seen := map[string]bool{out[0].encode(): true}
	for tries := 0; len(out) < 8 && tries < 200; tries++ {
		s := outcomeScenario{N: rng.Range(1, 2), B: []int{0, 0, 0, 1}[rng.Intn(4)]}
		cl := Action{Op: "sclose", C: rng.Chance(2, 3)}
		next := Action{Op: "next"}
		v := 5
		senderCall := func(i int) Action {
			v++
			op := "try"
			if i > 0 && rng.Chance(1, 2) {
				op = "send"
			}
			return Action{Op: op, I: i, V: v}
		}
		// the receiver: started before the race, or racing
		if rng.Chance(1, 2) {
			s.Pre = append(s.Pre, next)
		} else {
			s.Par = append(s.Par, next)
		}
		// sender 0 always races with a TrySend; sender 1 (if any) calls Send or TrySend, before or in the race
		s.Par = append(s.Par, senderCall(0))
		if s.N == 2 {
			a := senderCall(1)
			if a.Op == "send" && rng.Chance(1, 2) {
				s.Pre = append([]Action{a}, s.Pre...) // a Send that will be parked (or buffered)
			} else {
				s.Par = append(s.Par, a)
			}
		}
		s.Par = append(s.Par, cl)
		// afterwards: one or two more Next calls, sometimes a TrySend in between
		s.Post = append(s.Post, next)
		if rng.Chance(1, 3) {
			v++
			s.Post = append(s.Post, Action{Op: "try", I: 0, V: v})
		}
		if rng.Chance(1, 2) {
			s.Post = append(s.Post, next)
		}
		if k := s.encode(); !seen[k] {
			seen[k] = true
			out = append(out, s)
		}
	}
	return out
}

func outcomeResName(err error, cerr error) string {
	switch {
	case err == nil:
		return "nil"
	case err == stream.ErrClosedPipe:
		return "closed"
	case err == stream.End:
		return "end"
	case cerr != nil && err == cerr:
		return "err"
	}
	return "other(" + strings.ReplaceAll(err.Error(), " ", "_") + ")"
}

// gate: a monotone counter goroutines wait on — a bounded spin (the partner is normally a few hundred
// nanoseconds away, and only goroutines that are really running in parallel race each other), then a
// sync.Cond, so that a goroutine that waits for good is asleep for the runtime's deadlock detector.
type gate struct {
	v  atomic.Int64
	mu sync.Mutex
	c  *sync.Cond
}

func newGate() *gate {
	g := &gate{}
	g.c = sync.NewCond(&g.mu)
	return g
}

func (g *gate) waitFor(x int64) {
	for n := 0; n < 30000; n++ {
		if g.v.Load() >= x {
			return
		}
	}
	g.mu.Lock()
	for g.v.Load() < x {
		g.c.Wait()
	}
	g.mu.Unlock()
}

func (g *gate) set(x int64) {
	g.mu.Lock()
	g.v.Store(x)
	g.mu.Unlock()
	g.c.Broadcast()
}

func (g *gate) add() {
	g.mu.Lock()
	g.v.Add(1)
	g.mu.Unlock()
	g.c.Broadcast()
}

type outcomePipe struct {
	sender *stream.PipeSender[int]
	recv   stream.Stream[int]
}

// outcomeBlock runs rounds of one scenario on real threads and counts the result tuples (in the
// driver's format). One long-lived goroutine per pre/par call: it waits at its gate for the round,
// makes its call on the round's pipe, records the result. The pre calls are released one after the
// other (each has reached its call — and after a pause that varies with the round and decides nothing
// is mostly parked in it — before the next is released), the par calls share one gate. When all have
// returned the main goroutine makes the post calls.
func outcomeBlock(s outcomeScenario, maxRounds, minRounds int, end time.Time) (map[string]int, int) {
	bg := context.Background()
	var cerr error
	for _, as := range [][]Action{s.Pre, s.Par} {
		for _, a := range as {
			if a.Op == "sclose" && a.C {
				cerr = errE
			}
		}
	}
	do := func(p *outcomePipe, a Action) string {
		switch a.Op {
		case "send":
			return fmt.Sprintf("s%d=%s", a.I, outcomeResName(p.sender.Send(bg, a.V), cerr))
		case "try":
			ok, err := p.sender.TrySend(bg, a.V)
			if err != nil {
				return fmt.Sprintf("s%d=%s", a.I, outcomeResName(err, cerr))
			}
			return fmt.Sprintf("s%d=%v", a.I, ok)
		case "next":
			v, err := p.recv.Next(bg)
			if err != nil {
				return "n=" + outcomeResName(err, cerr)
			}
			return fmt.Sprintf("n=v%d", v)
		case "sclose":
			p.sender.Close(cerr)
		}
		return ""
	}
	calls := append(append([]Action{}, s.Pre...), s.Par...)
	w := len(calls)
	var cur atomic.Pointer[outcomePipe]
	var stop atomic.Bool
	parGate, fin := newGate(), newGate()
	gates := make([]*gate, w)
	at := make([]atomic.Int64, w)
	results := make([]string, w)
	var workers sync.WaitGroup
	for k := range calls {
		gates[k] = parGate
		if k < len(s.Pre) {
			gates[k] = newGate()
		}
		workers.Add(1)
		go func(k int) {
			defer workers.Done()
			for r := int64(1); ; r++ {
				gates[k].waitFor(r)
				if stop.Load() {
					return
				}
				p := cur.Load()
				at[k].Store(r)
				// a few to a few hundred nanoseconds of offset between the racing calls, swept over the rounds
				h := uint32(r)*2654435761 ^ uint32(k+1)*2246822519
				h ^= h >> 15
				for spin := int(h % 600); spin > 0; spin-- {
					_ = at[k].Load()
				}
				results[k] = do(p, calls[k])
				fin.add()
			}
		}(k)
	}
	counts := map[string]int{}
	r := int64(0)
	for int(r) < maxRounds && (int(r) < minRounds || time.Now().Before(end)) {
		r++
		sender, recv := stream.Pipe[int](s.B)
		p := &outcomePipe{sender, recv}
		cur.Store(p)
		for k := range s.Pre {
			gates[k].set(r)
			if r%6 == 0 {
				continue // released back to back with the race: the call may not even have been reached yet
			}
			for n := 0; at[k].Load() < r; n++ {
				if n > 30000 {
					runtime.Gosched()
				}
			}
			// the call has been reached; 0 .. a few µs later it is parked in most rounds
			for spin := int(r%6-1) * 400; spin > 0; spin-- {
				_ = at[k].Load()
			}
		}
		parGate.set(r)
		fin.waitFor(r * int64(w)) // every call of the race has returned
		var phase []string
		for _, x := range results {
			if x != "" {
				phase = append(phase, x)
			}
		}
		sort.Strings(phase)
		parts := []string{strings.Join(phase, " ")}
		for _, a := range s.Post {
			parts = append(parts, do(p, a))
		}
		recv.Close()
		counts["{"+strings.Join(parts, " | ")+"}"]++
	}
	stop.Store(true)
	parGate.set(r + 1)
	for k := range s.Pre {
		gates[k].set(r + 1)
	}
	workers.Wait()
	return counts, int(r)
}

// outcomeChild: the rounds of the outcome phase in the child process. Each scenario gets an equal
// share of the time; "round <n> <cfg>" is printed once per scenario (the deadlock report names it),
// "tuple <k> <count> <tuple>" for every distinct tuple of scenario k at its end.
func outcomeChild(seed uint64, rounds, ms int, fixed stressCfg, isFixed bool) {
	scs := outcomeScenariosOf(seed)
	if isFixed {
		s, ok := decodeOutcomeScenario(fixed)
		if !ok {
			fmt.Println("BAD outcome scenario")
			os.Exit(4)
		}
		scs = []outcomeScenario{s}
	}
	total := 0
	for k, s := range scs {
		fmt.Fprintf(os.Stdout, "round %d %s\n", total, s.cfg())
		// the first scenario (the shape of the audit finding: its rare tuple needs the Close to fall between
		// the two selects of TrySend) gets three shares of the time, the others one each
		share := time.Duration(ms) * time.Millisecond / time.Duration(len(scs)+2)
		if k == 0 {
			share *= 3
		}
		end := time.Now().Add(share)
		counts, n := outcomeBlock(s, rounds/len(scs)+1, 200, end)
		total += n
		var ts []string
		for t := range counts {
			ts = append(ts, t)
		}
		sort.Strings(ts)
		for _, t := range ts {
			fmt.Fprintf(os.Stdout, "tuple %d %d %s\n", k, counts[t], t)
		}
	}
	fmt.Fprintf(os.Stdout, "done %d procs %d\n", total, runtime.GOMAXPROCS(0))
	os.Exit(0)
}

type outcomeObs struct {
	sc     outcomeScenario
	tuples map[string]int
}

// parseOutcomeChild collects the tuples per scenario from the child's output.
func parseOutcomeChild(stdout string) []outcomeObs {
	var obs []outcomeObs
	for _, l := range strings.Split(stdout, "\n") {
		switch {
		case strings.HasPrefix(l, "round "):
			f := strings.SplitN(l, " ", 3)
			if len(f) == 3 {
				if c, ok := parseStressCfg(f[2]); ok && c.Kind == "outcome" {
					if s, ok := decodeOutcomeScenario(c); ok {
						obs = append(obs, outcomeObs{sc: s, tuples: map[string]int{}})
					}
				}
			}
		case strings.HasPrefix(l, "tuple "):
			f := strings.SplitN(l, " ", 4)
			if len(f) == 4 && len(obs) > 0 {
				n, _ := strconv.Atoi(f[2])
				obs[len(obs)-1].tuples[f[3]] += n
			}
		}
	}
	return obs
}

// modelOutcomes asks the Lean driver for the outcome set of s.
func modelOutcomes(m *vlib.Model, s outcomeScenario) (map[string]bool, string, error) {
	out, err := m.Run([]string{s.modelLine()})
	if err != nil {
		return nil, "", err
	}
	if len(out) != 1 || !strings.HasPrefix(out[0], "outcomes ") || strings.Contains(out[0], "fuel-exhausted") {
		return nil, "", fmt.Errorf("driver answered %q to %q", out, s.modelLine())
	}
	set := map[string]bool{}
	rest := strings.TrimPrefix(out[0], "outcomes ")
	for _, t := range strings.SplitAfter(rest, "}") {
		if t = strings.TrimSpace(t); t != "" {
			set[t] = true
		}
	}
	return set, rest, nil
}

// compareOutcomes: every observed tuple must be an outcome of the LTS.
func (c *checker) compareOutcomes(obs []outcomeObs, origin string) (bad int) {
	for _, o := range obs {
		rounds := 0
		for _, n := range o.tuples {
			rounds += n
		}
		c.res.CountN("outcome-rounds", rounds)
		c.res.Count("outcome-scenarios")
		c.res.CountN("outcome-tuples-observed", len(o.tuples))
		c.res.Case("outcome "+o.sc.cfg().String(), len(o.tuples) > 1, nil)
		if c.m == nil {
			continue
		}
		set, all, err := modelOutcomes(c.m, o.sc)
		if err != nil {
			c.res.ModelMissing = err.Error()
			c.m = nil
			continue
		}
		c.res.Traces++
		c.res.CountN("outcome-tuples-in-model", len(set))
		var ts []string
		for t := range o.tuples {
			ts = append(ts, t)
		}
		sort.Strings(ts)
		for _, t := range ts {
			if set[t] {
				continue
			}
			bad++
			c.res.Fail(vlib.Failure{Source: "correspondence", Kind: "pipe-outcome-not-in-model",
				Params: map[string]interface{}{"buffer": o.sc.B, "senders": o.sc.N, "real_threads": true},
				What: fmt.Sprintf("real threads produced the result tuple %s in %d of %d rounds of [%s] (%s); no schedule of the Lean LTS produces it — the LTS allows: %s",
					t, o.tuples[t], rounds, o.sc.modelLine(), origin, all),
				Case: Case{Scenario: []string{o.sc.cfg().String()}, Trace: []string{origin, "observed " + t, "model " + all}, Kind: "pipe-outcome-not-in-model"}})
		}
	}
	return bad
}

// outcomePhase: the child runs the scenarios, the parent compares with the model.
func (c *checker) outcomePhase(env vlib.Env) {
	ms, rounds := 700, 400000
	if env.Thorough() || env.Deep {
		ms, rounds = 5000, 4000000
	}
	if raceEnabled {
		rounds /= 4
	}
	o := runStressChild(env.Seed, rounds, ms, "outcome")
	if len(o.finds) > 0 {
		// a call never returned although the sender was closed
		for _, f := range o.finds {
			c.res.Fail(vlib.Failure{Source: "monitor", Kind: f.kind,
				Params: map[string]interface{}{"buffer": f.cfg.B, "senders": f.cfg.N, "real_threads": true},
				What:   f.what,
				Case:   Case{Scenario: []string{f.cfg.String()}, Trace: append([]string{fmt.Sprintf("seed %d", env.Seed)}, o.dump...), Kind: f.kind}})
		}
		return
	}
	if o.harness != "" {
		c.t.Errorf("real-threads outcome phase: %s", o.harness)
		return
	}
	c.compareOutcomes(parseOutcomeChild(o.stdout), fmt.Sprintf("seed %d", env.Seed))
}

// replayOutcome re-runs one recorded outcome scenario and compares again.
func replayOutcome(env vlib.Env, cfg stressCfg) {
	s, ok := decodeOutcomeScenario(cfg)
	if !ok {
		fmt.Println("harness: bad outcome scenario")
		os.Exit(2)
	}
	fmt.Printf("replay: %s (real threads, 5 s)\n", s.modelLine())
	o := runStressChild(1, 50000000, 5000, cfg.String())
	if o.harness != "" && len(o.finds) == 0 {
		fmt.Println("harness:", o.harness)
		os.Exit(2)
	}
	for _, f := range o.finds {
		fmt.Printf("monitor: %s\n  %s\n", f.kind, f.what)
	}
	m, err := vlib.StartModel(env.Driver, "pipe")
	if err != nil {
		fmt.Println("model: no driver:", err)
		os.Exit(2)
	}
	defer m.Close()
	set, all, err := modelOutcomes(m, s)
	if err != nil {
		fmt.Println("model:", err)
		os.Exit(2)
	}
	fmt.Println("model allows:", all)
	bad := len(o.finds)
	for _, ob := range parseOutcomeChild(o.stdout) {
		var ts []string
		for t := range ob.tuples {
			ts = append(ts, t)
		}
		sort.Strings(ts)
		for _, t := range ts {
			mark := "in the model"
			if !set[t] {
				mark = "NOT in the model"
				bad++
			}
			fmt.Printf("observed %8d x %s  %s\n", ob.tuples[t], t, mark)
		}
	}
	if bad > 0 {
		os.Exit(1)
	}
}
