//go:build race

package c10

const raceEnabled = true
