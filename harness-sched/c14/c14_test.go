// C14: parallel.MapIterator / MapStream keep order, bound the buffer, never deadlock; MapStream
// error rules and Close. Also the MapStream clauses of C08 (kinds "c08-…": outputs correct, the error
// itself is reported, an expired consumer context costs nothing) and of C09 (kinds "c09-…": the source
// is closed exactly once by the time Close returns, never Next after Close, never concurrently).
//
// Two kinds of scenario, both inside testing/synctest bubbles:
//   - script: the source and every call of f are gated; the script releases one call at a time, drives
//     the consumer (Next with a live / expired context, expiry during Next, Close) and cancels the
//     parent context. After each action the quiescent observation is fed to the Lean LTS
//     (`driver parstream` / `driver pariter`, state-set conformance) and checked by the monitors.
//   - timed: virtual latencies for the source, f and the consumer; monitors only (up to 10^4 items,
//     parallelism up to 64).
//
// The source's Close is not instantaneous in a part of the scenarios (script: it is gated like every
// other call, step "sclose" lets it return; timed: it sleeps src_close_lat ms of virtual time), and
// "the source has been closed" is evaluated at the instant MapStream's Close returns: the source's
// Close must have *returned* by then (order of the two return events, virtual timestamps in the
// message). The script source blocks in Next until it is given something or its context is done (an
// idle network source); a timed source with src_idle does the same after its n items. Once a call of
// f or the source has failed, a pending Next is no longer excused by the source being idle: with
// nothing of f outstanding it must have returned the error at quiescence ("never silence").
//
// Time passes (virtual time, hours of it): script step "sleep" (V seconds with everything durably blocked:
// the source idle in Next honouring its context, calls of f gated, the consumer inside Next or away) and the
// timed fields src_pause_* / f_pause_* / cons_pause_* (the source blocks for that long before delivering an
// item, f runs for that long honouring its context, the consumer stays away). Afterwards the scenario goes
// on - the source delivers / ends, f returns - and the results must be complete, in order and without any
// error: the context the library hands to the source and to f must not end by the library's own doing
// ("not the library's own cancellation"). No context of the harness has a deadline: the caller's context is a
// hand-made one with a sentinel error (errParent), so context.DeadlineExceeded / context.Canceled reported
// by Next can only have been made by the library.
package c14

import (
	"context"
	"encoding/json"
	"errors"
	"fmt"
	"os"
	"runtime"
	"sort"
	"strings"
	"sync"
	"testing"
	"testing/synctest"
	"time"

	"github.com/bradenaw/juniper/iterator"
	"github.com/bradenaw/juniper/parallel"
	"github.com/bradenaw/juniper/stream"
	"verifharness/vlib"
)

// ---------------------------------------------------------------------------------------------
// scenarios

type Step struct {
	Op string `json:"op"` // next | nextx | expire | close | pcancel | item | end | serr | sclose | fok | ferr | sleep (V seconds of virtual time)
	I  int    `json:"i,omitempty"`
	V  int    `json:"v,omitempty"`
}

type Scenario struct {
	Kind    string `json:"kind"`    // script | timed
	Variant string `json:"variant"` // stream | iter
	P       int    `json:"p"`
	B       int    `json:"b"`
	Gmp     int    `json:"gmp"`
	Steps   []Step `json:"steps,omitempty"`
	// script: the source's Close is gated (released by step "sclose") instead of returning at once
	SlowClose bool `json:"slow_close,omitempty"`
	// stream: the context handed to MapStream is already done when MapStream is called (omitted when false:
	// older corpus / replay files read unchanged)
	Dead bool `json:"dead,omitempty"`
	// timed
	N            int    `json:"n,omitempty"`
	SrcErrAt     int    `json:"src_err_at,omitempty"` // position+1 at which the source fails (0 = never)
	FailF        []int  `json:"fail_f,omitempty"`
	LatMode      int    `json:"lat_mode,omitempty"`
	LatSeed      uint64 `json:"lat_seed,omitempty"`
	LatMax       int    `json:"lat_max,omitempty"`
	SrcLat       int    `json:"src_lat,omitempty"`
	ConsPace     int    `json:"cons_pace,omitempty"`
	ConsTimeout  int    `json:"cons_timeout,omitempty"`
	CloseAfter   int    `json:"close_after,omitempty"` // 0 = read to the end, k = Close after k-1 results
	ParentCancel int    `json:"parent_cancel,omitempty"`
	SrcCloseLat  int    `json:"src_close_lat,omitempty"` // the source's Close takes this many ms of virtual time
	SrcIdle      bool   `json:"src_idle,omitempty"`      // after its n items the source blocks in Next until its context is done
	// pauses (seconds of virtual time): the source is idle (blocked in Next, honouring its context) for
	// src_pause_s before it delivers item src_pause_at; the call of f for item f_pause_at takes f_pause_s longer
	// (honouring its context); the consumer stays away for cons_pause_s before its call number cons_pause_at
	SrcPauseAt  int `json:"src_pause_at,omitempty"`
	SrcPauseS   int `json:"src_pause_s,omitempty"`
	FPauseAt    int `json:"f_pause_at,omitempty"`
	FPauseS     int `json:"f_pause_s,omitempty"`
	ConsPauseAt int `json:"cons_pause_at,omitempty"`
	ConsPauseS  int `json:"cons_pause_s,omitempty"`
	// who owns the MapStream: "" = the consumer itself; "map" = a stream.Map wrapper (identity) whose Next /
	// Close the consumer calls; "collect" = the reducer stream.Collect, which must have closed everything
	// by the time it returns (the C09 clause for the other owners reachable from here)
	Owner string `json:"owner,omitempty"`
	// kind "stress": a real-threads configuration (`stress mapiter <P> <B> <n> <rounds> [how]`, see stress_test.go)
	// and how it was found
	Stress string   `json:"stress,omitempty"`
	Trace  []string `json:"trace,omitempty"`
}

func (sc *Scenario) key() string {
	b, _ := json.Marshal(sc)
	return string(b)
}

// pauses: the virtual time the scenario itself lets pass (the watchdogs of timed scenarios are relative to it).
func (sc *Scenario) pauses() time.Duration {
	return time.Duration(sc.SrcPauseS+sc.FPauseS+sc.ConsPauseS) * time.Second
}

// watchdog: "every latency is a few milliseconds, so this long without a return means blocked for good" -
// one hour beyond what the scenario itself sleeps.
func (sc *Scenario) watchdog() time.Duration { return time.Hour + sc.pauses() }

func (sc *Scenario) latency(i int) time.Duration {
	if sc.LatMax <= 0 {
		return 0
	}
	switch sc.LatMode {
	case 1: // late items finish first
		d := sc.LatMax - i%(sc.LatMax+1)
		return time.Duration(d) * time.Millisecond
	case 2:
		return time.Duration(sc.LatMax) * time.Millisecond
	case 3: // one very slow call at the head of each window
		if i%7 == int(sc.LatSeed%7) {
			return time.Duration(sc.LatMax*40) * time.Millisecond
		}
		return time.Millisecond
	}
	r := vlib.NewRand(sc.LatSeed + uint64(i)*7919)
	return time.Duration(r.Intn(sc.LatMax+1)) * time.Millisecond
}

// ---------------------------------------------------------------------------------------------
// errors and contexts

type srcErr struct{ k int }

func (e *srcErr) Error() string { return fmt.Sprintf("source error %d", e.k) }

type fErr struct{ k int }

func (e *fErr) Error() string { return fmt.Sprintf("f error %d", e.k) }

var errCons = errors.New("consumer context expired")

// errParent is the error of the context the caller passes to MapStream, once the caller has cancelled it.
// Hand-made (no deadline, no context.Canceled): whatever context.DeadlineExceeded / context.Canceled comes
// out of Next was made by the library.
var errParent = errors.New("the caller cancelled the context it passed to MapStream")

type parentCtx struct {
	done chan struct{}
	once sync.Once
}

func newParentCtx() *parentCtx                     { return &parentCtx{done: make(chan struct{})} }
func (c *parentCtx) cancel()                       { c.once.Do(func() { close(c.done) }) }
func (c *parentCtx) Deadline() (time.Time, bool)   { return time.Time{}, false }
func (c *parentCtx) Done() <-chan struct{}         { return c.done }
func (c *parentCtx) Value(interface{}) interface{} { return nil }
func (c *parentCtx) Err() error {
	select {
	case <-c.done:
		return errParent
	default:
		return nil
	}
}

// consCtx is the context handed to one Next call: no goroutines, a sentinel error.
type consCtx struct {
	done chan struct{}
	once sync.Once
}

func newConsCtx() *consCtx                       { return &consCtx{done: make(chan struct{})} }
func (c *consCtx) expire()                       { c.once.Do(func() { close(c.done) }) }
func (c *consCtx) Deadline() (time.Time, bool)   { return time.Time{}, false }
func (c *consCtx) Done() <-chan struct{}         { return c.done }
func (c *consCtx) Value(interface{}) interface{} { return nil }
func (c *consCtx) Err() error {
	select {
	case <-c.done:
		return errCons
	default:
		return nil
	}
}

// ---------------------------------------------------------------------------------------------
// instrumentation

type gateRes struct {
	v   int
	err error
	end bool
}

type fcall struct {
	idx   int
	gate  chan gateRes
	ended bool
	res   gateRes
	after bool // began after Close returned
}

type nextRes struct {
	v       int
	err     error
	ctxDead bool // the call's own context had expired when it returned
}

type Viol struct {
	Kind   string
	What   string
	Params map[string]interface{}
}

type env struct {
	sc     *Scenario
	mu     sync.Mutex
	notify chan struct{} // one token per completed consumer command (timed scenarios)
	// source
	srcLog    []byte
	srcInCall int
	srcGate   chan gateRes
	srcClosed int // calls of the source's Close that have returned
	// the source's Close: calls begun, in progress, the gate of the pending one (script, slow_close),
	// virtual instants (since the start of the scenario) of its return and of MapStream's Close return
	srcCloseBegun  int
	srcInClose     int
	srcCloseGate   chan struct{}
	start          time.Time
	srcCloseDoneAt time.Duration
	items          []int // values handed out by the source
	srcFailed      error
	srcEnded       bool
	srcPos         int
	// f
	calls    []*fcall
	gauge    int
	maxGauge int
	// consumer
	results     []nextRes
	cons        string // idle | next | close | closed
	curCtx      *consCtx
	closedRet   bool
	yielded     int
	maxInFlight int
	parent      *parentCtx
	viols       []Viol
	reqPar      int
	bound       int
	slept       time.Duration // virtual time the scenario itself let pass (sleep steps, pauses)
	nSleeps     int           // sleep steps taken so far
	abandon     bool // the scenario is being abandoned with goroutines blocked for good
	rescued     bool // the scenario closed the stream itself to free a stuck call: what that call returns is not evidence
}

func (e *env) viol(kind, what string, params map[string]interface{}) {
	if params == nil {
		params = map[string]interface{}{}
	}
	params["variant"] = e.sc.Variant
	for _, v := range e.viols {
		if v.Kind == kind {
			return
		}
	}
	e.viols = append(e.viols, Viol{kind, what, params})
}

func (e *env) noteTaken() {
	// called with mu held, after an item was appended
	infl := len(e.items) - e.yielded
	slack := 0
	if e.sc.Kind == "timed" && e.cons == "next" {
		slack = 1 // a Next in progress may already have released its slot without having returned
	}
	if infl-slack > e.maxInFlight {
		e.maxInFlight = infl - slack
	}
	if infl-slack > e.bound {
		e.viol("inflight-bound", fmt.Sprintf("%d source items taken but not yet yielded; bufferSize %d + parallelism %d + 1 = %d", infl-slack, e.sc.B, e.reqPar, e.bound),
			map[string]interface{}{"b": e.sc.B, "p": e.sc.P})
	}
}

// stream source
type srcStream struct{ e *env }

func (s *srcStream) Next(ctx context.Context) (int, error) {
	e := s.e
	e.mu.Lock()
	e.srcLog = append(e.srcLog, 'N')
	if e.srcInCall > 0 || e.srcInClose > 0 {
		e.viol("c09-concurrent", "Next called on the source while another call on it is in progress", nil)
	}
	if e.srcCloseBegun > 0 {
		e.viol("c09-next-after-close", "Next called on the source after Close", nil)
	}
	e.srcInCall++
	pos := e.srcPos
	gate := make(chan gateRes, 1)
	e.srcGate = gate
	e.mu.Unlock()
	var r gateRes
	if e.sc.Kind == "script" {
		select {
		case r = <-gate:
		case <-ctx.Done():
			r = gateRes{err: ctx.Err()}
		}
	} else {
		r = e.timedSrc(pos)
		ctxEnded := false
		if e.sc.SrcPauseS > 0 && pos == e.sc.SrcPauseAt {
			// idle for a long time (nothing to yield yet), honouring the context; then it goes on
			t := time.NewTimer(time.Duration(e.sc.SrcPauseS) * time.Second)
			select {
			case <-t.C:
			case <-ctx.Done():
				t.Stop()
				r = gateRes{err: ctx.Err()}
				ctxEnded = true
			}
		}
		switch {
		case ctxEnded:
		case e.sc.SrcIdle && pos >= e.sc.N && r.end:
			// an idle source: nothing more to yield for now, neither ended nor failed
			<-ctx.Done()
			r = gateRes{err: ctx.Err()}
		case e.sc.SrcLat > 0:
			t := time.NewTimer(time.Duration(e.sc.SrcLat) * time.Millisecond)
			select {
			case <-t.C:
			case <-ctx.Done():
				t.Stop()
				r = gateRes{err: ctx.Err()}
			}
		case ctx.Err() != nil:
			r = gateRes{err: ctx.Err()}
		}
	}
	e.mu.Lock()
	defer e.mu.Unlock()
	e.srcInCall--
	e.srcGate = nil
	e.srcLog = append(e.srcLog, 'n')
	if r.end {
		e.srcEnded = true
		return 0, stream.End
	}
	if r.err != nil {
		var se *srcErr
		if errors.As(r.err, &se) {
			e.srcFailed = r.err
		}
		return 0, r.err
	}
	e.srcPos++
	e.items = append(e.items, r.v)
	e.noteTaken()
	return r.v, nil
}

func (s *srcStream) Close() {
	e := s.e
	e.mu.Lock()
	e.srcLog = append(e.srcLog, 'C')
	if e.srcInCall > 0 || e.srcInClose > 0 {
		e.viol("c09-concurrent", "Close called on the source while another call on it is in progress", nil)
	}
	e.srcCloseBegun++
	if e.srcCloseBegun > 1 {
		e.viol("c09-close-count", fmt.Sprintf("the source was closed %d times", e.srcCloseBegun), nil)
	}
	e.srcInClose++
	var gate chan struct{}
	if e.sc.Kind == "script" && e.sc.SlowClose {
		gate = make(chan struct{}, 1)
		e.srcCloseGate = gate
	}
	e.mu.Unlock()
	// a Close that is not instantaneous: gated (script) or a few ms of virtual time (timed)
	if gate != nil {
		<-gate
	} else if e.sc.Kind == "timed" && e.sc.SrcCloseLat > 0 {
		time.Sleep(time.Duration(e.sc.SrcCloseLat) * time.Millisecond)
	}
	e.mu.Lock()
	defer e.mu.Unlock()
	e.srcInClose--
	e.srcCloseGate = nil
	e.srcClosed++
	e.srcCloseDoneAt = time.Since(e.start)
	e.srcLog = append(e.srcLog, 'c')
}

func (e *env) timedSrc(pos int) gateRes {
	if e.sc.SrcErrAt > 0 && pos == e.sc.SrcErrAt-1 {
		return gateRes{err: &srcErr{pos + 1}}
	}
	if pos >= e.sc.N {
		return gateRes{end: true}
	}
	return gateRes{v: 1000 + pos}
}

// iterator source
type srcIter struct{ e *env }

func (s *srcIter) Next() (int, bool) {
	e := s.e
	e.mu.Lock()
	e.srcLog = append(e.srcLog, 'N')
	if e.srcInCall > 0 {
		e.viol("source-concurrent", "Next called on the source iterator concurrently", nil)
	}
	e.srcInCall++
	pos := e.srcPos
	gate := make(chan gateRes, 1)
	e.srcGate = gate
	e.mu.Unlock()
	var r gateRes
	if e.sc.Kind == "script" {
		r = <-gate
	} else {
		r = e.timedSrc(pos)
		if e.sc.SrcLat > 0 {
			time.Sleep(time.Duration(e.sc.SrcLat) * time.Millisecond)
		}
	}
	e.mu.Lock()
	defer e.mu.Unlock()
	e.srcInCall--
	e.srcGate = nil
	e.srcLog = append(e.srcLog, 'n')
	if r.end {
		e.srcEnded = true
		return 0, false
	}
	e.srcPos++
	e.items = append(e.items, r.v)
	e.noteTaken()
	return r.v, true
}

func (e *env) fEnter(x int) *fcall {
	e.mu.Lock()
	defer e.mu.Unlock()
	c := &fcall{idx: x - 1000, gate: make(chan gateRes, 1), after: e.closedRet}
	e.calls = append(e.calls, c)
	e.gauge++
	if e.gauge > e.maxGauge {
		e.maxGauge = e.gauge
	}
	return c
}

func (e *env) fBody(ctx context.Context, c *fcall) gateRes {
	if e.sc.Kind == "script" {
		return <-c.gate
	}
	if d := e.sc.latency(c.idx); d > 0 {
		time.Sleep(d)
	}
	if e.sc.FPauseS > 0 && c.idx == e.sc.FPauseAt && ctx != nil {
		// a call that takes very long and honours its context
		t := time.NewTimer(time.Duration(e.sc.FPauseS) * time.Second)
		select {
		case <-t.C:
		case <-ctx.Done():
			t.Stop()
			return gateRes{err: ctx.Err()}
		}
	}
	for _, k := range e.sc.FailF {
		if k == c.idx && e.sc.Variant == "stream" {
			return gateRes{err: &fErr{c.idx + 1}}
		}
	}
	return gateRes{v: 100 + c.idx}
}

func (e *env) fLeave(c *fcall, r gateRes) {
	e.mu.Lock()
	defer e.mu.Unlock()
	c.ended = true
	c.res = r
	e.gauge--
}

func (e *env) errName(err error) string {
	var se *srcErr
	var fe *fErr
	switch {
	case err == nil:
		return "nil"
	case err == stream.End:
		return "end"
	case err == errCons:
		return "cons"
	case errors.Is(err, errParent):
		return "parent"
	case errors.As(err, &se):
		return fmt.Sprintf("S%d", se.k)
	case errors.As(err, &fe):
		return fmt.Sprintf("F%d", fe.k)
	case errors.Is(err, context.DeadlineExceeded):
		return "deadline"
	case errors.Is(err, context.Canceled):
		return "canceled"
	}
	return "other"
}

func (e *env) outstandingF() []*fcall {
	var o []*fcall
	for _, c := range e.calls {
		if !c.ended {
			o = append(o, c)
		}
	}
	return o
}

// observe renders the quiescent observation in the model drivers' canonical form.
func (e *env) observe() string {
	e.mu.Lock()
	defer e.mu.Unlock()
	var run []int
	for _, c := range e.outstandingF() {
		run = append(run, c.idx)
	}
	sort.Ints(run)
	var rs, fs []string
	for _, i := range run {
		fs = append(fs, fmt.Sprint(i))
	}
	pos := 0
	for _, r := range e.results {
		if r.err == nil {
			rs = append(rs, fmt.Sprintf("%d:%d", pos, r.v))
			pos++
		} else {
			rs = append(rs, e.errName(r.err))
		}
	}
	if e.sc.Variant == "iter" {
		src := "-"
		if e.srcInCall > 0 {
			src = "N"
		}
		n := 0
		for _, b := range e.srcLog {
			if b == 'N' {
				n++
			}
		}
		return fmt.Sprintf("f=[%s] src=%s%d cons=%s res=[%s]", strings.Join(fs, ","), src, n, e.cons, strings.Join(rs, ","))
	}
	return fmt.Sprintf("f=[%s] src=%s cons=%s res=[%s]", strings.Join(fs, ","), string(e.srcLog), e.cons, strings.Join(rs, ","))
}

// quiescentMonitors: clauses evaluated at a quiescent point of a script scenario.
func (e *env) quiescentMonitors() {
	e.mu.Lock()
	defer e.mu.Unlock()
	gated := len(e.outstandingF()) > 0 || e.srcInCall > 0 || e.srcInClose > 0
	// "reports E itself - never silence": once a call of f or the source has failed, the source being
	// idle (blocked in Next until it has data or its context is done) no longer excuses a pending Next;
	// only calls of f that have not returned yet and a source Close in progress do.
	if failed := e.failedNow(); failed != "" && e.cons == "next" && len(e.outstandingF()) == 0 && e.srcInClose == 0 {
		src := "no call on the source is pending"
		if e.srcInCall > 0 {
			src = "the source is idle: blocked in Next until its context is done, which the library has not cancelled"
		}
		ctx := "live"
		if e.curCtx != nil && e.curCtx.Err() != nil {
			ctx = "expired"
		}
		what := fmt.Sprintf("%s, no call of f is outstanding, yet Next has not reported the error at quiescence (%s; the consumer's context is %s)", failed, src, ctx)
		e.viol("error-silent", what, map[string]interface{}{"ctx": ctx, "source_idle": e.srcInCall > 0})
		e.viol("c08-silence", what, map[string]interface{}{"ctx": ctx, "source_idle": e.srcInCall > 0})
	}
	if e.cons == "next" && !gated {
		if e.curCtx != nil && e.curCtx.Err() != nil {
			e.viol("deadlock", "Next has not returned although its context has expired and no call of f or of the source is pending", map[string]interface{}{"ctx": "expired"})
		} else {
			e.viol("deadlock", "Next has not returned at quiescence although no call of f or of the source is pending", map[string]interface{}{"ctx": "live"})
		}
	}
	if e.cons == "close" && !gated {
		e.viol("close-stuck", "Close has not returned at quiescence although no call of f or of the source is pending", nil)
		e.c09OwnerCloseStuck("the owner's Close has been called and has not returned at quiescence, no call of f or of the source is pending")
	}
}

// c09OwnerCloseStuck (mu held; called where `close-stuck` is judged, never elsewhere): C09 for an owner that was
// abandoned — "closes each stream it was given exactly once … whether iteration ended normally, ended with an
// error, or was abandoned early". The owner's Close has been called, nothing is pending any more and the
// source's Close has not even been called: nothing is left that would close it.
func (e *env) c09OwnerCloseStuck(when string) {
	if e.srcCloseBegun == 0 {
		e.viol("c09-close-count", when+", and the source's Close has not been called (begun 0, returned 0): the source is never closed",
			map[string]interface{}{"source_close_begun": 0, "source_close_returned": 0, "owner_close": "stuck"})
	}
}

// failedNow: "" or a description of the first failure that has happened so far (mu held).
func (e *env) failedNow() string {
	for _, c := range e.calls {
		if c.ended && c.res.err != nil {
			return fmt.Sprintf("f failed for item %d with %q", c.idx, c.res.err)
		}
	}
	if e.srcFailed != nil {
		return fmt.Sprintf("the source failed with %q", e.srcFailed)
	}
	return ""
}

// afterClose: evaluated by the consumer goroutine at the instant Close returns (no other goroutine
// of the bubble can run in between: the call below follows st.Close() without blocking).
func (e *env) afterClose() {
	// mu held
	now := time.Since(e.start)
	if e.gauge > 0 {
		e.viol("close-workers-running", fmt.Sprintf("Close returned while %d call(s) of f were still running", e.gauge), nil)
	}
	if e.srcInCall > 0 {
		e.viol("close-workers-running", "Close returned while a call on the source was still in progress", nil)
	}
	if e.srcClosed != 1 {
		state := "had not been called"
		if e.srcInClose > 0 {
			state = "was still in progress"
		} else if e.srcCloseBegun > 0 {
			state = fmt.Sprintf("had returned %d times (last at t=%v)", e.srcClosed, e.srcCloseDoneAt)
		}
		p := map[string]interface{}{"source_close_begun": e.srcCloseBegun, "source_close_returned": e.srcClosed}
		e.viol("close-source-not-closed", fmt.Sprintf("Close returned at t=%v while the source's Close %s (begun %d, returned %d)", now, state, e.srcCloseBegun, e.srcClosed), p)
		e.viol("c09-close-count", fmt.Sprintf("the source's Close %s when the owner's Close returned at t=%v (begun %d, returned %d; it must have returned exactly once by then)", state, now, e.srcCloseBegun, e.srcClosed), p)
	}
}

// finalMonitors: clauses about the whole run.
func (e *env) finalMonitors() {
	e.mu.Lock()
	defer e.mu.Unlock()
	sc := e.sc
	// value of f per item index; number of calls per index
	count := map[int]int{}
	fval := map[int]int{}
	minFail := -1
	var fErrs []error
	for _, c := range e.calls {
		count[c.idx]++
		if c.ended && c.res.err != nil {
			fErrs = append(fErrs, c.res.err)
			if minFail < 0 || c.idx < minFail {
				minFail = c.idx
			}
		} else if c.ended {
			fval[c.idx] = c.res.v
		}
		if c.after {
			e.viol("call-after-close", fmt.Sprintf("f began for item %d after Close had returned", c.idx), nil)
		}
	}
	failed := len(fErrs) > 0 || e.srcFailed != nil
	ctxFailedNext := 0
	pos := 0
	sawEnd := false
	for _, r := range e.results {
		switch {
		case r.err == nil:
			want, ok := fval[pos]
			if !ok || want != r.v || pos >= len(e.items) {
				e.viol("order", fmt.Sprintf("result %d is %d, but f of source item %d returned %v (known=%v)", pos, r.v, pos, want, ok), nil)
				e.viol("c08-wrong-output", fmt.Sprintf("result %d is %d, but f of source item %d returned %v", pos, r.v, pos, want), nil)
				if ctxFailedNext > 0 {
					e.viol("c08-ctx-cost", "after a Next that failed on its expired context the sequence did not continue where it left off", nil)
				}
			}
			if minFail >= 0 && pos >= minFail {
				e.viol("result-beyond-failure", fmt.Sprintf("result %d was yielded although f failed for item %d", pos, minFail), nil)
			}
			pos++
		case r.err == stream.End:
			sawEnd = true
			if failed {
				e.viol("error-lost", "Next returned the normal end although the source or a call of f had failed", nil)
				e.viol("c08-end-after-failure", "Next returned the normal end although the source or a call of f had failed", nil)
			} else if pos != len(e.items) {
				e.viol("exactly-once", fmt.Sprintf("the stream ended after %d results for %d source items", pos, len(e.items)), nil)
				e.viol("c08-item-lost", fmt.Sprintf("the stream ended after %d results for %d source items", pos, len(e.items)), nil)
			}
		case r.err == errCons && r.ctxDead:
			ctxFailedNext++
		default:
			ok := false
			for _, fe := range fErrs {
				if fe == r.err {
					ok = true
				}
			}
			if e.srcFailed != nil && e.srcFailed == r.err {
				ok = true
			}
			if e.parent != nil && e.parent.Err() != nil && r.err == e.parent.Err() {
				ok = true
			}
			if !ok {
				made := ""
				if errors.Is(r.err, context.DeadlineExceeded) || errors.Is(r.err, context.Canceled) {
					made = "; no context of the caller has a deadline or was cancelled with this error: the library made it itself"
					if e.slept > 0 {
						made += fmt.Sprintf(" (the scenario let %v of virtual time pass while the source was idle / f was running / the consumer was away)", e.slept)
					}
				}
				e.viol("error-provenance", fmt.Sprintf("Next returned %q (%s), which neither the source nor a call of f returned%s", r.err, e.errName(r.err), made), map[string]interface{}{"err": e.errName(r.err)})
				e.viol("c08-other-error", fmt.Sprintf("Next returned %q (%s) instead of the error that occurred", r.err, e.errName(r.err)), map[string]interface{}{"err": e.errName(r.err)})
			}
		}
	}
	if sc.Variant == "iter" && sawEnd && pos != len(e.items) {
		e.viol("exactly-once", fmt.Sprintf("the iterator ended after %d results for %d source items", pos, len(e.items)), nil)
	}
	if sawEnd && !failed {
		for i := 0; i < len(e.items); i++ {
			if count[i] != 1 {
				e.viol("f-once", fmt.Sprintf("f was called %d times for source item %d", count[i], i), nil)
				break
			}
		}
	}
	if e.maxGauge > e.reqPar {
		e.viol("parallelism-bound", fmt.Sprintf("%d calls of f ran at once, parallelism %d", e.maxGauge, e.reqPar), nil)
	}
}

// ---------------------------------------------------------------------------------------------
// the consumer goroutine

type cmd struct {
	op  string // next | close
	ctx *consCtx
}

func (e *env) consumer(cmds chan cmd, st stream.Stream[int], it iterator.Iterator[int], wg *sync.WaitGroup) {
	defer wg.Done()
	for c := range cmds {
		switch c.op {
		case "next":
			var v int
			var err error
			if st != nil {
				v, err = st.Next(c.ctx)
			} else {
				var ok bool
				v, ok = it.Next()
				if !ok {
					err = stream.End
				}
			}
			e.mu.Lock()
			if !e.rescued {
				e.results = append(e.results, nextRes{v: v, err: err, ctxDead: c.ctx != nil && c.ctx.Err() != nil})
				if err == nil {
					e.yielded++
				}
			}
			e.cons = "idle"
			e.curCtx = nil
			e.mu.Unlock()
			if e.notify != nil {
				e.notify <- struct{}{}
			}
		case "close":
			st.Close()
			e.mu.Lock()
			e.closedRet = true
			e.cons = "closed"
			e.afterClose()
			e.mu.Unlock()
			if e.notify != nil {
				e.notify <- struct{}{}
			}
		case "collect":
			// the reducer owns the stream: it reads to the end or to the first error and has closed the stream
			// (hence the source) by the time it returns
			vals, err := stream.Collect(context.Background(), st)
			e.mu.Lock()
			if e.rescued {
				e.cons = "closed"
				e.mu.Unlock()
				if e.notify != nil {
					e.notify <- struct{}{}
				}
				continue
			}
			for _, v := range vals {
				e.results = append(e.results, nextRes{v: v})
				e.yielded++
			}
			if err == nil {
				err = stream.End
			}
			e.results = append(e.results, nextRes{err: err})
			e.closedRet = true
			e.cons = "closed"
			e.afterClose()
			e.mu.Unlock()
			if e.notify != nil {
				e.notify <- struct{}{}
			}
		}
	}
}

// ---------------------------------------------------------------------------------------------
// running one scenario

// fatal is called inside the bubble when goroutines of the scenario are blocked for good. The caller
// returns from the bubble function right afterwards; synctest.Test then panics in the goroutine that
// called it ("deadlock: ... blocked goroutines remain"), runScenario recovers that, the blocked
// goroutines are abandoned and the harness goes on with the next scenario: everything recorded so far
// is kept and later scenarios still get their chance to show failures of other kinds. (Until fix3
// the process exited here, so a scenario that blocked masked every later one.)
func (e *env) fatal(sc *Scenario, out *Outcome, what string) {
	out.Fatal = what
	e.mu.Lock()
	e.abandon = true
	e.mu.Unlock()
}

type Outcome struct {
	Lines   []string
	Viols   []Viol
	Applied []Step
	Stats   map[string]int
	Fatal   string
}

func runScenario(t *testing.T, sc *Scenario, r *vlib.Rand, maxSteps int) *Outcome {
	out := &Outcome{Stats: map[string]int{}}
	if sc.P <= 0 && sc.Gmp > 0 {
		old := runtime.GOMAXPROCS(sc.Gmp)
		defer runtime.GOMAXPROCS(old)
	}
	gmp := runtime.GOMAXPROCS(-1)
	e := &env{sc: sc, cons: "idle"}
	e.reqPar = sc.P
	if sc.P <= 0 {
		e.reqPar = gmp
	}
	b := sc.B
	if b < 0 {
		b = 0 // a negative bufferSize is read as "no buffer"
	}
	e.bound = b + e.reqPar + 1
	stuckBubble, sv := vlib.Try(func() { e.bubble(t, sc, r, maxSteps, out, gmp) })
	if stuckBubble {
		if out.Fatal == "" {
			out.Fatal = fmt.Sprintf("the bubble could not be left: %v; last observation: %s", sv, e.observe())
		}
		e.finalMonitors()
	}
	out.Viols = append(out.Viols, e.viols...)
	out.Stats["items"] = len(e.items)
	out.Stats["calls"] = len(e.calls)
	out.Stats["maxGauge"] = e.maxGauge
	out.Stats["maxInFlight"] = e.maxInFlight
	out.Stats["results"] = len(e.results)
	for _, c := range e.calls {
		if c.res.err != nil {
			out.Stats["failedCalls"]++
		}
	}
	if e.srcFailed != nil {
		out.Stats["srcFailed"] = 1
	}
	for _, r := range e.results {
		if r.err == errCons {
			out.Stats["ctxFailedNext"]++
		}
	}
	return out
}

// bubble runs the scenario inside a synctest bubble. If e.fatal was called, goroutines stay blocked and
// synctest.Test panics in the caller (recovered by runScenario).
func (e *env) bubble(t *testing.T, sc *Scenario, r *vlib.Rand, maxSteps int, out *Outcome, gmp int) {
	synctest.Test(t, func(t *testing.T) {
		start := time.Now()
		e.start = start
		// the caller's context: cancelled by the script step "pcancel" / after parent_cancel ms (timed), never
		// by a deadline of its own
		parent := newParentCtx()
		defer parent.cancel()
		if sc.Kind == "timed" && sc.ParentCancel > 0 {
			tm := time.AfterFunc(time.Duration(sc.ParentCancel)*time.Millisecond, parent.cancel)
			defer tm.Stop()
		}
		e.parent = parent
		if sc.Dead && sc.Variant == "stream" {
			parent.cancel() // the caller's context is done before MapStream is called
		}
		var st stream.Stream[int]
		var it iterator.Iterator[int]
		if p, val := vlib.Try(func() {
			if sc.Variant == "stream" {
				st = parallel.MapStream[int, int](parent, &srcStream{e}, sc.P, sc.B, func(ctx context.Context, x int) (int, error) {
					c := e.fEnter(x)
					r := e.fBody(ctx, c)
					e.fLeave(c, r)
					return r.v, r.err
				})
			} else {
				it = parallel.MapIterator[int, int](&srcIter{e}, sc.P, sc.B, func(x int) int {
					c := e.fEnter(x)
					r := e.fBody(nil, c)
					e.fLeave(c, r)
					return r.v
				})
			}
		}); p {
			e.viol("panic", fmt.Sprintf("the constructor panicked: %v (parallelism %d, bufferSize %d)", val, sc.P, sc.B), map[string]interface{}{"b": sc.B, "p": sc.P})
			return
		}
		if sc.Kind == "timed" && sc.Owner == "map" && st != nil {
			st = stream.Map(st, func(ctx context.Context, x int) (int, error) { return x, nil })
		}
		if sc.Kind == "timed" && sc.Owner == "collect" {
			e.bound = 1 << 30 // the reducer holds what it has read: "yielded" is not observable per item
		}
		cmds := make(chan cmd)
		var wg sync.WaitGroup
		wg.Add(1)
		go e.consumer(cmds, st, it, &wg)
		defer func() {
			close(cmds)
			e.mu.Lock()
			ab := e.abandon
			e.mu.Unlock()
			if !ab {
				wg.Wait()
			}
		}()
		if sc.Kind == "timed" {
			e.notify = make(chan struct{}, 1)
			e.runTimed(sc, cmds, out, st)
			return
		}
		synctest.Wait()
		initLine := fmt.Sprintf("init %d %d %d", sc.P, sc.B, gmp)
		if sc.SlowClose && sc.Variant == "stream" {
			initLine += " slow" // the source's Close is an action of the environment, not an internal step
		}
		if sc.Dead && sc.Variant == "stream" {
			initLine += " dead" // the environment's parentCancel is the first label of the run
		}
		out.Lines = append(out.Lines, initLine, "obs "+e.observe())
		e.quiescentMonitors()
		apply := func(s Step) bool {
			e.mu.Lock()
			cons, gate, closed, cgate := e.cons, e.srcGate, e.closedRet, e.srcCloseGate
			var target *fcall
			for _, c := range e.calls {
				if !c.ended && c.idx == s.I {
					target = c
					break
				}
			}
			cur := e.curCtx
			e.mu.Unlock()
			switch s.Op {
			case "next", "nextx":
				if cons != "idle" || closed {
					return false
				}
				var ctx *consCtx
				if sc.Variant == "stream" {
					ctx = newConsCtx()
					if s.Op == "nextx" {
						ctx.expire()
					}
				} else if s.Op == "nextx" {
					return false
				}
				e.mu.Lock()
				e.cons = "next"
				e.curCtx = ctx
				e.mu.Unlock()
				cmds <- cmd{op: "next", ctx: ctx}
				if sc.Variant == "stream" {
					out.Lines = append(out.Lines, map[string]string{"next": "next 1", "nextx": "next 0"}[s.Op])
				} else {
					out.Lines = append(out.Lines, "next")
				}
			case "expire":
				if cons != "next" || cur == nil || cur.Err() != nil {
					return false
				}
				cur.expire()
				out.Lines = append(out.Lines, "expire")
			case "close":
				if cons != "idle" || closed || sc.Variant != "stream" {
					return false
				}
				e.mu.Lock()
				e.cons = "close"
				e.mu.Unlock()
				cmds <- cmd{op: "close"}
				out.Lines = append(out.Lines, "close")
			case "pcancel":
				if sc.Variant != "stream" || parent.Err() != nil {
					return false
				}
				parent.cancel()
				out.Lines = append(out.Lines, "pcancel")
			case "sleep":
				// virtual time passes with everything durably blocked; not an action of the LTS: the observation
				// that follows must be the one before
				if s.V <= 0 || s.V > 200000 {
					return false
				}
				time.Sleep(time.Duration(s.V) * time.Second)
				e.mu.Lock()
				e.slept += time.Duration(s.V) * time.Second
				e.nSleeps++
				e.mu.Unlock()
				out.Lines = append(out.Lines, "time")
			case "item":
				if gate == nil {
					return false
				}
				gate <- gateRes{v: s.V}
				out.Lines = append(out.Lines, fmt.Sprintf("src item %d", s.V))
			case "end":
				if gate == nil {
					return false
				}
				gate <- gateRes{end: true}
				out.Lines = append(out.Lines, "src end")
			case "serr":
				if gate == nil || sc.Variant != "stream" {
					return false
				}
				gate <- gateRes{err: &srcErr{s.V}}
				out.Lines = append(out.Lines, fmt.Sprintf("src err %d", s.V))
			case "sclose":
				if cgate == nil {
					return false
				}
				cgate <- struct{}{}
				out.Lines = append(out.Lines, "src closed")
			case "fok":
				if target == nil {
					return false
				}
				target.gate <- gateRes{v: s.V}
				out.Lines = append(out.Lines, fmt.Sprintf("f %d ok %d", s.I, s.V))
			case "ferr":
				if target == nil || sc.Variant != "stream" {
					return false
				}
				target.gate <- gateRes{err: &fErr{s.V}}
				out.Lines = append(out.Lines, fmt.Sprintf("f %d err %d", s.I, s.V))
			default:
				return false
			}
			return true
		}
		after := func(s Step) {
			synctest.Wait()
			out.Applied = append(out.Applied, s)
			out.Lines = append(out.Lines, "obs "+e.observe())
			e.quiescentMonitors()
		}
		for _, s := range sc.Steps {
			if apply(s) {
				after(s)
			}
		}
		for n := 0; r != nil && n < maxSteps; n++ {
			s, ok := e.choose(r)
			if !ok {
				break
			}
			if apply(s) {
				after(s)
			}
		}
		// wind down: stream: Close, then release whatever is still gated; iterator: drive to the end
		for n := 0; n < 400; n++ {
			e.mu.Lock()
			cons, gate, closed, cgate := e.cons, e.srcGate, e.closedRet, e.srcCloseGate
			o := e.outstandingF()
			nitems := len(e.items)
			last := error(nil)
			if len(e.results) > 0 {
				last = e.results[len(e.results)-1].err
			}
			cur := e.curCtx
			e.mu.Unlock()
			var s Step
			switch {
			case sc.Variant == "stream" && cons == "idle" && !closed:
				s = Step{Op: "close"}
			case cgate != nil:
				s = Step{Op: "sclose"}
			case sc.Variant == "stream" && cons == "next" && len(o) == 0 && gate == nil && cur != nil && cur.Err() == nil:
				s = Step{Op: "expire"} // a stuck Next (already reported): get it out of the way
			case len(o) > 0:
				s = Step{Op: "fok", I: o[0].idx, V: 100 + o[0].idx}
			case gate != nil && sc.Variant == "stream":
				s = Step{Op: "end"}
			case gate != nil:
				s = Step{Op: "end"}
			case sc.Variant == "iter" && cons == "idle" && last != stream.End:
				s = Step{Op: "next"}
			default:
				n = 1000
				continue
			}
			_ = nitems
			if apply(s) {
				after(s)
			} else {
				break
			}
		}
		e.mu.Lock()
		stuck := (sc.Variant == "stream" && !e.closedRet) || e.cons == "next" || e.gauge > 0 || e.srcInCall > 0 || e.srcInClose > 0
		e.mu.Unlock()
		e.finalMonitors()
		if stuck {
			e.fatal(sc, out, "the scenario could not be wound down (a call is blocked for good): "+e.observe())
		}
	})
}

// choose picks the next script action among those applicable now.
func (e *env) choose(r *vlib.Rand) (Step, bool) {
	e.mu.Lock()
	defer e.mu.Unlock()
	sc := e.sc
	type cand struct {
		s Step
		w int
	}
	var cs []cand
	o := e.outstandingF()
	if e.srcGate != nil {
		if len(e.items) < 6 {
			cs = append(cs, cand{Step{Op: "item", V: 1000 + len(e.items)}, 10})
		}
		cs = append(cs, cand{Step{Op: "end"}, 2})
		if sc.Variant == "stream" {
			cs = append(cs, cand{Step{Op: "serr", V: len(e.items) + 1}, 1})
		}
	}
	if e.srcCloseGate != nil {
		cs = append(cs, cand{Step{Op: "sclose"}, 6})
	}
	for i, c := range o {
		w := 3
		if i == len(o)-1 {
			w = 8 // late items first
		}
		cs = append(cs, cand{Step{Op: "fok", I: c.idx, V: 100 + c.idx}, w})
		if sc.Variant == "stream" {
			cs = append(cs, cand{Step{Op: "ferr", I: c.idx, V: c.idx + 1}, 1})
		}
	}
	if e.cons == "idle" && !e.closedRet {
		last := error(nil)
		if len(e.results) > 0 {
			last = e.results[len(e.results)-1].err
		}
		if !(sc.Variant == "iter" && last == stream.End) {
			cs = append(cs, cand{Step{Op: "next"}, 10})
		}
		if sc.Variant == "stream" {
			cs = append(cs, cand{Step{Op: "nextx"}, 1})
			cs = append(cs, cand{Step{Op: "close"}, 1})
		}
	}
	if e.cons == "next" && e.curCtx != nil && e.curCtx.Err() == nil {
		cs = append(cs, cand{Step{Op: "expire"}, 2})
	}
	if sc.Variant == "stream" && e.parent.Err() == nil && !e.closedRet {
		cs = append(cs, cand{Step{Op: "pcancel"}, 1})
	}
	if e.nSleeps < 2 && !e.closedRet {
		// time passes: a minute, an hour, a day - with whatever is pending now staying pending
		cs = append(cs, cand{Step{Op: "sleep", V: idleSeconds[r.Intn(len(idleSeconds))]}, 1})
	}
	if len(cs) == 0 {
		return Step{}, false
	}
	ws := make([]int, len(cs))
	for i, c := range cs {
		ws[i] = c.w
	}
	return cs[r.Pick(ws...)].s, true
}

// runTimed: the consumer loop of a timed scenario (runs in the bubble's main goroutine).
func (e *env) runTimed(sc *Scenario, cmds chan cmd, out *Outcome, st stream.Stream[int]) {
	e.mu.Lock()
	e.slept = sc.pauses()
	e.mu.Unlock()
	if sc.Variant == "stream" && sc.Owner == "collect" {
		e.mu.Lock()
		e.cons = "next"
		e.mu.Unlock()
		cmds <- cmd{op: "collect"}
		hour := time.NewTimer(sc.watchdog())
		select {
		case <-e.notify:
			hour.Stop()
		case <-hour.C:
			e.mu.Lock()
			e.viol("deadlock", "stream.Collect over the MapStream did not return within an hour of virtual time beyond the scenario's own pauses (every latency is a few milliseconds)", map[string]interface{}{"ctx": "live"})
			if failed := e.failedNow(); failed != "" && len(e.outstandingF()) == 0 && e.srcInClose == 0 {
				what := fmt.Sprintf("%s, no call of f is outstanding, yet the reducer has not returned the error within an hour of virtual time (source idle: %v)", failed, e.srcInCall > 0)
				e.viol("error-silent", what, map[string]interface{}{"ctx": "live", "source_idle": e.srcInCall > 0})
				e.viol("c08-silence", what, map[string]interface{}{"ctx": "live", "source_idle": e.srcInCall > 0})
			}
			e.rescued = true
			e.mu.Unlock()
			go st.Close()
			rescue := time.NewTimer(sc.watchdog())
			select {
			case <-e.notify:
				rescue.Stop()
			case <-rescue.C:
				e.fatal(sc, out, "stream.Collect blocked for good in a timed scenario")
				return
			}
		}
		time.Sleep(time.Duration(sc.LatMax*50+sc.SrcCloseLat+10) * time.Millisecond)
		synctest.Wait()
		e.finalMonitors()
		return
	}
	want := sc.CloseAfter - 1
	done := false
	for guard := 0; !done && guard < 4*sc.N+64; guard++ {
		e.mu.Lock()
		y := e.yielded
		e.mu.Unlock()
		if sc.CloseAfter > 0 && y >= want {
			break
		}
		if sc.ConsPauseS > 0 && guard == sc.ConsPauseAt {
			time.Sleep(time.Duration(sc.ConsPauseS) * time.Second) // the consumer is away for a long time
		}
		var ctx *consCtx
		var tm *time.Timer
		if sc.Variant == "stream" {
			ctx = newConsCtx()
			if sc.ConsTimeout > 0 && guard%2 == 0 {
				c := ctx
				tm = time.AfterFunc(time.Duration(sc.ConsTimeout)*time.Millisecond, c.expire)
			}
		}
		e.mu.Lock()
		e.cons = "next"
		e.curCtx = ctx
		nres := len(e.results)
		e.mu.Unlock()
		cmds <- cmd{op: "next", ctx: ctx}
		// every latency is a few ms of virtual time, so an hour without a result means that Next
		// is blocked for good
		hour := time.NewTimer(sc.watchdog())
		select {
		case <-e.notify:
			hour.Stop()
		case <-hour.C:
			e.mu.Lock()
			e.viol("deadlock", "Next did not return within an hour of virtual time beyond the scenario's own pauses (every latency is a few milliseconds)", map[string]interface{}{"ctx": "live"})
			if failed := e.failedNow(); failed != "" && len(e.outstandingF()) == 0 && e.srcInClose == 0 {
				what := fmt.Sprintf("%s, no call of f is outstanding, yet Next has not reported the error within an hour of virtual time (source idle: %v)", failed, e.srcInCall > 0)
				e.viol("error-silent", what, map[string]interface{}{"ctx": "live", "source_idle": e.srcInCall > 0})
				e.viol("c08-silence", what, map[string]interface{}{"ctx": "live", "source_idle": e.srcInCall > 0})
			}
			e.mu.Unlock()
			// The violation is recorded. Try to get the stuck Next out of the way by closing the stream from
			// here (outside the stream protocol, only to leave the bubble); if that does not help either,
			// the goroutines are blocked for good.
			if st != nil {
				e.mu.Lock()
				e.rescued = true
				e.mu.Unlock()
				go st.Close()
				rescue := time.NewTimer(sc.watchdog())
				select {
				case <-e.notify:
					rescue.Stop()
					time.Sleep(time.Duration(sc.LatMax*50+sc.SrcCloseLat+10) * time.Millisecond)
					synctest.Wait()
					e.finalMonitors()
					return
				case <-rescue.C:
				}
			}
			e.fatal(sc, out, "Next blocked for good in a timed scenario")
			return
		}
		if tm != nil {
			tm.Stop()
		}
		e.mu.Lock()
		last := e.results[len(e.results)-1]
		e.mu.Unlock()
		_ = nres
		if last.err != nil && !(last.err == errCons && last.ctxDead) {
			done = true
		}
		if sc.ConsPace > 0 {
			time.Sleep(time.Duration(sc.ConsPace) * time.Millisecond)
		}
	}
	if sc.Variant == "stream" {
		e.mu.Lock()
		e.cons = "close"
		e.mu.Unlock()
		cmds <- cmd{op: "close"}
		hour := time.NewTimer(sc.watchdog())
		select {
		case <-e.notify:
			hour.Stop()
		case <-hour.C:
			e.mu.Lock()
			e.viol("close-stuck", "Close did not return within an hour of virtual time", nil)
			e.c09OwnerCloseStuck("the owner's Close was called and has not returned within an hour of virtual time (every latency is a few milliseconds)")
			e.mu.Unlock()
			e.fatal(sc, out, "Close blocked for good in a timed scenario")
			return
		}
		// a call of f starting after Close returned would show up now
		time.Sleep(time.Duration(sc.LatMax*50+sc.SrcCloseLat+10) * time.Millisecond)
	}
	synctest.Wait()
	e.finalMonitors()
}

// ---------------------------------------------------------------------------------------------
// generators

func genScript(r *vlib.Rand) *Scenario {
	sc := &Scenario{Kind: "script"}
	sc.Variant = []string{"stream", "stream", "stream", "iter"}[r.Intn(4)]
	sc.P = []int{-1, 0, 1, 1, 2, 2, 3}[r.Intn(7)]
	sc.B = []int{-1, 0, 1, 1, 2, 3, 5}[r.Intn(7)]
	if sc.P <= 0 {
		sc.Gmp = r.Range(1, 3)
	}
	if sc.Variant == "stream" && r.Chance(1, 3) {
		sc.SlowClose = true
	}
	if sc.Variant == "stream" && r.Chance(1, 10) {
		sc.Dead = true
	}
	return sc
}

// directedDead: MapStream is handed a context that is already done (the boundary "cancelled before the first
// step" of "every timing"): nothing else, Next with a live / an expired context, Close at once, the source's
// Close slow and released before / after the consumer's calls; then the usual wind-down (Close, release what is
// gated). Timed: the consumer reads, closes after 0 / 1 results, through a forwarding wrapper, a reducer owns it.
// The clauses are the ones every other scenario is judged by (the source closed exactly once by the time Close
// returns, never Next after Close, results correct, the error the caller's own).
func directedDead() []Scenario {
	var out []Scenario
	scripts := [][]Step{
		{},
		{{Op: "close"}},
		{{Op: "next"}},
		{{Op: "nextx"}, {Op: "next"}},
		{{Op: "next"}, {Op: "next"}, {Op: "close"}},
		{{Op: "sclose"}, {Op: "next"}},
		{{Op: "next"}, {Op: "sclose"}, {Op: "next"}},
		{{Op: "close"}, {Op: "sclose"}},
		{{Op: "sleep", V: 61}, {Op: "next"}},
	}
	for _, pb := range [][3]int{{1, 0, 0}, {1, 2, 0}, {2, 0, 0}, {3, 5, 0}, {0, 1, 2}, {-1, -1, 1}} {
		for _, slow := range []bool{false, true} {
			for _, st := range scripts {
				out = append(out, Scenario{Kind: "script", Variant: "stream", P: pb[0], B: pb[1], Gmp: pb[2], SlowClose: slow, Dead: true,
					Steps: append([]Step{}, st...)})
			}
		}
	}
	for _, p := range []int{1, 3} {
		base := Scenario{Kind: "timed", Variant: "stream", P: p, B: 1, N: 4, LatMode: 1, LatMax: 5, Dead: true}
		out = append(out, base)
		for _, ca := range []int{1, 2} {
			sc := base
			sc.CloseAfter = ca
			out = append(out, sc)
			sc.SrcCloseLat = 3
			out = append(out, sc)
			sc.SrcIdle = true
			out = append(out, sc)
			sc.Owner = "map"
			out = append(out, sc)
		}
		sc := base
		sc.Owner, sc.SrcCloseLat = "collect", 3
		out = append(out, sc)
		sc.SrcIdle = true
		out = append(out, sc)
		sc = base
		sc.N = 0
		out = append(out, sc)
	}
	return out
}

// directedFull: the work buffer completely full, then the owner is abandoned. With E = max(parallelism,
// bufferSize): E items have been handed to f and their results wait unread (one call of f may still be running),
// the source has delivered one more item, which the reader holds while it waits for a free slot; everything is
// quiescent. Then Close (at once / after reading 1 result and refilling / with a Next that expired first), or a
// call of f fails and the consumer calls Next. Clauses: the usual ones (close-stuck, c09-close-count, deadlock, ...).
func directedFull() []Scenario {
	var out []Scenario
	for _, pb := range [][2]int{{1, 0}, {1, 2}, {2, 0}, {2, 3}, {3, 5}, {4, 1}} {
		p, b := pb[0], pb[1]
		e := p
		if b > e {
			e = b
		}
		fill := func(upto int, lastRunning bool) []Step {
			var st []Step
			for i := 0; i < upto; i++ {
				st = append(st, Step{Op: "item", V: 1000 + i})
				if !(lastRunning && i == upto-1) {
					st = append(st, Step{Op: "fok", I: i, V: 100 + i})
				}
			}
			return append(st, Step{Op: "item", V: 1000 + upto})
		}
		for _, slow := range []bool{false, true} {
			mk := func(steps []Step) {
				out = append(out, Scenario{Kind: "script", Variant: "stream", P: p, B: b, SlowClose: slow, Steps: steps})
			}
			mk(append(fill(e, false), Step{Op: "close"}))
			mk(append(fill(e, true), Step{Op: "close"}))
			mk(append(fill(e, false), Step{Op: "next"}, Step{Op: "fok", I: e, V: 100 + e}, Step{Op: "item", V: 1001 + e}, Step{Op: "close"}))
			mk(append(fill(e, false), Step{Op: "sleep", V: 61}, Step{Op: "close"}))
			mk(append(fill(e, true), Step{Op: "ferr", I: e - 1, V: e}, Step{Op: "next"}))
			mk(append(fill(e, true), Step{Op: "next"}, Step{Op: "ferr", I: e - 1, V: e}))
		}
	}
	return out
}

// directed: script scenarios for two situations that random scripts reach only by luck.
//
//	(a) a call of f fails while the source is idle (gated in Next, nothing more to release, returns only
//	    when its context is done): with a Next pending before the failure, with the Next issued after it,
//	    and with a second call of f still running at the time of the failure;
//	(b) Close while the source's Close is slow (gated): after 0..2 results, with and without a call of f
//	    in progress, the source's Close released before / after that call.
func directed() []Scenario {
	var out []Scenario
	for _, p := range []int{1, 2, 3} {
		for _, b := range []int{0, 2} {
			for k := 0; k <= 2; k++ {
				for mode := 0; mode < 3; mode++ {
					if mode == 2 && p == 1 {
						continue
					}
					sc := Scenario{Kind: "script", Variant: "stream", P: p, B: b, SlowClose: b == 2 && mode == 0}
					var st []Step
					for i := 0; i < k; i++ {
						st = append(st, Step{Op: "item", V: 1000 + i}, Step{Op: "fok", I: i, V: 100 + i}, Step{Op: "next"})
					}
					st = append(st, Step{Op: "item", V: 1000 + k})
					switch mode {
					case 0:
						st = append(st, Step{Op: "next"}, Step{Op: "ferr", I: k, V: k + 1})
					case 1:
						st = append(st, Step{Op: "ferr", I: k, V: k + 1}, Step{Op: "next"})
					case 2:
						st = append(st, Step{Op: "item", V: 1001 + k}, Step{Op: "next"}, Step{Op: "ferr", I: k, V: k + 1},
							Step{Op: "fok", I: k + 1, V: 101 + k})
					}
					sc.Steps = st
					out = append(out, sc)
				}
			}
		}
	}
	for _, p := range []int{1, 2} {
		for _, b := range []int{0, 3} {
			for j := 0; j <= 2; j++ {
				for mode := 0; mode < 3; mode++ {
					sc := Scenario{Kind: "script", Variant: "stream", P: p, B: b, SlowClose: true}
					var st []Step
					for i := 0; i < j; i++ {
						st = append(st, Step{Op: "item", V: 1000 + i}, Step{Op: "fok", I: i, V: 100 + i}, Step{Op: "next"})
					}
					switch mode {
					case 0: // the source is in Next, nothing of f running
						st = append(st, Step{Op: "close"}, Step{Op: "sclose"})
					case 1: // a call of f in progress, it returns before the source's Close does
						st = append(st, Step{Op: "item", V: 1000 + j}, Step{Op: "close"}, Step{Op: "fok", I: j, V: 100 + j}, Step{Op: "sclose"})
					case 2: // ... after the source's Close
						st = append(st, Step{Op: "item", V: 1000 + j}, Step{Op: "close"}, Step{Op: "sclose"}, Step{Op: "fok", I: j, V: 100 + j})
					}
					sc.Steps = st
					out = append(out, sc)
				}
			}
		}
	}
	return out
}

// directedWide: more items than fit into 16 bits (audit C14 F1: the index that travels with every item through
// `in`, `c` and the heap is a plain int in the code and is hard-wired in the model; a narrowing of it - `idx:
// int(int16(item.idx))` - is invisible to the facts, seen by the pin only, and shows up as a stall / a disorder
// after 32768 results). One run per variant with 70000 items, no latencies: all results, in order, no error.
func directedWide() []Scenario {
	var out []Scenario
	for _, v := range []string{"stream", "iter"} {
		out = append(out, Scenario{Kind: "timed", Variant: v, P: 4, B: 8, N: 70000})
	}
	return out
}

// idleSeconds: how long things stay idle - just under / over a minute, an hour, more than a day.
var idleSeconds = []int{59, 61, 3600, 90000}

// directedIdle: virtual time passes (59 s, 61 s, 1 h, 25 h) while (a) the source is idle - blocked in Next,
// honouring its context - with a Next of the consumer pending, (b) a call of f is running, (c) the consumer
// is away with results waiting; then the scenario continues. Results must be complete, in order, without
// any error (script: also trace conformance; timed: f honours its context, the source honours its context).
func directedIdle() []Scenario {
	var out []Scenario
	for _, d := range idleSeconds {
		for _, pb := range [][2]int{{1, 1}, {2, 0}} {
			p, b := pb[0], pb[1]
			mk := func(steps ...Step) {
				out = append(out, Scenario{Kind: "script", Variant: "stream", P: p, B: b, Steps: steps})
			}
			// (a) the source idle, a Next pending; it delivers; idle again; it ends
			mk(Step{Op: "next"}, Step{Op: "sleep", V: d}, Step{Op: "item", V: 1000}, Step{Op: "fok", I: 0, V: 100},
				Step{Op: "next"}, Step{Op: "sleep", V: d}, Step{Op: "end"})
			// (b) a call of f running (the source idle as well), Next pending
			mk(Step{Op: "item", V: 1000}, Step{Op: "next"}, Step{Op: "sleep", V: d}, Step{Op: "fok", I: 0, V: 100},
				Step{Op: "next"}, Step{Op: "end"})
			// (c) the consumer away while a result waits; then again with the next one
			mk(Step{Op: "item", V: 1000}, Step{Op: "fok", I: 0, V: 100}, Step{Op: "sleep", V: d}, Step{Op: "next"},
				Step{Op: "item", V: 1001}, Step{Op: "fok", I: 1, V: 101}, Step{Op: "sleep", V: d}, Step{Op: "next"},
				Step{Op: "end"}, Step{Op: "next"})
		}
		// the iterator has no context; time passing must not matter either
		out = append(out, Scenario{Kind: "script", Variant: "iter", P: 1, B: 1, Steps: []Step{{Op: "item", V: 1000}, {Op: "next"},
			{Op: "sleep", V: d}, {Op: "fok", I: 0, V: 100}, {Op: "item", V: 1001}, {Op: "sleep", V: d}, {Op: "fok", I: 1, V: 101}, {Op: "next"}, {Op: "end"}, {Op: "next"}}})
		base := Scenario{Kind: "timed", Variant: "stream", P: 2, B: 1, N: 4, LatMode: 1, LatMax: 5}
		sc := base
		sc.SrcPauseAt, sc.SrcPauseS = 2, d
		out = append(out, sc)
		sc = base
		sc.FPauseAt, sc.FPauseS = 1, d
		out = append(out, sc)
		sc = base
		sc.ConsPauseAt, sc.ConsPauseS = 2, d
		out = append(out, sc)
		sc = base // all three, the reducer owns the stream
		sc.SrcPauseAt, sc.SrcPauseS, sc.FPauseAt, sc.FPauseS, sc.Owner = 3, d, 0, d, "collect"
		out = append(out, sc)
	}
	return out
}

func genTimed(r *vlib.Rand, big bool) *Scenario {
	sc := &Scenario{Kind: "timed"}
	sc.Variant = []string{"stream", "stream", "iter"}[r.Intn(3)]
	sc.P = []int{-2, 0, 1, 2, 3, 4, 8, 16, 64}[r.Intn(9)]
	if sc.P <= 0 {
		sc.Gmp = r.Range(1, 6)
	}
	sc.B = []int{-3, 0, 1, 2, 3, 8, 20, 100}[r.Intn(8)]
	sc.N = []int{0, 1, 2, 5, 17, 60, 200}[r.Intn(7)]
	if big && r.Chance(1, 5) {
		sc.N = r.Range(1000, 10000)
	}
	sc.LatMode = r.Intn(4)
	sc.LatSeed = r.Uint64() >> 8
	sc.LatMax = []int{0, 1, 5, 20}[r.Intn(4)]
	sc.SrcLat = []int{0, 0, 1, 3}[r.Intn(4)]
	sc.ConsPace = []int{0, 0, 1, 10}[r.Intn(4)]
	if sc.Variant == "stream" {
		sc.ConsTimeout = []int{0, 0, 1, 4}[r.Intn(4)]
		if sc.N > 0 {
			switch r.Intn(6) {
			case 0:
				sc.SrcErrAt = r.Intn(sc.N+1) + 1
			case 1:
				sc.FailF = []int{r.Intn(sc.N)}
			case 2:
				for i := 0; i < sc.N && len(sc.FailF) < 50; i++ {
					if r.Chance(1, 5) {
						sc.FailF = append(sc.FailF, i)
					}
				}
			}
			if r.Chance(1, 4) {
				sc.CloseAfter = r.Intn(sc.N+1) + 1
			}
			if r.Chance(1, 10) {
				sc.ParentCancel = 1 + r.Intn(sc.LatMax*4+3)
			}
			// an idle source after its items: only where the run ends without the source's help (a failure,
			// an early Close, the parent's deadline)
			if (len(sc.FailF) > 0 || sc.SrcErrAt > 0 || sc.CloseAfter > 0 || sc.ParentCancel > 0) && r.Chance(1, 3) {
				sc.SrcIdle = true
			}
		}
		if r.Chance(1, 2) {
			sc.SrcCloseLat = []int{1, 3, 20}[r.Intn(3)]
		}
		if r.Chance(1, 12) {
			sc.Dead = true // the caller's context is done before MapStream is called
		}
		if sc.N > 0 && r.Chance(1, 6) {
			// time passes: the source idle / a call of f very slow / the consumer away, for a minute .. a day
			d := idleSeconds[r.Intn(len(idleSeconds))]
			switch r.Intn(3) {
			case 0:
				sc.SrcPauseAt, sc.SrcPauseS = r.Intn(sc.N+1), d
			case 1:
				sc.FPauseAt, sc.FPauseS = r.Intn(sc.N), d
			default:
				sc.ConsPauseAt, sc.ConsPauseS = r.Intn(sc.N+1), d
			}
			sc.ConsTimeout = 0 // (a consumer retrying every few ms for a day would only burn the step budget)
		}
		switch r.Intn(8) {
		case 0:
			sc.Owner = "map"
		case 1:
			if !sc.SrcIdle || len(sc.FailF) > 0 || sc.SrcErrAt > 0 || sc.ParentCancel > 0 {
				sc.Owner = "collect" // (an idle source without a failure would keep the reducer waiting for ever)
				sc.CloseAfter, sc.ConsTimeout, sc.ConsPace = 0, 0, 0
			}
		}
	}
	return sc
}

// ---------------------------------------------------------------------------------------------
// checking

func nontrivial(sc *Scenario, o *Outcome) bool {
	return o.Stats["items"] >= 2 && (o.Stats["maxGauge"] >= 2 || o.Stats["maxInFlight"] >= 2) ||
		o.Stats["failedCalls"] > 0 || o.Stats["srcFailed"] > 0 || o.Stats["ctxFailedNext"] > 0
}

func conform(m *vlib.Model, lines []string) (int, string, error) {
	outs, err := m.Run(lines)
	if err != nil {
		return -1, "", err
	}
	for i, o := range outs {
		if !strings.HasPrefix(o, "ok ") {
			return i, o, nil
		}
	}
	return -1, "", nil
}

type models struct{ stream, iter *vlib.Model }

func (ms models) of(sc *Scenario) *vlib.Model {
	if sc.Variant == "iter" {
		return ms.iter
	}
	return ms.stream
}

// Bookkeeping against masking. The harness serves C14 and, through the prefix filters of
// checks/C08.json / C09.json, the `c08-` / `c09-` clauses: every kind is recorded (and shrunk) on its
// own, at most kindCap times with different parameters, so that a flood of one kind cannot fill the
// result's failure list (vlib keeps 50) before a kind of another prefix class shows up; a scenario that
// blocks for good no longer ends the run (see env.fatal) until maxFatal of them have been abandoned.
const (
	kindCap  = 2
	maxFatal = 40
)

var (
	kindSeen = map[string]int{}
	nFatal   int
)

func check(t *testing.T, sc *Scenario, r *vlib.Rand, ms models, res *vlib.Result, env vlib.Env) *Outcome {
	var fork *vlib.Rand
	if r != nil {
		fork = r.Fork()
	}
	o := runScenario(t, sc, fork, 60)
	if sc.Kind == "script" {
		sc.Steps = o.Applied
	}
	if o.Fatal != "" {
		nFatal++
		res.Count("scenarios-blocked-for-good")
		if kindSeen["blocked-for-good"] < kindCap {
			kindSeen["blocked-for-good"]++
			res.Fail(vlib.Failure{Source: "monitor", Kind: "blocked-for-good", Params: map[string]interface{}{"variant": sc.Variant, "kind": sc.Kind}, What: o.Fatal, Case: sc})
		}
	}
	for _, v := range o.Viols {
		if kindSeen[v.Kind] >= kindCap {
			continue
		}
		kindSeen[v.Kind]++
		small := sc
		if sc.Kind == "script" && len(sc.Steps) > 1 && o.Fatal == "" {
			steps := vlib.Shrink(sc.Steps, func(c []Step) bool {
				s2 := *sc
				s2.Steps = c
				o2 := runScenario(t, &s2, nil, 0)
				if o2.Fatal != "" {
					return false
				}
				for _, v2 := range o2.Viols {
					if v2.Kind == v.Kind {
						return true
					}
				}
				return false
			})
			s2 := *sc
			s2.Steps = steps
			small = &s2
		}
		res.Fail(vlib.Failure{Source: "monitor", Kind: v.Kind, Params: v.Params, What: v.What, Case: small})
	}
	if m := ms.of(sc); m != nil && sc.Kind == "script" && len(o.Lines) > 0 {
		i, got, err := conform(m, o.Lines)
		if err != nil {
			res.ModelMissing = err.Error()
		} else {
			res.Traces++
			if i >= 0 {
				act := ""
				if i > 0 {
					act = o.Lines[i-1]
				}
				res.Fail(vlib.Failure{Source: "correspondence", Kind: "parmap-trace-not-in-model",
					What: fmt.Sprintf("%s: after action %q the implementation shows %q; model: %s", sc.Variant, act, o.Lines[i], got), Case: sc})
			}
		}
	}
	return o
}

func TestVerif(t *testing.T) {
	env := vlib.GetEnv()
	res := vlib.NewResult("C14", "script scenarios (gated source and gated calls of f released one at a time, late items first; consumer Next with live/expired/expiring "+
		"contexts, Close at any quiescent point, parent cancellation, source/f errors; parallelism in {-1,0,1,2,3}, bufferSize in {-1,0,1,2,3,5}, <= 6 items) checked "+
		"against the Lean LTS and the monitors, plus timed scenarios (virtual latencies with late items finishing first, slow/fast consumers, per-Next timeouts, up to 10^4 items, "+
		"parallelism up to 64) checked by the monitors; non-trivial = at least two items with two calls of f overlapping or two items in flight, or a failed call/source, or a Next that "+
		"failed on its context; distinct = different scenario record")
	var ms models
	var err error
	if ms.stream, err = vlib.StartModel(env.Driver, "parstream"); err != nil {
		res.ModelMissing = err.Error()
		ms.stream = nil
	}
	if ms.iter, err = vlib.StartModel(env.Driver, "pariter"); err != nil {
		res.ModelMissing = err.Error()
		ms.iter = nil
	}
	defer ms.stream.Close()
	defer ms.iter.Close()

	if env.Replay != "" {
		var sc Scenario
		if err := vlib.ReplayCase(env.Replay, &sc); err != nil {
			fmt.Println("cannot read replay:", err)
			os.Exit(2)
		}
		if sc.Kind == "stress" {
			replayStress(&sc)
			return
		}
		o := runScenario(t, &sc, nil, 0)
		fmt.Printf("replay of %s\n", sc.key())
		for _, l := range o.Lines {
			fmt.Println("  ", l)
		}
		for _, v := range o.Viols {
			fmt.Printf("monitor: %s: %s\n", v.Kind, v.What)
		}
		if o.Fatal != "" {
			fmt.Println("fatal:", o.Fatal)
		}
		if m := ms.of(&sc); m != nil && len(o.Lines) > 0 {
			if i, got, err := conform(m, o.Lines); err == nil && i >= 0 {
				fmt.Printf("correspondence: line %d %q: %s\n", i, o.Lines[i], got)
			} else if err == nil {
				fmt.Println("correspondence: the observed trace is a trace of the model")
			}
		}
		if len(o.Viols) > 0 || o.Fatal != "" {
			os.Exit(1)
		}
		return
	}

	defer res.Write(env.Out) // also when the run is cut short below
	// real threads first: MapIterator's check-then-park window (see stress_test.go). Its findings are written
	// out at once, and again after every phase below: a crash of the library inside a bubble ("fatal error:
	// sync: unlock of unlocked mutex" cannot be recovered) must not take what was already found with it.
	stressMapIter(t, res, env)
	res.Write(env.Out)
	for _, f := range vlib.CorpusFiles(env.Corpus, ".json") {
		b, err := os.ReadFile(f)
		if err != nil {
			continue
		}
		var sc Scenario
		if json.Unmarshal(b, &sc) != nil {
			t.Fatalf("bad corpus file %s", f)
		}
		if sc.Kind == "stress" {
			continue // real-threads configurations are not bubble scenarios
		}
		if nFatal >= maxFatal {
			break
		}
		res.Count("corpus")
		o := check(t, &sc, nil, ms, res, env)
		res.Case(sc.key(), nontrivial(&sc, o), nil)
	}
	// directed pass (deterministic, every run): the work buffer completely full, then Close / a failing f
	full := directedFull()
	for i := range full {
		if nFatal >= maxFatal {
			break
		}
		res.Count("directed-buffer-full")
		o := check(t, &full[i], nil, ms, res, env)
		res.Case(full[i].key(), nontrivial(&full[i], o), nil)
	}
	// sweep: every error position in the source and in f, Close after 0..len results, for small
	// parallelism / bufferSize combinations and two latency patterns (timed scenarios, 4 items)
	for _, p := range []int{1, 2, 3} {
		for _, b := range []int{0, 1, 3} {
			for _, lm := range []int{0, 1} {
				base := Scenario{Kind: "timed", Variant: "stream", P: p, B: b, N: 4, LatMode: lm, LatSeed: env.Seed, LatMax: 5, ConsTimeout: 2}
				var list []Scenario
				for pos := 1; pos <= 5; pos++ {
					sc := base
					sc.SrcErrAt = pos
					list = append(list, sc)
				}
				for k := 0; k < 4; k++ {
					sc := base
					sc.FailF = []int{k}
					list = append(list, sc)
				}
				for c := 1; c <= 5; c++ {
					sc := base
					sc.CloseAfter = c
					list = append(list, sc)
					sc.SrcCloseLat = 3 // the source's Close takes virtual time
					list = append(list, sc)
					sc.SrcIdle = true
					list = append(list, sc)
					sc.Owner = "map" // Close through a wrapper that forwards it
					list = append(list, sc)
				}
				for _, own := range []string{"collect"} { // a reducer owns the stream: fault-free, failing source, failing f
					sc := base
					sc.Owner, sc.ConsTimeout, sc.SrcCloseLat = own, 0, 3
					list = append(list, sc)
					sc.SrcErrAt = 3
					list = append(list, sc)
					sc.SrcErrAt, sc.FailF, sc.SrcIdle = 0, []int{2}, true
					list = append(list, sc)
				}
				for k := 0; k < 4; k++ { // f fails for item k while the source has nothing more to yield
					sc := base
					sc.FailF = []int{k}
					sc.SrcIdle = true
					sc.N = k + 1
					sc.SrcCloseLat = 2
					list = append(list, sc)
					sc.ConsTimeout = 0
					list = append(list, sc)
				}
				it := base
				it.Variant = "iter"
				it.ConsTimeout = 0
				list = append(list, it)
				for i := range list {
					if nFatal >= maxFatal {
						break
					}
					res.Count("sweep")
					o := check(t, &list[i], nil, ms, res, env)
					res.Case(list[i].key(), nontrivial(&list[i], o), nil)
				}
			}
		}
	}
	res.Write(env.Out)
	dir := directed()
	for i := range dir {
		if nFatal >= maxFatal {
			break
		}
		res.Count("directed")
		o := check(t, &dir[i], nil, ms, res, env)
		res.Case(dir[i].key(), nontrivial(&dir[i], o), nil)
	}
	wide := directedWide()
	for i := range wide {
		if nFatal >= maxFatal {
			break
		}
		t0 := time.Now()
		res.Count("directed-wide")
		o := check(t, &wide[i], nil, ms, res, env)
		res.Case(wide[i].key(), nontrivial(&wide[i], o), nil)
		res.CountN("directed-wide-ms", int(time.Since(t0).Milliseconds()))
	}
	dead := directedDead()
	for i := range dead {
		if nFatal >= maxFatal {
			break
		}
		res.Count("directed-dead-context")
		o := check(t, &dead[i], nil, ms, res, env)
		res.Case(dead[i].key(), nontrivial(&dead[i], o), nil)
	}
	idle := directedIdle()
	for i := range idle {
		if nFatal >= maxFatal {
			break
		}
		res.Count("directed-idle")
		o := check(t, &idle[i], nil, ms, res, env)
		res.Case(idle[i].key(), nontrivial(&idle[i], o) || o.Stats["results"] >= 2, nil)
	}
	res.Write(env.Out)
	r := vlib.NewRand(env.Seed)
	deadline := env.Deadline()
	big := env.Thorough() || env.Deep
	maxCases := 12000
	if big {
		maxCases = 300000
	}
	for i := 0; i < maxCases && time.Now().Before(deadline) && nFatal < maxFatal; i++ {
		var sc *Scenario
		var rr *vlib.Rand
		if i%3 != 2 {
			sc = genScript(r.Fork())
			rr = r.Fork()
			res.Count("script-" + sc.Variant)
		} else {
			sc = genTimed(r.Fork(), big)
			res.Count("timed-" + sc.Variant)
			if sc.N >= 1000 {
				res.Count("timed-n>=1000")
			}
		}
		o := check(t, sc, rr, ms, res, env)
		res.CountN("source-items", o.Stats["items"])
		res.CountN("calls-of-f", o.Stats["calls"])
		if o.Stats["failedCalls"] > 0 {
			res.Count("cases-with-failed-f")
		}
		if o.Stats["srcFailed"] > 0 {
			res.Count("cases-with-failed-source")
		}
		if o.Stats["ctxFailedNext"] > 0 {
			res.Count("cases-with-Next-failed-on-ctx")
		}
		if o.Stats["maxGauge"] >= 2 {
			res.Count("cases-with-overlapping-f")
		}
		if o.Stats["maxInFlight"] > 0 && o.Stats["maxInFlight"] >= max(sc.B, 1) {
			res.Count("cases-reaching-buffer-limit")
		}
		if sc.B <= 0 {
			res.Count("bufferSize<=0")
		}
		if sc.P <= 0 {
			res.Count("parallelism<=0")
		}
		if sc.B < sc.P {
			res.Count("bufferSize<parallelism")
		}
		if sc.SlowClose || sc.SrcCloseLat > 0 {
			res.Count("source-Close-not-instantaneous")
		}
		if sc.SrcIdle {
			res.Count("timed-idle-source")
		}
		if sc.Dead {
			res.Count("context-done-before-MapStream")
		}
		if sc.pauses() > 0 {
			res.Count("timed-with-long-pause")
		}
		for _, st := range sc.Steps {
			if st.Op == "sleep" {
				res.Count("script-with-sleep")
				break
			}
		}
		if sc.Owner != "" {
			res.Count("owner-" + sc.Owner)
		}
		var sample interface{}
		if len(o.Lines) > 0 && len(o.Lines) < 16 {
			sample = map[string]interface{}{"scenario": sc, "trace": o.Lines}
		}
		res.Case(sc.key(), nontrivial(sc, o), sample)
	}
}
