//go:build !race

package c14

const raceEnabled = false
